"""C16 - trace hand-off delivers each call's trace exactly once to the right waiter.
spec: TraceHandoff.tla (slots), Builder.tla/BuilderDecl.tla (finish-once builder),
      Gen_TraceHandoff / Gen_Builder (behaviours), Trace_Builder (acceptor of concurrent runs)."""
import json
import os
import vf


def _mismatches(ctx, path, kind):
    res = vf.read_ndjson(path)
    summ = [r for r in res if r.get("summary")]
    if not summ:
        raise vf.Machinery("%s harness wrote no summary" % kind)
    for r in res:
        if r.get("summary"):
            continue
        if r.get("harness_error"):
            raise vf.Machinery("harness error: %s" % r)
        if r.get("repro", 0) < 3:
            if r.get("hang"):
                # exit 2 at the end, unless reproduced violations explain it
                ctx.notes.setdefault("unreproduced_hangs", []).append("%s replay: %s" % (kind, r.get("what")))
                continue
            ctx.notes["unreproduced"] = ctx.notes.get("unreproduced", 0) + 1
            continue
        key = dict(kind=kind, what=r.get("what"), client=r.get("client"),
                   ops=[s.get("op") for s in r["scn"]] if kind == "slots" else r["scn"].get("ops"))
        ctx.candidate(key, "%s: %s; scenario=%s" % (kind, r.get("what"), json.dumps(r.get("scn"))[:500]), r)
    return summ[0]


APALACHE = [("base", ["--init=Init", "--inv=IndInv", "--length=0"]),
            ("step", ["--init=IndInv", "--inv=IndInv", "--length=1"]),
            ("safety", ["--init=IndInv", "--inv=Safety", "--length=0"]),
            ("firstwins", ["--init=IndInv", "--inv=FirstWinsAct", "--length=1"])]


def apalache(ctx, which):
    """inductive invariant of the slot machine, no bound on the number of operations (TraceHandoffInd.tla)"""
    import concurrent.futures as cf
    import shutil
    import subprocess
    def one(item):
        name, args = item
        wd = os.path.join(ctx.build, "apalache-" + name)
        os.makedirs(wd, exist_ok=True)
        shutil.copy(os.path.join(vf.VERIF, "spec", "TraceHandoffInd.tla"), wd)
        try:
            p = subprocess.run(["apalache-mc", "check"] + args + ["TraceHandoffInd.tla"], cwd=wd, stdout=subprocess.PIPE,
                               stderr=subprocess.STDOUT, text=True, timeout=1500)
        except subprocess.TimeoutExpired:
            raise vf.Machinery("apalache timed out on obligation " + name)
        ok = "The outcome is: NoError" in p.stdout and p.returncode == 0
        shutil.rmtree(wd, ignore_errors=True)
        if not ok:
            raise vf.Machinery("apalache obligation %s not discharged (a bug in the spec/invariant, not a verdict):\n%s" % (name, p.stdout[-1500:]))
        return name
    items = [x for x in APALACHE if x[0] in which]
    with cf.ThreadPoolExecutor(max_workers=4) as ex:
        done = list(ex.map(one, items))
    ctx.notes["apalache_inductive_invariant"] = dict(module="TraceHandoffInd", obligations=done, discharged=len(done),
                                                     note="3 names, 3 waiters, generations <= 8, trace ids <= 10, unbounded number of operations")
    ctx.log("apalache discharged: %s" % ", ".join(done))


def run(ctx):
    q = ctx.quick
    # 1. design checks (safety + liveness of the slot machine; builder machine == declarative)
    mc1 = ctx.tlc("TraceHandoff", "MC_TraceHandoff.cfg", timeout=900)
    mc2 = ctx.tlc("Builder", "MC_Builder_q.cfg" if q else "MC_Builder_t.cfg", timeout=1500)
    ctx.notes["mc_design"] = dict(slots=dict(distinct=mc1.distinct, generated=mc1.generated),
                                  builder=dict(distinct=mc2.distinct, generated=mc2.generated))
    if not ctx.replay:
        apalache(ctx, ["step", "safety"] if q else ["base", "step", "safety", "firstwins"])
    binp = ctx.go_test_bin("internal/tracer", ["c16"])
    # 2. slots: all operation orders (bounded) + random walks, replayed with the await hook as gate
    if ctx.replay:
        rp = json.load(open(ctx.replay))["scenario"]
        scns = [rp["scn"]] if rp.get("kind") == "slots" else []
        bscn = [rp["scn"]] if rp.get("kind") == "builder" else []
    else:
        g = ctx.tlc("Gen_TraceHandoff", "Gen_TraceHandoff_q.cfg" if q else "Gen_TraceHandoff_t.cfg", timeout=1500)
        scns = g.json_lines("SCN ")
        n_ex = len(scns)
        s = ctx.tlc("Gen_TraceHandoff", "Gen_TraceHandoff_sim.cfg", workers=1,
                    simulate="num=%d" % (3000 if q else 60000), depth=40, timeout=1500)
        scns += s.json_lines("SCN ")
        ctx.notes["slots_scenarios"] = dict(exhaustive_paths=n_ex, simulated=len(scns) - n_ex)
        gb = ctx.tlc("Gen_Builder", "Gen_Builder_q.cfg" if q else "Gen_Builder_t.cfg", timeout=1500)
        bscn = gb.json_lines("SCN ")
    if scns:
        scnp, outp = os.path.join(ctx.build, "slots.scn"), os.path.join(ctx.build, "slots.out")
        vf.write_ndjson(scnp, scns)
        ctx.run_harness(binp, "TestVerifC16Slots", env=dict(VERIF_SCN=scnp, VERIF_OUT=outp), timeout=3000)
        sm = _mismatches(ctx, outp, "slots")
        # same behaviours, "lazy waiter" schedule: woken waiters run only after the whole burst
        ctx.run_harness(binp, "TestVerifC16Slots", env=dict(VERIF_SCN=scnp, VERIF_OUT=outp, VERIF_BURST=1, GOMAXPROCS=1), timeout=3000)
        sm2 = _mismatches(ctx, outp, "slots")
        ctx.cov["evaluations"] += sm2["evaluations"]
        ctx.cov["traces_validated_against_impl"] += sm2["evaluations"]
        ctx.notes["slots_replay_burst"] = sm2
        ctx.cov["evaluations"] += sm["evaluations"]
        ctx.cov["traces_validated_against_impl"] += sm["evaluations"]
        ctx.cov["distinct_nontrivial"] += sm["nontrivial"]
        ctx.notes["slots_replay"] = sm
        ctx.sample(dict(slots_ops=[(s["op"], s["n"], s["i"]) for s in scns[len(scns) // 2]],
                        final_obs=scns[len(scns) // 2][-1]["obs"]))
    # 3. builder: all op sequences, every prefix checked, client and server flavour
    if bscn:
        scnp, outp = os.path.join(ctx.build, "builder.scn"), os.path.join(ctx.build, "builder.out")
        vf.write_ndjson(scnp, bscn)
        ctx.run_harness(binp, "TestVerifC16Builder", env=dict(VERIF_SCN=scnp, VERIF_OUT=outp), timeout=3000)
        sm = _mismatches(ctx, outp, "builder")
        ctx.cov["evaluations"] += sm["evaluations"]
        ctx.cov["traces_validated_against_impl"] += sm["evaluations"]
        ctx.cov["distinct_nontrivial"] += sm["nontrivial"]
        ctx.notes["builder_replay"] = sm
        ctx.sample(bscn[len(bscn) // 3])
    if ctx.replay:
        return
    # 4. concurrent executions under the race detector, accepted by Trace_Builder
    rbin = ctx.go_test_bin("internal/tracer", ["c16"], race=True)
    trp = os.path.join(ctx.build, "racy.ndjson")
    p = ctx.run_harness(rbin, "TestVerifC16Racy", env=dict(VERIF_OUT=trp, VERIF_N=600 if q else 20000), timeout=3000, check=False)
    trh = os.path.join(ctx.build, "http.ndjson")
    p2 = ctx.run_harness(rbin, "TestVerifC16HTTP", env=dict(VERIF_OUT=trh, VERIF_N=300 if q else 6000), timeout=3000, check=False)
    # slot operations from real goroutines at once: every round must look like some order of its (atomic) operations
    trs = os.path.join(ctx.build, "slotsracy.ndjson")
    p3 = ctx.run_harness(rbin, "TestVerifC16SlotsRacy", env=dict(VERIF_OUT=trs, VERIF_N=3000 if q else 60000), timeout=3000, check=False)
    if p3.returncode == 0 or "WARNING: DATA RACE" in p3.stdout:
        srecs = vf.read_ndjson(trs) if os.path.exists(trs) else []
        for r in srecs:
            if r.get("kind") == "slots-racy":
                ctx.candidate(dict(kind="slots-racy", what=r["what"].split(":")[0][:60]),
                              "concurrent slot operations (%d completers, waiter parked=%s): %s" % (r["completers"], r["parked"], r["what"]), r)
        ctx.cov["evaluations"] += sum(r.get("rounds", 0) for r in srecs if r.get("summary"))
    for pp, nm in ((p, "racy"), (p2, "http"), (p3, "slots-racy")):
        if "WARNING: DATA RACE" in pp.stdout:
            i = pp.stdout.index("WARNING: DATA RACE")
            rep = pp.stdout[i:i + 3000]
            inrepo = "/internal/tracer/" in rep and "zz_verif" not in rep.split("Previous")[0][:800]
            ctx.candidate(dict(kind="race", driver=nm), "data race reported by the Go race detector in %s driver:\n%s" % (nm, rep), dict(kind="race", report=rep))
        elif pp.returncode != 0:
            raise vf.Machinery("%s driver failed rc=%d:\n%s" % (nm, pp.returncode, pp.stdout[-3000:]))
    recs = vf.read_ndjson(trp) + vf.read_ndjson(trh)
    for r in recs:
        ch = r.pop("changed_after_completion", None)
        if ch:
            ctx.candidate(dict(kind="changed-after-completion", side=r.get("side")),
                          "the trace of %s (%s side) changed after it had been handed to the collector: at completion %s, afterwards %s"
                          % (r["name"], r.get("side"), json.dumps(ch["at_completion"])[-400:], json.dumps(ch["afterwards"])[-400:]), dict(r, changed=ch))
    allp = os.path.join(ctx.build, "conc.ndjson")
    vf.write_ndjson(allp, recs)
    tr = ctx.tlc("Trace_Builder", "Trace_Builder.cfg", workers=1, env=dict(VERIF_TRACE=allp), timeout=1800)
    if not tr.lines("CONSUMED "):
        raise vf.Machinery("Trace_Builder did not consume the whole file")
    for ln in tr.lines("REJECT "):
        r = recs[int(ln) - 1]
        ctx.candidate(dict(kind="conc-" + r["kind"], side=r.get("side"), completes=r["completes"]),
                      "concurrent execution rejected by Trace_Builder: %s" % json.dumps(r)[:700], r)
    ctx.cov["traces_validated_against_impl"] += len(recs)
    ctx.cov["evaluations"] += len(recs)
    ctx.cov["distinct_nontrivial"] += len({json.dumps(r["events"]) for r in recs if r["completes"]})
    ctx.sample(recs[0])
    if ctx.notes.get("unreproduced_hangs") and not ctx.violations and not ctx.known_hits:
        raise vf.Machinery("unreproduced hang: %s" % ctx.notes["unreproduced_hangs"][0])
    ctx.cov["rule"] = ("slots: every order of Init/Complete/Clear/Await/CtxExpire of length MaxOps over 2 names x 2 waiters "
                       "(all paths) + random walks over 3 names x 3 waiters, replayed step by step on a real Tracer with the "
                       "await hook as scheduler gate; non-trivial = some waiter blocks, gets a trace or is cancelled. builder: "
                       "every op sequence of length MaxOps over the 11 kinds, every prefix compared, client and server flavour; "
                       "non-trivial = a trace is delivered. concurrent: distinct delivered event sequences accepted by Trace_Builder.")
    ctx.assumptions += ["Await's critical section is reported by the verif hook placed right after the mutex is released",
                        "the 5 s TraceTimeout constant is a caller-side context and is exercised as cancellation",
                        "data-race freedom is decided by the Go race detector on the concurrent drivers, not by the spec"]
