"""C15 - HTTP/2 connection tracing is transparent and attributes frames to the right call.
spec: H2TraceDecl (declarative Traces(handled events)), H2Trace (environment of well-formed traffic +
byte-level machine; theorem machine == Traces for every interleaving and chunking), Gen_H2Trace
(behaviours -> replay on the real TracingHTTP2Conn), Trace_H2Trace (acceptor of recorded traffic of
the real x/net/http2 client and server)."""
import json
import os
import vf


def scenarios(res):
    seen = set()
    out = []
    for ln in res.lines("SCN "):
        ln = ln.strip()
        if '\\"' in ln:
            ln = ln.replace('\\"', '"')
        if ln not in seen:
            seen.add(ln)
            out.append(ln)
    return out


def design(ctx):
    q = ctx.quick
    runs = ["MC_H2Trace_chunk_q.cfg", "MC_H2Trace_streams_client_q.cfg", "MC_H2Trace_streams_server_q.cfg", "MC_H2Trace_live.cfg"]
    if not q:
        runs = ["MC_H2Trace_chunk_client.cfg", "MC_H2Trace_chunk_server.cfg", "MC_H2Trace_streams_client_t.cfg",
                "MC_H2Trace_streams_server_t.cfg", "MC_H2Trace_live.cfg"]
    notes = {}
    for cfg in runs:
        r = ctx.tlc("H2Trace", cfg, workers=8, timeout=3000)
        notes[cfg] = dict(distinct=r.distinct, generated=r.generated, wall_s=round(r.wall, 1))
    # the theorem is not vacuous: machines with one of the real defects built in are rejected
    for cfg in ["MC_H2Trace_mut_rst.cfg", "MC_H2Trace_mut_goaway.cfg"] + ([] if q else ["MC_H2Trace_mut_cont.cfg"]):
        r = ctx.tlc("H2Trace", cfg, workers=8, timeout=1200, expect_violation=True)
        want = "Reassembly" if "cont" in cfg else "Agrees"
        if r.violated != want:
            raise vf.Machinery("mutant %s was not rejected by %s (violated=%s)" % (cfg, want, r.violated))
        notes[cfg] = dict(rejected_by=r.violated, distinct=r.distinct)
    ctx.notes["design_checks"] = notes


def key_of(r):
    return dict(kind=r.get("kind"), cause=r.get("cause"), side=r.get("side"),
                missing=len((r.get("diff") or {}).get("missing") or []), extra=len((r.get("diff") or {}).get("extra") or []),
                differ=len((r.get("diff") or {}).get("differ") or []))


def replay(ctx, binp, lines, tag, variants, timeout=3000):
    scnp = os.path.join(ctx.build, "c15.%s.scn.ndjson" % tag)
    outp = os.path.join(ctx.build, "c15.%s.out.ndjson" % tag)
    with open(scnp, "w") as fh:
        for ln in lines:
            fh.write(ln + "\n")
    ctx.run_harness(binp, "TestVerifC15Replay", env=dict(VERIF_SCN=scnp, VERIF_OUT=outp, VERIF_VARIANTS=variants), timeout=timeout)
    res = vf.read_ndjson(outp)
    summ = [r for r in res if r.get("summary")]
    if not summ:
        raise vf.Machinery("replay harness wrote no summary (%s)" % tag)
    summ = summ[0]
    if summ["machinery_errors"]:
        raise vf.Machinery("replay harness (%s): %d machinery errors, first: %s" % (tag, summ["machinery_errors"], summ["first_machinery_error"]))
    for r in res:
        if r.get("summary"):
            continue
        if r.get("repro", 0) < 3:
            ctx.notes["unreproduced"] = ctx.notes.get("unreproduced", 0) + 1
            ctx.log("unreproduced mismatch ignored: %s" % json.dumps(r)[:300])
            continue
        scn = r.pop("scn", None)
        # an exchange in which two known mechanisms meet is reported under each of them
        for cause in (r.get("cause") or "other").split("+"):
          r["cause"] = cause
          ctx.candidate(key_of(r), "%s side, %s/%s: %s | expected %s | observed %s | frames req=%s resp=%s calls=%s" % (
            r.get("side"), r.get("kind"), r.get("cause"), r.get("detail"), json.dumps(r.get("exp"))[:500],
            json.dumps((r.get("run") or {}).get("traces"))[:500],
            json.dumps([[f["t"], f["s"], f["hk"], f["nm"], f["es"], f["eh"], f["n"], f["code"], f["last"]] for f in scn["req"]]),
            json.dumps([[f["t"], f["s"], f["hk"], f["es"], f["eh"], f["n"], f["code"], f["last"]] for f in scn["resp"]]),
            json.dumps([[c["d"], c["u"], c["e"]] for c in scn["calls"]])), dict(scn=scn, vseed=r.get("vseed"), report=r))
    ctx.cov["evaluations"] += summ["evaluations"]
    ctx.cov["traces_validated_against_impl"] += summ["scenarios"]
    ctx.cov["distinct_nontrivial"] += summ["distinct_nontrivial"]
    ctx.notes["replay_" + tag] = summ
    ctx.log("replay %s: %s" % (tag, json.dumps(summ)))
    return scnp


def run(ctx):
    q = ctx.quick
    binp = ctx.go_test_bin("internal/tracer", ["c15"])
    if ctx.replay:
        rp = json.load(open(ctx.replay))["scenario"]
        if rp.get("fuzz"):
            inp = os.path.join(ctx.build, "c15.fuzz1.ndjson")
            outp = os.path.join(ctx.build, "c15.fuzz1.out.ndjson")
            vf.write_ndjson(inp, [rp["fuzz"]])
            ctx.run_harness(binp, "TestVerifC15FuzzOne", env=dict(VERIF_IN=inp, VERIF_OUT=outp), timeout=600)
            for r in vf.read_ndjson(outp):
                if not r.get("summary"):
                    ctx.candidate(dict(kind=r["kind"], fn=r.get("fn"), msg=r.get("msg")), "fuzz input: %s in %s: %s" % (r["kind"], r.get("fn"), r.get("msg")), rp)
            return
        replay(ctx, binp, [json.dumps(rp["scn"])], "replay", 4)
        return
    # 1. design: machine == declarative Traces, for all interleavings / chunkings within the bounds
    if not os.environ.get("VERIF_C15_NODESIGN"):   # (mutation sanity runs of the Go code skip the spec-only part)
        design(ctx)
    # 2. behaviours: exhaustive chunkings of short exchanges + random walks of long multi-stream ones
    n_sim = 600 if q else 4000
    small = scenarios(ctx.tlc("Gen_H2Trace", "Gen_H2Trace_small.cfg", workers=8, timeout=1800))
    sim = scenarios(ctx.tlc("Gen_H2Trace", "Gen_H2Trace_sim.cfg", workers=4, simulate="num=%d" % n_sim, depth=120, timeout=3000))
    # the same without CONTINUATION / client GOAWAY / nameless streams: on a tree where those known
    # defects are present they hide nothing else here
    sim0 = scenarios(ctx.tlc("Gen_H2Trace", "Gen_H2Trace_sim0.cfg", workers=4, simulate="num=%d" % (n_sim // 2), depth=120, timeout=3000))
    ctx.log("scenarios: %d exhaustive + %d simulated (all features) + %d simulated (plain)" % (len(small), len(sim), len(sim0)))
    ctx.notes["scenarios"] = dict(exhaustive=len(small), simulated_full=len(sim), simulated_plain=len(sim0))
    scnp = replay(ctx, binp, small + sim + sim0, "gen", 2 if q else 3)
    for ln in (sim[:2] + sim0[:1] + small[:1]):
        s = json.loads(ln)
        ctx.sample(dict(side=s["side"], req=[[f["t"], f["s"], f["hk"], f["nm"], f["es"], f["eh"], f["n"], f["code"]] for f in s["req"]],
                        resp=[[f["t"], f["s"], f["hk"], f["es"], f["eh"], f["n"], f["code"], f["last"]] for f in s["resp"]],
                        calls=[[c["d"], c["u"], c["e"]] for c in s["calls"]], expected_traces=s["exp"]))
    # 3. the real 3 s retry timer (thorough): a few behaviours in which a held-back trace is released by the timer
    if not q:
        tim = [ln for ln in scenarios(ctx.tlc("Gen_H2Trace", "Gen_H2Trace_timer.cfg", workers=4, simulate="num=1500", depth=90, timeout=1800))
               if '"timer:' in ln]
        tim = tim[:: max(1, len(tim) // 24)][:24]
        ctx.notes["timer_scenarios"] = len(tim)
        if tim:
            replay(ctx, binp, tim, "timer", 1, timeout=1800)
    # 4. robustness: arbitrary and mutated byte streams - every call returns, bytes pass through
    outp = os.path.join(ctx.build, "c15.fuzz.out.ndjson")
    n_fuzz = 40000 if q else 1500000
    ctx.run_harness(binp, "TestVerifC15Fuzz", env=dict(VERIF_SCN=scnp, VERIF_OUT=outp, VERIF_N=n_fuzz), timeout=3000)
    res = vf.read_ndjson(outp)
    fs = [r for r in res if r.get("summary")]
    if not fs:
        raise vf.Machinery("fuzz harness wrote no summary")
    fs = fs[0]
    for r in res:
        if r.get("summary"):
            continue
        if r.get("repro", 0) < 3:
            ctx.notes["unreproduced"] = ctx.notes.get("unreproduced", 0) + 1
            continue
        ctx.candidate(dict(kind=r["kind"], fn=r.get("fn"), msg=r.get("msg")),
                      "byte stream (%s of generated exchange %s, %s side): %s in %s: %s" % (
                          r.get("mut"), r.get("src"), "server" if r["in"]["server"] else "client", r["kind"], r.get("fn"), r.get("msg")),
                      dict(fuzz=r["in"]))
    ctx.cov["evaluations"] += fs["inputs"]
    ctx.notes["fuzz"] = fs
    ctx.log("fuzz: %s" % json.dumps(fs))
    # 5. code -> spec: recorded traffic of the real x/net/http2 client and server, accepted by TLC
    record(ctx, binp)
    ctx.cov["exhaustive"] = False
    ctx.cov["rule"] = ("TLC generates well-formed exchanges (environment of H2Trace: HEADERS/CONTINUATION, DATA cut anywhere in the "
                       "envelopes, RST_STREAM, GOAWAY, racing frames, named/nameless streams, retries under the same name) together "
                       "with the Read/Write calls in chunking units: exhaustively all chunkings of exchanges of <= 3 frames, random "
                       "walks for exchanges of 11-16 frames on up to 3 streams; each is serialised with the real Framer/HPACK encoder "
                       "(2-3 byte-level variants) and replayed through TracingHTTP2Conn as client or server; a scenario is non-trivial "
                       "if the specification requires or the code produced at least one trace; distinct = distinct (side, frames, calls). "
                       "evaluations also counts the fuzz inputs (arbitrary / mutated byte streams: no panic, bytes passed through) and "
                       "the recorded connections of real HTTP/2 traffic accepted by Trace_H2Trace.")
    ctx.assumptions += [
        "one connection at a time: a retry on a NEW connection is outside the model (each wrapped conn has its own retry collector)",
        "streams that are open at the same time carry different test names; a name is reused only after the earlier call under it has finished",
        "overlapping Read and Write calls are equivalent to the sequential execution of their pieces between consecutive handleFrame critical sections (argued in H2Trace.tla); the replay is sequential",
        "the 3 s retry timer is exercised in real time in the thorough tier only (watchdog 60 s); elsewhere held-back traces are released by the end of the connection",
        "1xx interim responses and PUSH_PROMISE are not generated",
    ]


def record(ctx, binp):
    trp = os.path.join(ctx.build, "c15.trace.ndjson")
    n = 40 if ctx.quick else 400
    ctx.run_harness(binp, "TestVerifC15Record", env=dict(VERIF_OUT=trp, VERIF_N=n), timeout=2400)
    recs = vf.read_ndjson(trp)
    summ = [r for r in recs if r.get("summary")]
    recs = [r for r in recs if not r.get("summary")]
    if not summ or not recs:
        raise vf.Machinery("record harness wrote no summary / no connections")
    if summ[0].get("machinery_errors"):
        raise vf.Machinery("record harness: %s" % summ[0])
    for r in [r for r in recs if r.get("panic")]:
        ctx.candidate(dict(kind="recorded-panic", fn=r.get("panic_fn"), msg=r.get("panic"), side=r["side"]),
                      "the wrapper panicked inside a goroutine of the real x/net/http2 %s (connection %s): %s in %s" % (
                          r["side"], r.get("conn"), r.get("panic"), r.get("panic_fn")), dict(recorded=r))
    recs = [r for r in recs if not r.get("panic")]
    for r in recs:
        if r.get("hdr"):
            ctx.candidate(dict(kind="recorded-headers", cause="other", side=r["side"]),
                          "recorded connection: header fields / content in the trace differ from the wire: %s" % "; ".join(r["hdr"])[:800], dict(recorded=r))
        if r.get("reqstart"):
            what = r["reqstart"][0]
            cause = ("client-requeststart-no-headers" if r["side"] == "client" and all(x.endswith("lists no request headers") for x in r["reqstart"])
                     else "server-requeststart-content-length-0" if r["side"] == "server" and all(x.endswith("header that was not sent") for x in r["reqstart"])
                     else "other")
            ctx.candidate(dict(kind="reqstart", cause=cause, side=r["side"], missing=0, extra=0, differ=0),
                          "recorded connection (real x/net/http2 traffic), %s side: %s" % (r["side"], what), dict(recorded=r))
    tlp = os.path.join(ctx.build, "c15.trace.tla.ndjson")
    vf.write_ndjson(tlp, [dict(side=r["side"], hist=r["hist"], obs=r["obs"]) for r in recs])
    tr = ctx.tlc("Trace_H2Trace", "Trace_H2Trace.cfg", workers=1, env=dict(VERIF_TRACE=tlp), timeout=2400)
    if not tr.lines("CONSUMED "):
        raise vf.Machinery("Trace_H2Trace did not consume the whole file")
    for ln in tr.lines("REJECT "):
        r = recs[int(ln.split()[0]) - 1]
        ctx.candidate(dict(kind="recorded", cause=r.get("cause", "other"), side=r["side"]),
                      "recorded connection (real x/net/http2 %s, wrapped) rejected by Trace_H2Trace: observed traces %s; frames %s" % (
                          r["side"], json.dumps(r["obs"])[:700], json.dumps([[f["t"], f["d"], f["s"], f["hk"], f["es"], f["eh"], f["n"], f["code"]] for f in r["hist"]])[:900]),
                      dict(recorded=r))
    ctx.cov["traces_validated_against_impl"] += len(recs)
    ctx.cov["evaluations"] += len(recs)
    ctx.notes["recorded"] = summ[0]
    ctx.sample(dict(recorded_connection=dict(side=recs[0]["side"], frames=[[f["t"], f["d"], f["s"], f["hk"], f["es"], f["n"]] for f in recs[0]["hist"]][:30],
                                             observed=recs[0]["obs"][:2])))
