"""C15 - HTTP/2 connection tracing is transparent and attributes frames to the right call.
spec: H2TraceDecl (declarative Traces), H2Trace (environment + byte-level machine, theorem),
Gen_H2Trace (behaviours), Trace_H2Trace (acceptor of recorded real traffic)."""
import json
import os
import vf


def gen(ctx, cfg, **kw):
    res = ctx.tlc("Gen_H2Trace", cfg, **kw)
    seen = set()
    out = []
    for ln in res.lines("SCN "):
        ln = ln.strip()
        if '\\"' in ln:
            ln = ln.replace('\\"', '"')
        if ln in seen:
            continue
        seen.add(ln)
        out.append(ln)
    return out


def run(ctx):
    q = ctx.quick
    scn = []
    scn += gen(ctx, "Gen_H2Trace_small.cfg", timeout=1200)
    n_ex = len(scn)
    scn += gen(ctx, "Gen_H2Trace_sim.cfg", workers=4, simulate="num=%d" % (600 if q else 12000), depth=120, timeout=2400)
    ctx.log("scenarios: %d exhaustive + %d simulated" % (n_ex, len(scn) - n_ex))
    scnp = os.path.join(ctx.build, "c15.scn.ndjson")
    outp = os.path.join(ctx.build, "c15.out.ndjson")
    with open(scnp, "w") as fh:
        for ln in scn:
            fh.write(ln + "\n")
    binp = ctx.go_test_bin("internal/tracer", ["c15"])
    ctx.run_harness(binp, "TestVerifC15Replay", env=dict(VERIF_SCN=scnp, VERIF_OUT=outp, VERIF_VARIANTS=2 if q else 4), timeout=3000)
    res = vf.read_ndjson(outp)
    summ = [r for r in res if r.get("summary")][0]
    ctx.log("replay summary: %s" % json.dumps(summ))
