"""C03 - result assertion flags every semantic deviation and allows only documented leniency.
spec: AssertDecl.tla (declarative relation Disc/Conforms), Assert.tla (bases, rewrite machine with the
theorems LenientPass / DeviationFlagged, checker machine == Disc), Gen_Assert (behaviours),
Trace_Assert (acceptor of recorded executions of the real testResults.assert)."""
import hashlib
import json
import os
import re
import vf

PKG = "internal/app/connectconformance"
AT = re.compile(r"@\d+(\.\d+)*(b?a?)(?![a-z])")


def kinds(steps):
    return sorted({AT.sub("", s) for s in steps})


class Scenarios:
    """BASE/SCN lines of Gen_Assert runs -> scenario file (exp, act, tc, disc, steps), deduplicated, streamed."""

    def __init__(self, path):
        self.fh = open(path, "w")
        self.seen = set()
        self.bases = {}
        self.n = 0
        self.kinds = {}
        self.conforming = self.deviating = 0
        self.samples = []

    def add(self, s, exp, tc):
        self.fh.write(json.dumps(dict(id=self.n, exp=exp, tc=tc, act=s["act"], steps=s["steps"], ndev=s["ndev"],
                                      disc=s["disc"], bp=s.get("bp")), separators=(",", ":")) + "\n")
        self.n += 1
        for k in kinds(s["steps"]):
            self.kinds[k] = self.kinds.get(k, 0) + 1
        if s["disc"]:
            self.deviating += 1
        else:
            self.conforming += 1
        if len(s["steps"]) >= 1 and self.n % 9973 == 1 and len(self.samples) < 3:
            self.samples.append(dict(tc=tc, steps=s["steps"], disc=s["disc"], bp=s.get("bp")))

    def collect(self, res):
        for b in res.json_lines("BASE "):
            self.bases[json.dumps(b["bp"], sort_keys=True)] = b
        n0 = self.n
        for ln in res.lines("SCN "):
            ln = ln.replace('\\"', '"')
            h = hashlib.md5(ln[:ln.rindex(',"steps"')].encode()).digest() if ',"steps"' in ln else None
            s = json.loads(ln)
            bk = json.dumps(s["bp"], sort_keys=True)
            k = h or hashlib.md5((bk + json.dumps(s["act"], sort_keys=True)).encode()).digest()
            if k in self.seen:
                continue
            self.seen.add(k)
            b = self.bases.get(bk)
            if b is None:
                raise vf.Machinery("SCN line without BASE line for %s" % bk)
            self.add(s, b["exp"], b["tc"])
        return self.n - n0

    def close(self):
        self.fh.close()


def run(ctx):
    q = ctx.quick
    # ------------------------------------------------------------------ 1. design
    # rewrite machine (every single rewrite of every base) + checker machine == Disc
    mc = ctx.tlc("Assert", "MC_Assert_q.cfg" if q else "MC_Assert.cfg", timeout=1500)
    ctx.notes["mc_design"] = dict(cfg="MC_Assert_q.cfg" if q else "MC_Assert.cfg", distinct=mc.distinct, generated=mc.generated)
    if not q:
        mc2 = ctx.tlc("Assert", "MC_Assert_compose.cfg", timeout=1500)
        ctx.notes["mc_compose"] = dict(cfg="MC_Assert_compose.cfg", distinct=mc2.distinct, generated=mc2.generated)

    binp = ctx.go_test_bin(PKG, ["c03"])
    scnp = os.path.join(ctx.build, "c03.scn.ndjson")
    outp = os.path.join(ctx.build, "c03.out.ndjson")

    # ------------------------------------------------------------------ 2. behaviours -> real assert
    scns = Scenarios(scnp)
    n_single = n_pairs = n_sim = 0
    if ctx.replay:
        rp = json.load(open(ctx.replay))["scenario"]["scn"]
        scns.add(rp, rp["exp"], rp["tc"])
    else:
        n_single = scns.collect(ctx.tlc("Gen_Assert", "Gen_Assert_q.cfg" if q else "Gen_Assert_t.cfg", timeout=1500))
        n_pairs = scns.collect(ctx.tlc("Gen_Assert", "Gen_Assert_pairs_q.cfg" if q else "Gen_Assert_pairs.cfg", timeout=1500))
        n_sim = scns.collect(ctx.tlc("Gen_Assert", "Gen_Assert_sim.cfg", workers=1, simulate="num=%d" % (100 if q else 1500),
                                     depth=5, timeout=1500))
    scns.close()
    ctx.log("scenarios: %d single-rewrite + %d two-rewrite + %d simulated (<= 4 rewrites), %d bases" % (
        n_single, n_pairs, n_sim, len(scns.bases)))
    ctx.run_harness(binp, "TestVerifC03Replay", env=dict(VERIF_SCN=scnp, VERIF_OUT=outp), timeout=3000)
    res = vf.read_ndjson(outp)
    summ = [r for r in res if r.get("summary")]
    if not summ:
        raise vf.Machinery("replay harness wrote no summary")
    summ = summ[0]
    for r in res:
        if r.get("summary"):
            continue
        s = r["scn"]
        if r.get("repro", 0) < 4:
            ctx.notes["unreproduced"] = ctx.notes.get("unreproduced", 0) + 1
            ctx.log("unreproduced mismatch ignored: %s" % json.dumps(r)[:300])
            continue
        key = dict(kind=r["kind"], st=s["tc"]["st"], rewrites=kinds(s.get("steps") or []),
                   spec_classes=sorted({t["c"] for t in s["disc"]}), obs_classes=sorted({t["c"] for t in r["obs"]}))
        ctx.candidate(key, "assert %s: rewrites %s on a %s result; specification requires discrepancies %s, the real "
                      "assert recorded %s (%s)" % (r["kind"], s.get("steps"), s["tc"]["st"], json.dumps(s["disc"]),
                                                  "no failure" if not r["obs"] else json.dumps(r["obs"]), r["text"][:200]),
                      dict(scn=s, obs=r["obs"], text=r["text"], variant=r["variant"]))
    ctx.cov["evaluations"] += summ["evaluations"]
    ctx.cov["traces_validated_against_impl"] += summ["scenarios"]
    ctx.cov["distinct_nontrivial"] += summ["nontrivial"]
    ctx.notes["replay"] = summ
    ctx.notes["rewrite_kinds_generated"] = len(scns.kinds)
    ctx.notes["rewrite_kind_counts"] = scns.kinds
    ctx.notes["generated"] = dict(single=n_single, pairs=n_pairs, simulated=n_sim, bases=len(scns.bases),
                                  conforming=scns.conforming, deviating=scns.deviating)
    for smp in scns.samples:
        ctx.sample(smp)
    if ctx.replay:
        return

    # ------------------------------------------------------------------ 3. corpus -> real assert -> Trace_Assert
    trp = os.path.join(ctx.build, "c03.trace.ndjson")
    ctx.run_harness(binp, "TestVerifC03Record", env=dict(VERIF_OUT=trp, VERIF_N=120 if q else 100000,
                    VERIF_PER=150 if q else 500, VERIF_DOUBLES=10 if q else 150,
                    VERIF_CONFIG=os.path.join(vf.REPO, "testing", "reference-impls-config.yaml")), timeout=3000)
    recs = vf.read_ndjson(trp)
    rsum = [r for r in recs if r.get("summary")]
    recs = [r for r in recs if not r.get("summary")]
    if not rsum or not recs:
        raise vf.Machinery("record harness wrote no summary / no records")
    rsum = rsum[0]
    if rsum.get("unstable"):
        raise vf.Machinery("record harness: %d observations were not reproducible" % rsum["unstable"])
    ctx.notes["corpus"] = rsum
    shard = 6000
    rejects = outside = 0
    for lo in range(0, len(recs), shard):
        part = recs[lo:lo + shard]
        sp = os.path.join(ctx.build, "c03.trace.%d.ndjson" % lo)
        vf.write_ndjson(sp, [dict(exp=r["exp"], act=r["act"], tc=r["tc"], ok=r["ok"], obs=r["obs"]) for r in part])
        tr = ctx.tlc("Trace_Assert", "Trace_Assert.cfg", workers=1, env=dict(VERIF_TRACE=sp), timeout=1800)
        if not tr.lines("CONSUMED "):
            raise vf.Machinery("trace spec did not consume the whole trace shard at %d" % lo)
        outside += len(tr.lines("OUTSIDE "))
        for rj in tr.json_lines("REJECT "):
            r = part[rj["line"] - 1]
            rejects += 1
            kind = "false-pass" if r["ok"] else ("false-fail" if not rj["disc"] else "unnamed")
            key = dict(kind=kind, st=r["tc"]["st"], rewrites=kinds(r["lab"].split("+")), recorded=True,
                       spec_classes=sorted({t["c"] for t in rj["disc"]}), obs_classes=sorted({t["c"] for t in r["obs"]}))
            ctx.candidate(key, "recorded execution rejected by Trace_Assert (%s): corpus case %s, rewrite %s; specification "
                          "requires %s, the real assert recorded %s" % (kind, r["name"], r["lab"], json.dumps(rj["disc"]),
                                                                        "no failure" if r["ok"] else json.dumps(r["obs"])[:300]),
                          dict(scn=dict(id=0, exp=r["exp"], act=r["act"], tc=r["tc"], steps=[r["lab"]], ndev=0, disc=rj["disc"]),
                               name=r["name"], recorded=True))
        os.remove(sp)
    ctx.cov["traces_validated_against_impl"] += len(recs) - outside
    ctx.cov["evaluations"] += 3 * len(recs)
    ctx.cov["distinct_nontrivial"] += sum(1 for r in recs if r["lab"] != "identity")
    ctx.notes["trace"] = dict(records=len(recs), outside_domain=outside, rejected=rejects,
                              passed=sum(1 for r in recs if r["ok"]), failed=sum(1 for r in recs if not r["ok"]))
    ctx.sample(dict(name=recs[len(recs) // 2]["name"], lab=recs[len(recs) // 2]["lab"], ok=recs[len(recs) // 2]["ok"],
                    obs=recs[len(recs) // 2]["obs"]))
    ctx.cov["exhaustive"] = False
    ctx.cov["rule"] = ("TLC enumerates every single rewrite (deviation or leniency, at every position: n-th payload / detail / header / "
                       "value / piece of a value / echoed request) of every base in the family (stream type x error shape x payload "
                       "count x metadata kit x profile), every pair of rewrites at distinct loci for a slice of the family (thorough) "
                       "and random sequences of up to 4 rewrites; each (expected, reported) pair carries Disc computed by the "
                       "declarative relation and is asserted by the real testResults.assert under two proto materialisations. "
                       "Non-trivial = at least one rewrite applied. Corpus: distinct expected results of all permutations of the "
                       "embedded suites x seeded rewrite catalogue, observed outcome accepted line by line by Trace_Assert.")
    ctx.assumptions += [
        "a header name occurs in at most one entry of a header list (message Header: a repeated key is one entry with several values)",
        "request headers / timeout / query parameters are expected on the first response only (service.proto, docs/testing_servers.md)",
        "unary and client-stream RPCs that end in an error have zero payloads (docs/testing_clients.md); the merged-metadata rule is modelled for exactly that case",
        "Lenient_QueryInfoEmpty: expected query parameters are not enforced when the reported result has none at all (service.proto, connect_get_info)",
        "byte/proto-level equality of payload data, echoed requests and opaque details is decided by the real code on materialised protos; the specification treats them as ids",
        "the failure text is parsed into discrepancy tags by regular expressions in the harness (class, list, position, name)",
        "timeouts below 2^30 ms and not negative",
    ]
