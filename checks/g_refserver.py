"""G1 (growth item, attached to C11) - life cycle of a conformance server process.
spec: RefServer.tla (program + environment, safety and liveness a runner relies on), Gen_RefServer
(environment schedules), Trace_RefServer (acceptor of executions recorded from the real Run).
Entry point: leg(ctx), called from checks/c11.py."""
import json
import os
import random
import vf

PROTOS = {"tracked": ["h1", "h2tls", "h1tls"], "hijacked": ["h2c"], "abrupt": ["h3"], "unbounded": ["grpc"]}

# schedules that are always played (whatever the random walks of the generator produce)
DIRECTED = [
    # an RPC in flight when the context is cancelled, finished afterwards
    ("*", "free", [["CFG", "good"], ["CI"], ["R"], ["C", 1], ["X"], ["F", 1]]),
    # ... and one that had finished before
    ("*", "free", [["CFG", "good"], ["CI"], ["R"], ["C", 1], ["C", 2], ["F", 2], ["X"], ["F", 1]]),
    # an RPC in flight for longer than the grace period
    ("tracked", "free", [["CFG", "good"], ["CI"], ["R"], ["C", 1], ["X"], ["G"]]),
    ("unbounded", "free", [["CFG", "good"], ["CI"], ["R"], ["C", 1], ["X"], ["G"]]),
    # the runner has closed its end of stdout: the announcement fails
    ("tcp", "fixed", [["CFG", "good"], ["CO"]]),
    ("tcp", "fixed", [["CFG", "good"], ["CO"], ["X"]]),
    # serve failure before / after the announcement, with and without an RPC in flight
    ("tcp", "fixed", [["CFG", "good"], ["B"], ["R"]]),
    ("tcp", "fixed", [["CFG", "good"], ["R"], ["B"]]),
    ("tcp", "fixed", [["CFG", "good"], ["R"], ["C", 1], ["B"], ["F", 1]]),
    ("tcp", "fixed", [["CFG", "good"], ["R"], ["C", 1], ["B"], ["X"], ["F", 1]]),
    # the port is taken
    ("tcp", "taken", [["CFG", "good"], ["R"], ["C", 1]]),
    # configs that cannot be used, no config at all
    ("*", "free", [["CFG", "bad"], ["R"]]),
    ("*", "free", [["CFG", "trunc"], ["R"], ["X"]]),
    ("*", "free", [["CFG", "unsup"], ["R"]]),
    ("*", "free", [["CI"], ["R"]]),
    ("*", "free", [["X"], ["CI"]]),
    # cancelled before the config / while the announcement waits for a reader
    ("*", "free", [["X"], ["CFG", "good"], ["R"]]),
    ("*", "free", [["CFG", "good"], ["X"], ["R"]]),
    # connect on a port known in advance while the announcement has not been read yet
    ("tcp", "fixed", [["CFG", "good"], ["C", 1], ["R"], ["X"], ["F", 1]]),
    # connect before the server exists (the port is known in advance), then again
    ("tcp", "fixed", [["C", 1], ["CFG", "good"], ["R"], ["C", 2], ["X"]]),
]


def _directed(kinds):
    res = []
    for sel, bind, hist in DIRECTED:
        for k in kinds:
            if sel == "*" or sel == k or (sel == "tcp" and k != "abrupt"):
                if k == "abrupt" and bind != "free":
                    continue
                for p in PROTOS[k]:
                    res.append(dict(kind=k, bind=bind, proto=p, hist=hist, directed=True))
    return res


def _events(t, n=None):
    ev = t["events"] if n is None else t["events"][:n]
    return " ".join(e["e"] + ("(%s)" % ",".join(str(e[k]) for k in ("i", "r", "k") if k in e) if len(e) > 2 else "") for e in ev)


def _key(legname, t, at):
    """attributes of a rejected execution: the first event the specification cannot explain and what preceded it"""
    ev = t["events"]
    e = ev[at] if at < len(ev) else dict(e="(end)")
    before = [x["e"] for x in ev[:at]]
    ret = [x["r"] for x in ev[:at] if x["e"] == "RunRet"]
    return dict(kind="trace-rejected", leg=legname, at=e["e"] + (":" + e["r"] if "r" in e else ""), returned=ret[0] if ret else "no",
                cancelled="Cancel" in before, stdout_closed="CloseStdout" in before, announced=any(x["e"] == "ReadRet" and x.get("r") == "resp" for x in ev[:at]),
                broken="Break" in before, grace="Grace" in before, skind=t["kind"], bind=t["bind"], proto=t["proto"])


def _accept(ctx, cfg, traces, path):
    """-> (set of accepted indices, {index: index of the first unexplainable event})"""
    vf.write_ndjson(path, [dict(kind=t["kind"], bind=t["bind"], timed=bool(t.get("timed")),
                                events=[{k: v for k, v in e.items() if k != "t"} for e in t["events"]]) for t in traces])
    r = ctx.tlc("Trace_RefServer", cfg, workers=4, env=dict(VERIF_TRACE=path), timeout=1800)
    acc = {int(x) - 1 for x in r.lines("ACCEPT ")}
    far = {}
    for x in r.lines("AT "):
        ti, l = x.split()
        far[int(ti) - 1] = max(far.get(int(ti) - 1, 0), int(l) - 1)
    return acc, far


def _one(ctx, legname, who, pkg, hdir, test, mc_cfgs, gen_cfgs, trace_cfg, kinds, per_gen=(110, 1500), grace_cap=(12, 80)):
    q = ctx.quick
    rnd = random.Random(ctx.seed * 7919 + len(legname))
    if ctx.replay:
        mc_cfgs, gen_cfgs = [], []
    # 1. design: safety + liveness of the life cycle, deadlock check on
    mcs = {}
    for cfg, kw in mc_cfgs:
        if kw.get("expect_violation"):
            # a deliberately unfair environment: TLC must find the liveness counter-example
            res = ctx.tlc("RefServer", cfg, deadlock=True, timeout=1200, expect_violation=True)
            out = res.out if hasattr(res, "out") else ""
            if res.violated != "Terminates" and "Temporal properties were violated" not in out:
                raise vf.Machinery("%s: the liveness counter-example that shows the environment assumption is needed was not found\n%s" % (cfg, out[-2000:]))
            mcs[cfg] = dict(violated="Terminates (expected: this environment never reads nor closes stdout)")
            continue
        r = ctx.tlc("RefServer", cfg, deadlock=True, timeout=1200, **kw)
        mcs[cfg] = dict(distinct=r.distinct, generated=r.generated, seconds=round(r.wall, 1))
    # 2. environment schedules: random walks of the specification (broad and deep), projected to the harness's steps
    scns, seen = [], set()
    for cfg, nq, nt in gen_cfgs:
        g = ctx.tlc("Gen_RefServer", cfg, workers=1, simulate="num=%d" % (nq if q else nt), depth=150, timeout=1200)
        got = {True: [], False: []}
        for s in g.json_lines("SCN "):
            k = json.dumps(s, sort_keys=True)
            if k not in seen:
                seen.add(k)
                got[bool(s["deep"])].append(s)
        for d in (False, True):   # as many of the broad walks as of those biased towards long lives
            rnd.shuffle(got[d])
            scns += got[d][:(per_gen[0] if q else per_gen[1])]
    # the grace period is real time (5 s): bound the number of executions that sit it out
    cap, kept, ngrace = (grace_cap[0] if q else grace_cap[1]), [], 0
    for s in scns:
        if s["kind"] in ("tracked", "unbounded") and any(h[0] == "G" for h in s["hist"]):
            ngrace += 1
            if ngrace > cap:
                continue
        kept.append(s)
    scns = []
    for n, s in enumerate(kept):
        ps = PROTOS[s["kind"]]
        scns.append(dict(kind=s["kind"], bind=s["bind"], proto=ps[n % len(ps)], hist=s["hist"]))
    scns = _directed(kinds) + scns
    if ctx.replay:
        scns = [_replay_scenario(ctx.replay)["scn"]] * 3
    # the slow ones first (they sit out real time), so that they do not form the tail of the parallel run
    scns.sort(key=lambda s: -(2 * any(h[0] == "G" for h in s["hist"]) * (s["kind"] in ("tracked", "unbounded")) + (s["kind"] == "abrupt")))
    scnp, outp, trp = (os.path.join(ctx.build, legname + x) for x in (".scn", ".out", ".trace"))
    binp = ctx.go_test_bin(pkg, [hdir], race=True, name=legname + "_race")

    def execute(items, tag=""):
        vf.write_ndjson(scnp + tag, items)
        p = ctx.run_harness(binp, test, env=dict(VERIF_SCN=scnp + tag, VERIF_OUT=outp + tag), timeout=1500, check=False)
        if "WARNING: DATA RACE" in p.stdout:
            i = p.stdout.index("WARNING: DATA RACE")
            ctx.candidate(dict(kind="race", leg=legname), "data race in the %s:\n%s" % (who, p.stdout[i:i + 3000]), dict(kind="race", report=p.stdout[i:i + 3000]))
        elif p.returncode != 0:
            ctx.harness_died(p, legname + " harness")
        res = vf.read_ndjson(outp + tag)
        if len(res) != len(items):
            raise vf.Machinery("%s harness returned %d results for %d scenarios" % (legname, len(res), len(items)))
        return res

    # 3. the real Run plays each schedule; 4. the acceptor explains each recorded execution
    traces = execute(scns)
    unrep = 0
    for t, s in zip(traces, scns):
        h = t.get("hang")
        if h:
            if h.startswith("harness"):
                raise vf.Machinery(h)
            if h.startswith("UNREPRODUCED"):
                unrep += 1
                continue
            ctx.candidate(dict(kind="hang", leg=legname, skind=t["kind"], bind=t["bind"], proto=t["proto"]),
                          "%s: %s (3/3 executions); schedule=%s events=%s" % (who, h, json.dumps(s["hist"]), _events(t)), dict(scn=s, trace=t))
    ok = [(t, s) for t, s in zip(traces, scns) if not t.get("hang")]
    acc, far = _accept(ctx, trace_cfg, [t for t, _ in ok], trp)
    rejected = [i for i in range(len(ok)) if i not in acc]
    if rejected:
        # a rejection counts when it reproduces in 3 of 3 executions
        again = rejected[:60]
        if len(rejected) > len(again):
            ctx.notes[legname + "_rejected_not_reexecuted"] = len(rejected) - len(again)
        counts = {i: 1 for i in again}
        for _ in range(2):
            tr2 = execute([ok[i][1] for i in again], ".again")
            a2, _f = _accept(ctx, trace_cfg, tr2, trp)
            for j, i in enumerate(again):
                if j not in a2 or tr2[j].get("hang"):
                    counts[i] += 1
        for i in again:
            t, s = ok[i]
            if counts[i] >= 3:
                at = far.get(i, 0)
                key = _key(legname, t, at)
                ctx.candidate(key, "%s execution is not a behaviour of RefServer (rejected 3/3): %s/%s/%s schedule=%s; explained up to [%s]; not explainable: %s; then [%s]" % (
                    who, t["kind"], t["bind"], t["proto"], json.dumps(s["hist"]), _events(t, at), key["at"], _events(dict(events=t["events"][at + 1:]))),
                    dict(scn=s, trace=t, key=key))
            else:
                unrep += 1
                if unrep <= 5:
                    at = far.get(i, 0)
                    ctx.log("unreproduced rejection (%d/3, not counted): %s/%s/%s schedule=%s explained up to [%s] not explainable: %s then [%s]" % (
                        counts[i], t["kind"], t["bind"], t["proto"], json.dumps(s["hist"]), _events(t, at), _key(legname, t, at)["at"],
                        _events(dict(events=t["events"][at + 1:]))))
    if unrep:
        ctx.notes[legname + "_unreproduced"] = unrep
    ctx.cov["traces_validated_against_impl"] += len(ok)
    ctx.cov["evaluations"] += len(traces)
    shapes = {(t["kind"], t["bind"], t["proto"], tuple(e["e"] + e.get("r", "") for e in t["events"])) for t, _ in ok}
    ctx.cov["distinct_nontrivial"] += len(shapes)
    seen_ev = sorted({e["e"] + (":" + e["r"] if "r" in e else "") for t, _ in ok for e in t["events"]})
    ctx.notes[legname] = dict(mc=mcs, schedules=len(scns), directed=len(_directed(kinds)), accepted=len(acc), rejected=len(rejected),
                              event_kinds_observed=seen_ev, protos=sorted({t["proto"] for t, _ in ok}))
    if ok:
        t, s = ok[0]
        ctx.sample(dict(leg=legname, kind=t["kind"], bind=t["bind"], proto=t["proto"], schedule=s["hist"], events=_events(t)))


def _replay_scenario(path):
    try:
        sc = json.load(open(path)).get("scenario")
    except (OSError, ValueError):
        return None
    return sc if isinstance(sc, dict) and isinstance(sc.get("scn"), dict) and "hist" in sc["scn"] else None


def owns_replay(path):
    """True if the replay file was written by this leg (checks/c11.py routes such a file here)."""
    return _replay_scenario(path) is not None


def leg(ctx):
    """RefServer.tla bound to referenceserver.Run (all five server kinds) and to the grpc-go reference server."""
    only = None
    if ctx.replay:
        sc = _replay_scenario(ctx.replay)
        if sc is None:
            return
        only = "grpcserverlife" if sc["scn"].get("proto") == "grpc" else "refserver"
    if only in (None, "refserver"):
        _refserver(ctx)
    if only in (None, "grpcserverlife"):
        _grpcserver(ctx)
    _assumptions(ctx)


def _refserver(ctx):
    _one(ctx, "refserver", "reference server", "internal/app/referenceserver", "refserver", "TestVerifRefServer",
         [("MC_RefServer.cfg", {}), ("MC_RefServer_nocancel.cfg", {}), ("MC_RefServer_noreader.cfg", dict(expect_violation=True))],
         [("Gen_RefServer.cfg", 900, 10000)],
         "Trace_RefServer.cfg", ["tracked", "hijacked", "abrupt"])


def _grpcserver(ctx):
    # the grpc-go reference server has the same life cycle (announcement before serving, drain without time limit):
    # same specification, second implementation
    _one(ctx, "grpcserverlife", "grpc-go reference server", "internal/app/grpcserver", "grpcserverlife", "TestVerifGrpcServerLife",
         [("MC_RefServer_grpc.cfg", {})] + ([] if ctx.quick else [("MC_RefServer_grpc_nocancel.cfg", {})]),
         [("Gen_RefServer_grpc.cfg", 500, 6000)],
         "Trace_RefServer_grpc.cfg", ["unbounded"], per_gen=(50, 800), grace_cap=(3, 30))


def _assumptions(ctx):
    ctx.notes["refserver_rule"] = (
        "server life cycle: TLC checks RefServer.tla (safety + liveness under fairness, deadlock check on) for the reference server (3 shutdown kinds x 3 bind modes x 4 config kinds, "
        "2 RPC slots) and the grpc-go server; environment schedules are random walks of the same specification (half of them biased towards long lives) plus a fixed list of directed "
        "schedules per server kind (HTTP/1.1, HTTP/1.1+TLS, h2c, HTTP/2+TLS, HTTP/3; grpc-go over h2c); each is played on the real Run over pipes under -race with a real client keeping "
        "RPCs in flight, and Trace_RefServer must explain the recorded events with the program's steps silent; a rejection or hang counts when it reproduces in 3 of 3 executions")
    ctx.assumptions += [
        "server life cycle (RefServer.tla): the runner eventually writes the config or closes stdin, reads the response or closes its end of stdout, and cancels the context; "
        "MC_RefServer_noreader.cfg shows Run does not return for a runner that walks away from stdout without closing it (the in-process runner after its 10 s response timeout)",
        "server life cycle: serve failures are injected by shutting down the listening socket under the accept loop; the grace period (5 s) and the 200 ms start check are real time - "
        "the log carries a Grace event only when 5 s have provably passed since the cancel call, and a watchdog (25 s) bounds every wait",
        "AsImplemented_H2CNotDrained: on h2c the HTTP server's shutdown does not wait for RPCs in flight (hijacked connections); HTTP/3 is closed abruptly; "
        "AsImplemented_GrpcDrainUnbounded: the grpc-go reference server's GracefulStop waits for RPCs in flight without a time limit",
    ]
