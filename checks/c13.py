"""C13 - the reference client's wire examiners accept well-formed responses and flag malformed ones.

spec: WireChecksDecl (abstract syntax of trailer blocks, percent strings, the status trio, Connect
      error / end-stream JSON, binary metadata, dispatch; grammar recognisers WellFormed..., the
      required feedback classes Expected..., AsImplemented_* leniencies), WireChecks (the examiners
      as machines: one action per line / byte / key / check, early exits), Gen_WireChecks (scenario
      generator; the design theorem machine == Expected and silent <=> grammar is checked on the
      way), Trace_WireChecks (acceptor of recorded executions).
code: internal/app/referenceclient: examineWireDetails, examineConnectError(+Detail, +DebugData),
      examineConnectEndStream, examineGRPCEndStream, checkGRPCStatus, checkBinaryMetadata,
      isValidHTTPFieldName/Value, examineJSON, checkNoDuplicateKeys (in-package, harness/c13);
      internal/app/referenceserver: grpcStatusTrailers, grpcWebStatusEndStream (in-package,
      harness/c13srv); internal/grpcutil.PercentEncodeMessage; the whole reference server and the
      reference client's invoke() over real HTTP."""
import json
import os

import vf

CPKG = "internal/app/referenceclient"
SPKG = "internal/app/referenceserver"

KINDS = ["block", "pct", "trio", "web", "err", "es", "bin", "dispatch", "emit"]


def _first(d, path):
    for p in path:
        if not isinstance(d, dict):
            return None
        d = d.get(p)
    return d


def _key(source, kind, exp, obs, job, extra=None):
    """small description of a disagreement, matched against known findings"""
    exp, obs = sorted(set(exp or [])), sorted(set(obs or []))
    key = dict(source=source, kind=kind, missing=",".join(sorted(set(exp) - set(obs))),
               extra=",".join(sorted(set(obs) - set(exp))), exp=",".join(exp), obs=",".join(obs))
    if extra:
        key.update(extra)
    return key


def _empty_name_only(job):
    """the only difference between the block/metadata and a well-formed one is an EMPTY field name"""
    kind = job.get("kind")
    if kind == "block":
        s = job.get("s") or []
        lines, cur = [], []
        for ch in s:
            if ch == "n":
                lines.append(cur)
                cur = []
            else:
                cur.append(ch)
        lines.append(cur)
        has = False
        for ln in lines:
            if ln and ln[0] == ":":
                has = True
        return has
    if kind == "es":
        for e in _first(job, ["top", "e"]) or []:
            if e.get("key") == "metadata" and _first(e, ["v", "k"]) == "map":
                names = [m.get("name") for m in e["v"]["x"]]
                if "emptyName" in names and "badName" not in names:
                    return True
    return False


def run(ctx):
    q = ctx.quick
    tier = "q" if q else "t"
    cbin = ctx.go_test_bin(CPKG, ["c13"])
    sbin = ctx.go_test_bin(SPKG, ["c13srv"])

    if ctx.replay:
        rp = json.load(open(ctx.replay))
        ex = _first(rp, ["scenario", "exec"])
        if not ex:
            raise vf.Machinery("replay file carries no execution")
        scnp = os.path.join(ctx.build, "c13.replay.ndjson")
        outp = os.path.join(ctx.build, "c13.replay.out.ndjson")
        vf.write_ndjson(scnp, [ex])
        ctx.run_harness(cbin, "TestVerifC13Exec", env=dict(VERIF_SCN=scnp, VERIF_OUT=outp))
        res = vf.read_ndjson(outp)[0]
        exp = rp["scenario"].get("exp") or []
        ctx.log("replay: observed %s (%s), specification requires %s" % (res["obs"], res.get("panic"), exp))
        if res.get("panic") or sorted(set(res["obs"])) != sorted(set(exp)):
            ctx.candidate(rp["key"], rp["what"], rp["scenario"])
        return

    # ------------------------------------------------------------------ 1+2. design theorem and scenarios, per family
    scns = {}
    for kind in KINDS:
        res = ctx.tlc("Gen_WireChecks", "Gen_WireChecks_%s_%s.cfg" % (kind, tier), timeout=1500,
                      workers=min(vf.NCPU, 8))
        scns[kind] = res.json_lines("SCN ")
        ctx.notes.setdefault("tlc", {})[kind] = dict(distinct=res.distinct, generated=res.generated,
                                                      scenarios=len(scns[kind]), wall_s=round(res.wall, 1))
        if not scns[kind]:
            raise vf.Machinery("generator printed no scenario for family " + kind)
    # liveness of the machines (every examiner run terminates, feedback only grows): the small families in
    # quick, every family (quick-sized) in thorough
    for kind in (["pct", "dispatch"] if q else KINDS):
        mc = ctx.tlc("WireChecks", "MC_WireChecks_%s_q.cfg" % kind, timeout=1500, workers=min(vf.NCPU, 8))
        ctx.notes.setdefault("tlc_liveness", {})[kind] = dict(distinct=mc.distinct, wall_s=round(mc.wall, 1))
    total = sum(len(v) for v in scns.values())
    ctx.log("scenarios: %d (%s)" % (total, ", ".join("%s %d" % (k, len(v)) for k, v in scns.items())))

    # ------------------------------------------------------------------ 3. replay on the real examiners
    replay = [s for k in KINDS if k != "emit" for s in scns[k]]
    scnp = os.path.join(ctx.build, "c13.scn.ndjson")
    outp = os.path.join(ctx.build, "c13.out.ndjson")
    vf.write_ndjson(scnp, replay)
    ctx.run_harness(cbin, "TestVerifC13Replay", env=dict(VERIF_SCN=scnp, VERIF_OUT=outp, VERIF_VARIANTS=2 if q else 3),
                    timeout=2400)
    res = vf.read_ndjson(outp)
    summ = [r for r in res if r.get("summary")]
    if not summ:
        raise vf.Machinery("replay harness wrote no summary")
    summ = summ[0]
    for r in res:
        if r.get("machinery"):
            raise vf.Machinery("replay harness: " + r["machinery"])
        if r.get("summary"):
            continue
        if r.get("repro", 0) < 3:
            ctx.notes["unreproduced"] = ctx.notes.get("unreproduced", 0) + 1
            continue
        job = r["job"]
        key = _key("replay", r["kind"], r["exp"], r["obs"], job,
                   dict(panic=bool(r.get("panic")), fn=_first(r, ["exec", "fn"]), empty_name=_empty_name_only(job)))
        ctx.candidate(key, "%s examiner: observed classes %s, specification requires %s%s; input %s; feedback lines %s" % (
            r["kind"], r["obs"], r["exp"], (" PANIC " + str(r["panic"])) if r.get("panic") else "",
            json.dumps(job)[:300], json.dumps(r.get("lines"))[:300]),
            dict(job=job, exp=r["exp"], obs=r["obs"], exec=r["exec"], lines=r.get("lines")))
    ctx.cov["evaluations"] += summ["evaluations"]
    ctx.cov["traces_validated_against_impl"] += summ["scenarios"]
    ctx.cov["distinct_nontrivial"] += summ["nontrivial"]
    ctx.notes["replay"] = summ
    for k in ("block", "web", "err", "es"):
        nz = [s for s in scns[k] if s["exp"]]
        if nz:
            ctx.sample(nz[(ctx.seed * 7919) % len(nz)])

    # ------------------------------------------------------------------ 3b. the repository's own encoders -> the examiners
    emit_in = [s for s in scns["emit"] if s["job"]["kind"] == "emitWeb"]
    ep = os.path.join(ctx.build, "c13.emit.scn.ndjson")
    er = os.path.join(ctx.build, "c13.emit.ndjson")
    eo = os.path.join(ctx.build, "c13.emit.out.ndjson")
    vf.write_ndjson(ep, emit_in)
    ctx.run_harness(sbin, "TestVerifC13SrvEmit", env=dict(VERIF_SCN=ep, VERIF_OUT=er, VERIF_VARIANTS=1 if q else 2,
                                                          VERIF_N=2000 if q else 40000), timeout=1200)
    ctx.run_harness(cbin, "TestVerifC13Emit", env=dict(VERIF_SCN=er, VERIF_OUT=eo), timeout=1800)
    emitted = vf.read_ndjson(eo)
    esum = [r for r in emitted if r.get("summary")]
    if not esum:
        raise vf.Machinery("emit harness wrote no summary")
    emit_recs = [r for r in emitted if r.get("kind") == "emit"]
    for r in emitted:
        if r.get("machinery"):
            raise vf.Machinery("emit harness: " + r["machinery"])
    ctx.notes["emit"] = dict(esum[0], flagged=sum(1 for r in emit_recs if r["obs"]))
    ctx.cov["evaluations"] += esum[0]["evaluations"]
    ctx.cov["distinct_nontrivial"] += esum[0]["emissions"]

    # ------------------------------------------------------------------ 4. recorded executions beyond the TLC families
    trp = os.path.join(ctx.build, "c13.rec.ndjson")
    ctx.run_harness(cbin, "TestVerifC13Record", env=dict(VERIF_OUT=trp, VERIF_N=6000 if q else 90000), timeout=1800)
    recs = vf.read_ndjson(trp)
    e2p = os.path.join(ctx.build, "c13.e2e.ndjson")
    ctx.run_harness(cbin, "TestVerifC13E2E", env=dict(VERIF_OUT=e2p, VERIF_N=360 if q else 6000), timeout=2400)
    e2e = vf.read_ndjson(e2p)
    e2sum = [r for r in e2e if r.get("summary")]
    if not e2sum:
        raise vf.Machinery("e2e harness wrote no summary")
    failed = [r for r in e2e if r.get("kind") == "e2e-failed"]
    if failed:
        raise vf.Machinery("e2e: %d calls could not be made, e.g. %s" % (len(failed), json.dumps(failed[0])[:400]))
    e2e_recs = [r for r in e2e if r.get("kind") == "e2e"]
    ctx.notes["e2e"] = dict(e2sum[0], flagged=sum(1 for r in e2e_recs if r["obs"]))

    # one trace file: recorded examiner executions, encoder emissions, end-to-end calls
    lines = []
    for r in recs:
        if r["kind"] == "enc":
            lines.append((dict(kind="enc", m=r["m"], enc=r["enc"], obs=r["obs"], back=r["back"]), r))
        else:
            lines.append((dict(kind=r["kind"], job=r["job"], obs=r["obs"]), r))
    for r in emit_recs:
        lines.append((dict(kind="emit", obs=r["obs"]), r))
    for r in e2e_recs:
        lines.append((dict(kind="e2e", obs=r["obs"]), r))
    shard = 40000
    rejected = 0
    for off in range(0, len(lines), shard):
        part = lines[off:off + shard]
        tp = os.path.join(ctx.build, "c13.trace.%d.ndjson" % off)
        vf.write_ndjson(tp, [l[0] for l in part])
        tr = ctx.tlc("Trace_WireChecks", "Trace_WireChecks.cfg", workers=1, env=dict(VERIF_TRACE=tp), timeout=1800)
        if not tr.lines("CONSUMED "):
            raise vf.Machinery("trace spec did not consume the whole trace")
        for ln in tr.lines("REJECT "):
            rejected += 1
            num, _, req = ln.partition(" ")
            required = json.loads(req.replace('\\"', '"')) if req else []
            small, full = part[int(num) - 1]
            kind = small["kind"]
            if kind == "enc":
                ctx.candidate(dict(source="record", kind="enc", obs=",".join(full["obs"]), back=full["back"]),
                              "PercentEncodeMessage: message %s encodes to classes %s, checkGRPCStatus says %s, decodes back: %s" % (
                                  full.get("text"), "".join(full["enc"]), full["obs"], full["back"]), dict(rec=full))
            elif kind in ("emit", "e2e"):
                msg = bytes.fromhex(full.get("message") or "")
                key = dict(source=kind, kind=kind, obs=",".join(sorted(set(full["obs"]))),
                           edge_space=msg != msg.strip(b" "), nd_positive=(full.get("nd") or 0) > 0,
                           web=(full.get("path") == "web") if kind == "emit" else full.get("protocol") == 3,
                           http=full.get("http"))
                ctx.candidate(key, "%s: what the reference server emitted is flagged by the reference client: %s (code %s, message hex %s, %s details%s); lines %s" % (
                    kind, full["obs"], full.get("code"), full.get("message"), full.get("nd"),
                    (", protocol %s http %s method %s" % (full.get("protocol"), full.get("http"), full.get("method"))) if kind == "e2e" else " path " + str(full.get("path")),
                    json.dumps(full.get("lines"))[:400]),
                    dict(rec=full, exec=full.get("exec"), exp=[]))
            else:
                job = full["job"]
                ctx.candidate(_key("record", kind, required, full["obs"], job,
                                   dict(panic="?panic" in full["obs"], fn=_first(full, ["exec", "fn"]), empty_name=_empty_name_only(job))),
                              "recorded execution of the %s examiner rejected by Trace_WireChecks: observed %s, specification requires %s, on %s" % (
                                  kind, full["obs"], required, json.dumps(job)[:400]),
                              dict(job=job, obs=full["obs"], exp=required, exec=full.get("exec")))
    ctx.cov["traces_validated_against_impl"] += len(lines)
    ctx.cov["evaluations"] += len(lines)
    ctx.cov["distinct_nontrivial"] += len({json.dumps(l[0], sort_keys=True) for l in lines if l[0].get("obs")})
    ctx.notes["recorded"] = dict(lines=len(lines), examiner=len(recs), emit=len(emit_recs), e2e=len(e2e_recs), rejected=rejected)
    if recs:
        ctx.sample(dict(recorded=dict(kind=recs[0]["kind"], job=recs[0].get("job"), obs=recs[0]["obs"])))

    # ------------------------------------------------------------------ 5. arbitrary bytes never crash the examiners
    fzp = os.path.join(ctx.build, "c13.fuzz.ndjson")
    ctx.run_harness(cbin, "TestVerifC13Fuzz", env=dict(VERIF_OUT=fzp, VERIF_N=20000 if q else 400000), timeout=2400)
    fz = vf.read_ndjson(fzp)
    fsum = [r for r in fz if r.get("summary")]
    if not fsum:
        raise vf.Machinery("fuzz harness wrote no summary")
    ctx.notes["fuzz"] = fsum[0]
    ctx.cov["evaluations"] += fsum[0]["calls"]
    for r in fz:
        if r.get("kind") == "fuzz" and r.get("repro", 0) >= 3:
            ctx.candidate(dict(source="fuzz", kind="panic", fn=_first(r, ["exec", "fn"]), panic=True),
                          "examiner %s panics on arbitrary input: %s" % (_first(r, ["exec", "fn"]), str(r.get("panic"))[:300]),
                          dict(exec=r["exec"], exp=[]))

    # the examiners read what the wire tracer captured (end-of-stream content, trailers): WireChecks.tla takes "the
    # captured content is the content that was on the wire, whatever came before on other responses" as given - that
    # is BodyTrace.tla's binding; a reduced form of it runs here (many bodies through the tracer in one process,
    # among them bodies cut inside their end-of-stream message)
    import sys
    sys.path.insert(0, os.path.dirname(os.path.abspath(__file__)))
    import c14
    c14.replay_reduced(ctx)

    ctx.cov["exhaustive"] = False
    ctx.cov["rule"] = ("TLC enumerates, per examiner, every abstract input of the bounded family (byte-class strings and line-shape "
                       "combinations for trailer blocks, percent strings, all combinations of the three status headers and their "
                       "gRPC-Web rendering with one block malformation, JSON objects with up to 3 entries incl. duplicates and every "
                       "detail-element shape, metadata maps, binary metadata, the dispatch table, 16 codes x message shapes x 0..2 "
                       "details for the encoders) and prints it with the classes the declarative specification requires; every one is "
                       "rendered to bytes 2-3 times and run on the real examiners by 1-4 routes. non-trivial = the specification "
                       "requires at least one feedback class (replay), the emission is a distinct error (emit), the recorded line "
                       "carries feedback (record).")
    ctx.assumptions += [
        "feedback lines are mapped to classes by an anchored pattern table; an unknown line is its own class and always a mismatch",
        "renderings avoid non-ASCII letters that have a different lower-case form and invalid UTF-8 inside field names "
        "(strings.ToLower would add an upper-case finding to an already invalid name); fuzzing covers them for crashes only",
        "fabricated tracer.Trace values stand for the wire in the replay; the end-to-end part uses real HTTP/1.1 and h2c connections",
    ]
