"""C07 - suite expansion selects, names and populates permutations per suite directives.
spec: SuiteExpandDecl.tla (meaning: Admits / CaseOf / FullName / PermOf / InstanceOf / GrpcApplies / rejection classes / Outcome),
      SuiteExpand.tla (machine: one action per file / suite / expandCases call, any map order; theorems),
      SuiteExpandPools.tla (lattices), MC_SuiteExpand_*.cfg (design checks),
      Gen_SuiteExpand*.cfg (runs + the outcome the meaning requires), Trace_SuiteExpand (acceptor of recorded
      expansions of the embedded corpus x shipped configurations x run modes and of seeded random suites).
harness: harness/c07 (in-package; parseTestSuites, newTestCaseLibrary, filterGRPCImplTestCases, allPermutations, parseConfig)."""
import json
import os
import vf

PKG = "internal/app/connectconformance"
PNAME = {0: "unspecified", 1: "Connect", 2: "gRPC", 3: "gRPC-Web"}


def suite_text(s):
    parts = ["name=%r" % "/".join(s["name"])]
    if s["mode"]:
        parts.append("mode=%s" % {1: "client", 2: "server"}[s["mode"]])
    for k in ("relP", "relV", "relC", "relZ"):
        if s[k]:
            parts.append("%s=%s" % (k, s[k]))
    if s["cvm"]:
        parts.append("cvm=%d" % s["cvm"])
    for k in ("tls", "cert", "get", "lim"):
        if s[k]:
            parts.append("relies_on_" + k)

    def tt(t):
        x = "%s:st%d" % ("/".join(t["name"]) or "<unnamed>", t["st"])
        if t["svc"] or t["mth"]:
            x += "(%s.%s)" % (t["svc"], t["mth"])
        if t["raw"] != "none":
            x += "[raw %s]" % t["raw"]
        if t["expand"]:
            x += "[expand]"
        if t["pre"]:
            x += "[pre]"
        return x
    parts.append("tests=[%s]" % ", ".join(tt(t) for t in s["tests"]))
    return "{" + " ".join(parts) + "}"


def scn_text(scn):
    cs = ("case set #%d" % scn["cs"]) if not scn.get("cases") else ("%d cases" % len(scn["cases"]))
    return "run mode %d, %s, suites %s" % (scn["mode"], cs, " ".join(suite_text(s) for s in scn["suites"]))


def want_text(exp):
    if exp["k"] == "ok":
        return "%d permutations" % len(exp["perms"])
    return "%s with one of %s" % ({"perr": "loading rejected", "lerr": "expansion rejected"}[exp["k"]], sorted(exp["errs"]))


def replay(ctx, binp, scns, casesets, tag):
    """run scenarios on the real code; report every reproduced mismatch as a candidate"""
    scnp = os.path.join(ctx.build, "c07.%s.scn.ndjson" % tag)
    outp = os.path.join(ctx.build, "c07.%s.out.ndjson" % tag)
    csp = os.path.join(ctx.build, "c07.%s.casesets.json" % tag)
    vf.write_ndjson(scnp, scns)
    with open(csp, "w") as fh:
        json.dump(casesets, fh)
    ctx.run_harness(binp, "TestVerifC07Replay", env=dict(VERIF_SCN=scnp, VERIF_OUT=outp, VERIF_CASESETS=csp,
                    VERIF_RUNS=5, VERIF_WORKERS=8), timeout=3000)
    res = vf.read_ndjson(outp)
    summ = [r for r in res if r.get("summary")]
    if not summ:
        raise vf.Machinery("replay harness wrote no summary")
    summ = summ[0]
    for r in res:
        if r.get("summary"):
            continue
        scn = scns[r["scn"]]
        if r["repro"] < 3:
            ctx.notes["unreproduced"] = ctx.notes.get("unreproduced", 0) + 1
            ctx.log("unreproduced mismatch ignored: %s" % json.dumps(r)[:400])
            continue
        key = dict(kind=r["kind"], exp_k=r["exp_k"], exp_errs=",".join(sorted(scn["exp"]["errs"])), wf=scn["wf"],
                   n_suites=len(scn["suites"]), origin=tag)
        what = "%s: observed %s; specification requires %s [%s]" % (r["kind"], r["detail"], want_text(scn["exp"]), scn_text(scn))
        rs = dict(scn)
        if not rs.get("cases"):
            rs["cases"] = casesets[str(scn["cs"])]
        ctx.candidate(key, what, dict(scn=rs))
    return summ


def run(ctx):
    q = ctx.quick
    binp = ctx.go_test_bin(PKG, ["c07"])

    if ctx.replay:
        obj = json.load(open(ctx.replay))["scenario"]
        if "scn" in obj:
            summ = replay(ctx, binp, [obj["scn"]], {}, "replay")
            ctx.cov["evaluations"] += summ["evaluations"]
            ctx.cov["traces_validated_against_impl"] += 1
        else:
            trp = os.path.join(ctx.build, "c07.replay.trace.ndjson")
            judge_trace(ctx, binp, None, trp, obj)
        return

    # ---- 1. design: machine == declarative outcome for every visiting order; laws of the meaning
    ctx.notes["mc_design"] = []
    for cfg in (["MC_SuiteExpand_dirs_q.cfg", "MC_SuiteExpand_pairs_q.cfg", "MC_SuiteExpand_tests_q.cfg", "MC_SuiteExpand_live.cfg"] if q else
                ["MC_SuiteExpand_dirs_t.cfg", "MC_SuiteExpand_flags_t.cfg", "MC_SuiteExpand_pairs_t.cfg", "MC_SuiteExpand_tests_t.cfg",
                 "MC_SuiteExpand_weird.cfg", "MC_SuiteExpand_live.cfg"]):
        mc = ctx.tlc("SuiteExpand", cfg, timeout=3000)
        ctx.notes["mc_design"].append(dict(cfg=cfg, distinct=mc.distinct, generated=mc.generated, wall_s=round(mc.wall, 1)))

    # ---- 2. spec -> code: generated runs with the outcome the meaning requires
    ph = ctx.seed
    gens = [("rel", ctx.pick(40, 1), 1, None), ("flags", ctx.pick(60, 2), 1, None), ("tests", 1, ctx.pick(40, 2), None),
            ("pairs", ctx.pick(6, 2), 1, None), ("collide", 1, 1, None), ("weird", 1, ctx.pick(4, 1), None),
            ("walk", 1, 1, "num=%d" % ctx.pick(700, 20000))]
    if not q:
        gens += [("tests3", 1, 20, None), ("triples", 4, 1, None)]
    scns, casesets, counts = [], {}, {}
    seen = set()
    for name, ss, ts, sim in gens:
        res = ctx.tlc("Gen_SuiteExpand", "Gen_SuiteExpand_%s.cfg" % name, timeout=3000, workers=1 if sim else None,
                      simulate=sim, depth=80 if sim else None,
                      env=dict(VERIF_SSTRIDE=ss, VERIF_TSTRIDE=ts, VERIF_PHASE=ph))
        for c in res.json_lines("CASESET "):
            casesets[str(c["id"])] = c["cases"]
        n = 0
        for s in res.json_lines("SCN "):
            k = json.dumps(s, sort_keys=True)
            if k in seen:
                continue
            seen.add(k)
            s["origin"] = name
            scns.append(s)
            n += 1
        counts[name] = n
    if not scns:
        raise vf.Machinery("generator produced no scenarios")
    ctx.log("scenarios: %s" % counts)
    summ = replay(ctx, binp, scns, casesets, "gen")
    ctx.cov["evaluations"] += summ["evaluations"]
    ctx.cov["traces_validated_against_impl"] += summ["scenarios"]
    ctx.cov["distinct_nontrivial"] += summ["nontrivial"]
    ctx.notes["replay"] = dict(summ, by_generator=counts)
    oks = [s for s in scns if s["exp"]["k"] == "ok"]
    for s in oks[:: max(1, len(oks) // 2)][:2] + [s for s in scns if s["exp"]["k"] == "perr"][:1] + \
            [s for s in scns if s["exp"]["k"] == "lerr" and s["exp"]["errs"] != ["nocases"]][:1]:
        ctx.sample(dict(run=scn_text(s), required=want_text(s["exp"]),
                        names=[p[0] for p in s["exp"]["perms"]][:6]))

    # ---- 3. code -> spec: the embedded corpus x shipped configurations x run modes, and seeded random suites
    trp = os.path.join(ctx.build, "c07.trace.ndjson")
    cfgs = ["default", os.path.join(vf.REPO, "testing", "reference-impls-config.yaml")]
    if not q:
        cfgs += [os.path.join(vf.REPO, "testing", f) for f in ("grpc-impls-config.yaml", "grpc-web-client-impl-config.yaml",
                                                               "grpc-web-server-impl-config.yaml")]
    judge_trace(ctx, binp, cfgs, trp, None)
    ctx.cov["exhaustive"] = False
    ctx.cov["rule"] = ("TLC enumerates runs (1-3 suite files x directive lattices: relevance lists of 14 shapes pairwise on the 4 axes, "
                       "all 16 reliance combinations x connect-version mode, 21 test-case shapes in lists of 1-3, suite/test names that "
                       "nest/collide/are not well-formed; x 9 sets of config cases x 3 run modes; sampled by stride in quick, random walks "
                       "for up to 3 suites x 8 tests) and prints for each the outcome SuiteExpandDecl!Outcome requires; each is loaded and "
                       "expanded 5 times by the real parseTestSuites/newTestCaseLibrary and compared (rejection class, name set, every "
                       "request field, untouched rest, grouping as a partition, gRPC-peer copies for the three peer combinations, "
                       "allPermutations for four). Non-trivial = the required outcome is not a bare 'no test cases apply'. Recorded: the "
                       "embedded corpus x shipped configurations x 3 run modes (3 expansions each) and seeded random suites, accepted line "
                       "by line by Trace_SuiteExpand with set equality.")
    ctx.assumptions += ["suite/test names do not contain the gRPC marker components '(grpc ... impl)'",
                        "request messages of generated test cases are well-typed for their stream type (expected-response computation is C02's subject)",
                        "error classes are recognised from the error text"]


def tlc_judge(ctx, recs, trp):
    """Trace_SuiteExpand over recs; returns {index: explanation} of the rejected lines"""
    big = [i for i, r in enumerate(recs) if r["src"] != "random"]
    small = [i for i, r in enumerate(recs) if r["src"] == "random"]
    # corpus lines are big (up to ~16k permutations): a few per TLC run; random lines are small
    shards = [big[i:i + 3] for i in range(0, len(big), 3)] + [small[i:i + 3000] for i in range(0, len(small), 3000)]
    rejected = {}
    for n, shard in enumerate(shards):
        if not shard:
            continue
        sp = "%s.%d" % (trp, n)
        vf.write_ndjson(sp, [recs[i] for i in shard])
        tr = ctx.tlc("Trace_SuiteExpand", "Trace_SuiteExpand.cfg", workers=1, env=dict(VERIF_TRACE=sp), timeout=3000)
        if tr.lines("CONSUMED ") != [str(len(shard))]:
            raise vf.Machinery("trace spec did not consume the whole trace shard %d" % n)
        for ex in tr.json_lines("REJECT "):
            rejected[shard[ex["line"] - 1]] = ex
        os.remove(sp)
    return rejected


def reobserve(ctx, binp, recs, tag):
    """run the real code again on the inputs of recorded lines"""
    inp = os.path.join(ctx.build, "c07.%s.reobs.in.ndjson" % tag)
    outp = os.path.join(ctx.build, "c07.%s.reobs.out.ndjson" % tag)
    vf.write_ndjson(inp, recs)
    ctx.run_harness(binp, "TestVerifC07Reobserve", env=dict(VERIF_SCN=inp, VERIF_OUT=outp), timeout=3000)
    res = vf.read_ndjson(outp)
    if len(res) != len(recs):
        raise vf.Machinery("reobserve returned %d records for %d inputs" % (len(res), len(recs)))
    return res


def judge_trace(ctx, binp, cfgs, trp, replay_obj):
    if replay_obj is None:
        ctx.run_harness(binp, "TestVerifC07Record", env=dict(VERIF_OUT=trp, VERIF_CONFIGS=",".join(cfgs),
                        VERIF_NRANDOM=ctx.pick(400, 6000)), timeout=3000)
        recs = vf.read_ndjson(trp)
    else:
        recs = reobserve(ctx, binp, [replay_obj["rec"]], "replay")
    if not recs:
        raise vf.Machinery("record harness wrote nothing")
    for r in recs:
        if r["obs"]["k"] in ("lerr", "perr") and r["obs"]["err"] == "unclassified":
            raise vf.Machinery("record harness cannot classify: %s" % r["obs"].get("msg"))
    rejected = tlc_judge(ctx, recs, trp)
    # reproduce before reporting: observe the rejected inputs again (3 times), judge again
    confirmed = dict(rejected)
    if rejected and replay_obj is None:
        # (bounded: the first rejected corpus line and the first 100 rejected random lines are re-checked and reported)
        idx = [i for i in sorted(rejected) if recs[i]["src"] != "random"][:1] + [i for i in sorted(rejected) if recs[i]["src"] == "random"][:100]
        ctx.notes["rejected_not_rechecked"] = len(rejected) - len(idx)
        confirmed = {i: rejected[i] for i in idx}
        for k in range(3):
            again = reobserve(ctx, binp, [recs[i] for i in idx], "r%d" % k)
            rej2 = tlc_judge(ctx, again, trp + ".again")
            for j, i in enumerate(idx):
                if j not in rej2 and i in confirmed:
                    del confirmed[i]
                    ctx.notes["unreproduced"] = ctx.notes.get("unreproduced", 0) + 1
    for i, r in enumerate(recs):
        if r["src"] == "corpus-unstable":
            ctx.candidate(dict(kind="unstable", origin="corpus", cfg=os.path.basename(r["cfg"]), mode=r["mode"]),
                          "repeated expansion of the embedded corpus (config %s, mode %d) gave a different result" % (r["cfg"], r["mode"]),
                          dict(rec=r))
        if r["obs"]["k"] == "badgroups":
            ctx.candidate(dict(kind="group", origin=r["src"], cfg=os.path.basename(r["cfg"]), mode=r["mode"]),
                          "casesByServer is not a partition by server instance: %s" % r["obs"].get("msg"), dict(rec=r))
    for i, ex in sorted(confirmed.items()):
        r = recs[i]
        if r["obs"]["k"] == "badgroups":
            continue
        key = dict(kind="trace_reject", origin=r["src"], cfg=os.path.basename(r["cfg"]), mode=r["mode"], got_k=ex["got_k"],
                   want_k=ex["want_k"], got_err=ex["got_err"])
        what = ("recorded expansion rejected by Trace_SuiteExpand (%s, config %s, run mode %d, %d suites, %d cases): observed %s %s with %d "
                "permutations; specification requires %s %s with %d; required but absent %s; not required %s; gRPC copies differing %s %s") % (
            r["src"], r["cfg"], r["mode"], len(r["suites"]), len(r["cases"]), ex["got_k"], ex["got_err"], ex["got_n"], ex["want_k"],
            sorted(ex["want_errs"]), ex["want_n"], json.dumps(ex["missing"])[:300], json.dumps(ex["extra"])[:300],
            json.dumps(ex["gc"])[:200], json.dumps(ex["gs"])[:200])
        ctx.candidate(key, what, dict(rec=dict(r, obs=dict(r["obs"], perms=[], gc=[], gs=[], gcs=[]))))
    big = [r for r in recs if r["src"] != "random"]
    small = [r for r in recs if r["src"] == "random"]
    ncorpus = len(big)
    ctx.cov["traces_validated_against_impl"] += len(recs)
    ctx.cov["evaluations"] += len(recs) + 2 * ncorpus
    ctx.cov["distinct_nontrivial"] += len({json.dumps(r["suites"], sort_keys=True) + str(r["mode"]) + r["cfg"] for r in recs
                                           if not (r["obs"]["k"] == "lerr" and r["obs"]["err"] == "nocases")})
    ctx.notes["trace"] = dict(lines=len(recs), corpus_lines=ncorpus, random_lines=len(small), rejected=len(rejected),
                              corpus=[dict(cfg=os.path.basename(r["cfg"]), mode=r["mode"], suites=len(r["suites"]),
                                           tests=sum(len(s["tests"]) for s in r["suites"]), cases=len(r["cases"]),
                                           permutations=len(r["obs"]["perms"]), all_permutations=r["obs"]["nall"])
                                      for r in recs if r["src"] == "corpus"])
    for r in recs:
        if r["src"] == "random" and r["obs"]["k"] == "ok":
            ctx.sample(dict(recorded="random suites %s, %d cases, run mode %d" % (" ".join(suite_text(s) for s in r["suites"])[:500],
                                                                                  len(r["cases"]), r["mode"]),
                            observed=[p[0] for p in r["obs"]["perms"]][:4]))
            break
