"""C11 - a server batch always yields exactly one outcome per case and terminates.
spec: ServerBatch.tla (runner loop + fault scripts), Gen_ServerBatch (allowed outcome vectors per script)."""
import json
import os
import sys
import vf


def norm(v):
    return ["noResult" if x == "noOutcome" else x for x in v]


def process_protocol(ctx, binp, only=None):
    """Process.tla: how a peer process is stopped (abort, grace period, forced close, give up); bound to the real runCommand."""
    allowed = {}
    for kind in ("polite", "stubborn", "holder"):
        ctx.tlc("Process", "MC_Process_%s.cfg" % kind, timeout=600)
        g = ctx.tlc("Gen_Process", "Gen_Process_%s.cfg" % kind, timeout=600)
        for x in g.json_lines("SCN "):
            allowed.setdefault(kind, set()).add(x["result"].replace("exit-error", "exited").replace("exit", "exited").replace("exiteded", "exited"))
    allowed["selfexit"] = {"exited"}
    allowed["selfexit-unread"] = {"exited"}
    # LocalProcess.tla: the same question for a peer that runs in process (each result() call gives up after one grace period)
    for kind in ("polite", "stubborn", "selfexit"):
        r = ctx.tlc("LocalProcess", "MC_LocalProcess_%s.cfg" % kind, timeout=600)
        allowed["inproc-" + kind] = {x for x in ("exited", "gave-up") if any(x in ln for ln in r.lines("SCN "))}
    kinds = ["polite", "selfexit", "selfexit-unread", "stubborn", "inproc-polite", "inproc-stubborn"] + ([] if ctx.quick else ["holder"])
    if only:
        kinds = only
    outp = os.path.join(ctx.build, "c11.proc")
    ctx.run_harness(binp, "TestVerifC11Process", env=dict(VERIF_OUT=outp, VERIF_KINDS=",".join(kinds)), timeout=120)
    obs = vf.read_ndjson(outp)
    if len(obs) != len(kinds):
        raise vf.Machinery("process harness returned %d observations for %d kinds" % (len(obs), len(kinds)))
    for o in obs:
        why = None
        if o.get("start_err"):
            raise vf.Machinery("could not start helper process: %s" % o["start_err"])
        if o.get("hang"):
            why = "result() did not return within 25 s after abort (two 5 s grace periods allowed)"
        elif o.get("alive_after"):
            why = "the peer process (pid %s) is still alive 2 s after result() returned (GoneWhenDone)" % o.get("pid")
        elif o.get("write_hang"):
            why = "a write to the stdin of a peer that has ended (PipesClosedWhenGone) did not return within 8 s"
        elif o["kind"] == "selfexit-unread" and not o.get("write_err"):
            why = "a 1 MiB write to the stdin of a peer that ended without reading reported success"
        elif o["result"] not in allowed[o["kind"]]:
            why = "result class %s not among %s" % (o["result"], sorted(allowed[o["kind"]]))
        elif o["seconds"] > 13:
            why = "stopping took %.1f s, more than two grace periods" % o["seconds"]
        elif o["kind"] in ("polite", "selfexit", "selfexit-unread") and o["seconds"] > 4:
            why = "a cooperative peer took %.1f s to be reaped" % o["seconds"]
        elif o["kind"] == "inproc-stubborn" and o["seconds"] > 8:
            why = "giving up on an in-process peer took %.1f s, more than one grace period" % o["seconds"]
        elif o["kind"] == "inproc-stubborn" and o["fired"] == [0, 0]:
            why = None   # the peer function never returned: no whenDone callback is due
        elif o["fired"] != [1, 1]:
            why = "whenDone callbacks fired %s times, exactly once each is required" % o["fired"]
        elif not o["stable"] or o["second_result_us"] > 500000:
            why = "result() is not stable/immediate on the second call"
        if why:
            ctx.candidate(dict(kind="process-" + o["kind"], why=why.split(" ")[0]), "process stop protocol (%s peer): %s; observed %s" % (o["kind"], why, json.dumps(o)), o)
    ctx.cov["traces_validated_against_impl"] += len(obs)
    ctx.cov["evaluations"] += len(obs)
    ctx.notes["process_protocol" + ("_reduced" if only else "")] = dict(kinds=kinds, observed=obs, allowed={k: sorted(v) for k, v in allowed.items()})


ASSUMPTIONS = ["scripted process/client runner stand in for real peers in the batch scripts (the client runner's own guarantees are discharged by the reduced ClientMux leg)",
                        "the 10 s serverResponseTimeout (server never answers) is not exercised",
                        "noResult (client drained) and noOutcome (failRemaining) are the same observable error and are compared as one class"]
RULE = ("every fault script for batches of N cases (N=2 quick; N=3 and 2 thorough): server fault kind x TLS x death position x "
                       "sync/async death notice x per-case client answer (pass/mismatch/client error/empty/never) x sync/async callbacks x "
                       "refusal position; TLC computes the set of outcome vectors the spec allows per script (several when the death "
                       "notice races with the send loop); each script is run 3x as reference and non-reference server on the real "
                       "runTestCasesForServer under -race; non-trivial = any fault or non-pass answer. Exhaustive for the stated N.")


def run(ctx):
    sys.path.insert(0, os.path.dirname(os.path.abspath(__file__)))
    import g_refserver
    if ctx.replay and g_refserver.owns_replay(ctx.replay):   # replay file written by the life-cycle leg
        g_refserver.leg(ctx)
        return
    if ctx.replay and "fired" in json.load(open(ctx.replay)).get("scenario", {}):   # written by the process-protocol leg
        binp = ctx.go_test_bin("internal/app/connectconformance", ["c11", "peers"], race=True)
        process_protocol(ctx, binp, only=[json.load(open(ctx.replay))["scenario"]["kind"]])
        return
    import g_sideband
    if ctx.replay and g_sideband.owns_replay(ctx.replay):   # replay file written by the side-channel leg
        g_sideband.leg(ctx)
        return
    if ctx.replay and "schedule" in json.load(open(ctx.replay)).get("scenario", {}):   # written by the multiplexer leg
        import c10
        c10.run(ctx)
        return
    mc = ctx.tlc("ServerBatch", "MC_ServerBatch.cfg", timeout=1800)
    ctx.notes["mc_design"] = dict(distinct=mc.distinct, generated=mc.generated)
    batch_leg(ctx, ctx.quick, True)
    if not ctx.replay:
        # ServerBatch.tla takes "reading the server's handshake response ends within the timeout, with the right
        # classification" as given: that is Framing.tla's binding (quick bounds)
        sys.path.insert(0, os.path.dirname(os.path.abspath(__file__)))
        import c09
        c09.replay_leg(ctx, True)
        # ... and "every request handed to the client runner gets its callback exactly once, and a refused send says
        # so" (a batch ends when all callbacks have come): that is ClientMux.tla's binding, reduced budget
        import c10
        c10.reduced_leg(ctx, 1500 if ctx.quick else 6000, "client_mux_leg")
    ctx.cov["exhaustive"] = True
    ctx.cov["rule"] = RULE
    ctx.assumptions += ASSUMPTIONS
    if not ctx.replay:
        # growth item: RefServer.tla (life cycle of a server process) bound to referenceserver.Run and grpcserver.Run
        g_refserver.leg(ctx)
        ctx.cov["rule"] += " " + ctx.notes.get("refserver_rule", "")
        # growth item: Sideband.tla (feedback side channel: printer, pipe, stderr reader) bound to internal.NewPrinter
        # and to the stderr goroutine of runTestCasesForServer
        g_sideband.leg(ctx)
        ctx.cov["rule"] += " " + ctx.notes.get("sideband_rule", "")


def batch_leg(ctx, q, with_process):
    """every fault script of Gen_ServerBatch on the real runTestCasesForServer; the outcome vector must be one the
    specification allows.  Also used by C04 (its verdict is over the outcomes this component records)."""
    g = ctx.tlc("Gen_ServerBatch", "Gen_ServerBatch_2.cfg" if q else "Gen_ServerBatch_3.cfg", timeout=1800)
    lines = g.json_lines("SCN ")
    if not q:
        lines += ctx.tlc("Gen_ServerBatch", "Gen_ServerBatch_2.cfg", timeout=1800).json_lines("SCN ")
    scripts = {}
    for x in lines:
        k = json.dumps(x["script"], sort_keys=True)
        e = scripts.setdefault(k, dict(script=x["script"], lines=x["lines"], sideband=x["sideband"], forwarded=x["forwarded"], allowed=[]))
        e["allowed"].append(dict(outcome=norm(x["outcome"]), sent=x["sent"], aborted=x["aborted"]))
    keys = sorted(scripts)
    if ctx.replay:
        rp = json.load(open(ctx.replay))["scenario"]
        keys = [k for k in keys if json.loads(k) == rp["script"]]
    scns = []
    for k in keys:
        for refsrv in (True, False):
            scns.append(dict(script=scripts[k]["script"], lines=scripts[k]["lines"], refsrv=refsrv, key=k))
    scnp, outp = os.path.join(ctx.build, "c11.scn"), os.path.join(ctx.build, "c11.out")
    vf.write_ndjson(scnp, scns)
    binp = ctx.go_test_bin("internal/app/connectconformance", ["c11", "peers"], race=True)
    if not ctx.replay and with_process:
        process_protocol(ctx, binp)
    p = ctx.run_harness(binp, "TestVerifC11Run", env=dict(VERIF_SCN=scnp, VERIF_OUT=outp, VERIF_REPS=3), timeout=3000, check=False)
    if "WARNING: DATA RACE" in p.stdout:
        j = p.stdout.index("WARNING: DATA RACE")
        ctx.candidate(dict(kind="race"), "data race reported by the Go race detector:\n" + p.stdout[j:j + 3000], dict(kind="race", report=p.stdout[j:j + 3000]))
    elif p.returncode != 0:
        ctx.harness_died(p, "TestVerifC11Run harness")
    res = vf.read_ndjson(outp)
    if len(res) != len(scns):
        raise vf.Machinery("harness returned %d results for %d scenarios" % (len(res), len(scns)))
    nontrivial = set()
    for r in res:
        scn = scns[r["i"]]
        e = scripts[scn["key"]]
        bad = []
        for o in r["obs"]:
            why = None
            if o.get("hang"):
                why = "hang: " + o["hang"]
            elif o.get("panic"):
                why = "panic: " + o["panic"]
            else:
                got = dict(outcome=norm(o["outcome"]), sent=o["sent"], aborted=o["aborted"])
                if got not in e["allowed"]:
                    why = "outcome vector %s not among the allowed %s" % (json.dumps(got), json.dumps(e["allowed"]))
                elif o["reqfill"]:
                    why = "request wrongly completed: " + o["reqfill"]
                elif scn["refsrv"] and scn["script"]["srv"] == "ok" and (o["sideband"] != e["sideband"] or o["forwarded"] != e["forwarded"]):
                    why = "side band: attributed %s forwarded %s, spec requires %s / %s" % (o["sideband"], o["forwarded"], e["sideband"], e["forwarded"])
                elif not scn["refsrv"] and (any(o["sideband"]) or o["forwarded"]):
                    why = "side band processed although the server is not a reference server"
            if why:
                bad.append(why)
        if len(bad) == len(r["obs"]):
            s = scn["script"]
            ctx.candidate(dict(kind=bad[0].split(":")[0].split(" ")[0], srv=s["srv"], die=s["die"], closeAt=s["closeAt"], refsrv=scn["refsrv"]),
                          "%s; script=%s refsrv=%s" % (bad[0], json.dumps(s), scn["refsrv"]), dict(script=s, refsrv=scn["refsrv"], obs=r["obs"]))
        elif bad:
            ctx.notes["unreproduced"] = ctx.notes.get("unreproduced", 0) + 1
            if any(b.startswith("hang") for b in bad):
                raise vf.Machinery("unreproduced hang: %s script=%s" % (bad[0], json.dumps(scn["script"])))
        s = scn["script"]
        if s["srv"] != "ok" or s["die"] or s["closeAt"] or any(a != "pass" for a in s["ans"]):
            nontrivial.add(scn["key"])
    ctx.cov["evaluations"] += sum(len(r["obs"]) for r in res)
    ctx.cov["traces_validated_against_impl"] += len(res)
    ctx.cov["distinct_nontrivial"] += len(nontrivial)
    for k in keys[:: max(1, len(keys) // 3)][:3]:
        ctx.sample(dict(script=scripts[k]["script"], allowed=scripts[k]["allowed"]))
    ctx.notes["scripts"] = len(keys)
