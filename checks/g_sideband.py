"""G3 (growth item, attached to C11) - the feedback side channel reference server -> runner.
spec: Sideband.tla (printer under its mutex, byte pipe, the runner's stderr reader, the runner's wait for it),
SidebandMC (constants), SidebandGen (scenarios + what the specification requires), SidebandTrace (acceptor of the
Write calls recorded under the real printer).
Entry point: leg(ctx), called from checks/c11.py."""
import json
import os
import random
import re
import threading
import vf

NAMES = [["n1"], ["n2"], ["n3", "CO", "SP", "b"]]      # SidebandMC!KnownNames
LONG = 5000
# (the opaque run "a" is rendered with percent signs in it: text is text, not a format)
PCT = "a%d100%s%"
BYTES = {"NL": "\n", "SP": " ", "CR": "\r", "CO": ":", "LONG": "X" * LONG, "a": PCT}
TOKEN = re.compile(r"X{%d}|%s|\n| |\r|:|[a-z0-9]+|[\s\S]" % (LONG, re.escape(PCT)))
UNTOK = {"\n": "NL", " ": "SP", "\r": "CR", ":": "CO", "X" * LONG: "LONG", PCT: "a"}


def _b(toks):
    return "".join(BYTES.get(t, t) for t in toks)


def _toks(s):
    return [UNTOK[m] if m in UNTOK else (m if re.fullmatch(r"[a-z0-9]+", m) else "?%02x" % ord(m)) for m in TOKEN.findall(s)]


def _harness(ctx, binp, test, items, tag):
    scnp, outp = os.path.join(ctx.build, "sideband.%s.scn" % tag), os.path.join(ctx.build, "sideband.%s.out" % tag)
    vf.write_ndjson(scnp, items)
    p = ctx.run_harness(binp, test, env=dict(VERIF_SCN=scnp, VERIF_OUT=outp), timeout=600, check=False)
    race = None
    if "WARNING: DATA RACE" in p.stdout:
        i = p.stdout.index("WARNING: DATA RACE")
        race = p.stdout[i:i + 3000]
    elif p.returncode != 0:
        ctx.harness_died(p, "sideband %s harness" % tag)
    res = vf.read_ndjson(outp)
    if len(res) != len(items):
        raise vf.Machinery("sideband %s harness returned %d results for %d scenarios" % (tag, len(res), len(items)))
    for r in res:
        if r.get("hang", "").startswith("harness"):
            raise vf.Machinery(r["hang"])
    return res, race


# ------------------------------------------------------------------ binding 1: the printer
def _accept(ctx, scripts, obs):
    trp = os.path.join(ctx.build, "sideband.trace")
    vf.write_ndjson(trp, [dict(sent=s, writes=[_toks(w) for w in (o.get("writes") or [])]) for s, o in zip(scripts, obs)])
    r = ctx.tlc("SidebandTrace", "Trace_Sideband.cfg", workers=4, heap="2g", env=dict(VERIF_TRACE=trp), timeout=900)
    return {int(x) - 1 for x in r.lines("ACCEPT ")}


def _printer(ctx, binp, scripts):
    obs, race = _harness(ctx, binp, "TestVerifSidebandPrinter", [dict(sent=s) for s in scripts], "printer")
    if race:
        ctx.candidate(dict(kind="race", leg="sideband", part="printer"), "data race in the printer (internal.NewPrinter) under concurrent PrefixPrintf calls:\n" + race,
                      dict(g3="printer", kind="race", report=race))
    for o in obs:
        if o.get("hang"):
            ctx.candidate(dict(kind="hang", leg="sideband", part="printer"), "printer: " + o["hang"], dict(g3="printer", sent=scripts[o["i"]]))
    acc = _accept(ctx, scripts, obs)
    bad = [i for i in range(len(scripts)) if i not in acc or obs[i].get("concurrent")]
    unrep = 0
    if bad:
        # schedule dependent: a rejected script is printed again up to 20 times; it counts with 3 rejections
        again = bad[:12]
        hits = {i: 1 for i in again}
        first = {i: obs[i] for i in again}
        for _ in range(19):
            todo = [i for i in again if hits[i] < 3]
            if not todo:
                break
            o2, _r = _harness(ctx, binp, "TestVerifSidebandPrinter", [dict(sent=scripts[i]) for i in todo], "printer")
            a2 = _accept(ctx, [scripts[i] for i in todo], o2)
            for j, i in enumerate(todo):
                if j not in a2 or o2[j].get("concurrent"):
                    hits[i] += 1
        for i in again:
            if hits[i] >= 3:
                conc = bool(first[i].get("concurrent"))
                ctx.candidate(dict(kind="printer-rejected", leg="sideband", part="printer", concurrent_writes=conc),
                              "the Write calls of concurrent PrefixPrintf calls are not a behaviour of the printer machine of Sideband.tla (messages interleave, or a Write call is missing / surplus / altered%s; 3 executions): "
                              "messages=%s writes=%s" % (", Write calls overlapped" if conc else "", json.dumps(scripts[i])[:600], json.dumps([w[:40] for w in first[i].get("writes") or []])[:600]),
                              dict(g3="printer", sent=scripts[i], writes=[w[:200] for w in first[i].get("writes") or []]))
            else:
                unrep += 1
    ctx.cov["traces_validated_against_impl"] += len(scripts)
    return dict(scripts=len(scripts), accepted=len(acc), rejected=len(bad), unreproduced=unrep,
                write_calls=sum(len(o.get("writes") or []) for o in obs))


# ------------------------------------------------------------------ binding 2: the reader
def _reader_item(s, hold):
    toks, chunks, k = s["written"], [], 0
    for n in s["chunks"]:
        chunks.append(_b(toks[k:k + n]))
        k += n
    if k != len(toks):
        raise vf.Machinery("generator: chunks do not cover the stream")
    nfwd = sum(1 for e in s["expect"] if e["k"] == "fwd")
    last_fwd = bool(s["expect"]) and s["expect"][-1]["k"] == "fwd"
    return dict(names=[_b(n) for n in NAMES], chunks=chunks, path=s["path"], nfwd=nfwd, hold_at=nfwd if (hold and last_fwd) else 0)


def _contains_in_order(hay, texts):
    at = 0
    for t in texts:
        j = hay.find(t, at)
        if j < 0:
            return False
        at = j + len(t)
    return True


def _judge(s, it, o):
    """-> None or (kind, explanation): the observation against what the specification requires"""
    if o.get("hang"):
        return "hang", o["hang"]
    if o.get("panic"):
        return "panic", o["panic"]
    want_fwd = [["referenceserver", _b(e["line"])] for e in s["expect"] if e["k"] == "fwd"]
    if o["forwarded"] != want_fwd:
        return "forwarded", "passed on to errPrinter %s, specification requires %s" % (json.dumps(o["forwarded"])[:400], json.dumps(want_fwd)[:400])
    overwritten = None
    short = lambda x: json.dumps(x).replace("X" * LONG, "<LONG>")  # noqa: E731
    for name in it["names"]:
        texts = [_b(e["text"]) for e in s["expect"] if e["k"] == "rec" and _b(e["name"]) == name]
        have = o["sideband"].get(name)
        if not texts:
            if have is not None:
                return "recorded-unexpected", "%r recorded for %r, specification: nothing" % (have, name)
            continue
        if have is None:
            return "not-recorded", "nothing recorded for %r, specification requires %s" % (name, texts)
        if len(texts) == 1 and have != texts[0]:
            return "text", "recorded for %r: %r, specification requires %r" % (name, have, texts[0])
        if not _contains_in_order(have, texts):
            if have == texts[-1]:
                # reported only if nothing else is wrong with this execution
                overwritten = overwritten or ("feedback-overwritten", "the server printed %d feedback messages for test case %r; the runner kept only the last one: recorded %s, "
                                              "specification requires all of %s" % (len(texts), name, short(have), short(texts)))
                continue
            return "text", "recorded for %r: %r, specification requires %s" % (name, have, texts)
        out = o["outcome"].get(name)
        if out is None or not _contains_in_order(out, texts) or (s["path"] == "normal" and len(texts) == 1 and out != texts[0]):
            return "outcome", "outcome of %r after merging the side band: %r, specification requires the feedback %s" % (name, out, texts)
    for name in o["sideband"]:
        if name not in it["names"]:
            return "recorded-unknown", "feedback recorded for %r which is not a test case of the batch" % name
    if s["path"] == "normal":
        if o["fwd_at_return"] != len(want_fwd) or o["side_at_return"] != o["sideband"] or o["held_return"]:
            return "returned-before-processed", ("the batch returned on its normal path before the reader had processed the server's stderr: %d of %d lines passed on, "
                                                 "side band %s then, %s later%s" % (o["fwd_at_return"], len(want_fwd), o["side_at_return"], o["sideband"],
                                                                                   "; returned while a pass-through was in progress" if o["held_return"] else ""))
    return overwritten


def _reader(ctx, binp, scns, rnd):
    held = set(rnd.sample(range(len(scns)), min(len(scns), 400))[:])
    nh = 0
    items = []
    for i, s in enumerate(scns):
        it = _reader_item(s, i in held and nh < ctx.pick(24, 120))
        nh += 1 if it["hold_at"] else 0
        items.append(it)
    obs, race = _harness(ctx, binp, "TestVerifSidebandReader", items, "reader")
    if race:
        ctx.candidate(dict(kind="race", leg="sideband", part="reader"), "data race in runTestCasesForServer / testResults while the server's stderr is read:\n" + race,
                      dict(g3="reader", kind="race", report=race))
    bad = [(i, _judge(scns[i], items[i], obs[i])) for i in range(len(scns))]
    bad = [(i, j) for i, j in bad if j]
    unrep, kinds = 0, {}
    if bad:
        again = bad[:80]
        hits = {i: 1 for i, _ in again}
        for _ in range(2):
            o2, _r = _harness(ctx, binp, "TestVerifSidebandReader", [items[i] for i, _ in again], "reader")
            for k, (i, j) in enumerate(again):
                j2 = _judge(scns[i], items[i], o2[k])
                if j2 and j2[0] == j[0]:
                    hits[i] += 1
        for i, j in again:
            if hits[i] >= 3:
                s = scns[i]
                nrec = {}
                for e in s["expect"]:
                    if e["k"] == "rec":
                        nrec[_b(e["name"])] = nrec.get(_b(e["name"]), 0) + 1
                key = dict(kind=j[0], leg="sideband", part="reader", path=s["path"], crashed=bool(s["crashed"]), max_feedback_per_case=max(nrec.values() or [0]))
                kinds[j[0]] = kinds.get(j[0], 0) + 1
                ctx.candidate(key, "side channel (3/3 executions): %s; stderr stream=%s" % (j[1], json.dumps(_b(s["written"]).replace("X" * LONG, "<LONG>"))[:500]),
                              dict(g3="reader", scn=s, item=dict(items[i], chunks=[c.replace("X" * LONG, "<LONG>") for c in items[i]["chunks"]]), key=key))
            else:
                unrep += 1
    early = [o for s, o in zip(scns, obs) if s["path"] == "early" and not o.get("hang")]
    ctx.cov["evaluations"] += len(scns)
    return dict(scenarios=len(scns), mismatching=len(bad), mismatching_not_reexecuted=max(0, len(bad) - 80), unreproduced=unrep, reproduced_kinds=kinds, held=nh,
                early_path=len(early), early_returned_with_lines_unprocessed=sum(1 for s, o in zip(scns, obs) if s["path"] == "early" and not o.get("hang")
                                                                                 and (o["fwd_at_return"] < len(o["forwarded"]) or o["side_at_return"] != o["sideband"])),
                early_returned_during_pass_through=sum(1 for o in early if o["held_return"]))


def _replay_scenario(path):
    try:
        sc = json.load(open(path)).get("scenario")
    except (OSError, ValueError):
        return None
    return sc if isinstance(sc, dict) and sc.get("g3") in ("printer", "reader") else None


def owns_replay(path):
    """True if the replay file was written by this leg (checks/c11.py may route such a file here)."""
    return _replay_scenario(path) is not None


def leg(ctx):
    """Sideband.tla bound to internal.NewPrinter (writers) and to the stderr reader of runTestCasesForServer."""
    q = ctx.quick
    rnd = random.Random(ctx.seed * 104729 + 3)
    rp = _replay_scenario(ctx.replay) if ctx.replay else None
    if ctx.replay and rp is None:
        return
    # the two harness binaries are built while TLC works
    bins, errs = {}, []

    def build():
        try:
            if rp is None or rp["g3"] == "printer":
                bins["printer"] = ctx.go_test_bin("internal", ["sideband"], race=True, name="sideband_printer_race")
            if rp is None or rp["g3"] == "reader":
                bins["reader"] = ctx.go_test_bin("internal/app/connectconformance", ["sidebandrun"], race=True, name="sideband_reader_race")
        except BaseException as e:  # noqa: reported below, in the main thread
            errs.append(e)
    th = threading.Thread(target=build)
    th.start()
    try:
        mcs, scns = {}, []
        if rp is None:
            # 1. design: safety + liveness, deadlock check on
            for cfg in ["MC_Sideband_q.cfg", "MC_Sideband_live.cfg"] + ([] if q else ["MC_Sideband_A.cfg", "MC_Sideband_B.cfg"]):
                r = ctx.tlc("SidebandMC", cfg, workers=8, heap="4g", deadlock=True, timeout=1200)
                mcs[cfg] = dict(distinct=r.distinct, generated=r.generated, seconds=round(r.wall, 1))
            # the early exits of the batch do not wait for the reader: TLC must find the counter-example
            r = ctx.tlc("SidebandMC", "MC_Sideband_early.cfg", workers=4, heap="2g", deadlock=True, timeout=600, expect_violation=True)
            if r.violated != "FinalMeansProcessed":
                raise vf.Machinery("MC_Sideband_early.cfg: expected the counter-example to FinalMeansProcessed, got %r\n%s" % (r.violated, r.out[-1500:]))
            mcs["MC_Sideband_early.cfg"] = dict(violated="FinalMeansProcessed (expected: AsImplemented_EarlyReturn)")
            # 2. scenarios: random walks of the specification
            seen = set()
            for cfg, nq, nt in (("Gen_Sideband.cfg", 100, 1500), ("Gen_Sideband_crash.cfg", 60, 1000)):
                g = ctx.tlc("SidebandGen", cfg, workers=1, heap="2g", simulate="num=%d" % (nq if q else nt), depth=250, timeout=1200)
                for s in g.json_lines("SCN "):
                    k = json.dumps(s, sort_keys=True)
                    if k not in seen:
                        seen.add(k)
                        scns.append(s)
            if len(scns) < 50:
                raise vf.Machinery("sideband generator produced only %d scenarios" % len(scns))
            for s in scns:
                if not s["crashed"] and s["expect"] != s["bymsg"]:
                    raise vf.Machinery("specification: line-level and message-level meaning differ for %s" % json.dumps(s)[:500])
    finally:
        th.join()
    if errs:
        raise errs[0]
    if rp is not None:
        if rp["g3"] == "printer":
            if rp.get("kind") == "race":
                return
            _printer(ctx, bins["printer"], [rp["sent"]] * 3)
        else:
            if rp.get("kind") == "race":
                return
            _reader(ctx, bins["reader"], [rp["scn"]], rnd)
        return
    # 3. binding 1: every distinct script of messages, printed by concurrent goroutines through the real printer
    scripts, seen = [], set()
    for s in scns:
        k = json.dumps(s["sent"])
        if k not in seen and any(s["sent"]):
            seen.add(k)
            scripts.append(s["sent"])
    pr = _printer(ctx, bins["printer"], scripts)
    # 4. binding 2: every stream, in the chunks TLC chose, read by the real runTestCasesForServer
    rd = _reader(ctx, bins["reader"], scns, rnd)
    classes = {(s["path"], bool(s["crashed"]), tuple(e["k"] for e in s["expect"])) for s in scns}
    ctx.cov["distinct_nontrivial"] += len(classes)
    ctx.notes["sideband"] = dict(mc=mcs, printer=pr, reader=rd, scenarios=len(scns), crashed=sum(1 for s in scns if s["crashed"]))
    if scns:
        s = scns[0]
        ctx.sample(dict(leg="sideband", stream=_b(s["written"]).replace("X" * LONG, "<LONG>"), chunks=s["chunks"], path=s["path"],
                        expect=[dict(k=e["k"], **({"name": _b(e["name"]), "text": _b(e["text"]).replace("X" * LONG, "<LONG>")} if e["k"] == "rec" else {"line": _b(e["line"]).replace("X" * LONG, "<LONG>")})) for e in s["expect"]]))
    ctx.notes["sideband_rule"] = (
        "feedback side channel: TLC checks Sideband.tla (2 writers x 1 message out of 4+4 classes, crash anywhere, every chunking; mutual exclusion, no interleaving, reader = declarative "
        "meaning line by line and message by message, processed-before-final on the normal path, reader finishes, termination; deadlock check on) and finds the counter-example for the early "
        "exits; random walks (3 writers x 2 messages out of 4 names x 14 text classes, with and without a crash) give the messages, the stream, its chunking and what the runner has to do; "
        "the messages are printed by concurrent goroutines through the real internal.NewPrinter under -race and SidebandTrace must explain the Write calls one by one; the streams are fed in "
        "TLC's chunks to the stderr of a scripted server under the real runTestCasesForServer and the attributed feedback, the merged outcomes, the passed-on lines and their completion "
        "at return are compared; a mismatch counts when it reproduces in 3 of 3 executions (printer: 3 rejections within 20)")
    ctx.assumptions += [
        "side channel (Sideband.tla): bytes are tokens (newline, blank, CR, colon, opaque runs; LONG = 5000 bytes > the reader's 4096-byte buffer); the pipe delivers arbitrary chunks at token boundaries",
        "side channel: test names are non-blank and contain no newline; AsImplemented_NameWithSeparator: a test name containing ': ' never receives feedback; "
        "AsImplemented_BlankFeedbackForwarded: feedback with empty/blank text is passed on as a diagnostic line; AsImplemented_MultiLine: every line of a multi-line message is classified on its own "
        "(continuation lines are passed on, or recorded for the test name they happen to start with); AsImplemented_EarlyReturn: the early exits of runTestCasesForServer (handshake failure, "
        "server died) do not wait for the stderr reader (MC_Sideband_early.cfg; observed on the real code as evidence only)",
        "side channel: the normal-path wait for the reader is attested one-sidedly (a pass-through call that is held sees the function return, or 150 ms pass and nothing is concluded)",
    ]
