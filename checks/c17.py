"""C17 - raw HTTP test payloads reach the wire exactly as specified.
spec: RawHTTPDecl (meaning of a raw response / request definition on the wire), RawHTTPOps + RawHTTP
(arbitration machine raw vs. normal response == declarative meaning of the history), RawHTTPEnc
(stream encoder machine == declarative byte string, invertibility), Gen_RawHTTP / Gen_RawHTTPDefs
(behaviours and definitions), Trace_RawHTTP (every recorded execution of the real code is judged by
TLC with the declarative operators)."""
import json
import os
import random
import re
import vf

SRV = "internal/app/referenceserver"
CLI = "internal/app/referenceclient"


def _key(o):
    return json.dumps(o, sort_keys=True)


def _judge(ctx, path, recs):
    """Trace_RawHTTP over the recorded file -> {line index (0-based): clause}"""
    rej = {}
    if not recs:
        return rej
    shard = 20000
    for a in range(0, len(recs), shard):
        part = recs[a:a + shard]
        p = path + ".part%d" % (a // shard)
        vf.write_ndjson(p, part)
        tr = ctx.tlc("Trace_RawHTTP", "Trace_RawHTTP.cfg", workers=1, env=dict(VERIF_TRACE=p), timeout=3000)
        got = tr.lines("CONSUMED ")
        if not got or int(got[0]) != len(part):
            raise vf.Machinery("Trace_RawHTTP did not consume %s (%s of %d lines)" % (p, got, len(part)))
        for ln in tr.lines("REJECT "):
            m = re.match(r"(\d+) (\S+)", ln)
            rej[a + int(m.group(1)) - 1] = m.group(2)
    return rej


def _split(recs):
    summ = [r for r in recs if r.get("kind") == "summary"]
    if not summ:
        raise vf.Machinery("harness wrote no summary line")
    return [r for r in recs if r.get("kind") != "summary"], summ[0]


def _hdr_map(hs):
    m = {}
    for h in hs:
        m.setdefault(h["cname"], []).extend(h["value"])
    return {k: v for k, v in m.items() if v}


def _has_absent(body):
    return any(it["m"]["p"] == "absent" for it in body.get("items", []))


def _closes_identity_sink(body):
    """an identity item with bytes and an explicit length that is followed by another item"""
    its = body.get("items", [])
    for i, it in enumerate(its[:-1]):
        m = it["m"]
        if it["hasLen"] and m["z"] in (0, 1) and m["p"] not in ("absent", "nil", "empty"):
            return True
    return False


def _cause(r, why):
    """classification of a rejected record by the MECHANISM visible in the observation (used for the
    known-finding match; anything that does not show one of these mechanisms stays unclassified)"""
    kind, obs = r["kind"], r["obs"]
    if kind in ("resp", "ops") and why == "trailers":
        if kind == "ops":
            return "header-values-repeated-in-same-named-trailer"   # judged against RawDef(D1): X-Both
        d = r["def"]
        hm, tm, om = _hdr_map(d["hdrs"]), _hdr_map(d["trls"]), _hdr_map(obs["trls"])
        declared = {h["cname"] for h in d["trls"]}          # also entries without values are announced
        both = [n for n in declared if n in hm]

        def leaked(n):   # the given trailer values plus k >= 1 copies of the same-named header's values
            got, want = sorted(om.get(n, [])), tm.get(n, [])
            for k in range(1, 8):
                if got == sorted(want + hm[n] * k):
                    return True
            return False
        others_ok = all(om.get(n) == tm[n] for n in tm if n not in both) and all(n in declared for n in om)
        if both and others_ok and all(leaked(n) or om.get(n) == tm.get(n) for n in both) and any(leaked(n) for n in both):
            return "header-values-repeated-in-same-named-trailer"
        spell = {}
        for h in d["trls"]:
            if h["value"]:
                spell.setdefault(h["cname"], set()).add(h["name"])
        multi = [n for n in spell if len(spell[n]) > 1]
        fine = all(om.get(n) == tm[n] for n in tm if n not in multi and n not in both)
        if multi and fine and all(set(om.get(n, [])) <= set(tm[n]) for n in multi):
            return "trailer-name-spelled-in-two-cases"
    if kind == "enc":
        if "nil pointer dereference" in obs.get("err", "") and _has_absent(r["body"]):
            return "nil-message-contents"
        if "closed pipe" in obs.get("err", "") and r["fl"] == "pipe":
            return "sink-closed-by-identity-compressor"
    if kind == "resp" and obs.get("err") and _has_absent(r["def"]["body"]):
        return "nil-message-contents"     # the connection is aborted where the item without payload is reached
    if kind == "req":
        d = r["def"]
        if ("nil pointer dereference" in obs.get("err", "") or "process died" in obs.get("err", "")) and (
                _has_absent(d["body"]) or any(e["m"]["p"] == "absent" for e in d["encq"])):
            return "nil-message-contents"
        if why == "body" and _closes_identity_sink(d["body"]) and not obs.get("err"):
            return "sink-closed-by-identity-compressor"
    return "unclassified"


class Stage:
    """one harness test function: run it on scenario lines, have TLC judge the records, re-run the
    rejected ones (fixed flavour, several repetitions) and report those that reproduce"""

    def __init__(self, ctx, name, binary, test, idfield):
        self.ctx, self.name, self.binary, self.test, self.idfield = ctx, name, binary, test, idfield
        self.records = 0
        self.accepted = 0

    def harness(self, tag, scn, env, timeout=6000):
        ctx = self.ctx
        out = os.path.join(ctx.build, "c17.%s.%s.out" % (self.name, tag))
        e = dict(env)
        e["VERIF_OUT"] = out
        if scn is not None:
            p = os.path.join(ctx.build, "c17.%s.%s.scn" % (self.name, tag))
            vf.write_ndjson(p, scn)
            e["VERIF_SCN"] = p
        ctx.run_harness(self.binary, self.test, env=e, timeout=timeout)
        recs, summ = _split(vf.read_ndjson(out))
        return out, recs, summ

    def run(self, tag, scn, env, repro_scn, what):
        """scn: scenario lines (or None for a seeded random run); repro_scn(record) -> scenario line that
        re-runs exactly that record's definition and flavour"""
        ctx = self.ctx
        out, recs, summ = self.harness(tag, scn, env)
        rej = _judge(ctx, out, recs)
        self.records += len(recs)
        self.accepted += len(recs) - len(rej)
        ctx.log("%s/%s: %d records, %d rejected by Trace_RawHTTP" % (self.name, tag, len(recs), len(rej)))
        if not rej:
            return recs
        # reproduce: each distinct (definition, flavour) again, 5 times; of the records that show one and
        # the same classified mechanism in one flavour only the first few are re-run (and reported)
        todo, seen, per_group = [], {}, {}
        for i, why in sorted(rej.items()):
            r = recs[i]
            k = (r["id"], r["fl"])
            if k in seen:
                continue
            cause = _cause(r, why)
            g = (r["fl"], why, cause)
            per_group[g] = per_group.get(g, 0) + 1
            if cause != "unclassified" and per_group[g] > 3:
                continue
            seen[k] = (r, why)
            todo.append(repro_scn(r))
        self.ctx.notes.setdefault("rejected_by_mechanism", {})
        for (fl, why, cause), n in per_group.items():
            m = self.ctx.notes["rejected_by_mechanism"]
            m[cause] = m.get(cause, 0) + n
        e2 = dict(env)
        e2.pop("VERIF_RANDOM", None)
        e2["VERIF_REPS"] = 5
        if self.name == "ops":
            e2["VERIF_FLAVOURS"] = ",".join(sorted({k[1] for k in seen}))
        out2, recs2, _ = self.harness(tag + ".repro", todo, e2)
        rej2 = _judge(ctx, out2, recs2)
        again = {}
        for i, r in enumerate(recs2):
            k = (self._orig_id(r, todo), r["fl"])
            a = again.setdefault(k, [0, 0])
            a[1] += 1
            if i in rej2:
                a[0] += 1
        for k, (r, why) in seen.items():
            n_rej, n_run = again.get(k, [0, 0])
            if n_rej < 3:
                ctx.notes["unreproduced"] = ctx.notes.get("unreproduced", 0) + 1
                if ctx.notes["unreproduced"] <= 5:
                    ctx.log("rejected once but not reproduced (%d of %d): %s" % (n_rej, n_run, json.dumps(r)[:300]))
                continue
            cause = _cause(r, why)
            key = dict(kind=r["kind"], fl=r["fl"], clause=why, cause=cause)
            d = r.get("def") or r.get("body") or r.get("ops")
            ctx.candidate(key, "%s %s [%s]: clause '%s' of the specification fails (%s; reproduced %d/%d): %s observed %s" % (
                what, r["fl"], r["kind"], why, cause, n_rej, n_run, json.dumps(d)[:500], json.dumps(r["obs"])[:500]),
                dict(stage=self.name, line=repro_scn(r), record=r))
        return recs

    def _orig_id(self, r, todo):
        return todo[r["id"]]["_id"]


def _sample(items, n, rnd):
    if n >= len(items):
        return list(items)
    idx = sorted(rnd.sample(range(len(items)), n))
    return [items[i] for i in idx]


def run(ctx):
    q = ctx.quick
    rnd = random.Random(ctx.seed)

    # ------------------------------------------------------------------ 1. design (TLC on the specification)
    if not ctx.replay:
        d1 = ctx.tlc("RawHTTP", "MC_RawHTTP_h1.cfg", timeout=1800)
        d2 = ctx.tlc("RawHTTP", "MC_RawHTTP_h2.cfg", timeout=1800)
        d3 = ctx.tlc("RawHTTP", "MC_RawHTTP_agrees.cfg", timeout=1800)
        d4 = ctx.tlc("RawHTTPEnc", "MC_RawHTTPEnc_q.cfg" if q else "MC_RawHTTPEnc.cfg", timeout=3000)
        # sensitivity of the design theorems (mutations of the SPECIFICATION must be refuted by TLC)
        s1 = ctx.tlc("RawHTTP", "MC_RawHTTP_nodel.cfg", expect_violation=True, timeout=600)
        s2 = ctx.tlc("RawHTTPEnc", "MC_RawHTTPEnc_adopt.cfg", expect_violation=True, timeout=600)
        if s1.violated != "RawExact" or s2.violated != "OnlyRangeErrors":
            raise vf.Machinery("design sensitivity runs did not produce the expected counterexamples: %s %s" % (s1.violated, s2.violated))
        ctx.notes["design"] = dict(arbitration_h1=d1.distinct, arbitration_h2=d2.distinct, machine_eq_declarative=d3.distinct,
                                   encoder=d4.distinct, refuted_spec_mutations=["finish without clearing same-named keys (RawExact)",
                                                                              "compressor Close closes the sink (OnlyRangeErrors)"])

    # ------------------------------------------------------------------ 2. behaviours and definitions
    g_ops = ctx.tlc("Gen_RawHTTP", "Gen_RawHTTP_q.cfg" if q else "Gen_RawHTTP_t.cfg", timeout=3000)
    ops = g_ops.json_lines("SCN ")
    defs = g_ops.json_lines("DEFS ")
    if not ops or len(defs) != 1:
        raise vf.Machinery("Gen_RawHTTP printed %d behaviours, %d DEFS lines" % (len(ops), len(defs)))
    if ctx.replay:
        g_resp, g_req, g_body = [], [], []
    else:
        g_resp = ctx.tlc("Gen_RawHTTPDefs", "Gen_RawHTTPDefs_resp.cfg", timeout=3000).json_lines("SCN ")
        g_req = ctx.tlc("Gen_RawHTTPDefs", "Gen_RawHTTPDefs_req.cfg", timeout=3000).json_lines("SCN ")
        g_body = ctx.tlc("Gen_RawHTTPDefs", "Gen_RawHTTPDefs_body.cfg", timeout=3000).json_lines("SCN ")
    n_resp_all, n_req_all = len(g_resp), len(g_req)
    if q:   # quick: a seeded sample of the enumerated domain (thorough: all of it)
        g_resp = _sample(g_resp, 300, rnd)
        g_req = _sample(g_req, 250, rnd)
        g_body = _sample(g_body, 250, rnd)
    ctx.log("behaviours %d; response definitions %d of %d; request definitions %d of %d; bodies %d" % (
        len(ops), len(g_resp), n_resp_all, len(g_req), n_req_all, len(g_body)))

    # ------------------------------------------------------------------ 3. the real code
    srv = ctx.go_test_bin(SRV, ["c17"])
    clidir = os.path.join(ctx.build, "c17cli")
    os.makedirs(clidir)
    src = open(os.path.join(vf.VERIF, "harness", "c17", "zz_verif_c17_common_test.go")).read()
    src = src.replace("package referenceserver", "package referenceclient", 1)
    with open(os.path.join(clidir, "zz_verif_c17_common_test.go"), "w") as fh:
        fh.write(src)
    cli = ctx.go_test_bin(CLI, ["c17/cli", os.path.relpath(clidir, os.path.join(vf.VERIF, "harness"))])

    st_ops = Stage(ctx, "ops", srv, "TestVerifC17Ops", "id")
    st_resp = Stage(ctx, "resp", srv, "TestVerifC17Defs", "id")
    st_enc = Stage(ctx, "enc", srv, "TestVerifC17Enc", "id")
    st_req = Stage(ctx, "req", cli, "TestVerifC17Req", "id")
    stages = dict(ops=st_ops, resp=st_resp, enc=st_enc, req=st_req)
    defs_env = dict(VERIF_DEFS=json.dumps(defs[0]))

    def ids(lines):
        return [dict(l, _id=i) for i, l in enumerate(lines)]

    def repro_def(r):
        return {"kind": r["kind"], "def": r["def"], "fl": r["fl"], "_id": r["id"]}

    def repro_body(r):
        return dict(kind="enc", body=r["body"], fl=r["fl"], _id=r["id"])

    if ctx.replay:
        rp = json.load(open(ctx.replay))["scenario"]
        st = stages[rp["stage"]]
        line = dict(rp["line"], _id=0)
        env = {}
        if rp["stage"] == "ops":
            env.update(defs_env)
            env["VERIF_FLAVOURS"] = rp["record"]["fl"]
        st.run("replay", [line], env, lambda r: line, "replayed " + rp["stage"])
        _evidence(ctx, stages, [], [], [], [])
        return

    # 3a. arbitration behaviours on rawResponder / rawResponseWriter (recorder, HTTP/1.1, h2c)
    ops_l = ids(ops)
    recs_ops = st_ops.run("gen", ops_l, defs_env, lambda r: dict(ops_l[r["id"]], _id=r["id"]),
                          "arbitration behaviour replayed on rawResponder")
    if not q:   # thorough: all behaviours with one more operation, over the recorder
        ops5 = ids(ctx.tlc("Gen_RawHTTP", "Gen_RawHTTP_t5.cfg", timeout=3000).json_lines("SCN "))
        env5 = dict(defs_env, VERIF_FLAVOURS="rec")
        recs_ops += st_ops.run("gen5", ops5, env5, lambda r: dict(ops5[r["id"]], _id=r["id"]),
                               "arbitration behaviour replayed on rawResponder")
        ctx.notes["behaviours_5_ops"] = len(ops5)
    # 3b. response definitions through the real reference server
    recs_resp = st_resp.run("gen", ids(g_resp), dict(VERIF_COMBOS=3 if q else 8), repro_def,
                            "raw response sent by the reference server")
    # 3c. request definitions through rawRequestSender and the whole reference client
    recs_req = st_req.run("gen", ids(g_req), dict(VERIF_COMBOS=2 if q else 3), repro_def,
                          "raw request sent by the reference client")
    # 3d. the encoders on their own (buffer, byte-wise writer, pipe)
    recs_enc = st_enc.run("gen", ids(g_body), {}, repro_body, "body encoder")

    # ------------------------------------------------------------------ 4. beyond the TLC domain: seeded random definitions
    n_rand = 160 if q else 4000
    recs_resp += st_resp.run("random", None, dict(VERIF_RANDOM=n_rand, VERIF_COMBOS=2 if q else 4), repro_def,
                             "random raw response sent by the reference server")
    recs_req += st_req.run("random", None, dict(VERIF_RANDOM=n_rand // 2, VERIF_COMBOS=2), repro_def,
                           "random raw request sent by the reference client")
    recs_enc += st_enc.run("random", None, dict(VERIF_RANDOM=n_rand), repro_body, "body encoder (random body)")
    # 4b. the encoders from several goroutines at once (concurrent requests / RPCs): same bytes as alone, and no
    # data race (race-detector build of the same test)
    srv_race = ctx.go_test_bin(SRV, ["c17"], race=True)
    outp = os.path.join(ctx.build, "c17.encrace.out")
    p = ctx.run_harness(srv_race, "TestVerifC17Enc", env=dict(VERIF_RANDOM=40 if q else 400, VERIF_CONC=1, VERIF_OUT=outp), timeout=3000, check=False)
    if "WARNING: DATA RACE" in p.stdout:
        j = p.stdout.index("WARNING: DATA RACE")
        ctx.candidate(dict(kind="race", stage="enc"), "data race between concurrent renderings of raw bodies:\n" + p.stdout[j:j + 3000],
                      dict(stage="enc", kind="race", report=p.stdout[j:j + 3000]))
    elif p.returncode != 0:
        ctx.harness_died(p, "concurrent encoder harness")
    recs_enc += st_enc.run("conc", None, dict(VERIF_RANDOM=n_rand, VERIF_CONC=1), repro_body, "body encoder (concurrent renderings)")

    _evidence(ctx, stages, recs_ops, recs_resp, recs_req, recs_enc)
    ctx.notes["domain"] = dict(behaviours=len(ops), response_definitions=len(g_resp), response_definitions_enumerated=n_resp_all,
                               request_definitions=len(g_req), request_definitions_enumerated=n_req_all, bodies=len(g_body),
                               random_definitions=dict(resp=n_rand, req=n_rand // 2, enc=n_rand))
    for s in (ops[len(ops) // 2], g_resp[len(g_resp) // 3]["def"], g_req[len(g_req) // 2]["def"], g_body[len(g_body) // 2]["body"]):
        ctx.sample(s)


def _nontrivial(r):
    k = r["kind"]
    if k == "ops":
        ops = r["ops"]
        return any(o["o"] == "setraw" or o["mid"] and o["o"] in ("wh", "write", "flush") for o in ops) and \
            any(o["o"] in ("wh", "write", "flush") for o in ops)
    if k == "enc":
        return r["body"]["k"] != "none" and (r["body"].get("items") or r["body"].get("m"))
    d = r["def"]
    return bool(d["hdrs"] or d.get("trls") or d["body"]["k"] != "none" or d.get("rawq") or d.get("encq"))


def _evidence(ctx, stages, recs_ops, recs_resp, recs_req, recs_enc):
    total = sum(s.records for s in stages.values())
    ctx.cov["evaluations"] += total
    ctx.cov["traces_validated_against_impl"] += total
    distinct = set()
    for r in recs_ops + recs_resp + recs_req + recs_enc:
        if _nontrivial(r):
            distinct.add(_key([r["kind"], r["fl"], r.get("def") or r.get("body") or r.get("ops")]))
    ctx.cov["distinct_nontrivial"] += len(distinct)
    ctx.cov["exhaustive"] = False
    ctx.notes["records"] = {k: dict(recorded=s.records, accepted_by_TLC=s.accepted) for k, s in stages.items()}
    ctx.cov["rule"] = (
        "TLC enumerates (a) every behaviour of the arbitration machine up to MaxOps handler-side operations (header sets, "
        "WriteHeader/Write/Flush, setRawResponse - also between canSendResponse and the write) and (b) structured families of "
        "raw response / raw request / body definitions (status x header shapes x trailer shapes x bodies: 6 flags classes x 4 "
        "length classes, 6 payloads x 7 compression values, all pairs/triples of 8 item shapes; verbs x paths x inline/raw/"
        "encoded query shapes x header shapes); quick replays a seeded sample of (b), thorough all of it. Each is executed on "
        "the real code (rawResponder over a recorder / HTTP/1.1 / h2c; createServer in reference mode over HTTP/1.1, h2c, "
        "HTTP/2+TLS with unary/client-stream/server-stream/bidi RPCs in Connect/gRPC/gRPC-web framing; rawRequestSender and "
        "the whole reference client against a plain recording server; the encoders on buffer/byte-wise/pipe sinks) and the "
        "recorded (definition, observation) is judged by TLC (Trace_RawHTTP) with the declarative operators. Seeded random "
        "definitions beyond the enumerated domain (flags 0..255, lengths up to 2^32-1, up to 6 items, random payload bytes, "
        "header spellings) are recorded and judged the same way. distinct_nontrivial = distinct (kind, flavour, definition) "
        "records whose definition has a body, header, trailer or query parameter (behaviours: at least one gated call and one "
        "setRawResponse).")
    ctx.assumptions += [
        "C(z,p) is uninterpreted: that a byte range IS payload p compressed with z is decided by stock decoders (compress/gzip, "
        "compress/zlib, andybalholm/brotli, klauspost/zstd, golang/snappy framed) on the observer side",
        "fields derived by the HTTP stack from the raw payload itself are admitted when truthful (AsImplemented_StackHeaders / "
        "AsImplemented_StackReqHeaders: Content-Length, sniffed Content-Type, Date, Trailer announcement, Go's default User-Agent)",
        "query parameters are compared per name in the order inline, raw, encoded (AsImplemented_QueryOrder)",
        "a compressed empty payload may have no bytes exactly under the formats whose stock decoder reads no bytes as the empty payload (AsImplemented_EmptyCompressed; the Go side reports those formats)",
        "definitions HTTP itself cannot carry are outside the domain: bodies with 1xx/204/304, Content-Length that contradicts "
        "the body, names the stack refuses as trailers",
        "the header that earlier middleware puts on the writer before the handler runs is Vary: Origin (rs/cors)",
    ]
