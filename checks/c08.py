"""C08 - test-name patterns follow glob semantics; every given pattern is honoured.

spec:  GlobDecl.tla     declarative: Match (three equivalent definitions), Selected, Marked, TrulyUnmatched,
                        ReportOK (AsImplemented_MaybeShadowed), Ambiguous, Collect
       GlobLaws.tla     laws of the declarative definitions (TLC, all patterns/pairs in the bound)
       Glob.tla         the prefix-tree matcher + tryMatchPatterns loop as a machine == declarative
       GlobCollect.tla  the argsToPatterns / parsePatternFile loops as a machine == Collect
       Gen_Glob*.tla, Gen_GlobCollect.tla   scenario generators (expected values from the declarative operators)
       Trace_Glob.tla   acceptor of executions recorded from the real code
code:  harness/c08      (package connectconformance): parsePatterns/matchPattern/allUnmatched, tryMatchPatterns,
                        testCaseFilter, testResults marking, Run (validation, ambiguity check)
       harness/c08main  (package main): argsToPatterns, parsePatternFile, the flag set built by bind;
       thorough/quick   the built connectconformance binary (patterns that reach Run, via its error text)
"""
import json
import os
import sys
import subprocess
import concurrent.futures

import vf

PKG = "internal/app/connectconformance"
MAIN = "cmd/connectconformance"


def _trailing_run(pats):
    """pats: list of component lists"""
    return any(len(p) >= 2 and p[-1] == "**" and p[-2] == "**" for p in pats)


def _dedupe(items):
    seen, res = set(), []
    for it in items:
        k = json.dumps(it, sort_keys=True)
        if k not in seen:
            seen.add(k)
            res.append(it)
    return res


# ------------------------------------------------------------------ design checks
def design(ctx):
    q = ctx.quick
    notes = {}
    for cfg in (["pattern", "pair_q", "collect"] if q else ["pattern_t", "pair", "collect"]):
        r = ctx.tlc("GlobLaws", "MC_GlobLaws_%s.cfg" % cfg, timeout=1800)
        notes["laws_" + cfg] = dict(distinct=r.distinct, wall=round(r.wall, 1))
    machine_cfgs = ["MC_Glob_safety_q.cfg", "MC_Glob_deep.cfg"] if q else \
        ["MC_Glob_safety_t.cfg", "MC_Glob_deep.cfg", "MC_Glob_three.cfg", "MC_Glob_live.cfg"]
    for cfg in machine_cfgs:
        r = ctx.tlc("Glob", cfg, timeout=1800)
        notes[cfg[:-4]] = dict(distinct=r.distinct, wall=round(r.wall, 1))
    r = ctx.tlc("GlobCollect", "MC_GlobCollect.cfg" if q else "MC_GlobCollect_t.cfg", timeout=900)
    notes["MC_GlobCollect"] = dict(distinct=r.distinct, wall=round(r.wall, 1))
    ctx.notes["design_checks"] = notes


# ------------------------------------------------------------------ spec -> code: matching / selection / report
def generate_glob(ctx):
    q = ctx.quick
    fams = ["pair", "set", "filter", "amb"] if q else ["pair_t", "set_t", "filter_t", "amb_t"]
    scns, counts = [], {}
    for f in fams:
        r = ctx.tlc("Gen_Glob", "Gen_Glob_%s.cfg" % f, timeout=1800)
        got = r.json_lines("SCN ")
        counts[f] = len(got)
        scns += got
    ncombo = 0
    for k in range(2 if q else 12):
        r = ctx.tlc("Gen_Glob", "Gen_Glob_combo.cfg" if q else "Gen_Glob_combo_t.cfg", timeout=900,
                    extra=("-seed", str(ctx.seed * 1000 + k)))
        got = r.json_lines("SCN ")
        ncombo += len(got)
        scns += got
    counts["combo(random, seeded)"] = ncombo
    scns = _dedupe(scns)
    counts["distinct"] = len(scns)
    ctx.notes["generated"] = counts
    return scns


def replay_glob(ctx, binp, scns):
    scnp = os.path.join(ctx.build, "c08.scn.ndjson")
    outp = os.path.join(ctx.build, "c08.out.ndjson")
    vf.write_ndjson(scnp, scns)
    ctx.run_harness(binp, "TestVerifC08Replay", env=dict(VERIF_SCN=scnp, VERIF_OUT=outp, VERIF_TMP=os.path.join(ctx.build, "tmp-replay"),
                                                        VERIF_MAX_RUN=100000), timeout=3000)
    res = vf.read_ndjson(outp)
    summ = [r for r in res if r.get("summary")]
    if not summ:
        raise vf.Machinery("replay harness wrote no summary")
    summ = summ[0]
    for r in res:
        if r.get("summary"):
            continue
        if r.get("clause") == "harness":
            raise vf.Machinery("replay harness problem: %s" % json.dumps(r)[:1500])
        if r.get("repro", 0) < 3:
            raise vf.Machinery("mismatch not reproduced 3 times (deterministic code!): %s" % json.dumps(r)[:1500])
        key = dict(side="match", clause=r["clause"], fam=r["fam"], has_trailing_dstar_run=r["has_trailing_dstar_run"],
                   agrees_after_trailing_dstar_collapse=r["agrees_after_trailing_dstar_collapse"])
        ctx.candidate(key, "patterns %s: clause '%s' violated: %s" % (json.dumps(r.get("pats")), r["clause"], r["detail"]), r)
    ctx.cov["evaluations"] += summ["evaluations"] + summ["pair_name_evaluations"]
    ctx.cov["traces_validated_against_impl"] += summ["scenarios"]
    ctx.cov["distinct_nontrivial"] += summ["nontrivial"]
    ctx.notes["replay"] = summ
    return summ


# ------------------------------------------------------------------ spec -> code: collection
def generate_collect(ctx):
    cfgs = ["Gen_GlobCollect_small.cfg"] if ctx.quick else ["Gen_GlobCollect_full.cfg", "Gen_GlobCollect_lines.cfg"]
    scns = []
    for c in cfgs:
        scns += ctx.tlc("Gen_GlobCollect", c, timeout=1800).json_lines("SCN ")
    scns = _dedupe(scns)
    ctx.notes.setdefault("generated", {})["collect"] = len(scns)
    return scns


def collect_key(via, first_at_only):
    return dict(side="collect", via=via, got_is_first_at_argument_only=bool(first_at_only))


def replay_collect(ctx, binm, scns):
    scnp = os.path.join(ctx.build, "c08.collect.scn.ndjson")
    outp = os.path.join(ctx.build, "c08.collect.out.ndjson")
    vf.write_ndjson(scnp, scns)
    ctx.run_harness(binm, "TestVerifC08Collect", env=dict(VERIF_SCN=scnp, VERIF_OUT=outp, VERIF_TMP=os.path.join(ctx.build, "tmp-collect")),
                    timeout=3000)
    res = vf.read_ndjson(outp)
    summ = [r for r in res if r.get("summary")]
    if not summ:
        raise vf.Machinery("collect harness wrote no summary")
    summ = summ[0]
    for r in res:
        if r.get("summary"):
            continue
        if r.get("repro", 0) < 3:
            raise vf.Machinery("collect mismatch not reproduced: %s" % json.dumps(r)[:1500])
        ctx.candidate(collect_key(r["via"], r["got_is_first_at_argument_only"]),
                      "flag values %s (via %s): collected %s%s, spec requires %s" % (
                          json.dumps(r["render"]["argv"]), r["via"], json.dumps(r["got"]),
                          (" error " + r["got_err"]) if r.get("got_err") else "",
                          "an error (unreadable file)" if r["line"]["exp"]["err"] else json.dumps(r["want"])), r)
    ctx.cov["evaluations"] += summ["evaluations"] + summ["flag_evaluations"]
    ctx.cov["traces_validated_against_impl"] += summ["scenarios"]
    ctx.cov["distinct_nontrivial"] += summ["nontrivial"]
    ctx.notes["replay_collect"] = summ


# ------------------------------------------------------------------ code -> spec: Trace_Glob
def accept_trace(ctx, recs, tag):
    """recs: list of recorded lines (dicts with t in list|combo|collect). Returns set of rejected indices."""
    rejected = set()
    shard = 20000
    for s in range(0, len(recs), shard):
        part = recs[s:s + shard]
        trp = os.path.join(ctx.build, "c08.%s.%d.trace.ndjson" % (tag, s))
        vf.write_ndjson(trp, part)
        tr = ctx.tlc("Trace_Glob", "Trace_Glob.cfg", workers=1, env=dict(VERIF_TRACE=trp), timeout=2400)
        done = tr.lines("CONSUMED ")
        if not done or int(done[0]) != len(part):
            raise vf.Machinery("Trace_Glob did not consume the whole trace (%s of %d)" % (done, len(part)))
        for ln in tr.lines("REJECT "):
            rejected.add(s + int(ln) - 1)
    return rejected


def reobserve(ctx, binp, binm, lines, tag):
    """run the inputs of recorded lines through the real code again; returns the fresh lines (main + companions)"""
    res = []
    for kind, binary, test in (("glob", binp, "TestVerifC08Reobserve"), ("collect", binm, "TestVerifC08CollectReobserve")):
        part = [r for r in lines if (r["t"] == "collect") == (kind == "collect")]
        if not part:
            continue
        src = os.path.join(ctx.build, "c08.%s.%s.in.ndjson" % (tag, kind))
        outp = os.path.join(ctx.build, "c08.%s.%s.out.ndjson" % (tag, kind))
        vf.write_ndjson(src, part)
        ctx.run_harness(binary, test, env=dict(VERIF_SCN=src, VERIF_OUT=outp, VERIF_TMP=os.path.join(ctx.build, "tmp-" + tag)), timeout=1800)
        res += vf.read_ndjson(outp)
    return res


def judge_recorded(ctx, binp, binm, recs, rejected, reproduce=True):
    """turn rejected recorded lines into candidates: reproduce (two more observations of the same input, both
    rejected by Trace_Glob again), then attribute through the companion line (same scenario with trailing runs of
    '**' collapsed, observed on the real code as well)"""
    by_id = {r["id"]: i for i, r in enumerate(recs)}
    mains = [recs[i] for i in sorted(rejected) if not recs[i].get("of")]
    if not mains:
        return
    if reproduce:
        for k in (1, 2):
            again = reobserve(ctx, binp, binm, mains, "repro%d" % k)
            rej2 = accept_trace(ctx, again, "repro%d" % k)
            rej_ids = {again[i]["id"] for i in rej2}
            for r in mains:
                if r["id"] not in rej_ids:
                    raise vf.Machinery("rejected recorded line was not rejected again when observed once more: %s" % json.dumps(r)[:1000])
    for r in mains:
        if r["t"] == "collect":
            ctx.candidate(collect_key("recorded", r.get("first_at_only")),
                          "recorded argsToPatterns execution rejected by Trace_Glob: args %s -> err=%s pats=%s" % (
                              json.dumps(r["args"]), r["err"], json.dumps(r["pats"])), dict(rec=r))
            continue
        pats = r["pats"] if r["t"] == "list" else r["run"] + r["skip"] + r["failing"] + r["flaky"]
        comp = by_id.get(r["id"] + "x")
        collapsed_ok = comp is not None and comp not in rejected
        key = dict(side="match", clause="recorded-" + r["t"], fam="recorded", has_trailing_dstar_run=_trailing_run(pats),
                   agrees_after_trailing_dstar_collapse=bool(collapsed_ok and _trailing_run(pats)))
        ctx.candidate(key, "recorded execution rejected by Trace_Glob: %s" % json.dumps(r)[:900], dict(rec=r))


def record_and_accept(ctx, binp, binm):
    q = ctx.quick
    corp = os.path.join(ctx.build, "c08.corpus.ndjson")
    ctx.run_harness(binm, "TestVerifC08Corpus", env=dict(VERIF_OUT=corp, VERIF_REPO_DIR=vf.REPO), timeout=600)
    trp = os.path.join(ctx.build, "c08.rec.ndjson")
    ctx.run_harness(binp, "TestVerifC08Record", env=dict(VERIF_OUT=trp, VERIF_TMP=os.path.join(ctx.build, "tmp-rec"),
                                                        VERIF_N=1500 if q else 12000, VERIF_CORPUS=corp,
                                                        VERIF_CORPUS_CHUNK=1500, VERIF_CORPUS_MAXCHUNKS=2 if q else 100), timeout=3000)
    trc = os.path.join(ctx.build, "c08.rec.collect.ndjson")
    ctx.run_harness(binm, "TestVerifC08CollectRecord", env=dict(VERIF_OUT=trc, VERIF_TMP=os.path.join(ctx.build, "tmp-crec"),
                                                                VERIF_N=1500 if q else 20000), timeout=3000)
    allrecs = vf.read_ndjson(trp) + vf.read_ndjson(trc)
    info = [r for r in allrecs if r["t"] in ("corpusinfo", "summary")]
    recs = [r for r in allrecs if r["t"] in ("list", "combo", "collect")]
    ctx.notes["corpus"] = [r for r in info if r["t"] == "corpusinfo"]
    ctx.notes["recorded_run_level_kinds"] = [r for r in info if r["t"] == "summary"]
    rejected = accept_trace(ctx, recs, "rec")
    judge_recorded(ctx, binp, binm, recs, rejected)
    mains = [r for r in recs if not r.get("of")]
    ctx.cov["traces_validated_against_impl"] += len(mains)
    ctx.cov["evaluations"] += len(recs)

    def wild_bound(r):
        if r["t"] == "collect":
            return len(r["args"]) > 1 and any(a["k"] != "lit" for a in r["args"])
        if r["t"] == "list":
            return len(r["matched"]) > 0 and any("*" in p or "**" in p for p in r["pats"])
        return (len(r["sel"]) < len(r["names"])) or len(r["markF"]) > 0 or len(r["markK"]) > 0
    ctx.cov["distinct_nontrivial"] += len({json.dumps(r, sort_keys=True) for r in mains if wild_bound(r)})
    ctx.notes["recorded"] = dict(lines=len(recs), main=len(mains), rejected=len(rejected),
                                 by_type={t: sum(1 for r in mains if r["t"] == t) for t in ("list", "combo", "collect")})
    for t in ("combo", "collect"):
        ex = [r for r in mains if r["t"] == t]
        if ex:
            ctx.sample(ex[len(ex) // 2], limit=8)


# ------------------------------------------------------------------ the built binary
def _tok(i, j):
    return "verif nomatch %d-%d/**/x" % (i, j)


def binary_level(ctx, scns):
    """patterns slice that reaches connectconformance.Run, observed through the 'unmatched patterns' error of the
    real binary: every supplied pattern is one that matches no test case, so the error lists the collected set."""
    import random
    rnd = random.Random(ctx.seed * 7919 + 5)
    n = 16 if ctx.quick else 160
    cands = [s for s in scns if len(s["args"]) >= 2 and any(a["k"] != "lit" for a in s["args"])]
    rnd.shuffle(cands)
    cands = cands[:n]
    binp = ctx.go_build(MAIN, name="connectconformance.bin")
    flags = [("--run", "run patterns"), ("--skip", "no-run patterns"), ("--known-failing", "known failing"), ("--known-flaky", "known flaky")]
    jobs = []
    for idx, s in enumerate(cands):
        d = os.path.join(ctx.build, "bin%d" % idx)
        os.makedirs(d)
        argv, first_at = [], None
        flag, what = flags[idx % 4]
        for i, a in enumerate(s["args"], 1):
            if a["k"] == "lit":
                val = _tok(i, 0)
            elif a["k"] == "bare":
                val = "@"
            elif a["k"] == "missing":
                val = "@" + os.path.join(d, "missing%d.txt" % i)
            else:
                path = os.path.join(d, "pats %d.txt" % i)
                with open(path, "w", newline="") as fh:
                    for j, k in enumerate(a["lines"], 1):
                        ws = rnd.choice(["", " ", "\t", "  "])
                        fh.write({"pat": ws + _tok(i, j) + ws, "blank": ws, "comment": ws + "# " + _tok(i, j)}[k] + rnd.choice(["\n", "\r\n"]))
                val = "@" + path
            if a["k"] != "lit" and first_at is None:
                first_at = i
            argv += [flag, val]
        want = sorted(_tok(i, j) for i, j in s["exp"]["pats"])
        # a client that passes the PATH lookup but cannot be executed: Run stops at "error starting client"
        client = os.path.join(d, "bad-client")
        with open(client, "wb") as fh:
            fh.write(b"\x00\x01not an executable\n")
        os.chmod(client, 0o755)
        jobs.append((s, d, [binp, "--mode", "client"] + argv + ["--", client], what, want, first_at))

    def run1(job):
        s, d, cmd, what, want, first_at = job
        outs = []
        for _ in range(3):
            p = subprocess.run(cmd, cwd=d, env=vf.goenv(), stdout=subprocess.PIPE, stderr=subprocess.PIPE, text=True, timeout=300)
            outs.append((p.returncode, p.stderr))
        return outs

    with concurrent.futures.ThreadPoolExecutor(max_workers=8) as ex:
        results = list(ex.map(run1, jobs))
    bad = 0
    for job, outs in zip(jobs, results):
        s, d, cmd, what, want, first_at = job
        if len(set(outs)) != 1:
            raise vf.Machinery("binary output not stable: %r" % (outs,))
        rc, err = outs[0]
        head = what + ": unmatched and possibly invalid patterns:\n"
        got = [l for l in err.split(head, 1)[1].split("\n") if l.strip()] if head in err else None
        if s["exp"]["err"]:
            ok = rc != 0 and got is None and "missing" in err and "error starting client" not in err
        elif not want:
            ok = got is None and "error starting client" in err
        else:
            ok = got == want
        if rc == 0 or (not ok and got is None and head not in err and "error starting client" not in err and "missing" not in err):
            raise vf.Machinery("unexpected behaviour of the binary: rc=%d stderr=%s" % (rc, err[:600]))
        ctx.cov["evaluations"] += 1
        if ok:
            continue
        bad += 1
        only_first = False
        if first_at is not None and s["args"][first_at - 1]["k"] != "missing":
            fa = sorted(_tok(first_at, j) for j, k in enumerate(s["args"][first_at - 1]["lines"], 1) if k == "pat")
            only_first = (got == fa) if got is not None else (fa == [] and "error starting client" in err)
        ctx.candidate(collect_key("binary", only_first),
                      "binary: %s -> patterns that reached Run: %s; spec requires %s" % (
                          json.dumps(cmd[1:]), json.dumps(got) if got is not None else "(stderr) " + err[:300],
                          "an error" if s["exp"]["err"] else json.dumps(want)), dict(binary=dict(args=s["args"], cmd=cmd[1:], stderr=err)))
    ctx.notes["binary_level"] = dict(invocations=len(jobs), disagreeing=bad)
    ctx.cov["traces_validated_against_impl"] += len(jobs)


# ------------------------------------------------------------------ replay of one violation file
def replay_one(ctx, binp, binm):
    scn = json.load(open(ctx.replay))["scenario"]
    if scn.get("via") == "flags":
        replay_collect(ctx, binm, [scn["line"]])
        ctx.sample(scn["line"])
    elif "rec" in scn or "via" in scn:
        if "via" in scn:  # a collect mismatch from the generated domain
            rec = dict(t="collect", id="replay", args=scn["line"]["args"], err=False, pats=[], first_at_only=False,
                       files_json=json.dumps(scn["render"]["files"]), err_text="")
        else:
            rec = scn["rec"]
        recs = []
        for k in range(3):  # three observations of the same input
            for x in reobserve(ctx, binp, binm, [rec], "replay%d" % k):
                x = dict(x)
                if x.get("of"):
                    x["of"] += "#%d" % k
                    x["id"] = x["of"] + "x"
                else:
                    x["id"] += "#%d" % k
                recs.append(x)
        judge_recorded(ctx, binp, binm, recs, accept_trace(ctx, recs, "replay"), reproduce=False)
        ctx.cov["traces_validated_against_impl"] += 1
        ctx.sample(recs[0])
    else:
        replay_glob(ctx, binp, [scn["line"]])
        ctx.sample(scn["line"])


def run(ctx):
    sys.path.insert(0, os.path.dirname(os.path.abspath(__file__)))
    import g_cli
    if ctx.replay and g_cli.owns_replay(ctx.replay):   # replay file written by the command-line leg
        g_cli.leg(ctx)
        ctx.cov["rule"] = "replay of one scenario"
        return
    binp = ctx.go_test_bin(PKG, ["c08"])
    binm = ctx.go_test_bin(MAIN, ["c08main"])
    if ctx.replay:
        scn = json.load(open(ctx.replay))["scenario"]
        if "binary" in scn:
            # expected value from the specification: one TLC run of the collection machine on exactly these arguments
            exp = collect_expectation(ctx, scn["binary"]["args"])
            binary_level(ctx, [dict(args=scn["binary"]["args"], exp=exp)])
        else:
            replay_one(ctx, binp, binm)
        ctx.cov["rule"] = "replay of one scenario"
        return
    # 1. design: laws of the declarative definitions, machine == declarative
    design(ctx)
    # 2./3. spec -> code
    scns = generate_glob(ctx)
    ctx.log("generated %d glob scenarios" % len(scns))
    replay_glob(ctx, binp, scns)
    step = max(1, len(scns) // 3)
    for s in scns[::step][:3]:
        ctx.sample(s, limit=8)
    cscns = generate_collect(ctx)
    ctx.log("generated %d collect scenarios" % len(cscns))
    replay_collect(ctx, binm, cscns)
    ctx.sample(cscns[len(cscns) // 2], limit=8)
    # 4. code -> spec
    record_and_accept(ctx, binp, binm)
    # 5. the built binary
    binary_level(ctx, cscns)
    # "a case is run iff it matches some --run pattern and no --skip pattern" is a statement about run(): the trie, the
    # collection and the report are bound above; that run() applies the filter to the names the permutations really
    # have (the grpc-go peers' permutations carry a marker component) is the reference-mode selection leg of C05
    # (Trace_Select: outcomes == GlobDecl.SelectedSet over all names), reduced to two pattern sets here
    import c05
    c05.reference_mode(ctx, only=[0, 4, 5] if ctx.quick else None)
    # growth item: the command-line contract of the runner (CLI.tla: which flag combinations are usage errors, in which
    # order they are diagnosed, and what a valid command line means) bound to the real command
    g_cli.leg(ctx)
    ctx.cov["exhaustive"] = False
    ctx.cov["rule"] = (
        "TLC enumerates (a) every pattern of up to 4 (thorough 5) components over {a,b,*,**} against every name of up to 4 (5) "
        "components [pair], (b) every list of 1..2 patterns of up to 3 components x 19-36 name sets (each single name, all names, names "
        "of one length, names by first component) [set], (c) every (run, skip) and (known-failing, known-flaky) of one pattern each "
        "[filter, amb], (d) seeded random name sets x random lists for all four flags over {a,b,c} up to 4 components [combo], "
        "(e) every list of up to 3 (4) flag values each a literal / '@' / unreadable @file / @file of up to 2 (3) lines "
        "(pattern|blank|comment) [collect]; each with the result the declarative operators require. The Go harnesses replay them on "
        "parsePatterns/matchPattern/allUnmatched, tryMatchPatterns, testCaseFilter, testResults, Run (error text, counts) and on "
        "argsToPatterns directly and behind the real flag set, two byte-renderings per file. Recorded: random scenarios up to 8 "
        "components / 6 patterns per list / 5 literals, the shipped known-failing files against the permutation names of the embedded "
        "suites, random argument lists up to 8 values / 12 lines - accepted line by line by Trace_Glob. Non-trivial = a pattern with "
        "a wildcard matches at least one name of the scenario (glob), or an @-argument stands among several values (collect); "
        "distinct by construction (TLC states) resp. by JSON text (recorded).")
    ctx.assumptions += [
        "test names never contain a component that is exactly '*' or '**' (the tree would treat it as a wildcard child)",
        "names reach the matcher split at '/'; Run-level scenarios need names of >= 2 components (suite name / test name)",
        "a shadowed pattern (every name it matches is also matched by another pattern of the same list) may be reported as unmatched "
        "(AsImplemented_MaybeShadowed); a bare '@' contributes no pattern (AsImplemented_BareAt)",
        "binary level: the set of patterns that reached Run is read from the 'unmatched and possibly invalid patterns' error text",
    ]


def collect_expectation(ctx, args):
    """CollectResult(args) computed by TLC (Trace_Glob accepts exactly one (err, pats) for given args; here we simply enumerate
    the machine GlobCollect on the singleton domain through the generator and pick the matching line)."""
    for cfg in ("Gen_GlobCollect_small.cfg", "Gen_GlobCollect_lines.cfg", "Gen_GlobCollect_full.cfg"):
        for s in ctx.tlc("Gen_GlobCollect", cfg, timeout=1800).json_lines("SCN "):
            if s["args"] == args:
                return s["exp"]
    raise vf.Machinery("argument list of the replay file is outside the generated domain")
