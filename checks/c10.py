"""C10 - client multiplexer answers every request exactly once, whatever the client does.
spec: ClientMux.tla (senders / reader / closer / waiter / process wrapper / client environment),
      Gen_ClientMux (controller schedules), Trace_ClientMux (acceptor of recorded executions)."""
import json
import os
import sys
import subprocess
import vf

GEN = [("Gen_ClientMux_happy.cfg", 0.25), ("Gen_ClientMux_mild.cfg", 0.20), ("Gen_ClientMux_sim.cfg", 0.35), ("Gen_ClientMux_polite.cfg", 0.20)]


def validate(ctx, traces, tag, module="Trace_ClientMux"):
    """returns (accepted_idx_set, still_running_idx_set); traces: list of dict(events=[...])"""
    shards = max(1, min(12, len(traces) // 150))
    acc, still = set(), set()
    import concurrent.futures as cf
    def one(k):
        idx = list(range(k, len(traces), shards))
        if not idx:
            return [], []
        p = os.path.join(ctx.build, "%s.shard%d.ndjson" % (tag, k))
        vf.write_ndjson(p, [dict(events=traces[i]["events"]) for i in idx])
        r = ctx.tlc(module, module + ".cfg", workers=2, env=dict(VERIF_TRACE=p), timeout=2400, heap="4g")
        a = {idx[int(x) - 1] for x in r.lines("ACCEPT ")}
        s = {idx[int(x) - 1] for x in r.lines("STILL-RUNNING ")}
        return a, s
    with cf.ThreadPoolExecutor(max_workers=shards) as ex:
        for a, s in ex.map(one, range(shards)):
            acc |= set(a)
            still |= set(s)
    return acc, still


def execute(ctx, binp, scns, test, module, kind, extra_env=None):
    """run the schedules on the real multiplexer (in-process or OS-process client) and validate the event logs"""
    scnp = os.path.join(ctx.build, "c10.%s.scn" % kind)
    vf.write_ndjson(scnp, scns)
    outp = os.path.join(ctx.build, "c10.%s.trace" % kind)
    d = os.path.join(ctx.build, "c10.%s.d" % kind)
    os.makedirs(d, exist_ok=True)
    env = dict(VERIF_SCN=scnp, VERIF_OUT=outp, VERIF_SCRIPT="B", VERIF_DIR=d)
    env.update(extra_env or {})
    p = ctx.run_harness(binp, test, env=env, timeout=3000, check=False)
    if "WARNING: DATA RACE" in p.stdout:
        i = p.stdout.index("WARNING: DATA RACE")
        ctx.candidate(dict(kind="race", client=kind), "data race reported by the Go race detector:\n" + p.stdout[i:i + 3000], dict(kind="race", report=p.stdout[i:i + 3000]))
    elif p.returncode != 0:
        ctx.harness_died(p, test + " harness")
    traces = vf.read_ndjson(outp)
    if len(traces) != len(scns):
        raise vf.Machinery("harness produced %d traces for %d schedules" % (len(traces), len(scns)))
    skipped = [t for t in traces if t.get("skipped")]
    if skipped:
        ctx.notes["skipped_after_hangs_" + kind] = len(skipped)
    hangs = [t for t in traces if t.get("hang")]
    if os.environ.get("VERIF_SELFTEST_CALM") and not extra_env:   # self-test of the calm pass: pretend three schedules stalled once
        for t in traces[:3]:
            t["hang"] = "UNREPRODUCED (self-test)"
        hangs = [t for t in traces if t.get("hang")]
    unrep = [t for t in hangs if t["hang"].startswith("UNREPRODUCED")]
    if unrep and not extra_env:
        # seen once or twice in up to eight executions while 2 x cores schedules ran at the same time: decide in a calm
        # second pass - two at a time, watchdog 60 s instead of 15 s.  A schedule that then runs to its end was slow
        # (machine load), not stuck; one that stops again is kept (and reproduced ones are reported as hangs).
        calm = [dict(hist=t["schedule"]) for t in unrep[:60]]
        cp, co = scnp + ".calm", outp + ".calm"
        vf.write_ndjson(cp, calm)
        ctx.run_harness(binp, test, env=dict(env, VERIF_SCN=cp, VERIF_OUT=co, VERIF_PAR=2, VERIF_WATCHDOG_S=60), timeout=3000, check=False)
        again = vf.read_ndjson(co)
        if len(again) != len(calm):
            raise vf.Machinery("calm pass produced %d traces for %d schedules" % (len(again), len(calm)))
        still = [t for t in again if t.get("hang")]
        ctx.notes["slow_under_load_" + kind] = dict(first_pass=len(unrep), retried=len(calm), ran_to_their_end=len(calm) - len(still))
        hangs = [t for t in hangs if not t["hang"].startswith("UNREPRODUCED")] + still + unrep[60:]
    for t in hangs:
        if t["hang"].startswith("harness"):
            raise vf.Machinery("harness problem: %s schedule=%s" % (t["hang"], json.dumps(t["schedule"])))
        if t["hang"].startswith("UNREPRODUCED"):
            # schedule-dependent: counted, and turned into exit 2 at the end unless a reproduced violation explains it
            ctx.notes.setdefault("unreproduced_hangs", []).append(dict(client=kind, hang=t["hang"], schedule=t["schedule"]))
            continue
        ctx.candidate(dict(kind="hang", client=kind, what=t["hang"]), "execution hangs (%s, %s client); schedule=%s; events so far=%s" % (
            t["hang"], kind, json.dumps(t["schedule"]), json.dumps(t["events"])[:600]), t)
    ok = [t for t in traces if not t.get("hang") and not t.get("skipped")]
    acc, still = validate(ctx, ok, "v" + kind, module)
    rejected = [i for i in range(len(ok)) if i not in acc]
    for i in sorted(still)[:2000]:
        t = ok[i]
        ctx.candidate(dict(kind="isRunning-true-after-exit", client=kind),
                      "isRunning() still true 2 s after waitForResponses returned (client process has ended); schedule=%s" % json.dumps(t["schedule"]), t)
    if rejected:
        ctx.log("%d rejected traces (%s client); re-executing" % (len(rejected), kind))
        rej_scn = [dict(hist=ok[i]["schedule"]) for i in rejected[:200]]
        counts = [1] * len(rej_scn)
        for rnd in range(2):
            vf.write_ndjson(scnp, rej_scn)
            ctx.run_harness(binp, test, env=env, timeout=3000, check=False)
            again = vf.read_ndjson(outp)
            a2, _ = validate(ctx, again, "r%s%d" % (kind, rnd), module)
            for j in range(len(again)):
                if j not in a2:
                    counts[j] += 1
        for j, i in enumerate(rejected[:200]):
            if counts[j] >= 2:
                t = ok[i]
                ctx.candidate(dict(kind="trace-rejected", client=kind, last=[e["e"] for e in t["events"]][-3:]),
                              "recorded execution (%s client) is not a behaviour of %s (rejected %d/3 times); schedule=%s events=%s" % (
                                  kind, module.replace("Trace_", ""), counts[j], json.dumps(t["schedule"]), json.dumps(t["events"])[:900]), t)
            else:
                ctx.notes["unreproduced_rejections"] = ctx.notes.get("unreproduced_rejections", 0) + 1
    return traces, ok, acc


def stall_scns(ctx, want):
    """schedules of a conformant client that at some point stops doing anything (Gen_ClientMux StallNext)"""
    g = ctx.tlc("Gen_ClientMux", "Gen_ClientMux_stall.cfg", workers=1, simulate="num=%d" % (want * 40), depth=300, timeout=2400)
    seen, res = set(), []
    for s in g.json_lines("SCN "):
        k = json.dumps(s)
        if k in seen or not any(h[0] == "ST" for h in s["hist"]):
            continue
        seen.add(k)
        res.append(s)
    # spread over: answers before the client went quiet, requests started and not answered by then, sends afterwards,
    # and whether at some point before everything started had been answered (the reader was idle) and more was sent
    def cls(s):
        h = [x[0] for x in s["hist"]]
        i = h.index("ST")
        w, snd, idle_then_send = 0, 0, False
        for k in h[:i]:
            if k == "S":
                idle_then_send = idle_then_send or w == snd
                snd += 1
            elif k == "W":
                w += 1
        return (min(w, 2), min(snd - w, 2), "S" in h[i:], idle_then_send)
    groups = {}
    for s in res:
        groups.setdefault(cls(s), []).append(s)
    picked = []
    while len(picked) < want and any(groups.values()):
        for k in sorted(groups):
            if groups[k] and len(picked) < want:
                picked.append(groups[k].pop(0))
    return picked


def reduced_leg(ctx, total, note):
    """a reduced budget of this check's schedules on the real multiplexer, for checks whose specification takes
    'every request handed to the client gets its callback exactly once' as given (C05, C11)"""
    seen, scns = set(), []
    for cfg, share in GEN:
        g = ctx.tlc("Gen_ClientMux", cfg, workers=1, simulate="num=%d" % int(total * share), depth=300, timeout=2400)
        for s in g.json_lines("SCN "):
            k = json.dumps(s)
            if k not in seen:
                seen.add(k)
                scns.append(s)
    binp = ctx.go_test_bin("internal/app/connectconformance", ["c10", "peers"], race=True)
    traces, ok, acc = execute(ctx, binp, scns, "TestVerifC10Run", "Trace_ClientMux", "inproc")
    if ctx.notes.get("unreproduced_hangs") and not ctx.violations and not ctx.known_hits:
        h = ctx.notes["unreproduced_hangs"][0]
        raise vf.Machinery("unreproduced hang in the client multiplexer leg: %s schedule=%s" % (h["hang"], json.dumps(h["schedule"])))
    ctx.cov["traces_validated_against_impl"] += len(ok)
    ctx.cov["evaluations"] += len(traces)
    ctx.notes[note] = dict(schedules=len(scns), accepted=len(acc))


def run(ctx):
    q = ctx.quick
    mc = ctx.tlc("MC_ClientMux", "MC_ClientMux_q.cfg" if q else "MC_ClientMux.cfg", deadlock=True, timeout=3000)
    ctx.notes["mc_design"] = dict(distinct=mc.distinct, generated=mc.generated,
                                  checks="AtMostOnce ExactlyOnceAtEnd OwnResponse RefusedAfterFailure + liveness Terminates "
                                         "EventuallyNotRunning SendersFinish NoStuckCallback, deadlock check on")
    if ctx.replay:
        rp = json.load(open(ctx.replay))["scenario"]
        scns = [dict(hist=rp["schedule"])]
    else:
        total = 4000 if q else 40000
        seen, scns = set(), []
        for cfg, share in GEN:
            g = ctx.tlc("Gen_ClientMux", cfg, workers=1, simulate="num=%d" % int(total * share), depth=300, timeout=2400)
            for s in g.json_lines("SCN "):
                k = json.dumps(s)
                if k not in seen:
                    seen.add(k)
                    scns.append(s)
    ctx.log("%d distinct controller schedules" % len(scns))
    binp = ctx.go_test_bin("internal/app/connectconformance", ["c10", "peers"], race=True)
    if ctx.replay and any(h[0] == "ST" for h in scns[0]["hist"]):
        execute(ctx, binp, scns, "TestVerifC10Run", "Trace_ClientMux", "stall", extra_env=dict(VERIF_WATCHDOG_S=45))
        return
    traces, ok, acc = execute(ctx, binp, scns, "TestVerifC10Run", "Trace_ClientMux", "inproc")
    # a client that goes quiet for good: what ends the wait is the reader's 20 s response timeout (ReadTimeout)
    stall = stall_scns(ctx, 16 if q else 96) if not ctx.replay else []
    if stall:
        ctx.tlc("MC_ClientMux", "MC_ClientMux_stall.cfg", deadlock=True, timeout=3000)
        t3, ok3, acc3 = execute(ctx, binp, stall, "TestVerifC10Run", "Trace_ClientMux", "stall", extra_env=dict(VERIF_WATCHDOG_S=45))
        ctx.notes["stalled_client"] = dict(schedules=len(stall), accepted=len(acc3))
        traces, ok = traces + t3, ok + ok3
    # the same schedules against a client that is an OS process (how a client under test is run)
    mco = ctx.tlc("MC_ClientMuxOS", "MC_ClientMuxOS_live.cfg" if q else "MC_ClientMuxOS_q.cfg", deadlock=True, timeout=3000)
    ctx.notes["mc_design_os"] = dict(distinct=mco.distinct, generated=mco.generated)
    if not q:
        ctx.tlc("MC_ClientMuxOS", "MC_ClientMuxOS_live.cfg", deadlock=True, timeout=3000)
    # (closing its own stdin or stdout / waiting to be aborted are scripted for the in-process client only)
    os_scns = [s for s in scns if not any(h[0] in ("CI", "B", "CO") for h in s["hist"])]
    if q and not ctx.replay:
        os_scns = os_scns[::2]
    traces2, ok2, acc2 = execute(ctx, binp, os_scns, "TestVerifC10RunOS", "Trace_ClientMuxOS", "os")
    ctx.notes["os_client"] = dict(schedules=len(os_scns), accepted=len(acc2))
    traces, ok = traces + traces2, ok + ok2
    if not ctx.replay:
        # ClientMux.tla's reader step takes "a read of the client's output returns a whole message, a clean end, or an
        # error - within the timeout" as given: that is Framing.tla's binding (quick bounds)
        sys.path.insert(0, os.path.dirname(os.path.abspath(__file__)))
        import c09
        c09.replay_leg(ctx, True)
    if ctx.notes.get("unreproduced_hangs") and not ctx.violations and not ctx.known_hits:
        h = ctx.notes["unreproduced_hangs"][0]
        raise vf.Machinery("unreproduced hang (%d in total): %s schedule=%s" % (len(ctx.notes["unreproduced_hangs"]), h["hang"], json.dumps(h["schedule"])))
    ctx.cov["traces_validated_against_impl"] += len(ok)
    ctx.cov["evaluations"] += len(traces)
    def nontrivial(t):
        ev = t["events"]
        return any(e["e"] == "Cb" for e in ev) or any(e["e"] == "SendRet" and e.get("r") != "ok" for e in ev)
    ctx.cov["distinct_nontrivial"] += len({json.dumps(t["events"]) for t in ok if nontrivial(t)})
    for t in ok[:: max(1, len(ok) // 3)][:3]:
        ctx.sample(dict(schedule=t["schedule"], events=[(e["e"], e.get("s") or e.get("k") or "", e.get("n", ""), e.get("r", "")) for e in t["events"]]))
    ctx.notes["schedules"] = len(scns)
    ctx.notes["accepted"] = len(acc)
    ctx.cov["rule"] = ("controller schedules (sender starts, client reads of prefix/body, client writes: answers incl. early/unknown/"
                       "duplicate, garbage, oversize, truncated; exit ok/fail at any point) are projections of random behaviours "
                       "of the full ClientMux spec (3 fault mixes); each is executed on the real multiplexer with a scripted "
                       "in-process client under -race and the event log (Call/Ret markers, callbacks, final isRunning) must be "
                       "explained by the spec with silent internal steps; non-trivial = at least one callback or a refused send.")
    ctx.assumptions += ["in-process peer kind (runInProcess) - the OS-process kind differs in when stdout EOF is delivered and is not covered here",
                        "the 20 s clientResponseTimeout and the 3 s/5 s process grace periods are not reached: the scripted client always ends",
                        "isRunning is sampled by polling for up to 2 s after waitForResponses returned"]
