"""G4 (growth item, attached to C08) - the command-line contract of the `connectconformance` runner.
spec: CLI.tla (abstract command line, declarative Outcome = ordered clauses + effective settings, and the
validation ladder of cmd/connectconformance/main.go as a machine, one action per check), Gen_CLI (every
command line of the bounded domain with the outcome the declarative definition requires).
harness: harness/climain (package main): the test binary re-executed as the real main(), and as the
client / server under test that records what the runner passes to it.
Entry point: leg(ctx), called from checks/c08.py."""
import json
import os
import random
import vf

MAIN = "cmd/connectconformance"
RUN_QUICK = 72       # run-outcome scenarios executed in the quick tier (all usage-error scenarios always are)
RUN_THOROUGH = 1200


def owns_replay(path):
    try:
        with open(path) as fh:
            return json.load(fh).get("key", {}).get("leg") == "cli"
    except (OSError, ValueError):
        return False


def _key(m):
    scn = m["scn"]
    cl = scn["cl"]
    return dict(leg="cli", outcome=scn["out"]["k"], tags="+".join(m["tags"]), mode=cl["mode"], dd=cl["dd"],
                ms=cl["ms"], port=cl["port"], par=cl["par"], cert=cl["cert"], key=cl["key"], bind=cl["bind"],
                words=" ".join(cl["words"]))


def _what(m):
    rs = m["reasons"][0]
    return ("command line %s (abstract: %s): the specification requires outcome %r, but %s [reproduced %d/%d, tags %s]" % (
        json.dumps(m["render"]["argv"]), json.dumps(m["scn"]["cl"], sort_keys=True), m["scn"]["out"]["k"],
        "; ".join(r["what"] for r in rs[:4]), m["repro"], m["attempts"], ",".join(m["tags"])))


def _replay(ctx, binm, scns, tag, hold_ms, timeout):
    scn_path = os.path.join(ctx.build, "g4_%s.scn" % tag)
    out_path = os.path.join(ctx.build, "g4_%s.out" % tag)
    wd = os.path.join(ctx.build, "g4_%s.d" % tag)
    os.makedirs(wd, exist_ok=True)
    vf.write_ndjson(scn_path, scns)
    ctx.run_harness(binm, "TestVerifG4Replay", timeout=timeout,
                    env=dict(VERIF_SCN=scn_path, VERIF_OUT=out_path, VERIF_DIR=wd, G4_HOLD_MS=hold_ms, VERIF_WORKERS=8))
    recs = vf.read_ndjson(out_path)
    summ = [r for r in recs if r["t"] == "summary"]
    if len(summ) != 1 or summ[0]["scenarios"] != len(scns):
        raise vf.Machinery("G4 harness: no / inconsistent summary for %s" % tag)
    return recs, summ[0]


def leg(ctx):
    """CLI.tla bound to the real connectconformance command."""
    if ctx.replay and not owns_replay(ctx.replay):
        return
    binm = ctx.go_test_bin(MAIN, ["climain"], name="climain")
    if ctx.replay:
        with open(ctx.replay) as fh:
            scn = json.load(fh)["scenario"]["scn"]
        recs, summ = _replay(ctx, binm, [scn], "replay", 60, 600)
        for r in recs:
            if r["t"] == "mismatch":
                ctx.candidate(_key(r["m"]), _what(r["m"]), r["m"])
        return

    # 1. design: machine == declarative on the whole bounded domain, first failing check decides
    mc = ctx.tlc("CLI", ctx.pick("MC_CLI_q.cfg", "MC_CLI_t.cfg"), workers=8, heap="4g", timeout=1800)
    ctx.notes["cli_mc_distinct_states"] = mc.distinct

    # 2. generator: every command line of the domain with the required outcome
    gen = ctx.tlc("Gen_CLI", "Gen_CLI_q.cfg", workers=8, heap="4g", timeout=900)
    scns = gen.json_lines("SCN ")
    if len(scns) < 8000:
        raise vf.Machinery("G4 generator: only %d scenarios" % len(scns))
    kinds = {}
    for s in scns:
        kinds.setdefault(s["out"]["k"], []).append(s)
    if len(kinds) != 29:
        raise vf.Machinery("G4 generator: %d outcome kinds, expected 29: %s" % (len(kinds), sorted(kinds)))
    rnd = random.Random(ctx.seed * 7919 + 4)
    runs = kinds.pop("run")
    # always: the base lines and their one-field neighbours in the deciding fields; the rest is sampled
    def weight(s):
        cl = s["cl"]
        return sum(1 for f in ("ms", "port", "par", "cert", "bind", "conf", "run", "skip", "kfail", "kflaky") if cl[f] != "absent") \
            + int(cl["v"]) + int(cl["vv"]) + int(not cl["dd"]) + (len(cl["words"]) > 3)
    runs.sort(key=lambda s: json.dumps(s, sort_keys=True))
    rnd.shuffle(runs)
    n_run = ctx.pick(RUN_QUICK, RUN_THOROUGH)
    # stratify by mode so that every mode gets its share
    by_mode = {}
    for s in runs:
        by_mode.setdefault(s["cl"]["mode"], []).append(s)
    chosen = []
    for mode in sorted(by_mode):
        lst = by_mode[mode]
        share = max(2, n_run // len(by_mode))
        rich = sorted(lst, key=lambda s: -weight(s))[:share // 2]       # half: the lines with the most settings at once
        rest = [s for s in lst if s not in rich][:share - len(rich)]    # half: seeded sample
        chosen += rich + rest
    usage = [s for k in sorted(kinds) for s in kinds[k]]
    rnd.shuffle(usage)

    # 3. replay on the real command
    recs_u, summ_u = _replay(ctx, binm, usage, "usage", 0, 1500)
    recs_r, summ_r = _replay(ctx, binm, chosen, "run", ctx.pick(60, 100), 1500)
    nm = 0
    for r in recs_u + recs_r:
        if r["t"] == "mismatch":
            nm += 1
            ctx.candidate(_key(r["m"]), _what(r["m"]), r["m"])
    unrep = summ_u["unreproduced"] + summ_r["unreproduced"]
    ctx.log("G4 cli: %d usage/version scenarios (%d kinds) + %d run scenarios executed on the real command, %d executions, "
            "%d reproduced mismatches, %d unreproduced" % (len(usage), len(kinds), len(chosen),
                                                         summ_u["executions"] + summ_r["executions"], nm, unrep))
    if unrep:
        for r in (recs_u + recs_r):
            if r["t"] == "unreproduced":
                ctx.log("G4 cli: unreproduced mismatch (not a verdict): %s" % json.dumps(r)[:1500])
    ctx.cov["evaluations"] += summ_u["executions"] + summ_r["executions"]
    ctx.cov["traces_validated_against_impl"] += len(usage) + len(chosen)
    ctx.cov["distinct_nontrivial"] += len(usage) + len(chosen)
    for s in chosen[:1]:
        ctx.sample(dict(leg="cli", cl=s["cl"], required=s["out"]))
    ctx.notes["cli_rule"] = (
        "command line of the runner: TLC checks CLI.tla (validation ladder as a machine == ordered declarative clauses, the first failing "
        "check decides the message, on every command line that differs from one of 5 base lines in <= %d of 20 fields: %d distinct states); "
        "Gen_CLI emits all %d lines differing in <= 2 fields (all pairs of field values on every base) with the required outcome; every "
        "usage-error/version line (%d, 28 kinds) and a seeded sample of %d run lines are rendered to a concrete argv + files and executed on "
        "the real main() (test binary re-executed as the command; the client/server under test is the same binary recording its argv, the "
        "requests, server starts and connections): exit status, first stderr line, stdout, nothing launched on rejection; for runs: commands "
        "and words passed verbatim, test cases selected (--run/--skip/--conf/--test-file), exit status under --known-failing/--known-flaky, "
        "host/port/certificate of the reference server, verbosity, and upper bounds --max-servers / --parallel; a mismatch counts when it "
        "reproduces in 3 of 3 executions" % (ctx.pick(2, 3), mc.distinct, len(scns), len(usage), len(chosen)))
    ctx.notes["cli_unreproduced"] = unrep
    ctx.assumptions += [
        "command line (CLI.tla): AsImplemented_Order - the documentation names the conditions of the usage errors, their precedence is the code's; "
        "AsImplemented_SepNeedsDashDash - without the \"--\" marker the flag parser rejects \"----\" (exit status 2)",
        "command line: the concurrency clauses (--max-servers, --parallel) are upper bounds judged from the order of lines in one O_APPEND log; "
        "the peers hold their answers for 60-100 ms only to give a wrong runner the opportunity to overlap",
    ]
