"""C04 - run succeeds iff every selected case ran and met its expectation.
spec: VerdictDecl.tla (truth table, accounting laws), Verdict.tla (report machine + generator)."""
import json
import os
import vf


def run(ctx):
    q = ctx.quick
    mc = ctx.tlc("Verdict", "MC_Verdict.cfg", timeout=1800)
    ctx.notes["mc_design"] = dict(distinct=mc.distinct, generated=mc.generated)
    g = ctx.tlc("Verdict", "Gen_Verdict_3.cfg", timeout=1800)
    scns = g.json_lines("SCN ")
    if ctx.replay:
        scns = [json.load(open(ctx.replay))["scenario"]["scn"]]
    scnp, outp = os.path.join(ctx.build, "c04.scn"), os.path.join(ctx.build, "c04.out")
    vf.write_ndjson(scnp, scns)
    binp = ctx.go_test_bin("internal/app/connectconformance", ["c04"])
    ctx.run_harness(binp, "TestVerifC04Report", env=dict(VERIF_SCN=scnp, VERIF_OUT=outp), timeout=3000)
    res = vf.read_ndjson(outp)
    if not any(r.get("summary") for r in res):
        raise vf.Machinery("no summary from harness")
    for r in res:
        if r.get("summary"):
            continue
        if r.get("harness_error"):
            raise vf.Machinery(r["harness_error"])
        if r.get("repro", 0) < 3:
            ctx.notes["unreproduced"] = ctx.notes.get("unreproduced", 0) + 1
            continue
        fates = sorted({c["fate"] for c in r["scn"]["cases"]})
        key = dict(level="report", verdict_wrong=(r["obs"]["success"] != r["scn"]["success"]),
                   spec_success=r["scn"]["success"], obs_success=r["obs"]["success"],
                   has_noRun=any(f in ("couldNotRun", "absent") for f in fates), first_why=r["why"][0].split(",")[0][:40])
        ctx.candidate(key, "report(): %s; cases=%s" % ("; ".join(r["why"]), json.dumps(r["scn"]["cases"])), r)
    ctx.cov["evaluations"] += len(scns)
    ctx.cov["traces_validated_against_impl"] += len(scns)
    ctx.cov["distinct_nontrivial"] += sum(1 for s in scns if not s["success"] or s["expected"])
    ctx.cov["exhaustive"] = True
    for s in scns[:: max(1, len(scns) // 3)][:3]:
        ctx.sample(s)
    ctx.cov["rule"] = ("every assignment of {pass, assertFail, clientErr, setupErr, noResult, couldNotRun, absent} x {unmarked, known-failing, "
                       "known-flaky} x {feedback} to 3 cases (feedback only where a peer saw the case), materialised through the real "
                       "assert/failed/failedToStart/failRemaining/setOutcome/recordSideband API in seeded order, report() called, verdict + "
                       "named cases + totals compared; non-trivial = not a success or has an expected failure. Exhaustive for 3 cases.")
    ctx.assumptions += ["AsImplemented_CouldNotRunCountedNotNamed: could-not-run cases are reported by count, not by name"]
