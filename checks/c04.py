"""C04 - run succeeds iff every selected case ran and met its expectation.
spec: VerdictDecl.tla (truth table, accounting laws), Verdict.tla (report machine + generator)."""
import json
import os
import sys
import vf


def run_level(ctx, binp):
    """Run()-level: wrapped reference peers as OS processes realise process fates; Trace_Verdict accepts."""
    import random
    g = ctx.tlc("Gen_VerdictRun", "Gen_VerdictRun.cfg", timeout=600)
    allscn = g.json_lines("SCN ")
    for s in allscn:
        f = s["fault"]
        s["fault"] = ":".join(str(x) for x in f)
        s["failing"] = sorted(s["failing"])
        s["flaky"] = sorted(s["flaky"])
    allscn = [s for s in allscn if not (set(s["failing"]) & set(s["flaky"]))]
    allscn.sort(key=lambda s: json.dumps(s, sort_keys=True))
    rnd = random.Random(ctx.seed)
    pick = allscn if not ctx.quick else rnd.sample(allscn, min(len(allscn), 48))
    # always include the scenario families that matter most
    must = [s for s in allscn if s["fault"] in ("none", "exitAfterReq:2:0", "exitAfterResp:1:0", "failstart:1") and not s["failing"] and not s["flaky"]]
    pick = must + [s for s in pick if s not in must]
    scnp, outp = os.path.join(ctx.build, "c04run.scn"), os.path.join(ctx.build, "c04run.out")
    vf.write_ndjson(scnp, pick)
    d = os.path.join(ctx.build, "c04run")
    os.makedirs(d, exist_ok=True)
    ctx.run_harness(binp, "TestVerifC04Run", env=dict(VERIF_SCN=scnp, VERIF_OUT=outp, VERIF_DIR=d), timeout=3000)
    res = vf.read_ndjson(outp)
    recs = []
    for r in res:
        s = r["scn"]
        if r.get("hang"):
            raise vf.Machinery("Run() did not return within 90 s for %s" % json.dumps(s))
        answered, tampered = set(), set()
        peer_fault = any(e.get("ev") == "garbage" or (e.get("ev") == "exit" and e.get("code")) for e in r.get("log") or [])
        for e in r.get("log") or []:
            if e.get("ev") == "resp":
                nm = e["name"].rsplit("/", 1)[-1]
                answered.add(nm)
                if e.get("tampered"):
                    tampered.add(nm)
        cases = []
        for i in range(1, s["n"] + 1):
            nm = "c%d" % i
            if s["mode"] == "server":
                # the wrapped server logs nothing per case; a started reference server answers everything
                fate = "pass" if s["fault"] == "none" else "setupErr"
            else:
                fate = "assertFail" if nm in tampered else ("pass" if nm in answered else "noResult")
            mark = "failing" if i in s["failing"] else ("flaky" if i in s["flaky"] else "none")
            cases.append(dict(fate=fate, mark=mark, fb=False))
        outl = r.get("output") or []
        named = {ln[len("FAILED:"):].split()[0].rstrip(":").rsplit("/", 1)[-1] for ln in outl if ln.startswith("FAILED:") and len(ln.split()) > 1}
        unnamed = ["c%d" % (i + 1) for i, c in enumerate(cases) if c["fate"] == "assertFail" and c["mark"] == "none" and "c%d" % (i + 1) not in named]
        # "started": the run got as far as handing cases out (a run that is refused before that - bad flags, a
        # client that cannot be started - has nothing to report)
        started = bool(answered or tampered or any(e.get("ev") in ("req", "resp", "start") for e in r.get("log") or []))
        recs.append(dict(cases=cases, ok=bool(r["ok"] and not r["err"]), peerFault=peer_fault, scn=s, output=outl, err=r.get("err"),
                         totalsPrinted=any(ln.startswith("Total") for ln in outl), unnamedFailures=unnamed, started=started))
    trp = os.path.join(ctx.build, "c04run.trace")
    vf.write_ndjson(trp, [dict(cases=x["cases"], ok=x["ok"], peerFault=x["peerFault"], totalsPrinted=x["totalsPrinted"],
                               unnamedFailures=x["unnamedFailures"], started=x["started"]) for x in recs])
    tr = ctx.tlc("Trace_Verdict", "Trace_Verdict.cfg", workers=1, env=dict(VERIF_TRACE=trp), timeout=900)
    if not tr.lines("CONSUMED "):
        raise vf.Machinery("Trace_Verdict did not consume the file")
    for ln in tr.lines("REJECT "):
        x = recs[int(ln) - 1]
        ctx.candidate(dict(level="run", mode=x["scn"]["mode"], fault=x["scn"]["fault"].split(":")[0], ok=x["ok"]),
                      "Run() returned ok=%s err=%r, totals printed=%s, failing cases not named=%s; realised fates %s (the specification requires the verdict of the truth table, a totals line and every failing case named); scenario=%s output=%s" % (
                          x["ok"], x["err"], x["totalsPrinted"], x["unnamedFailures"], json.dumps(x["cases"]), json.dumps(x["scn"]), x["output"]), x)
    ctx.cov["traces_validated_against_impl"] += len(recs)
    ctx.cov["evaluations"] += len(recs)
    ctx.notes["run_level"] = dict(runs=len(recs), accepted=len(recs) - len(tr.lines("REJECT ")),
                                  successes=sum(1 for x in recs if x["ok"]))
    if recs:
        ctx.sample(dict(run_level=recs[0]["scn"], cases=recs[0]["cases"], ok=recs[0]["ok"]))


def run(ctx):
    q = ctx.quick
    sys.path.insert(0, os.path.dirname(os.path.abspath(__file__)))
    import g_sideband
    if ctx.replay and g_sideband.owns_replay(ctx.replay):   # replay file written by the side-channel leg
        g_sideband.leg(ctx)
        return
    mc = ctx.tlc("Verdict", "MC_Verdict.cfg", timeout=1800)
    ctx.notes["mc_design"] = dict(distinct=mc.distinct, generated=mc.generated)
    g = ctx.tlc("Verdict", "Gen_Verdict_3.cfg", timeout=1800)
    scns = g.json_lines("SCN ")
    if ctx.replay:
        scns = [json.load(open(ctx.replay))["scenario"]["scn"]]
    scnp, outp = os.path.join(ctx.build, "c04.scn"), os.path.join(ctx.build, "c04.out")
    vf.write_ndjson(scnp, scns)
    binp = ctx.go_test_bin("internal/app/connectconformance", ["c04", "peers"])
    ctx.run_harness(binp, "TestVerifC04Report", env=dict(VERIF_SCN=scnp, VERIF_OUT=outp), timeout=3000)
    res = vf.read_ndjson(outp)
    if not any(r.get("summary") for r in res):
        raise vf.Machinery("no summary from harness")
    for r in res:
        if r.get("summary"):
            continue
        if r.get("harness_error"):
            raise vf.Machinery(r["harness_error"])
        if r.get("repro", 0) < 3:
            ctx.notes["unreproduced"] = ctx.notes.get("unreproduced", 0) + 1
            continue
        fates = sorted({c["fate"] for c in r["scn"]["cases"]})
        key = dict(level="report", verdict_wrong=(r["obs"]["success"] != r["scn"]["success"]),
                   spec_success=r["scn"]["success"], obs_success=r["obs"]["success"],
                   has_noRun=any(f in ("couldNotRun", "absent") for f in fates), first_why=r["why"][0].split(",")[0][:40])
        ctx.candidate(key, "report(): %s; cases=%s" % ("; ".join(r["why"]), json.dumps(r["scn"]["cases"])), r)
    if not ctx.replay:
        run_level(ctx, binp)
        # the verdict is over the fates that the batch runner records (a case whose server died or exited before it was
        # sent must be recorded as a setup error, whatever the exit status): ServerBatch.tla's binding, quick bounds
        sys.path.insert(0, os.path.dirname(os.path.abspath(__file__)))
        import c11
        c11.batch_leg(ctx, True, False)
        # ... and over the feedback the reference peers report: that every piece of feedback the server prints reaches
        # the outcome of its case (whatever the chunking, also on a last line without a newline) is Sideband.tla's binding
        import g_sideband
        g_sideband.leg(ctx)
    ctx.cov["evaluations"] += len(scns)
    ctx.cov["traces_validated_against_impl"] += len(scns)
    ctx.cov["distinct_nontrivial"] += sum(1 for s in scns if not s["success"] or s["expected"])
    ctx.cov["exhaustive"] = True
    for s in scns[:: max(1, len(scns) // 3)][:3]:
        ctx.sample(s)
    ctx.cov["rule"] = ("every assignment of {pass, assertFail, clientErr, setupErr, noResult, couldNotRun, absent} x {unmarked, known-failing, "
                       "known-flaky} x {feedback} to 3 cases (feedback only where a peer saw the case), materialised through the real "
                       "assert/failed/failedToStart/failRemaining/setOutcome/recordSideband API in seeded order, report() called, verdict + "
                       "named cases + totals compared; non-trivial = not a success or has an expected failure. Exhaustive for 3 cases. The fates "
                       "themselves (which cases become setup errors when a server dies, exits cleanly or cannot start) are recorded by the "
                       "batch runner: every fault script of ServerBatch.tla for 2 cases is run on the real runTestCasesForServer as well.")
    ctx.assumptions += ["AsImplemented_PeerProtocolErrorFailsRun: garbage on a peer's stdout or a non-zero exit status fails the run even if all cases were met",
                        "AsImplemented_CouldNotRunCountedNotNamed: could-not-run cases are reported by count, not by name"]
