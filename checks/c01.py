"""C01 - reference implementations pass every embedded test permutation.
spec: VerdictDecl.tla (Success/Met), Trace_Matrix.tla (acceptor of the matrix runs)."""
import json
import os
import random
import vf

COMPRESSIONS = ["COMPRESSION_GZIP", "COMPRESSION_BR", "COMPRESSION_ZSTD", "COMPRESSION_DEFLATE", "COMPRESSION_SNAPPY"]


def patterns(path):
    res = []
    for ln in open(path):
        ln = ln.strip()
        if ln and not ln.startswith("#"):
            res.append(ln)
    return res


def run(ctx):
    q = ctx.quick
    # the law the runs are accepted by is checked on the design first (shared with C04)
    mc = ctx.tlc("Verdict", "MC_Verdict.cfg", timeout=1800)
    ctx.notes["mc_design"] = dict(distinct=mc.distinct, generated=mc.generated, module="Verdict (truth table shared with C04)")
    t = os.path.join(vf.REPO, "testing")
    refcfg = None
    if q:
        z = random.Random(ctx.seed).choice(COMPRESSIONS)
        vers = [["HTTP_VERSION_1", "HTTP_VERSION_2"], ["HTTP_VERSION_2", "HTTP_VERSION_3"]][ctx.seed % 2]  # gRPC needs HTTP/2
        refcfg = ("features:\n  versions: [%s]\n" % ", ".join(vers) +
                  "  protocols: [PROTOCOL_CONNECT, PROTOCOL_GRPC, PROTOCOL_GRPC_WEB]\n  codecs: [CODEC_PROTO, CODEC_JSON]\n"
                  "  compressions: [COMPRESSION_IDENTITY, %s]\n  supportsTlsClientCerts: true\n  supportsHalfDuplexBidiOverHttp1: true\n" % z)
        ctx.notes["quick_reduction"] = "reference matrix restricted to compressions {identity, %s} and HTTP versions %s (rotating with the seed)" % (z, vers)
    bins = {}
    for name in ("referenceserver", "referenceclient", "grpcserver", "grpcclient"):
        bins[name] = ctx.go_build("cmd/" + name)
    fullcfg = open(os.path.join(t, "reference-impls-config.yaml")).read()
    kf_s = patterns(os.path.join(t, "referenceserver-known-failing.txt"))
    kf_c = patterns(os.path.join(t, "referenceclient-known-failing.txt"))
    if q:
        # deep: all suites on the reduced matrix; thin: the complete matrix (every compression, version, codec,
        # TLS mode) on a slice of the suites - so every axis value is exercised in both modes on every run
        # (the suites of the slice are those whose outcome depends on an axis value beyond the basics: message sizes
        # on the compression, timeouts on the HTTP version's error mapping)
        missing_v = "1" if "HTTP_VERSION_3" in vers else "3"   # the HTTP version the deep runs leave out
        thin = ["Basic/**", "Errors/**", "TLS Client Certs/**", "Timeouts/HTTPVersion:%s/**" % missing_v]
        runs = [
            dict(id="ref-server-deep", mode="server", config=refcfg, command=[bins["referenceserver"]], knownFailing=kf_s, skip=[], run=[], maxServers=16, lane=0),
            dict(id="ref-client-deep", mode="client", config=refcfg, command=[bins["referenceclient"]], knownFailing=kf_c, skip=[], run=[], maxServers=16, lane=0),
            dict(id="ref-server-thin", mode="server", config=fullcfg, command=[bins["referenceserver"]], knownFailing=kf_s, skip=[], run=thin + ["Server Message Size/*/*/*/TLS:false/**"], maxServers=16, lane=1),
            dict(id="ref-client-thin", mode="client", config=fullcfg, command=[bins["referenceclient"]], knownFailing=kf_c, skip=[], run=thin + ["Client Message Size/*/*/*/TLS:false/**"], maxServers=16, lane=1),
        ]
    else:
        runs = [
            dict(id="ref-server", mode="server", config=fullcfg, command=[bins["referenceserver"]], knownFailing=kf_s, skip=[], run=[], maxServers=16, lane=0),
            dict(id="ref-client", mode="client", config=fullcfg, command=[bins["referenceclient"]], knownFailing=kf_c, skip=[], run=[], maxServers=16, lane=0),
        ]
    runs += [
        dict(id="grpc-server", mode="server", config=open(os.path.join(t, "grpc-impls-config.yaml")).read(), command=[bins["grpcserver"]],
             knownFailing=patterns(os.path.join(t, "grpcserver-known-failing.txt")), skip=[], run=[], maxServers=16, lane=1),
        dict(id="grpc-web-server", mode="server", config=open(os.path.join(t, "grpc-web-server-impl-config.yaml")).read(), command=[bins["grpcserver"]],
             knownFailing=patterns(os.path.join(t, "grpcserver-web-known-failing.txt")), skip=[], run=[], maxServers=16, lane=1),
        dict(id="grpc-client", mode="client", config=open(os.path.join(t, "grpc-impls-config.yaml")).read(), command=[bins["grpcclient"]],
             knownFailing=patterns(os.path.join(t, "grpcclient-known-failing.txt")), skip=[], run=[], maxServers=16, lane=1),
    ]
    if ctx.replay:
        rid = json.load(open(ctx.replay))["scenario"]["id"]
        runs = [r for r in runs if r["id"] == rid]
    scnp, outp = os.path.join(ctx.build, "c01.runs"), os.path.join(ctx.build, "c01.out")
    vf.write_ndjson(scnp, runs)
    binp = ctx.go_test_bin("internal/app/connectconformance", ["c01"])
    ctx.run_harness(binp, "TestVerifC01Matrix", env=dict(VERIF_SCN=scnp, VERIF_OUT=outp), timeout=7200)
    recs = vf.read_ndjson(outp)
    if len(recs) != len(runs):
        raise vf.Machinery("harness returned %d records for %d runs" % (len(recs), len(runs)))
    for r in recs:
        if r.get("harness_error"):
            raise vf.Machinery("harness error in run %s: %s" % (r["id"], r["harness_error"]))
    trp = os.path.join(ctx.build, "c01.trace")
    vf.write_ndjson(trp, [dict(ok=r["ok"], namesExact=r["namesExact"], selected=r.get("selected", 0), cases=r["cases"]) for r in recs])
    tr = ctx.tlc("Trace_Matrix", "Trace_Matrix.cfg", workers=1, env=dict(VERIF_TRACE=trp), timeout=1800, heap="8g")
    if not tr.lines("CONSUMED "):
        raise vf.Machinery("Trace_Matrix did not consume the file")
    rejected = {int(x) - 1 for x in tr.lines("REJECT ")}
    if rejected and not ctx.replay:
        # a matrix run exercises real sockets and timers: confirm by re-running the rejected runs once
        again = [runs[i] for i in sorted(rejected)]
        vf.write_ndjson(scnp, again)
        ctx.run_harness(binp, "TestVerifC01Matrix", env=dict(VERIF_SCN=scnp, VERIF_OUT=outp), timeout=7200)
        recs2 = vf.read_ndjson(outp)
        vf.write_ndjson(trp, [dict(ok=r["ok"], namesExact=r["namesExact"], selected=r.get("selected", 0), cases=r["cases"]) for r in recs2])
        tr2 = ctx.tlc("Trace_Matrix", "Trace_Matrix.cfg", workers=1, env=dict(VERIF_TRACE=trp), timeout=1800, heap="8g")
        still = {int(x) - 1 for x in tr2.lines("REJECT ")}
        confirmed = {sorted(rejected)[j] for j in still}
        ctx.notes["unreproduced_rejections"] = len(rejected) - len(confirmed)
        second = {sorted(rejected)[j]: recs2[j] for j in range(len(recs2))}
    else:
        confirmed, second = rejected, {}
    for i in sorted(confirmed):
        r = recs[i]
        r2 = second.get(i, r)
        common = sorted(set(r.get("unmet") or []) & set(r2.get("unmet") or []))
        ctx.candidate(dict(run=r["id"], ok=r["ok"], namesExact=r["namesExact"], unmet=common[:3]),
                      "matrix run %s rejected (twice): ok=%s err=%r namesExact=%s selected=%s outcomes=%d; unmet in both runs: %s; output tail: %s" % (
                          r["id"], r["ok"], r.get("err"), r["namesExact"], r.get("selected"), len(r["cases"]), common[:8],
                          (r.get("output") or [])[-4:]), dict(id=r["id"], unmet=common, output=r.get("output")))
    total = sum(len(r["cases"]) for r in recs)
    ctx.cov["traces_validated_against_impl"] += len(recs)
    ctx.cov["evaluations"] += total
    ctx.cov["distinct_nontrivial"] += total
    ctx.cov["exhaustive"] = not q
    ctx.notes["runs"] = [dict(id=r["id"], ok=r["ok"], cases=len(r["cases"]), selected=r.get("selected"), elapsed_s=round(r.get("elapsed_s", 0), 1),
                              known_failing_cases=sum(1 for c in r["cases"] if c["mark"] == "failing")) for r in recs]
    ctx.sample(dict(run=recs[0]["id"], first_cases=recs[0]["cases"][:3], output=(recs[0].get("output") or [])[-3:]))
    ctx.cov["rule"] = ("the five Go-peer runs of `make runconformance` (reference server, reference client, gRPC server, gRPC-Web server, gRPC client; "
                       "shipped configs and known-failing lists, HTTP tracing on) through the in-package run() against the built peer binaries; "
                       "quick = all suites on a reduced matrix (two compressions, two HTTP versions, rotating with the seed) plus the complete matrix on a slice of the suites (Basic, Errors, TLS Client Certs; Server/Client Message Size for every version, protocol and compression with the proto codec and no TLS; Timeouts for the HTTP version the reduced matrix leaves out); every permutation is one evaluation (all are real RPCs); "
                       "each run is accepted by Trace_Matrix iff verdict ok, outcome names = selected names, and Success() of VerdictDecl.")
    ctx.assumptions += ["the browser gRPC-Web client run needs npm and is not executed",
                        "selected names are computed with the runner's own library code (the planner is C06-C08's subject)",
                        "a rejected run is re-executed once and reported only if rejected again (real sockets, timers)"]
