"""C14 - body tracing reconstructs the exact message sequence and never alters the data.
spec: BodyTraceDecl.tla (Events: the required body events, split-independent by construction),
      BodyTrace.tla (dataTracer + wrapper as a machine; machine == Events for every splitting),
      Gen_BodyTrace (behaviours: scenario x splitting x required events), Trace_BodyTrace (acceptor
      of recorded executions over long random bodies)."""
import json
import os
import re
import vf

KNOWN_CAUSE = "endstream-compressed-bit-ignored"


def _scn_lines(res):
    """SCN payloads of a generator run as raw JSON strings (no parsing: there may be 500k)."""
    out = []
    for ln in res.out.splitlines():
        if ln.startswith('"SCN '):
            out.append(ln[5:-1].replace('\\"', '"'))
    return out


def _enc_class(scn):
    h = scn.get("hdr") or {}
    if h.get("ct") not in ("connect", "grpc", "grpcweb") or h.get("ce") != "none":
        return "n/a"
    return h.get("cce") if h.get("ct") == "connect" else h.get("ge")


def _report(ctx, r, kind):
    scn = r.get("scn") or {}
    key = dict(kind=kind, carrier=r.get("carrier"), cause=r.get("cause"), side=scn.get("side"), end=scn.get("end"),
               enc_class=_enc_class(scn), diff=r.get("diff") or "", problem=(r.get("problems") or [""])[0][:120])
    key.update(diff=re.sub(r"\d+", "N", key["diff"])[:160], problem=re.sub(r"\d+", "N", key["problem"])[:80])
    if r.get("cause") in ("crash", "panic"):
        key.update(problem="")
    what = "%s via %s (%s): %s%s; required %s, tracer reported %s; scenario body=%s avail=%s end=%s side=%s hdr=%s calls=%s" % (
        r.get("cause"), r.get("carrier"), r.get("enc"), r.get("diff") or "", (" " + "; ".join(r.get("problems") or []))[:300],
        json.dumps(r.get("exp"))[:300], json.dumps(r.get("obs"))[:300], json.dumps(scn.get("body")), scn.get("avail"),
        scn.get("end"), scn.get("side"), json.dumps(scn.get("hdr")), json.dumps(scn.get("calls"))[:200])
    return ctx.candidate(key, what, dict(kind=kind, rec=r))


def _harness_out(ctx, path, kind):
    res = vf.read_ndjson(path)
    summ = [r for r in res if r.get("summary")]
    if not summ:
        raise vf.Machinery("%s harness wrote no summary" % kind)
    for r in res:
        if r.get("summary"):
            continue
        if r.get("cause") == "harness":
            raise vf.Machinery("%s harness problem: %s" % (kind, r.get("diff")))
        if r.get("repro", 0) < 3:
            ctx.notes["unreproduced"] = ctx.notes.get("unreproduced", 0) + 1
            if ctx.notes["unreproduced"] <= 5:
                ctx.log("unreproduced mismatch ignored: %s" % json.dumps(r)[:300])
            continue
        _report(ctx, r, kind)
    return summ[0]


def concurrent_bodies(ctx, binp=None):
    """many bodies traced at once, each with a compressed end-of-stream message of its own: every trace must carry its
    own content (the events of a body are a function of that body's bytes alone).  Whether two bodies overlap is up to
    the scheduler, so the driver is executed up to three times and a mismatch counts when every execution shows one.
    Also used by C02, C13 and C20 (through replay_reduced), whose bindings read what the tracer captured."""
    binp = binp or ctx.go_test_bin("internal/tracer", ["c14"])
    outp = os.path.join(ctx.build, "c14.conc.ndjson")
    first, seen = None, 0
    for k in range(3):
        ctx.run_harness(binp, "TestVerifC14Concurrent", env=dict(VERIF_OUT=outp, VERIF_ROUNDS=40 if ctx.quick else 300), timeout=1200)
        res = vf.read_ndjson(outp)
        summ = [r for r in res if r.get("summary")]
        if not summ:
            raise vf.Machinery("concurrent-bodies harness wrote no summary")
        if k == 0:
            ctx.cov["evaluations"] += summ[0]["evaluations"]
            ctx.cov["traces_validated_against_impl"] += summ[0]["evaluations"]
            ctx.notes["concurrent_bodies"] = summ[0]
        bad = [r for r in res if r.get("kind") == "conc"]
        if not bad:
            break
        seen += 1
        first = first or bad[0]
    if seen == 3:
        ctx.candidate(dict(kind="concurrent-bodies", enc=first["enc"], why=re.sub(r"\d+", "N", first["why"])[:60]),
                      "bodies traced concurrently (3 of 3 executions): %s encoding, body %s: %s" % (first["enc"], first["salt"], first["why"]),
                      dict(kind="concurrent", rec=first))
    elif seen:
        ctx.notes["unreproduced"] = ctx.notes.get("unreproduced", 0) + 1


def replay_reduced(ctx):
    """the flags family (every flag byte x payload class x encoding) and a few random bodies on the real tracer carriers;
    used by C20: the wire tracer is one of the places where an encoding name must mean the same algorithm and where a
    malformed compressed message must not change what a later one decodes to"""
    binp = ctx.go_test_bin("internal/tracer", ["c14"])
    scnp, outp = os.path.join(ctx.build, "c14r.scn"), os.path.join(ctx.build, "c14r.out")
    base = 0
    for cfg, sim in (("Gen_BodyTrace_flags_q.cfg", None), ("Gen_BodyTrace_sim.cfg", 1500 if ctx.quick else 10000)):
        if sim:
            g = ctx.tlc("Gen_BodyTrace", cfg, workers=1, simulate="num=%d" % sim, depth=90, timeout=2400)
        else:
            g = ctx.tlc("Gen_BodyTrace", cfg, timeout=2400, heap="12g")
        lines = list(dict.fromkeys(_scn_lines(g)))
        if not lines:
            raise vf.Machinery("generator %s produced no behaviour" % cfg)
        with open(scnp, "w") as fh:
            fh.write("\n".join(lines) + "\n")
        ctx.run_harness(binp, "TestVerifC14Replay", env=dict(VERIF_SCN=scnp, VERIF_OUT=outp, VERIF_IDX_BASE=base, VERIF_ALL_ENCS=1), timeout=3000)
        sm = _harness_out(ctx, outp, "replay")
        ctx.cov["evaluations"] += sm["evaluations"]
        ctx.cov["traces_validated_against_impl"] += sm["scenarios"]
        base += len(lines)
    concurrent_bodies(ctx, binp)


def run(ctx):
    q = ctx.quick
    binp = ctx.go_test_bin("internal/tracer", ["c14"])
    scnp, outp = os.path.join(ctx.build, "c14.scn.ndjson"), os.path.join(ctx.build, "c14.out.ndjson")

    if ctx.replay:
        rp = json.load(open(ctx.replay))
        ctx.seed = rp.get("seed", ctx.seed)
        kind, rec = rp["scenario"]["kind"], rp["scenario"].get("rec")
        if kind in ("no-body", "crash"):
            no_body(ctx, binp)
        elif kind == "concurrent":
            concurrent_bodies(ctx, binp)
        elif kind == "replay":
            vf.write_ndjson(scnp, [rec["scn"]])
            ctx.run_harness(binp, "TestVerifC14Replay", env=dict(VERIF_SCN=scnp, VERIF_OUT=outp, VERIF_IDX_BASE=rec["idx"]))
            _harness_out(ctx, outp, "replay")
        elif kind == "loopback":
            vf.write_ndjson(scnp, rp["scenario"]["pool"])
            ctx.run_harness(binp, "TestVerifC14Loopback", env=dict(VERIF_SCN=scnp, VERIF_OUT=outp, VERIF_N=rp["scenario"]["n"],
                                                                 VERIF_ONLY=rec["idx"]))
            _harness_out(ctx, outp, "loopback")
        else:
            _record(ctx, binp, rp["scenario"]["n"], rp["scenario"]["maxlen"], only=rec["rec"])
        return

    # ---- 1. design: machine == Events for every splitting / cut / ending / interleaving
    mcs = ["MC_BodyTrace_split_q.cfg"] if q else ["MC_BodyTrace_split.cfg", "MC_BodyTrace_flags.cfg",
                                                   "MC_BodyTrace_hdrs.cfg", "MC_BodyTrace_3env.cfg"]
    design = {}
    for cfg in mcs:
        mc = ctx.tlc("BodyTrace", cfg, timeout=2400)
        design[cfg] = dict(distinct=mc.distinct, generated=mc.generated, wall_s=round(mc.wall, 1))
    # non-vacuity: the machine that ignores the compressed flag must be rejected by the same theorem
    mut = ctx.tlc("BodyTrace", "MC_BodyTrace_mutant.cfg", expect_violation=True, timeout=600)
    if mut.violated != "Agrees":
        raise vf.Machinery("the flag-ignoring mutant of the machine was not rejected by Agrees (%s)" % mut.violated)
    design["MC_BodyTrace_mutant.cfg"] = "Agrees violated, as it must be"
    if not q:
        lv = ctx.tlc("BodyTrace", "MC_BodyTrace_live.cfg", timeout=2400)
        design["MC_BodyTrace_live.cfg"] = dict(distinct=lv.distinct, generated=lv.generated, wall_s=round(lv.wall, 1))
    ctx.notes["mc_design"] = design

    # ---- 2. spec -> code: generated behaviours replayed on the real carriers
    gens = [("Gen_BodyTrace_split_q.cfg" if q else "Gen_BodyTrace_split_t.cfg", None),
            ("Gen_BodyTrace_flags_q.cfg", None), ("Gen_BodyTrace_post.cfg", None),
            ("Gen_BodyTrace_hdrs.cfg", None), ("Gen_BodyTrace_sim.cfg", 6000 if q else 40000)]
    if not q:
        gens += [("Gen_BodyTrace_flags_t.cfg", None)]
    gnotes, pool, base = {}, [], 0
    for cfg, sim in gens:
        if sim:
            g = ctx.tlc("Gen_BodyTrace", cfg, workers=1, simulate="num=%d" % sim, depth=90, timeout=2400)
        else:
            g = ctx.tlc("Gen_BodyTrace", cfg, timeout=2400, heap="12g")
        lines = _scn_lines(g)
        del g
        if sim:
            lines = list(dict.fromkeys(lines))
        if not lines:
            raise vf.Machinery("generator %s produced no behaviour" % cfg)
        with open(scnp, "w") as fh:
            fh.write("\n".join(lines) + "\n")
        ctx.run_harness(binp, "TestVerifC14Replay", env=dict(VERIF_SCN=scnp, VERIF_OUT=outp, VERIF_IDX_BASE=base,
                                                             VERIF_ALL_ENCS=1), timeout=3000)
        sm = _harness_out(ctx, outp, "replay")
        gnotes[cfg] = dict(behaviours=len(lines), evaluations=sm["evaluations"], by_carrier=sm["by_carrier"],
                           skipped=sm["skipped"], skip_reasons=sm["skip_reasons"], not_applicable=sm["not_applicable"])
        ctx.cov["evaluations"] += sm["evaluations"]
        ctx.cov["traces_validated_against_impl"] += sm["scenarios"]
        ctx.cov["distinct_nontrivial"] += sm["nontrivial"]
        step = max(1, len(lines) // 400)
        pool += lines[::step][:400]
        ctx.sample(json.loads(lines[len(lines) // 2]), limit=3)
        base += len(lines)
        del lines
    ctx.notes["generators"] = gnotes

    try:
        _later_phases(ctx, binp, pool, scnp, outp)
    except vf.Machinery as e:
        if not ctx.violations:
            raise
        # the tree already disagrees with the specification (reproduced above); a tracer that is that
        # broken may well take the remaining drivers down with it
        ctx.notes["later_phases_aborted"] = str(e)[:500]
        ctx.log("later phases aborted after reproduced violations: %s" % str(e)[:300])

    concurrent_bodies(ctx, binp)
    ctx.cov["exhaustive"] = False
    if not ctx.replay:
        # the same message tracer (dataTracer) also runs inside the HTTP/2 connection tracer, which drives it differently
        # (per stream, flushed at stream close from either side): H2Trace.tla's generated exchanges - bodies cut anywhere in
        # the envelopes - replayed through TracingHTTP2Conn, reduced bounds
        import sys
        sys.path.insert(0, os.path.dirname(os.path.abspath(__file__)))
        import c15
        b15 = ctx.go_test_bin("internal/tracer", ["c15"])
        small = c15.scenarios(ctx.tlc("Gen_H2Trace", "Gen_H2Trace_small.cfg", workers=8, timeout=1800))
        sim0 = c15.scenarios(ctx.tlc("Gen_H2Trace", "Gen_H2Trace_sim0.cfg", workers=4, simulate="num=%d" % (300 if ctx.quick else 2000), depth=120, timeout=3000))
        c15.replay(ctx, b15, small + sim0, "c14conn", 2)
    ctx.cov["rule"] = (
        "A behaviour = (envelope sequence with flags/declared length/payload class, truncation point, way of ending, side, "
        "header combination, splitting into calls, calls after the end, other-side interleaving) together with the events "
        "Events(..) requires. TLC enumerates ALL splittings of every body within MaxTotal bytes (split cfg), all flag x "
        "payload class x encoding x header combinations with few splittings (flags/hdrs cfgs), all call sequences after the "
        "end (post cfg) and random walks over longer bodies (sim). Each behaviour is replayed on tracingReader and on "
        "TracingHandler (writer + request reader), for every real encoding where an end-of-stream payload is looked at; "
        "non-trivial = more than two calls or more events than the lone body end. A sample runs over loopback HTTP/1.1 and "
        "HTTP/2 with TracingRoundTripper/TracingHandler, compared with the same exchange without tracing. Recorded "
        "executions over random bodies up to 64 KiB are accepted line by line by Trace_BodyTrace (obs = Events).")
    ctx.assumptions += [
        "a payload cell of the specification stands for a non-empty block of bytes chosen by the harness (lengths in required "
        "events are translated with that mapping); prefix cells are single bytes",
        "payload classes (valid stream / empty stream / undecodable) are established per encoding with a fresh decompressor of "
        "internal/compression, not through the tracer; correctness of the codecs themselves is C20's subject",
        "(0, nil) reads are not modelled; a reader keeps returning its final error after the end",
        "AsImplemented_EndStreamMask: flag bits 2 and 128 mark an end-of-stream message on any enveloped response",
        "AsImplemented_NoEventWithoutContent: empty or undecodable end-of-stream content yields no end-stream event",
        "AsImplemented_SilentCutAfterPrefix: a body cut exactly between a complete prefix (declared > 0) and its first payload "
        "byte yields no partial event",
        "loopback: server-side response events of exchanges the client abandons are not compared (they end by cancellation)",
    ]


def _later_phases(ctx, binp, pool, scnp, outp):
    q = ctx.quick
    # ---- 3. a sample of the behaviours over real HTTP/1.1 and HTTP/2 connections, with and without tracing
    pool_objs = [json.loads(p) for p in pool]
    vf.write_ndjson(scnp, pool_objs)
    nloop = 1000 if q else 6000
    ctx.run_harness(binp, "TestVerifC14Loopback", env=dict(VERIF_SCN=scnp, VERIF_OUT=outp, VERIF_N=nloop), timeout=3000)
    res = vf.read_ndjson(outp)
    for r in res:
        if r.get("summary"):
            ctx.notes["loopback"] = r
            ctx.cov["evaluations"] += 4 * r["evaluations"]  # client/server x request/response event lists
            ctx.cov["traces_validated_against_impl"] += 2 * r["evaluations"]
        elif r.get("cause") == "harness":
            raise vf.Machinery("loopback harness problem: %s" % r.get("diff"))
        else:
            scn = r.get("scn") or {}
            key = dict(kind="loopback", carrier=r.get("carrier"), cause=r.get("cause"), side=scn.get("side"), end=scn.get("end"),
                       enc_class=_enc_class(scn), diff=re.sub(r"\d+", "N", r.get("diff") or "")[:160],
                       problem=re.sub(r"\d+", "N", (r.get("problems") or [""])[0])[:80])
            ctx.candidate(key, "%s over %s (%s): %s %s; required %s, tracer reported %s; scenario=%s" % (
                r.get("cause"), r.get("carrier"), r.get("enc"), r.get("diff"), "; ".join(r.get("problems") or [])[:300],
                json.dumps(r.get("exp"))[:300], json.dumps(r.get("obs"))[:300], json.dumps(scn)[:400]),
                dict(kind="loopback", rec=r, pool=pool_objs, n=nloop))
    if "loopback" not in ctx.notes:
        raise vf.Machinery("loopback harness wrote no summary")

    # ---- 3b. requests without a body (Body nil / http.NoBody / empty) through the traced transport
    no_body(ctx, binp)

    # ---- 4. code -> spec: long random bodies, accepted line by line by Trace_BodyTrace
    _record(ctx, binp, 4000 if q else 30000, 65536)


def no_body(ctx, binp):
    """the empty envelope sequence as callers build it: GET/POST/DELETE with Body nil, http.NoBody or an empty reader;
    what the caller receives with and without tracing must agree and a named request completes one trace"""
    outp = os.path.join(ctx.build, "c14.nobody.ndjson")
    ctx.run_harness(binp, "TestVerifC14NoBody", env=dict(VERIF_OUT=outp), timeout=600)
    res = vf.read_ndjson(outp)
    if not any(r.get("summary") for r in res):
        raise vf.Machinery("no-body harness wrote no summary")
    for r in res:
        if r.get("summary"):
            ctx.cov["evaluations"] += r["evaluations"]
            ctx.cov["traces_validated_against_impl"] += r["evaluations"]
            ctx.notes["no_body_requests"] = r["evaluations"]
        else:
            ctx.candidate(dict(kind="no-body", method=r["method"], body=r["body"], named=r["named"]),
                          "%s request with body %s through TracingRoundTripper: %s" % (r["method"], r["body"], r["what"]), dict(kind="no-body", rec=r))


def _record(ctx, binp, n, maxlen, only=None):
    trp = os.path.join(ctx.build, "c14.trace.ndjson")
    env = dict(VERIF_OUT=trp, VERIF_N=n, VERIF_MAXLEN=maxlen)
    if only is not None:
        env["VERIF_ONLY"] = only
    ctx.run_harness(binp, "TestVerifC14Record", env=env, timeout=3000)
    recs = []
    for r in vf.read_ndjson(trp):
        if r.get("cause") == "harness":
            raise vf.Machinery("record harness problem: %s" % r.get("diff"))
        if r.get("crash"):
            # the process tracing this execution died (three times): reported like any disagreement
            if r.get("repro", 0) >= 3:
                ctx.candidate(dict(kind="recorded", carrier="process", cause="crash", side="", end="", enc_class="",
                                   diff=(r.get("diff") or "")[:160], problem=""),
                              "crash: recorded execution %s: %s" % (r.get("rec"), r.get("diff")),
                              dict(kind="recorded", rec=r, n=n, maxlen=maxlen))
            continue
        recs.append(r)
    if not recs:
        raise vf.Machinery("record harness wrote nothing")
    vf.write_ndjson(trp, recs)
    tr = ctx.tlc("Trace_BodyTrace", "Trace_BodyTrace.cfg", workers=1, env=dict(VERIF_TRACE=trp), timeout=2400)
    if not tr.lines("CONSUMED "):
        raise vf.Machinery("trace spec did not consume the whole trace")
    rejected = {}
    for ln in tr.lines("REJECTK "):
        rejected[int(ln)] = KNOWN_CAUSE
    for ln in tr.lines("REJECT "):
        rejected[int(ln)] = "events"
    for i, r in enumerate(recs, start=1):
        cause = rejected.get(i) or ("transparency" if r.get("problems") else None)
        if not cause:
            continue
        if not r.get("stable"):
            ctx.notes["unreproduced"] = ctx.notes.get("unreproduced", 0) + 1
            continue
        key = dict(kind="recorded", carrier=r["carrier"], cause=cause, side=r["side"], end=r["end"], enc_class=_enc_class(r),
                   diff="rejected by Trace_BodyTrace" if i in rejected else "",
                   problem=re.sub(r"\d+", "N", (r.get("problems") or [""])[0])[:80])
        slim = dict(r)
        ctx.candidate(key, "%s: recorded execution (%s, %s, %d calls) %s; body=%s avail=%s end=%s side=%s hdr=%s reported=%s" % (
            cause, r["carrier"], r["enc"], r["ncalls"], "; ".join(r.get("problems") or [])[:300], json.dumps(r["body"])[:300],
            r["avail"], r["end"], r["side"], json.dumps(r["hdr"]), json.dumps(r["obs"])[:400]),
            dict(kind="recorded", rec=slim, n=n, maxlen=maxlen))
    ctx.cov["traces_validated_against_impl"] += len(recs)
    ctx.cov["evaluations"] += len(recs)
    ctx.cov["distinct_nontrivial"] += len({json.dumps(r["obs"]) + json.dumps(r["body"]) for r in recs if len(r["obs"]) > 1})
    ctx.notes["recorded"] = dict(executions=len(recs), rejected=len(rejected),
                                 max_body_bytes=max(sum(5 + e["len"] for e in r["body"]) for r in recs),
                                 max_calls=max(r["ncalls"] for r in recs))
    big = max(recs, key=lambda r: r["ncalls"])
    ctx.sample(dict(recorded=dict(body=big["body"], avail=big["avail"], end=big["end"], side=big["side"], hdr=big["hdr"],
                                  carrier=big["carrier"], ncalls=big["ncalls"], obs=big["obs"])), limit=5)
