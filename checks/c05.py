"""C05 - each selected permutation is executed exactly once against a matching server.
spec: Runner.tla (batches, server slots, sends), Trace_Runner (acceptor of real end-to-end runs)."""
import concurrent.futures as cf
import json
import os
import random
import sys
import vf

sys.path.insert(0, os.path.dirname(os.path.abspath(__file__)))

CONFIGS = {
    "h1-connect": "features:\n  versions: [HTTP_VERSION_1]\n  protocols: [PROTOCOL_CONNECT]\n  codecs: [CODEC_PROTO, CODEC_JSON]\n  compressions: [COMPRESSION_IDENTITY, COMPRESSION_GZIP]\n  supportsTls: false\n  supportsH2c: false\n",
    "h1h2c-all": "features:\n  versions: [HTTP_VERSION_1, HTTP_VERSION_2]\n  protocols: [PROTOCOL_CONNECT, PROTOCOL_GRPC, PROTOCOL_GRPC_WEB]\n  codecs: [CODEC_PROTO]\n  compressions: [COMPRESSION_IDENTITY]\n  supportsTls: false\n  supportsH2c: true\n",
    "tls-mix": "features:\n  versions: [HTTP_VERSION_1, HTTP_VERSION_2]\n  protocols: [PROTOCOL_CONNECT, PROTOCOL_GRPC]\n  codecs: [CODEC_PROTO]\n  compressions: [COMPRESSION_IDENTITY]\n  supportsTls: true\n  supportsH2c: true\n",
    "tls-certs": "features:\n  versions: [HTTP_VERSION_2]\n  protocols: [PROTOCOL_CONNECT, PROTOCOL_GRPC_WEB]\n  codecs: [CODEC_PROTO]\n  compressions: [COMPRESSION_IDENTITY]\n  supportsTls: true\n  supportsTlsClientCerts: true\n  supportsH2c: false\n",
}
CONFIGS["tls-one-cert-instance"] = "features:\n  versions: [HTTP_VERSION_2]\n  protocols: [PROTOCOL_GRPC]\n  codecs: [CODEC_PROTO]\n  compressions: [COMPRESSION_IDENTITY]\n  supportsTls: true\n  supportsTlsClientCerts: true\n  supportsH2c: false\n"
SLICES = {
    "basic": (["Basic/**"], []),
    "basic-unary": (["Basic/**/unary/**"], []),
    "errors-skip-stream": (["Errors/**"], ["**/server-stream/**"]),
    "two-suites": (["Basic/**", "Duplicate Metadata/**"], ["**/client-stream/**"]),
    "client-certs": (["TLS Client Certs/**", "Basic/**/unary/**"], []),
}


def validate_one(ctx, k, rec):
    p = os.path.join(ctx.build, "c05.t%d.ndjson" % k)
    cli = rec["scn"].get("cliFault", "none") != "none"
    clean = rec["scn"]["srvFault"].startswith("none") and not cli
    lines = [dict(plan=rec["plan"], maxServers=rec["maxServers"], clean=clean, cliFault=cli)] + rec["events"]
    vf.write_ndjson(p, lines)
    r = ctx.tlc("Trace_Runner", "Trace_Runner.cfg", workers=1, env=dict(VERIF_TRACE=p), timeout=900, heap="2g")
    if r.lines("ACCEPT"):
        return None
    # locate the first line that cannot be consumed (longest accepted prefix), by bisection
    lo, hi = 1, len(lines)  # prefix lengths (header included); lo is known acceptable (header only)
    while lo + 1 < hi:
        mid = (lo + hi) // 2
        vf.write_ndjson(p, lines[:mid])
        r = ctx.tlc("Trace_Runner", "Trace_Runner.cfg", workers=1, env=dict(VERIF_TRACE=p), timeout=900, heap="2g")
        if r.lines("ACCEPT"):
            lo = mid
        else:
            hi = mid
    return dict(line=hi, event=lines[hi - 1], before=lines[max(1, hi - 4):hi - 1])


REFMODE_CONFIG = ("features:\n  versions: [HTTP_VERSION_1, HTTP_VERSION_2]\n  protocols: [PROTOCOL_CONNECT, PROTOCOL_GRPC, PROTOCOL_GRPC_WEB]\n"
                  "  codecs: [CODEC_PROTO]\n  compressions: [COMPRESSION_IDENTITY]\n  supportsTls: false\n  supportsH2c: true\n")
REFMODE = [
    (["Basic/**"], ["**/(grpc server impl)/**"]),
    (["**/(grpc client impl)/**"], ["**/server-stream/**"]),
    (["Basic/**/unary/**", "Errors/**"], ["**/(grpc impls)/**", "**/HTTPVersion:1/**"]),
    (["@unmarked"], []),
    (["@marked:(grpc server impl)"], []),
    (["Basic/**"], ["@marked:(grpc client impl)", "@unmarked"]),
    # a suite as --test-file could give it: test cases named like the suite and like a piece of an earlier name element
    (["Echo/**"], []),
]


def reference_mode(ctx, only=None):
    """run() with the reference peers in process (the grpc-go peers add permutations under marked names): the outcomes
    must be exactly the permutations that the declarative selection (GlobDecl.Selected) picks among all names, and none
    of them may be a setup failure - also when every server has to share one port with --max-servers 1."""
    rnd = random.Random(ctx.seed)
    picks = REFMODE if not ctx.quick else REFMODE[3:] + rnd.sample(REFMODE[:3], 2)
    if only is not None:   # reduced form, used by C08 (whose statement is about which permutations run() executes)
        picks = [REFMODE[i] for i in only]
    scns = [dict(config=REFMODE_CONFIG, run=r, skip=s, fixedPort=False) for r, s in picks]
    if only is None:
        scns.append(dict(config=REFMODE_CONFIG, run=["Basic/**/unary/**"], skip=[], fixedPort=True))
    binp = ctx.go_test_bin("internal/app/connectconformance", ["c05", "peers"], race=True)
    split = lambda names: [n.split("/") for n in names]

    def execute(tag, todo):
        scnp, outp = os.path.join(ctx.build, "c05ref.%s.scn" % tag), os.path.join(ctx.build, "c05ref.%s.out" % tag)
        vf.write_ndjson(scnp, todo)
        p = ctx.run_harness(binp, "TestVerifC05RefMode", env=dict(VERIF_SCN=scnp, VERIF_OUT=outp), timeout=3000, check=False)
        if "WARNING: DATA RACE" in p.stdout:
            j = p.stdout.index("WARNING: DATA RACE")
            ctx.candidate(dict(kind="race", leg="refmode"), "data race reported by the Go race detector:\n" + p.stdout[j:j + 3000], dict(kind="race", report=p.stdout[j:j + 3000]))
            return None
        if p.returncode != 0:
            ctx.harness_died(p, "refmode harness")
        recs = vf.read_ndjson(outp)
        bad, lines = {}, []
        for i, r in enumerate(recs):
            if r.get("err", "").startswith("harness"):
                raise vf.Machinery(r["err"])
            if r.get("hang"):
                bad[i] = ("hang", "reference-mode run did not end within 4 minutes")
            elif r.get("misnamed"):
                bad[i] = ("marked-name", "gRPC-peer permutations not under the marked name of the permutation they come from: %s" % r["misnamed"][:4])
            elif r.get("err"):
                # patterns are chosen so that each matches something; an error here is itself a wrong selection
                bad[i] = ("refmode-error", "reference-mode run failed: %s" % r["err"])
            else:
                lines.append((i, dict(names=split(r["names"]), run=split(r["run"]), skip=split(r["skip"]), outcomes=split(r["outcomes"]), setup=split(r["setup"]))))
        trp = os.path.join(ctx.build, "c05ref.%s.trace" % tag)
        vf.write_ndjson(trp, [x[1] for x in lines])
        tr = ctx.tlc("Trace_Select", "Trace_Select.cfg", workers=1, env=dict(VERIF_TRACE=trp), timeout=1800, heap="4g")
        if lines and not tr.lines("CONSUMED "):
            raise vf.Machinery("Trace_Select did not consume the trace")
        for ln in tr.lines("REJECT "):
            i = lines[int(ln) - 1][0]
            r = recs[i]
            bad[i] = ("selection", "the permutations that got an outcome are not exactly the selected ones, or some are setup failures: %d names, %d outcomes (e.g. %s), %d setup failures (e.g. %s), port %s" % (
                len(r["names"]), len(r["outcomes"]), r["outcomes"][:2], len(r["setup"]), r["setup"][:1], r.get("port")))
        return recs, bad, len(lines)

    res = execute("first", scns)
    if res is None:
        return
    recs, bad, nlines = res
    counts = {i: 1 for i in bad}
    for rnd_i in range(2):
        todo = sorted(i for i in bad if counts[i] == rnd_i + 1)
        if not todo:
            break
        again = execute("again%d" % rnd_i, [scns[i] for i in todo])
        if again is None:
            return
        for j, i in enumerate(todo):
            if j in again[1]:
                counts[i] += 1
    for i, (kind, what) in sorted(bad.items()):
        if counts[i] >= 3:
            sc = scns[i]
            ctx.candidate(dict(kind=kind, leg="refmode", run=sc["run"], skip=sc["skip"], fixedPort=sc["fixedPort"]),
                          "reference mode (run=%s skip=%s fixedPort=%s; 3 of 3 executions): %s" % (sc["run"], sc["skip"], sc["fixedPort"], what), dict(leg="refmode", scn=sc, record=recs[i]))
        else:
            ctx.notes["refmode_unreproduced"] = ctx.notes.get("refmode_unreproduced", 0) + 1
    ctx.cov["traces_validated_against_impl"] += nlines
    ctx.cov["evaluations"] += sum(len(r.get("outcomes", [])) for r in recs)
    ctx.notes["reference_mode_leg"] = dict(runs=len(recs), names=len(recs[0]["names"]) if recs else 0)


def client_answers(ctx):
    """Runner.tla takes the client side as an assumption (ClientAnswers: every request handed to the client gets
    its callback, exactly once, whatever the client does - otherwise a batch never returns, its slot is never
    released and the run does not terminate).  That assumption is ClientMux.tla's ExactlyOnceAtEnd /
    NoStuckCallback; it is discharged here on the real multiplexer with a reduced budget of C10's schedules."""
    import c10
    c10.reduced_leg(ctx, 1500 if ctx.quick else 6000, "client_answers_leg")


def servers_are_stopped(ctx):
    """Runner.tla releases a server slot when the server process is gone ("never more than --max-servers processes
    alive", "every started server is stopped"); that a process is gone when the runner's process handle says it is
    done - also for a server that ignores the request to stop - is Process.tla's GoneWhenDone, bound here on the real
    runCommand with a cooperative and a stubborn peer."""
    import c11
    binp = ctx.go_test_bin("internal/app/connectconformance", ["c11", "peers"], race=True)
    c11.process_protocol(ctx, binp, only=["polite", "stubborn"])


def run(ctx):
    q = ctx.quick
    import g_refine
    if ctx.replay and g_refine.owns_replay(ctx.replay):   # replay file written by the refinement leg (spec-only)
        g_refine.leg(ctx)
        return
    mc = ctx.tlc("MC_Runner", "MC_Runner.cfg", timeout=900)
    ctx.notes["mc_design"] = dict(distinct=mc.distinct, generated=mc.generated)
    # the same run with a client that may fail at any time: no further batch is started, the batches in flight fail what
    # they have not sent, and the run ends with every server process gone
    mcl = ctx.tlc("MC_RunnerCL", "MC_RunnerCL_q.cfg" if q else "MC_RunnerCL.cfg", timeout=1800)
    ctx.notes["mc_design_client_loss"] = dict(distinct=mcl.distinct, generated=mcl.generated)
    g = ctx.tlc("Gen_Runner", "Gen_Runner.cfg", timeout=600)
    space = g.json_lines("SCN ")
    space.sort(key=lambda s: json.dumps(s, sort_keys=True))
    rnd = random.Random(ctx.seed)
    if ctx.replay and "fired" in json.load(open(ctx.replay)).get("scenario", {}):   # written by the process-protocol leg
        import c11
        binp = ctx.go_test_bin("internal/app/connectconformance", ["c11", "peers"], race=True)
        c11.process_protocol(ctx, binp, only=[json.load(open(ctx.replay))["scenario"]["kind"]])
        return
    if ctx.replay and "schedule" in json.load(open(ctx.replay)).get("scenario", {}):   # written by the multiplexer leg
        import c10
        c10.run(ctx)
        return
    if ctx.replay:
        pick = [json.load(open(ctx.replay))["scenario"]["abstract"]]
    else:
        pick = rnd.sample(space, 20 if q else 160)
        pick += [s for s in space if s["srvFault"] != "none:0" and s["config"] == "h1h2c-all" and s["slice"] == "basic-unary" and s["par"] == 4 and s["maxServers"] in (1, 2)]
        # exactly one instance with client certificates: visited in an order that varies from run to run, so several runs
        pick += [s for s in space if s["srvFault"] == "none:0" and s["config"] == "tls-one-cert-instance" and s["slice"] == "client-certs" and s["par"] == 4] * 6
        # client loss (RunnerCL.tla): the client answers k requests and then writes something the runner rejects, while
        # every other server is slow to come down - five instances, two or three slots, several runs (which servers are
        # slow, and which batch notices first, varies)
        pick += [dict(config="h1h2c-all", slice="basic", par=4, maxServers=m, srvFault="slowstop:1500", cliFault="garbageAfterResp:%d" % k)
                 for m, k in ((2, 2), (2, 5), (3, 3), (2, 9), (2, 1), (3, 7))]
    scns = []
    for s in pick:
        run_p, skip_p = SLICES[s["slice"]]
        scns.append(dict(config=CONFIGS[s["config"]], run=run_p, skip=skip_p, maxServers=s["maxServers"], par=s["par"],
                         serverFail=False, srvFault=s["srvFault"], cliFault=s.get("cliFault", "none")))
    scnp, outp = os.path.join(ctx.build, "c05.scn"), os.path.join(ctx.build, "c05.out")
    vf.write_ndjson(scnp, scns)
    d = os.path.join(ctx.build, "c05run")
    os.makedirs(d, exist_ok=True)
    binp = ctx.go_test_bin("internal/app/connectconformance", ["c05", "peers"], race=True)
    p = ctx.run_harness(binp, "TestVerifC05Run", env=dict(VERIF_SCN=scnp, VERIF_OUT=outp, VERIF_DIR=d), timeout=6000, check=False)
    if "WARNING: DATA RACE" in p.stdout:
        j = p.stdout.index("WARNING: DATA RACE")
        ctx.candidate(dict(kind="race"), "data race reported by the Go race detector:\n" + p.stdout[j:j + 3000], dict(kind="race", report=p.stdout[j:j + 3000]))
    elif p.returncode != 0:
        ctx.harness_died(p, "TestVerifC05Run harness")
    recs = vf.read_ndjson(outp)
    nperm = 0
    todo = []
    for k, rec in enumerate(recs):
        if rec.get("hang"):
            ctx.candidate(dict(kind="hang"), "run() did not terminate within 4 min: %s" % json.dumps(pick[k]), dict(abstract=pick[k]))
            continue
        if (rec.get("err") or "").startswith("harness"):
            raise vf.Machinery("harness problem: %s" % rec["err"])
        if not rec["plan"]:
            continue
        if rec.get("err") and "unmatched and possibly invalid patterns" in rec["err"]:
            ctx.notes["skipped_inapplicable_patterns"] = ctx.notes.get("skipped_inapplicable_patterns", 0) + 1
            continue
        nperm += sum(len(b["cases"]) for b in rec["plan"])
        todo.append((k, rec))
    with cf.ThreadPoolExecutor(max_workers=8) as ex:
        results = list(ex.map(lambda kr: validate_one(ctx, kr[0], kr[1]), todo))
    for (k, rec), bad in zip(todo, results):
        if bad:
            ev = bad["event"]
            ctx.candidate(dict(kind="trace-rejected", event=ev.get("e"), srvFault=pick[k]["srvFault"]),
                          "end-to-end run is not a behaviour of Runner: event #%d %s cannot be explained (preceding: %s); scenario=%s run error=%r" % (
                              bad["line"], json.dumps(ev)[:500], json.dumps(bad["before"])[:400], json.dumps(pick[k]), rec.get("err")),
                          dict(abstract=pick[k], bad=bad))
    ctx.cov["traces_validated_against_impl"] += len(todo)
    ctx.cov["evaluations"] += nperm
    ctx.cov["distinct_nontrivial"] += len({json.dumps(pick[k], sort_keys=True) for k, _ in todo})
    ctx.notes["runs"] = len(todo)
    ctx.notes["permutations_executed"] = nperm
    ctx.notes["events"] = sum(len(r["events"]) for _, r in todo)
    if todo:
        k, rec = todo[0]
        ctx.sample(dict(scenario=pick[k], plan=[(b["inst"], len(b["cases"])) for b in rec["plan"]], first_events=rec["events"][:4]))
    if not ctx.replay:
        client_answers(ctx)
        reference_mode(ctx)
        servers_are_stopped(ctx)
        g_refine.leg(ctx)   # ServerBatch+frame => Runner(one batch); ClientMux => ClientAbs; Runner projected per batch
    ctx.cov["rule"] = ("real run() in both-commands mode with the reference client and server wrapped as OS processes; scenario = config "
                       "(instance mix incl. TLS / client certs) x corpus slice (--run/--skip) x MaxServers 1..4 x client parallelism x "
                       "server-fails-to-start; every Up/Send/Stop event (synchronously sequenced, address probed by TCP connect) and the "
                       "final outcome map must be explained by Runner.tla with silent Acquire/Release; evaluations = permutations "
                       "executed; non-trivial = distinct scenarios run. Runs execute under the race detector. Runner.tla's assumption "
                       "that the client side answers every request exactly once is discharged by a reduced run of the ClientMux "
                       "binding (C10's schedules on the real multiplexer, Trace_ClientMux).")
    ctx.assumptions += ["the plan (selected permutations per instance, sorted instance order under --verbose) is computed with the runner's own library code; selection itself is decided by C06-C08",
                        "in-process gRPC peers and HTTP/3 are not covered by the wrappers (TCP probe)",
                        "server lifetime intervals [Up, Stop] are subsets of the real lifetimes, so an overlap above MaxServers is only reported if real"]
