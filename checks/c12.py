"""C12 - the reference server flags exactly the requests that deviate from the test setup.

spec: RefChecksDecl (declarative: aspects, wire rendering by the protocols' rules, Feedback, timeout
      grammar and exact duration on decimal digit sequences), RefChecks (the middleware as a machine,
      one action per check, several requests in flight), RefChecksLaws (statement-level laws over
      the whole matrix / the whole string domain), Gen_RefChecksMatrix / Gen_RefChecksTimeout /
      Gen_RefChecks (scenario and behaviour generators), Trace_RefChecks (acceptor of recordings).
code: internal/app/referenceserver: referenceServerChecks, extractTimeout, contextWithTimeout,
      timeoutFromContext, createRequestInfo (driven in-package by harness/c12)."""
import json
import os

import vf

PKG = "internal/app/referenceserver"


def _classes(items):
    return sorted({i.split("|")[0] for i in items})


UNIT_NS = dict(H=3600 * 10**9, M=60 * 10**9, S=10**9, m=10**6, u=10**3, n=1)
MAXI64 = 2**63 - 1


def _numeric_value_ns(ep, text):
    """duration a reader that takes the NUMERIC VALUE of the digits (sign, leading zeros allowed) would
    compute; only used to narrow the known-finding predicate, never for a verdict"""
    try:
        if ep == 1:
            ns = int(text, 10) * 10**6
        else:
            ns = int(text[:-1], 10) * UNIT_NS[text[-1]]
    except (ValueError, KeyError, IndexError):
        return None
    return str(min(ns, MAXI64))


def _key(source, kind, req, exp, obs, shape):
    """small, scenario-independent description of a disagreement (matched against known findings).
    exp is None for recorded executions (TLC only says REJECT + the shape of the timeout header)."""
    ofb = set(obs.get("fb") or [])
    hdr = req["ctm"] if req["ep"] == 1 else req["gtm"]
    text = "".join(hdr["s"]) if hdr["p"] else None
    key = dict(source=source, kind=kind, shape=shape, ep=req["ep"],
               obs_accept=obs.get("ctx", "none") != "none", obs_flagged="timeout" in ofb,
               obs_ran=obs.get("ran"), obs_rejected=obs.get("rejected", False), intact=obs.get("intact"),
               value_exact=(text is not None and obs.get("ctx", "none") != "none"
                            and obs.get("ctx") == _numeric_value_ns(req["ep"], text)
                            and obs.get("ms") == str(int(obs["ctx"]) // 10**6)))
    if exp is None:
        key.update(spec_accept=shape == "grammatical", concerns="timeout" if kind == "t" else kind)
        return key
    efb = set(exp.get("fb") or [])
    missing, extra = _classes(efb - ofb), _classes(ofb - efb)
    other = any(obs.get(f) != exp.get(f) for f in ("ran", "rejected", "seenC", "seenG")) or not obs.get("intact")
    tmo = (set(missing) | set(extra)) <= {"timeout"} and not other
    key.update(spec_accept=exp.get("ctx") != "none", missing=",".join(missing), extra=",".join(extra),
               headers_differ=obs.get("seenC") != exp.get("seenC") or obs.get("seenG") != exp.get("seenG"),
               concerns="timeout" if tmo else "handler" if other and not (missing or extra) else "feedback")
    return key


class Replayer:
    def __init__(self, ctx, binp):
        self.ctx, self.binp, self.n = ctx, binp, 0
        self.tot = dict(scenarios=0, requests=0, nontrivial=0, mismatches=0)

    def run(self, scns, label):
        ctx = self.ctx
        self.n += 1
        scnp = os.path.join(ctx.build, "c12.%d.scn.ndjson" % self.n)
        outp = os.path.join(ctx.build, "c12.%d.out.ndjson" % self.n)
        vf.write_ndjson(scnp, scns)
        ctx.run_harness(self.binp, "TestVerifC12Replay", env=dict(VERIF_SCN=scnp, VERIF_OUT=outp), timeout=2400)
        res = vf.read_ndjson(outp)
        summ = [r for r in res if r.get("summary")]
        if not summ:
            raise vf.Machinery("replay harness wrote no summary (%s)" % label)
        summ = summ[0]
        mach = [r for r in res if r.get("machinery")]
        if mach or summ.get("machinery"):
            raise vf.Machinery("replay harness could not run %d scenario(s) of %s: %s" % (
                len(mach), label, json.dumps(mach[0])[:600] if mach else "?"))
        for r in res:
            if r.get("summary"):
                continue
            if r.get("repro", 0) < 3:
                ctx.notes["unreproduced"] = ctx.notes.get("unreproduced", 0) + 1
                ctx.log("unreproduced mismatch ignored: %s" % json.dumps(r)[:300])
                continue
            req = r["scn"]["reqs"][r["req"] - 1]
            spec_exp = r["scn"]["exp"][r["req"] - 1]
            hdr = req["ctm"] if req["e"]["proto"] == 1 else req["gtm"]
            obs = {k: v for k, v in r["obs"].items() if k != "lines"}
            what = ("%s scenario, request %d (test name %r, expected %s, timeout header %r): the code shows %s; the "
                    "specification requires %s; stderr lines %s; wire %s") % (
                r.get("kind"), r["req"], req["name"], json.dumps(req["e"], sort_keys=True),
                "".join(hdr["s"]) if hdr["p"] else None, json.dumps(obs, sort_keys=True),
                json.dumps(spec_exp, sort_keys=True), json.dumps(r["obs"].get("lines")), json.dumps(req["w"], sort_keys=True))
            key = _key("replay", r.get("kind"), dict(ep=req["e"]["proto"], ctm=req["ctm"], gtm=req["gtm"]),
                       spec_exp, r["obs"], spec_exp.get("shape", "-"))
            ctx.candidate(key, what, dict(scn=r["scn"], req=r["req"], obs=r["obs"], exp=spec_exp))
        for k in self.tot:
            self.tot[k] += summ.get(k, 0)
        os.remove(scnp)
        os.remove(outp)
        ctx.log("%s: %d scenarios replayed, %d mismatching requests" % (label, summ["scenarios"], summ["mismatches"]))


def run(ctx):
    q = ctx.quick
    seed = ctx.seed

    # ------------------------------------------------------------------ replay of one stored scenario
    if ctx.replay:
        binp = ctx.go_test_bin(PKG, ["c12"])
        rep = Replayer(ctx, binp)
        rep.run([json.load(open(ctx.replay))["scenario"]["scn"]], "replay file")
        return

    # ------------------------------------------------------------------ 1. design
    design = {}
    for name, mod, cfg in [
        ("laws_matrix", "RefChecksLaws", "MC_RefChecksLaws_matrix.cfg"),
        ("laws_timeout", "RefChecksLaws", "MC_RefChecksLaws_timeout_quick.cfg" if q else "MC_RefChecksLaws_timeout.cfg"),
        ("machine_near", "RefChecks", "MC_RefChecks_nearq.cfg" if q else "MC_RefChecks_near.cfg"),
        ("machine_timeout", "RefChecks", "MC_RefChecks_timeout_quick.cfg" if q else "MC_RefChecks_timeout.cfg"),
        ("machine_conc3", "RefChecks", "MC_RefChecks_conc3.cfg"),
    ] + ([] if q else [("machine_matrix", "RefChecks", "MC_RefChecks_matrix.cfg"),
                       ("machine_conc2", "RefChecks", "MC_RefChecks_conc.cfg")]):
        res = ctx.tlc(mod, cfg, timeout=1500)
        design[name] = dict(cfg=cfg, distinct=res.distinct, generated=res.generated, wall_s=round(res.wall, 1))
    ctx.notes["design"] = design

    binp = ctx.go_test_bin(PKG, ["c12"])
    rep = Replayer(ctx, binp)
    gen = {}

    def generate(label, module, cfg, env):
        res = ctx.tlc(module, cfg, workers=4, timeout=1500, env=env)
        scns = res.json_lines("SCN ")
        if not scns:
            raise vf.Machinery("generator %s produced no scenario" % label)
        gen[label] = dict(scenarios=len(scns), wall_s=round(res.wall, 1))
        for s in scns[:: max(1, len(scns) // 2)][:1]:
            ctx.sample(dict(kind=s["kind"], req=s["reqs"][-1], exp=s["exp"][-1], script=s["script"]))
        rep.run(scns, label)

    # ------------------------------------------------------------------ 2. aspect matrix
    # near: all E of the shard x A within one aspect x all spellings (+ trailers, repeats, certificate, no name)
    near_shards = [seed % 3] if q else [0, 1, 2]
    for sh in near_shards:
        generate("matrix-near-%d/3" % sh, "Gen_RefChecksMatrix", "Gen_RefChecksMatrix.cfg",
                 dict(VERIF_MODE="near", VERIF_SHARD=sh, VERIF_NSHARD=3, VERIF_SALT=seed))
    # diag: E met exactly; the same lines drive the real runner (server_runner.go adds the x-expect-* headers)
    diag = ctx.tlc("Gen_RefChecksMatrix", "Gen_RefChecksMatrix.cfg", workers=4, timeout=600,
                   env=dict(VERIF_MODE="diag", VERIF_SHARD=0, VERIF_NSHARD=1, VERIF_SALT=seed)).json_lines("SCN ")
    if len(diag) != 864:
        raise vf.Machinery("diag generator printed %d scenarios, expected 864" % len(diag))
    gen["matrix-diag"] = dict(scenarios=len(diag))
    rep.run(diag, "matrix-diag")
    runner_bin = ctx.go_test_bin("internal/app/connectconformance", ["c12/runner"])
    scnp, outp = os.path.join(ctx.build, "c12.runner.scn.ndjson"), os.path.join(ctx.build, "c12.runner.out.ndjson")
    vf.write_ndjson(scnp, diag)
    ctx.run_harness(runner_bin, "TestVerifC12Runner", env=dict(VERIF_SCN=scnp, VERIF_OUT=outp), timeout=1200)
    rres = vf.read_ndjson(outp)
    rsum = [r for r in rres if r.get("summary")]
    if not rsum or rsum[0].get("machinery"):
        raise vf.Machinery("runner harness failed: %s" % json.dumps(rres[:2])[:600])
    for r in rres:
        if r.get("summary") or r.get("repro", 0) < 3:
            continue
        ctx.candidate(dict(source="replay", kind="runner", concerns="expect-headers", shape="-",
                           missing=",".join(sorted(set(r["exp"]) - set(r["obs"]))),
                           extra=",".join(sorted(set(r["obs"]) - set(r["exp"]))),
                           differing=",".join(sorted(k for k in r["exp"] if k in r["obs"] and r["obs"][k] != r["exp"][k]))),
                      "runTestCasesForServer adds headers %s for the expectation %s; the specification (ExpectHeaders) requires %s" % (
                          json.dumps(r["obs"], sort_keys=True), json.dumps(r["e"], sort_keys=True), json.dumps(r["exp"], sort_keys=True)),
                      dict(runner=r))
    ctx.notes["runner"] = rsum[0]
    ctx.cov["evaluations"] += rsum[0]["scenarios"]
    ctx.cov["traces_validated_against_impl"] += rsum[0]["scenarios"]
    # slice: E of the shard x ALL A; thorough = all shards = the full 864 x 864 matrix
    nsh = 32 if q else 8
    for sh in ([seed % nsh] if q else list(range(nsh))):
        generate("matrix-slice-%d/%d" % (sh, nsh), "Gen_RefChecksMatrix", "Gen_RefChecksMatrix.cfg",
                 dict(VERIF_MODE="slice", VERIF_SHARD=sh, VERIF_NSHARD=nsh, VERIF_SALT=seed))

    # ------------------------------------------------------------------ 3. timeout strings
    if q:
        generate("timeout-len3", "Gen_RefChecksTimeout", "Gen_RefChecksTimeout_quick.cfg", dict(VERIF_PROTO=0))
    else:
        for p in (1, 2, 3):
            generate("timeout-len4-proto%d" % p, "Gen_RefChecksTimeout", "Gen_RefChecksTimeout_full.cfg", dict(VERIF_PROTO=p))

    # ------------------------------------------------------------------ 4. interleaved requests (behaviours)
    generate("script-2req", "Gen_RefChecks", "Gen_RefChecks_conc2.cfg", {})
    generate("script-3req", "Gen_RefChecks", "Gen_RefChecks_conc3.cfg", {})
    ctx.notes["generators"] = gen
    ctx.notes["replay"] = rep.tot
    ctx.cov["evaluations"] += rep.tot["requests"]
    ctx.cov["traces_validated_against_impl"] += rep.tot["scenarios"]
    ctx.cov["distinct_nontrivial"] += rep.tot["nontrivial"]

    # ------------------------------------------------------------------ 5. code -> spec: recorded executions
    n_wire, n_tmo, n_conc, n_real = (12000, 15000, 300, 400) if q else (60000, 80000, 2000, 4000)
    chunk = 40000
    trp = os.path.join(ctx.build, "c12.trace.ndjson")
    ctx.run_harness(binp, "TestVerifC12Record", env=dict(VERIF_OUT=trp, VERIF_N_WIRE=n_wire, VERIF_N_TMO=n_tmo,
                                                         VERIF_N_CONC=n_conc, VERIF_N_REAL=n_real), timeout=2400)
    recs = vf.read_ndjson(trp)
    if len(recs) != n_wire + n_tmo + n_conc + n_real:
        raise vf.Machinery("recorder wrote %d lines, expected %d" % (len(recs), n_wire + n_tmo + n_conc + n_real))
    rejected = 0
    for off in range(0, len(recs), chunk):
        part = recs[off:off + chunk]
        pp = os.path.join(ctx.build, "c12.trace.part.ndjson")
        vf.write_ndjson(pp, part)
        tr = ctx.tlc("Trace_RefChecks", "Trace_RefChecks.cfg", workers=1, env=dict(VERIF_TRACE=pp), timeout=2400)
        if tr.lines("CONSUMED ") != [str(len(part))]:
            raise vf.Machinery("trace spec did not consume the whole trace part at offset %d" % off)
        for ln in tr.lines("REJECT "):
            idx, shape = ln.split(" ", 1)
            r = part[int(idx) - 1]
            rejected += 1
            if r["k"] == "t":
                hdr = r["ctm"] if r["ep"] == 1 else r["gtm"]
                key = _key("recorded", "t", r, None, r["obs"], shape)
                what = "recorded execution rejected by Trace_RefChecks: expected protocol %d, timeout header %r (%s) -> %s" % (
                    r["ep"], "".join(hdr["s"]) if hdr["p"] else None, shape, json.dumps(r["obs"], sort_keys=True))
            else:
                key = dict(source="recorded", kind=r["k"], concerns="wire" if r["k"] == "m" else "concurrent", shape="-",
                           obs=json.dumps(r.get("obs", r.get("batches")), sort_keys=True)[:200])
                what = "recorded execution rejected by Trace_RefChecks: %s" % json.dumps(r, sort_keys=True)[:900]
            ctx.candidate(key, what, dict(record=r))
        os.remove(pp)
    ctx.notes["recorded"] = dict(wire=n_wire, timeout=n_tmo, real_connections=n_real, concurrent_scenarios=n_conc, rejected=rejected)
    ctx.cov["traces_validated_against_impl"] += len(recs)
    ctx.cov["evaluations"] += len(recs)
    ctx.cov["distinct_nontrivial"] += len({json.dumps(r, sort_keys=True) for r in recs
                                           if r["k"] == "c" or r["obs"]["fb"] or (r["k"] == "t" and r["obs"]["ctx"] != "none")})
    ctx.sample(recs[n_wire])
    ctx.sample(recs[-1])

    ctx.cov["exhaustive"] = False
    ctx.cov["rule"] = (
        "Aspect matrix: TLC enumerates expected x actual tuples of (3 HTTP versions, GET/POST, 3 protocols, 2 codecs, "
        "6 compressions, TLS, client cert): every pair within one aspect x every spelling of the actual request (bare "
        "application/grpc, explicit identity, Connect unary/stream, decoy encoding headers/query parameters, gRPC "
        "without TE) plus trailers, 2nd/3rd request of a test, foreign client certificate and missing test name; and "
        "the %s with a pseudo-randomly chosen spelling. Timeouts: every string over 17 characters (digits 0 1 5 9, "
        "signs, blank, 6 units, near-miss units/separators) up to %d characters and sign?digits^k tail forms for "
        "k in 0..12 plus overflow boundaries (2562047H/2562048H ...), for each expected protocol, header of the own "
        "or of the other protocol. Behaviours: all coarse interleavings (start/park-in-handler/release) of 2 and 3 "
        "requests with equal/different/missing test names. Each scenario is replayed on the real "
        "referenceServerChecks (real Printer, real timeoutFromContext/createRequestInfo in the inner handler) and "
        "compared with the outcome RefChecksDecl!Outcome requires: canonical feedback items incl. the values named in "
        "the message, each line prefixed with the test name, handler ran / rejected, context duration in ns, echoed "
        "timeout_ms, which timeout headers the handler still sees, all other headers intact. Non-trivial = the "
        "specification requires feedback, rejection, a timeout header is present, an earlier request of the same test "
        "or more than one request. Recorded: random wires / timeout strings up to 22 printable characters / truly "
        "concurrent batches, accepted line by line by Trace_RefChecks." % (
            "slice of the full matrix (1/32 of the expected tuples x all 864 actual tuples)" if q
            else "full 864 x 864 matrix", 3 if q else 4))
    ctx.assumptions += [
        "requests are synthesized http.Request values handed to the middleware in-package (ProtoMajor, TLS state "
        "and Trailer are set by the harness, not by a real connection)",
        "AsImplemented_TimeoutByExpectedProtocol: the timeout header examined is the one of the protocol the "
        "runner expects (for a request of the expected protocol: its own header); the other protocol's header "
        "is left alone",
        "a rejected timeout header is removed from the request as well (code comment: the server must not enforce it)",
        "zero is a valid timeout value (digits grammar of the protocol specs as quoted in checks.go: at most 10 / 8 digits)",
        "true races between the checks of two requests are exercised only in the recorded concurrent batches "
        "(set of repeat numbers per test name), the scripted behaviours interleave at handler entry/exit",
    ]
