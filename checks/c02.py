"""C02 - derived expectations agree with the reference peers on any well-formed test case; loading
any parseable suite never crashes.
spec: EchoDecl.tla (Expect / Serve / ClientView / Conforms), Echo.tla (client+server machine, design
theorem), EchoCases.tla (scenario space), Gen_Echo.tla (generator), Trace_Echo.tla (acceptor)."""
import json
import os
import random
import shutil
import vf

PKG = "internal/app/connectconformance"


def shape(s):
    """scenario attributes used for stratification and for known-finding keys"""
    t = s["t"]
    reqs = t["reqs"]
    d = reqs[0]["def"] if reqs else {"k": "none"}
    nresp, err, ndet = 0, "none", 0
    if d["k"] == "sdef":
        nresp = len(d["data"])
        e = d["err"]
    elif d["k"] == "udef":
        nresp = 0 if d["resp"]["k"] == "err" else 1
        e = d["resp"] if d["resp"]["k"] == "err" else {"k": "none"}
    else:
        e = {"k": "none"}
    if e["k"] == "err":
        ndet = len(e["details"])
        err = "code" if e["msg"] == 0 else ("msg" if ndet == 0 else "details")
    hk = {(h["l"], h["id"], h["bin"]) for h in d.get("hdrs", [])}
    shared = any((h["l"], h["id"], h["bin"]) in hk for h in d.get("trls", []))
    return dict(st=t["st"], nreq=len(reqs), nresp=nresp, hasdef=d["k"] != "none", err=err, shared=shared,
                mt1=reqs[0]["mt"] if reqs else "-", more_resp_than_req=bool(d["k"] == "sdef" and nresp > len(reqs)),
                more_req_than_resp=bool(t["st"] in ("server", "half", "full") and len(reqs) > nresp))


def pick_e2e(ctx, wf, n):
    """seeded, stratified choice of n well-formed scenarios: round-robin over (stream type, shape) buckets"""
    rnd = random.Random(ctx.seed * 7919 + 11)
    buckets = {}
    for s in wf:
        sh = shape(s)
        key = (sh["st"], min(sh["nreq"], 3), min(sh["nresp"], 3) if sh["hasdef"] else -1, sh["err"],
               sh["more_resp_than_req"], sh["more_req_than_resp"], sh["shared"])
        buckets.setdefault(key, []).append(s)
    keys = sorted(buckets)
    rnd.shuffle(keys)
    # make sure the shapes the corpus lacks are in: full duplex with n<m, n>m, error with no response
    # ... and one metadata name in headers and trailers of a response that has no message
    keys.sort(key=lambda k: 0 if (k[0] == "full" and (k[4] or k[5])) or (k[6] and k[2] == 0) else 1)
    for k in keys:
        rnd.shuffle(buckets[k])
    chosen = []
    per_st = {}
    i = 0
    while len(chosen) < n and any(buckets[k] for k in keys):
        k = keys[i % len(keys)]
        i += 1
        if not buckets[k]:
            continue
        if per_st.get(k[0], 0) >= (n + 4) // 5 + 1:
            buckets[k] = []
            continue
        chosen.append(buckets[k].pop())
        per_st[k[0]] = per_st.get(k[0], 0) + 1
    return chosen


STNUM = {"unary": 1, "client": 2, "server": 3, "half": 4, "full": 5}


def cfg_key(r):
    c = r["cfg"]
    return "%d/%d/%d/%d/%d/%s" % (STNUM[r["st"]], c["protocol"], c["version"], c["codec"], c["compression"], "true" if c["tls"] else "false")


def run_e2e(ctx, binp, scns, tag, cfgn, timeout, cfgkeys=None, chunk=40):
    """runs the cases in chunks (one harness process each: the reference client keeps a connection per
    RPC open until it exits, and a process has 20000 descriptors); returns records and a merged summary"""
    allrecs, total = [], None
    for ci in range(0, len(scns), chunk):
        part = scns[ci:ci + chunk]
        t = "%s.%d" % (tag, ci // chunk)
        scnp = os.path.join(ctx.build, "c02.e2e.%s.scn" % t)
        outp = os.path.join(ctx.build, "c02.e2e.%s.out" % t)
        wd = os.path.join(ctx.build, "e2e-" + t)
        os.makedirs(wd, exist_ok=True)
        vf.write_ndjson(scnp, part)
        env = dict(VERIF_SCN=scnp, VERIF_OUT=outp, VERIF_DIR=wd, VERIF_CFGN=cfgn,
                   VERIF_MAXSERVERS=ctx.pick(6, 10), VERIF_WATCHDOG_S=timeout - 120)
        if cfgkeys is not None:
            kp = os.path.join(ctx.build, "c02.e2e.%s.keys" % t)
            with open(kp, "w") as fh:
                json.dump(sorted(cfgkeys), fh)
            env["VERIF_CFGKEYS"] = kp
        ctx.run_harness(binp, "TestVerifC02E2E", env=env, timeout=timeout)
        recs = vf.read_ndjson(outp)
        for r in recs:
            if r.get("harness_error"):
                raise vf.Machinery("e2e harness: " + r["harness_error"])
        summ = [r for r in recs if r.get("summary")]
        if not summ:
            raise vf.Machinery("e2e harness wrote no summary")
        summ = summ[0]
        recs = [r for r in recs if not r.get("summary")]
        for r in recs:
            txt = r["m1"] + r["m2"] + r["cerr"]
            if "too many open files" in txt or "cannot assign requested address" in txt:
                raise vf.Machinery("e2e harness ran out of OS resources: " + txt[:300])
        shutil.rmtree(wd, ignore_errors=True)
        allrecs += recs
        if total is None:
            total = dict(summ)
        else:
            for k in ("cases", "permutations", "observed", "run_s", "capture_s", "unexpected_names"):
                total[k] += summ[k]
            total["run_ok"] = total["run_ok"] and summ["run_ok"]
            total["config_cases"] = max(total["config_cases"], summ["config_cases"])
    return allrecs, total


def accept(ctx, recs, byid, tag):
    """Trace_Echo over the recorded permutations; returns the set of rejected record indices"""
    trp = os.path.join(ctx.build, "c02.trace.%s" % tag)
    vf.write_ndjson(trp, [dict(t=byid[r["id"]]["t"], o1=r["o1"], o2=r["o2"], cerr=r["cerr"], obs=r["obs"]) for r in recs])
    tr = ctx.tlc("Trace_Echo", "Trace_Echo.cfg", workers=1, env=dict(VERIF_TRACE=trp), timeout=3000, heap="8g")
    if not tr.lines("CONSUMED "):
        raise vf.Machinery("Trace_Echo did not consume the trace")
    return {int(x) - 1 for x in tr.lines("REJECT ")}


def run(ctx):
    q = ctx.quick
    import sys
    sys.path.insert(0, os.path.dirname(os.path.abspath(__file__)))
    import g_cancel
    # a replay file of the cancellation leg: this check's own replay handling cannot read it
    if ctx.replay and json.load(open(ctx.replay))["scenario"].get("leg") == "g2-cancel":
        g_cancel.leg(ctx)
        return
    if ctx.replay and json.load(open(ctx.replay))["scenario"].get("kind") == "concurrent":
        import c14
        c14.concurrent_bodies(ctx)
        return
    # ---- 1. design: machine == contract, three-way agreement, order, termination
    mc = ctx.tlc("Echo", ctx.pick("MC_Echo_q.cfg", "MC_Echo_t.cfg"), timeout=3000, heap="12g")
    ctx.notes["mc_design"] = dict(distinct=mc.distinct, generated=mc.generated, cfg=ctx.pick("MC_Echo_q.cfg", "MC_Echo_t.cfg"))
    neg = ctx.tlc("Echo", "MC_Echo_x_flag.cfg", timeout=900, expect_violation=True)
    if not neg.violated:
        raise vf.Machinery("MC_Echo_x_flag: a full_duplex flag that contradicts the stream type must break the agreement")
    ctx.notes["mc_negative"] = "full_duplex flag against the stream type violates %s (why WellFormed demands they agree)" % neg.violated

    # ---- 2. behaviours: exhaustive bounded space, damaged cases, long random cases
    scns, seen = [], set()

    def take(res, origin):
        n = 0
        for s in res.json_lines("SCN "):
            k = json.dumps(s["t"], sort_keys=True)
            if k in seen:
                continue
            seen.add(k)
            s["id"] = len(scns) + 1
            s["origin"] = origin
            scns.append(s)
            n += 1
        return n

    n_ex = take(ctx.tlc("Gen_Echo", ctx.pick("Gen_Echo_q.cfg", "Gen_Echo_t.cfg"), timeout=3000, heap="12g"), "bfs")
    n_mut = take(ctx.tlc("Gen_Echo", ctx.pick("Gen_Echo_mut_q.cfg", "Gen_Echo_mut_t.cfg"), timeout=3000, heap="12g"), "mut")
    n_sim = take(ctx.tlc("Gen_Echo", "Gen_Echo_sim.cfg", workers=1, simulate="num=%d" % ctx.pick(800, 8000), depth=12,
                         timeout=3000), "sim")
    byid = {s["id"]: s for s in scns}
    wf = [s for s in scns if s["wf"]]
    ctx.log("scenarios: %d exhaustive + %d damaged + %d simulated = %d distinct (%d well-formed)" % (n_ex, n_mut, n_sim, len(scns), len(wf)))
    ctx.notes["generated"] = dict(exhaustive=n_ex, damaged=n_mut, simulated=n_sim, distinct=len(scns), well_formed=len(wf),
                                  must_reject=sum(1 for s in scns if s["load"] == "reject"),
                                  must_not_crash_only=sum(1 for s in scns if s["load"] == "any"))
    binp = ctx.go_test_bin(PKG, ["c02"])
    if ctx.replay:
        rp = json.load(open(ctx.replay))["scenario"]
        s = rp["scn"]
        scns, byid, wf = [s], {s["id"]: s}, ([s] if s["wf"] else [])

    # ---- 3. loading leg: populateExpectedResponse + parseTestSuites/newTestCaseLibrary under recover
    load_bad = set()
    if not ctx.replay or rp.get("leg") == "load":
        scnp, outp = os.path.join(ctx.build, "c02.load.scn"), os.path.join(ctx.build, "c02.load.out")
        vf.write_ndjson(scnp, scns)
        ctx.run_harness(binp, "TestVerifC02Load", env=dict(VERIF_SCN=scnp, VERIF_OUT=outp, VERIF_SUITE_EVERY=ctx.pick(1, 3)), timeout=3000)
        res = vf.read_ndjson(outp)
        summ = [r for r in res if r.get("summary")]
        if not summ:
            raise vf.Machinery("load harness wrote no summary")
        for r in res:
            if r.get("harness_error"):
                raise vf.Machinery("load harness: %s" % r["harness_error"])
        for r in res:
            if r.get("summary"):
                continue
            if r["repro"] < 3:
                ctx.notes["unreproduced_load"] = ctx.notes.get("unreproduced_load", 0) + 1
                continue
            s = byid[r["id"]]
            load_bad.add(r["id"])
            key = dict(leg="load", via=r["leg"], verdict=r["verdict"], **shape(s))
            what = {"panic": "loading crashed (%s)" % r["text"][:160],
                    "accepted-unloadable": "a case whose first message cannot define the response for its stream type was loaded without error",
                    "rejected-wellformed": "a well-formed case was rejected: %s" % r["text"][:160],
                    "wrong-expectation": "derived expectation differs from Expect(T): got %s want %s" % (r["got"][:400], r["want"][:400])}[r["verdict"]]
            ctx.candidate(key, "%s via %s: %s; case=%s" % (r["verdict"], r["leg"], what, json.dumps(s["t"])[:500]), dict(leg="load", scn=s))
        summ = summ[0]
        ctx.cov["evaluations"] += summ.get("evaluations", 0)
        ctx.cov["traces_validated_against_impl"] += summ.get("scenarios", 0)
        ctx.notes["load"] = summ
    nontrivial = set()
    for s in scns:
        sh = shape(s)
        if sh["nreq"] > 0 and (sh["hasdef"] or not s["wf"]):
            nontrivial.add(json.dumps(s["t"], sort_keys=True))
    ctx.cov["distinct_nontrivial"] += len(nontrivial)

    # ---- 4. end-to-end leg: real run() + recording pass, accepted by Trace_Echo
    if not ctx.replay or rp.get("leg") == "e2e":
        # cases the loader cannot take (reported above) cannot be executed: the whole run would die with them
        runnable = [s for s in wf if s["id"] not in load_bad]
        ctx.notes["e2e_excluded_unloadable"] = len(wf) - len(runnable)
        chosen = runnable if ctx.replay else pick_e2e(ctx, runnable, ctx.pick(100, 300))
        cfgn = ctx.pick(10, 0)
        recs, summ = run_e2e(ctx, binp, chosen, "main", cfgn, ctx.pick(1500, 6000))
        ctx.log("e2e: %d cases x %d config cases (matrix %d) -> %d permutations, %d observed; run %.0fs + capture %.0fs" % (
            summ["cases"], summ["config_cases"], summ["matrix"], summ["permutations"], summ["observed"], summ["run_s"], summ["capture_s"]))
        rejected = accept(ctx, recs, byid, "main")
        # real sockets: a rejection counts only when the same permutation is rejected three times -
        # in the next two runs (deterministic), or in three of up to 20 runs (schedule-dependent)
        first = {recs[i]["name"]: recs[i] for i in rejected}
        count = {n: 1 for n in first}
        runs_seen = {n: 1 for n in first}
        reruns = 0
        while reruns < 19:
            open_names = [n for n in first if count[n] < 3]
            if not open_names:
                break
            again = [byid[i] for i in sorted({first[n]["id"] for n in open_names})]
            recs2, _ = run_e2e(ctx, binp, again, "rep%d" % reruns, cfgn, ctx.pick(1500, 6000),
                               cfgkeys={cfg_key(first[n]) for n in open_names}, chunk=200)
            rej2 = {recs2[i]["name"] for i in accept(ctx, recs2, byid, "rep%d" % reruns)}
            have2 = {r["name"] for r in recs2}
            for n in open_names:
                if n in have2:
                    runs_seen[n] += 1
                    if n in rej2:
                        count[n] += 1
            reruns += 1
        confirmed = {}
        for n, r in first.items():
            if count[n] >= 3:
                r = dict(r, rejected_runs=count[n], runs=runs_seen[n])
                confirmed.setdefault(r["id"], []).append(r)
            else:
                ctx.notes["unreproduced_e2e"] = ctx.notes.get("unreproduced_e2e", 0) + 1
        ctx.notes["e2e_reruns"] = reruns
        protoname = {1: "connect", 2: "grpc", 3: "grpcweb"}
        for cid, rs in sorted(confirmed.items()):
            s = byid[cid]
            r = rs[0]
            verdicts = sorted({"%s/%s" % (x["o1"], x["o2"]) for x in rs})
            sides = lambda k: "+".join(sorted({x["peers"].split("/")[k] for x in rs}))
            key = dict(leg="e2e", verdict="fail" if any(x["o1"] != "pass" or x["o2"] != "pass" for x in rs) else "unpredicted",
                       clients=sides(0), servers=sides(1), schedule_dependent=any(x["rejected_runs"] < x["runs"] for x in rs),
                       protocols="+".join(sorted({protoname[x["cfg"]["protocol"]] for x in rs})),
                       http_versions="+".join(sorted({str(x["cfg"]["version"]) for x in rs})), **shape(s))
            ctx.candidate(key, "e2e: %d permutation(s) of case t%d rejected (%s of %s runs; verdicts run/capture %s; clients %s, servers %s, %s, HTTP %s), e.g. %s: %s %s; observed=%s; case=%s" % (
                len(rs), cid, r["rejected_runs"], r["runs"], verdicts, key["clients"], key["servers"], key["protocols"], key["http_versions"], r["name"],
                (r["m1"] or r["m2"])[:300].replace("\n", " / "), r["cerr"][:200],
                json.dumps(r["obs"])[:300], json.dumps(s["t"])[:500]), dict(leg="e2e", scn=s, rejected=[x["name"] for x in rs][:20]))
        ctx.cov["evaluations"] += 2 * summ["permutations"]
        ctx.cov["traces_validated_against_impl"] += len(recs)
        ctx.notes["e2e"] = dict(cases=summ["cases"], config_cases=summ["config_cases"], applicable_matrix=summ["matrix"],
                                permutations=summ["permutations"], observed=summ["observed"], run_ok=summ["run_ok"],
                                by_peers={p: sum(1 for r in recs if r["peers"] == p) for p in ("ref/ref", "ref/grpc", "grpc/ref", "grpc/grpc")},
                                rejected_first_run=len(rejected), run_s=round(summ["run_s"], 1), capture_s=round(summ["capture_s"], 1))
        if recs:
            r = recs[len(recs) // 2]
            ctx.sample(dict(name=r["name"], peers=r["peers"], verdict=r["o1"], observed=r["obs"]))
    for s in scns[:: max(1, len(scns) // 3)][:3]:
        ctx.sample(dict(t=s["t"], wf=s["wf"], load=s["load"], exp=s["exp"]))
    ctx.cov["exhaustive"] = False
    ctx.cov["rule"] = ("TLC enumerates every test case of the bounded space (stream type x request-header shape x 0..MaxReqs requests x "
                       "definition in the first message [header/trailer shapes, 0..MaxResp payloads incl. empty ones, error shapes] x what "
                       "later messages carry), damaged variants (wrong/other message types, wrong counts, flag mismatch) and random walks "
                       "of the same builder for longer cases; each is rendered to a real TestCase from the seed and loaded through "
                       "populateExpectedResponse and parseTestSuites+newTestCaseLibrary under recover (projection must equal Expect(T), "
                       "must-reject shapes must give errors, nothing may panic). A seeded stratified sample of the well-formed cases is "
                       "executed by the real run() in-process (reference + grpc-go peers) over config cases of the applicable matrix and once "
                       "more through a recording client runner; Trace_Echo accepts a permutation iff both verdicts are pass, the observed "
                       "result is predicted by Serve/ClientView and conforms to Expect(T). non-trivial = has a request and a definition (or is damaged).")
    ctx.assumptions += ["payloads, header values, error codes/messages/details are opaque tokens in the specification; the Go side renders them from the seed",
                        "header values: printable ASCII without commas and without leading/trailing blanks; -bin values unpadded base64; error messages without leading/trailing blanks; a header name occurs once per list",
                        "custom header names are prefixed x-v- (outside the protocol-reserved set); metadata outside that prefix is ignored when observing",
                        "the full_duplex flag of the first message agrees with the stream type (otherwise the documented client and server rules deadlock: MC_Echo_x_flag)",
                        "an e2e rejection is reported only when the same permutation is rejected three times (the next two runs, or three of up to 20 runs: schedule_dependent)"]
    if not ctx.replay:
        # the reference client's verdict on a response includes its wire examination, which reads what the tracer
        # captured while the RPCs run in parallel: "what a trace carries is that call's own" is BodyTrace's binding
        import c14
        c14.concurrent_bodies(ctx)
        # growth item: EchoCancel.tla (client cancellation and timeouts) bound to the reference and grpc-go peers
        g_cancel.leg(ctx)
        ctx.cov["rule"] += " " + ctx.notes.pop("g2_rule", "")
