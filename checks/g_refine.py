"""G5 (growth item, attached to C05) - refinement links between the three orchestrator specifications.
No Go code: each component is bound to the code by its own check (C05 Runner, C11 ServerBatch, C10 ClientMux);
this leg lets TLC check that the three are one story.

  (lemma)           RefineRunnerEn    Runner's ENABLED Next written by hand (needed to map WF_vars(Next)); checked in the RefineCompose run
  client-abs        RefineClientAbs   the client interface ServerBatch assumes, as a machine (invariants, ENABLED lemma)
  batch=>runner     RefineBatch       ServerBatch + caller's frame  =>  Runner(one-batch plan)   (init, steps, fairness, step table)
  mux=>client       RefineMux         ClientMux  =>  RefineClientAbs  (safety; liveness: every accepted send is answered)
  runner=>batches   RefineCompose     Runner(plan) projected on each batch  =>  Runner(one-batch plan)

Entry point: leg(ctx), called from checks/c05.py.  A property violation in one of these runs is a *refinement
violation* (the specifications disagree with each other) and is reported as a candidate; any other TLC failure
(parse / evaluation error, timeout) is a machinery problem."""
import json
import os
import re
import vf

# (link, module, cfg, workers, timeout)
QUICK = [
    ("client-abs", "RefineClientAbs", "RefineClientAbs.cfg", 4, 300),
    ("batch=>runner", "RefineBatch", "RefineBatch_q.cfg", 6, 600),        # N=3, all fault positions, answers pass/none
    ("mux=>client", "RefineMux", "RefineMux_q2.cfg", 8, 600),             # MC_ClientMux_q's constants with MaxCliOps=2, safety
    ("mux=>client/live", "RefineMux", "RefineMux_live_q.cfg", 8, 600),    # one sender <<a, b>>, 3 client operations, + liveness
    ("runner=>batches", "RefineCompose", "RefineCompose.cfg", 6, 300),    # includes the runner-enabled lemma (same state space)
]
THOROUGH = [
    ("client-abs", "RefineClientAbs", "RefineClientAbs.cfg", 4, 600),
    ("batch=>runner", "RefineBatch", "RefineBatch.cfg", 8, 1800),         # MC_ServerBatch's constants
    ("mux=>client", "RefineMux", "RefineMux_q.cfg", 8, 1800),             # MC_ClientMux_q's constants, safety
    ("mux=>client", "RefineMux", "RefineMux_t.cfg", 8, 3000),             # MC_ClientMux's constants (5 client operations), safety
    ("mux=>client/live", "RefineMux", "RefineMux_live.cfg", 8, 3000),     # MC_ClientMux_q's constants, + liveness
    ("mux=>client/live", "RefineMux", "RefineMux_live_q.cfg", 8, 900),
    ("runner=>batches", "RefineCompose", "RefineCompose.cfg", 4, 600),
]

VIOL = re.compile(r"Invariant (\S+) is violated|Action property (.+?) is violated|Temporal propert(?:y|ies) (.+?) (?:was|were) violated"
                  r"|(Temporal properties were violated)|(Deadlock reached)")
# "Error:" lines that belong to the report of a violated property
BENIGN = re.compile(r"violated|The behavior up to this point is|The following behavior constitutes a counter-example")

ASSUMPTIONS = [
    "refinement batch=>runner: serverProcess.result() returns only when the process has ended (AsAssumed_ResultMeansGone; Process.tla's "
    "'gave-up' outcome of a peer that ignores the stop request is outside it), so the slot is released only then",
    "refinement batch=>runner: the caller's frame (sema.Acquire / deferred sema.Release / wg.Wait) is modelled in RefineBatch.tla itself; "
    "ServerBatch's fused steps are split by two stuttering marks (StopMark, GoneMark)",
    "refinement mux=>client: bookkeeping per name (regs / cbs), which is per request where names are unique (everything Runner sends)",
    "refinement runner=>batches: case sets of different batches are disjoint (PlanOK; decided by C06-C08)",
]


def owns_replay(path):
    try:
        return json.load(open(path)).get("scenario", {}).get("kind") == "refinement"
    except (OSError, ValueError):
        return False


def _trace(out):
    """the counter-example TLC printed, as a list of steps: [action, {variable: new value}] (changed variables only)"""
    steps, prev = [], {}
    for blk in re.split(r"\n(?=State \d+: )", out):
        m = re.match(r"State (\d+): (.*)", blk)
        if not m:
            continue
        body = blk.split("\n", 1)[1] if "\n" in blk else ""
        body = re.split(r"\n\s*\n|\n\d+ states generated|\nBack to state|\nState \d+: Stuttering", body)[0]
        cur = {}
        for part in re.split(r"\n?/\\ ", "\n" + body.strip()):
            if " = " in part:
                k, v = part.split(" = ", 1)
                cur[k.strip()] = " ".join(v.split())
        act = re.sub(r" line \d+, col \d+ to line \d+, col \d+ of module (\w+)", r" (\1)", m.group(2)).strip("<>")
        steps.append([act, {k: v for k, v in cur.items() if prev.get(k) != v}])
        prev = cur
    tail = re.search(r"(Back to state \d+|State \d+: Stuttering)", out)
    if tail and not (steps and steps[-1][0] == "Stuttering"):
        steps.append([tail.group(1), {}])
    return steps


def _check(ctx, link, module, cfg, workers, timeout):
    n0 = ctx._tlc_n
    try:
        r = ctx.tlc(module, cfg, workers=workers, timeout=timeout, heap="6g", expect_violation=True)
        out, stats = r.out, dict(distinct=r.distinct, generated=r.generated, seconds=round(r.wall, 1))
    except vf.Machinery:
        # vf's pattern for violated properties does not know "Action property <name> is violated" with a
        # location instead of a name, nor "Temporal properties A and B were violated": look at the output ourselves
        path = os.path.join(ctx.build, "tlc%d" % ctx._tlc_n, "out.txt")
        if ctx._tlc_n == n0 or not os.path.exists(path):
            raise
        out, stats = open(path, errors="replace").read(), {}
        if not VIOL.search(out):
            raise
    m = VIOL.search(out)
    if not m:
        return stats
    errs = [ln for ln in out.splitlines() if ln.startswith("Error:")]
    if any(not BENIGN.search(ln) for ln in errs):
        raise vf.Machinery("TLC error (not a property violation) on %s/%s:\n%s" % (module, cfg, "\n".join(errs)[:3000]))
    prop = next(g for g in m.groups() if g)
    steps = _trace(out)
    shown = "\n".join("  %2d. %s  %s" % (k + 1, a, ", ".join("%s=%s" % kv for kv in sorted(d.items()))[:400]) for k, (a, d) in enumerate(steps[-12:]))
    ctx.candidate(dict(kind="refinement", link=link, property=prop, cfg=cfg),
                  "refinement link %s does not hold: TLC finds %s violated on %s/%s (the two specifications disagree; counter-example of %d states, "
                  "last steps, changed variables only):\n%s" % (link, prop, module, cfg, len(steps), shown),
                  dict(kind="refinement", link=link, module=module, cfg=cfg, property=prop, trace=steps))
    return dict(stats, violated=prop)


def leg(ctx):
    res = {}
    for link, module, cfg, workers, timeout in (QUICK if ctx.quick else THOROUGH):
        res[cfg] = dict(link=link, **_check(ctx, link, module, cfg, workers, timeout))
    ctx.notes["refinement_leg"] = res
    ctx.assumptions += ASSUMPTIONS
    return res
