"""C19 - size-limit requests are padded to exactly limit+delta and the limit is sharp.
spec: PaddingDecl (declarative), PaddingLaws (laws), PaddingCode + Padding (the loop of
expandRequestData as machine, design theorems), PaddingGrid/Gen_Padding/Gen_PaddingCase (behaviours on
real numbers), Trace_Padding (acceptor of recorded executions: random expansions and real RPCs)."""
import json
import os
import vf

PKG = "internal/app/connectconformance"
LIMIT = 204800


def _dedup(items):
    seen, res = set(), []
    for s in items:
        k = json.dumps(s, sort_keys=True)
        if k not in seen:
            seen.add(k)
            res.append(s)
    return res


def _summary(res, what):
    summ = [r for r in res if r.get("summary")]
    if not summ:
        raise vf.Machinery("%s harness wrote no summary" % what)
    if summ[0]["limit"] != LIMIT:
        raise vf.Machinery("serverReceiveLimit is %s but the specification is configured for %d" % (summ[0]["limit"], LIMIT))
    return summ[0]


def _divergence(exp, model):
    """classification of a disagreement by the specification's model of the loop as written"""
    if model is None:
        return "unclassified"
    if model["k"] == exp["k"] and model.get("n") == exp.get("n", model.get("n")):
        return "none"
    if model["k"] == "crashed":
        return "shrink-below-zero"
    if model["k"] == "rejected" and exp["k"] == "padded":
        return "needs-third-adjustment"
    return "other"


def _report_mismatches(ctx, res):
    for r in res:
        if r.get("summary"):
            continue
        if r.get("repro", 0) < 3:
            ctx.notes["unreproduced"] = ctx.notes.get("unreproduced", 0) + 1
            ctx.log("unreproduced mismatch ignored: %s" % json.dumps(r)[:300])
            continue
        scn, obs = r["scn"], r["obs"]
        exp, model = scn["exp"], scn.get("model")
        div = _divergence(exp, model)
        # the code-model classification only counts when the real code did what the model says
        as_model = model is not None and obs["k"] == model["k"]
        key = dict(what=r["what"], spec=exp["k"], spec_why=exp.get("why", ""), obs=obs["k"],
                   divergence=div if as_model else "unexplained")
        ctx.candidate(key, "%s (%s/%s): statement requires %s, real code: %s; scenario=%s" % (
            r["what"], r["kind"], r.get("variant", ""), json.dumps(exp), json.dumps(obs)[:300],
            json.dumps({k: v for k, v in scn.items() if k not in ("exp", "model")})[:300]), r)


def run(ctx):
    q = ctx.quick
    binp = ctx.go_test_bin(PKG, ["c19"])

    if ctx.replay:
        rp = json.load(open(ctx.replay))["scenario"]
        return _replay_one(ctx, binp, rp)

    # ------------------------------------------------------------------ 1. design
    laws = ctx.tlc("PaddingLaws", "MC_PaddingLaws_small.cfg", timeout=600)
    laws_r = ctx.tlc("PaddingLaws", "MC_PaddingLaws_real.cfg", timeout=600)
    d1 = ctx.tlc("MC_Padding", "MC_Padding_small_direct.cfg", timeout=900)
    d2 = ctx.tlc("MC_Padding", "MC_Padding_small_code.cfg", timeout=900)
    d3 = ctx.tlc("MC_Padding", "MC_Padding_real_code.cfg" if q else "MC_Padding_real_code_t.cfg", timeout=1800)
    d4 = ctx.tlc("MC_Padding", "MC_Padding_real_direct.cfg" if q else "MC_Padding_real_direct_t.cfg", timeout=1800)
    ctx.notes["mc_design"] = dict(laws_small=laws.distinct, laws_real=laws_r.distinct, small_direct=d1.distinct,
                                  small_code=d2.distinct, real_code=d3.distinct, real_direct=d4.distinct)
    # the theorem is not vacuous: it fails for the loop as written, guarded or not, 2 or 3 adjustments
    for cfg in ("MC_Padding_x_code.cfg", "MC_Padding_x_guard.cfg", "MC_Padding_x_guard3.cfg"):
        x = ctx.tlc("MC_Padding", cfg, timeout=600, expect_violation=True)
        if x.violated != "Correct":
            raise vf.Machinery("%s: expected the invariant Correct to be violated, got %s" % (cfg, x.violated))

    # ------------------------------------------------------------------ 2. behaviours: one directive
    nshard = 3 if q else 4
    shards = [ctx.seed % 3] if q else range(4)
    scns = []
    for sh in shards:
        g = ctx.tlc("Gen_Padding", "Gen_Padding_q.cfg" if q else "Gen_Padding_t.cfg", timeout=1800,
                    env=dict(VERIF_NSHARD=nshard, VERIF_SHARD=sh))
        scns += g.json_lines("SCN ")
    scns = _dedup(scns)
    ctx.log("single-directive scenarios: %d" % len(scns))
    scnp = os.path.join(ctx.build, "c19.scn.ndjson")
    outp = os.path.join(ctx.build, "c19.out.ndjson")
    vf.write_ndjson(scnp, scns)
    ctx.run_harness(binp, "TestVerifC19Replay", env=dict(VERIF_SCN=scnp, VERIF_OUT=outp,
                    VERIF_PARSE_EVERY=40 if q else 25, VERIF_RENDERINGS=3 if q else 5), timeout=3000)
    res = vf.read_ndjson(outp)
    summ = _summary(res, "replay")
    _report_mismatches(ctx, res)
    ctx.cov["evaluations"] += summ["evaluations"] + summ["suites_parsed"]
    ctx.cov["traces_validated_against_impl"] += summ["scenarios"]
    ctx.cov["distinct_nontrivial"] += summ["nontrivial"]
    ctx.notes["replay_one"] = summ
    for s in scns[:: max(1, len(scns) // 3)][:3]:
        ctx.sample(s)

    # ------------------------------------------------------------------ 3. behaviours: whole test cases
    cshards = [ctx.seed % 4] if q else range(4)
    cases = []
    for sh in cshards:
        g = ctx.tlc("Gen_PaddingCase", "Gen_PaddingCase.cfg", timeout=1800, env=dict(VERIF_NSHARD=4, VERIF_SHARD=sh))
        cases += g.json_lines("SCN ")
    ctx.log("test-case scenarios: %d" % len(cases))
    cscnp = os.path.join(ctx.build, "c19.case.ndjson")
    coutp = os.path.join(ctx.build, "c19.caseout.ndjson")
    vf.write_ndjson(cscnp, cases)
    ctx.run_harness(binp, "TestVerifC19Case", env=dict(VERIF_SCN=cscnp, VERIF_OUT=coutp), timeout=3000)
    cres = vf.read_ndjson(coutp)
    csumm = _summary(cres, "case")
    _report_mismatches(ctx, cres)
    ctx.cov["evaluations"] += csumm["evaluations"]
    ctx.cov["traces_validated_against_impl"] += csumm["scenarios"]
    ctx.cov["distinct_nontrivial"] += csumm["nontrivial"]
    ctx.notes["replay_case"] = csumm
    ctx.sample(cases[len(cases) // 2])

    # ------------------------------------------------------------------ 4. code -> spec: random requests
    _record(ctx, binp)

    # ------------------------------------------------------------------ 5. sharpness, end to end
    _sharp(ctx, binp)

    ctx.cov["exhaustive"] = False
    ctx.cov["rule"] = (
        "TLC proves the design theorems exhaustively on a scaled-down varint arithmetic and on the real-number grid; the "
        "generator enumerates the grid (60 base classes x 13 existing-data classes x offsets -W..W, offsets that put the "
        "required padding within +-4 of 0 / 2^7 / 2^14 (/ 2^21, 2^28), invalid directives, types without the field) and "
        "every scenario is rendered into real requests (3 in quick, 5 in thorough of the 10 renderings = 5 message types x 2 "
        "contents - response data / unknown field -, rotating so that all are used) and run through the real "
        "expandRequestData (a sample also through parseTestSuites); whole test "
        "cases (<=3 messages x <=3 directives from pools) likewise. Non-trivial = the statement requires a changed "
        "padding length or a rejection for unreachability (single) / at least one sized directive (case) / an RPC with "
        "a message within 1 byte of the limit (sharpness). Recorded executions (seeded random requests; real RPCs "
        "between reference client and server at limit-1, limit, limit+1) are accepted line by line by Trace_Padding.")
    ctx.assumptions += [
        "request_data has a one-byte tag in every request type (field numbers 2 and 3) - checked indirectly: proto.Size of every padded result is compared with limit+offset",
        "the upper bound 2^32-1 on the target cannot be exceeded by an int32 offset on a 204,800 limit (dead check; not exercised)",
        "response sizes on the client side are measured by re-marshalling the payloads the reference client reports",
        "padding bytes are zeros (highly compressible): 'measured on the uncompressed size' is exercised with compressed sizes far below the limit",
    ]


def _tlc_rejects(ctx, recs, path):
    """lines of a recorded file that Trace_Padding does not accept"""
    if not recs:
        return []
    vf.write_ndjson(path, recs)
    tr = ctx.tlc("Trace_Padding", "Trace_Padding.cfg", workers=1, env=dict(VERIF_TRACE=path), timeout=1800)
    if not tr.lines("CONSUMED "):
        raise vf.Machinery("trace spec did not consume the whole trace")
    return [recs[int(ln) - 1] for ln in tr.lines("REJECT ")]


def _record(ctx, binp):
    """code -> spec: seeded random requests beyond the grid, accepted line by line by Trace_Padding"""
    trp = os.path.join(ctx.build, "c19.trace.ndjson")
    ctx.run_harness(binp, "TestVerifC19Record", env=dict(VERIF_OUT=trp, VERIF_N=4000 if ctx.quick else 60000), timeout=3000)
    recs = vf.read_ndjson(trp)
    if not recs:
        raise vf.Machinery("no recorded executions")
    rejected = _tlc_rejects(ctx, recs, os.path.join(ctx.build, "c19.trace.tlc.ndjson"))
    ctx.cov["traces_validated_against_impl"] += len(recs)
    ctx.cov["evaluations"] += len(recs)
    ctx.cov["distinct_nontrivial"] += len({(r["base"], r["n0"], r["off"]) for r in recs if r["k"] != "rejected" or r["n0"] > 0})
    ctx.notes["recorded"] = dict(lines=len(recs), rejected=len(rejected),
                                 by_outcome={k: sum(1 for r in recs if r["k"] == k) for k in ("padded", "rejected", "crashed")})
    ctx.sample(recs[0])
    if rejected:
        # the driver is deterministic in VERIF_SEED: record again twice and keep what is rejected every time
        again = []
        for rnd in range(2):
            ctx.run_harness(binp, "TestVerifC19Record", env=dict(VERIF_OUT=trp, VERIF_N=4000 if ctx.quick else 60000), timeout=3000)
            again.append({json.dumps(r, sort_keys=True) for r in vf.read_ndjson(trp)})
        for r in rejected:
            k = json.dumps(r, sort_keys=True)
            if not all(k in a for a in again):
                ctx.notes["unreproduced"] = ctx.notes.get("unreproduced", 0) + 1
                continue
            # classification by the model of the loop as written (python mirror only for the KEY; the verdict is TLC's)
            key = dict(what="recorded", obs=r["k"], spec=_spec_recorded(r), divergence=_classify_recorded(r))
            ctx.candidate(key, "recorded execution of expandRequestData rejected by Trace_Padding: %s" % json.dumps(r)[:500],
                          dict(what="recorded", rec=r))


def _varlen(n):
    return 1 + sum(1 for b in (128, 16384, 2097152, 268435456) if n >= b)


def _hdr(n):
    return 0 if n == 0 else 1 + _varlen(n)


def _spec_recorded(r):
    """label only (the verdict is TLC's): what ExpandOne requires for a recorded line"""
    t = LIMIT + r["off"]
    if t < 0 or not r["has"]:
        return "rejected"
    d = t - r["base"]
    return "padded" if [n for n in [d] + [d - 1 - l for l in range(1, 6)] if n >= 0 and n + _hdr(n) == d] else "rejected"


def _classify_recorded(r):
    """mirror of PaddingCode!CrashCondOf / NeedsThirdOf, used only to label a rejected line"""
    if not r["has"] or LIMIT + r["off"] < 0:
        return "unexplained"
    d = LIMIT + r["off"] - r["base"]
    n0 = r["n0"]
    sols = [n for n in [d] + [d - 1 - l for l in range(1, 6)] if n >= 0 and n + _hdr(n) == d]
    if n0 + _hdr(n0) != d and (d < _hdr(n0) or (n0 == 0 and d >= 1 and d < _hdr(d))):
        return "shrink-below-zero" if r["k"] == "crashed" else "unexplained"
    if sols and r["k"] == "rejected":
        ns, n1 = sols[0], d - _hdr(n0)
        if n0 != ns and _hdr(n0) != _hdr(ns) and _hdr(n1) != _hdr(ns):
            return "needs-third-adjustment"
    return "unexplained"


PV_QUICK = "1:1:0,1:2:0,2:2:0,3:1:0,3:2:0"
PV_THOROUGH = "1:1:0,1:2:0,1:1:1,1:2:1,1:3:1,2:2:0,2:2:1,3:1:0,3:2:0,3:2:1,3:3:1"


def _sharp_env(ctx):
    if ctx.quick:
        # every compression takes part; identity and one other (by seed) on all quick instances, the remaining four on
        # two instances (Connect and gRPC-Web over HTTP/2) - each codec has its own block / window sizes near the limit
        full = [1, 2 + ctx.seed % 5]
        rest = [z for z in range(2, 7) if z not in full]
        return dict(VERIF_Z="1,2,3,4,5,6", VERIF_PV=PV_QUICK, VERIF_ST="1,2,3,4,5",
                    VERIF_Z_NARROW=",".join(map(str, rest)), VERIF_PV_NARROW="1:2:0,3:2:0")
    return dict(VERIF_Z="1,2,3,4,5,6", VERIF_PV=PV_THOROUGH, VERIF_ST="1,2,3,4,5")


def _run_sharp(ctx, binp, env, tag):
    outp = os.path.join(ctx.build, "c19.sharp.%s.ndjson" % tag)
    e = dict(env)
    e["VERIF_OUT"] = outp
    ctx.run_harness(binp, "TestVerifC19Sharp", env=e, timeout=3000)
    lines = vf.read_ndjson(outp)
    summ = [r for r in lines if r.get("summary")]
    if not summ:
        raise vf.Machinery("sharpness harness wrote no summary")
    return lines, summ[0]


def _rpc_key(r):
    exp = "ok" if all(s <= r["lim"] for s in r["sizes"]) else "resource_exhausted"  # label only
    return dict(what="rpc", side=r["side"], protocol=r["p"], stream_type=r["st"], obs=r["outcome"], spec=exp,
                sizes_as_directed=all(r["sizes"][i] == r["lim"] + o for i, o in enumerate(r["offs"])))


def _sharp(ctx, binp):
    env = _sharp_env(ctx)
    lines, summ = _run_sharp(ctx, binp, env, "1")
    if summ.get("limit") != LIMIT:
        raise vf.Machinery("serverReceiveLimit is %s but the specification is configured for %d" % (summ.get("limit"), LIMIT))
    if summ.get("setup_error"):
        # the generated suites only use offsets -1, 0, +1 on small requests: the statement requires them to be accepted
        ctx.candidate(dict(what="sharp-setup", obs="rejected"),
                      "parseTestSuites rejected the sharpness suites (offsets -1/0/+1 on small requests): %s" % summ["setup_error"],
                      dict(what="sharp-setup"))
        return
    rpcs = [r for r in lines if r.get("kind") == "rpc"]
    if not rpcs:
        raise vf.Machinery("sharpness harness recorded no RPC")
    rejected = _tlc_rejects(ctx, rpcs, os.path.join(ctx.build, "c19.rpc.tlc.ndjson"))
    ctx.cov["traces_validated_against_impl"] += len(rpcs)
    ctx.cov["evaluations"] += len(rpcs)
    ctx.cov["distinct_nontrivial"] += summ["near_limit"]
    ctx.notes["sharpness"] = dict(summary=summ, env=env, rejected_first_run=len(rejected),
                                  outcomes={o: sum(1 for r in rpcs if r["outcome"] == o) for o in sorted({r["outcome"] for r in rpcs})})
    ctx.sample(rpcs[len(rpcs) // 2])
    if summ.get("inconclusive"):
        ctx.log("sharpness: %d inconclusive RPC(s) (calibration failed / unstable sizes)" % summ["inconclusive"])
    if not rejected:
        return
    # RPCs that the harness itself repeated three times (group): reproduced iff all three are rejected alike
    groups = {}
    for r in rejected:
        if r.get("group"):
            groups.setdefault((r["group"], r["outcome"]), []).append(r)
    done = set()
    for (g, o), rs in sorted(groups.items()):
        if len(rs) >= 3:
            r = rs[0]
            done.update(x["name"] for x in rs)
            ctx.candidate(_rpc_key(r), "RPC rejected by Trace_Padding (3/3 repetitions): %s receive limit %d, message sizes %s, "
                          "compression %d: outcome %s (%s)" % (r["side"], r["lim"], r["sizes"], r["z"], r["outcome"],
                                                               r.get("detail", "")[:200] + " " + g), dict(what="rpc", rec=r, env=env))
    rejected = [r for r in rejected if r["name"] not in done]
    if not rejected:
        return
    # re-observe the other rejected RPCs (only those) twice more; report what is rejected every time
    names = sorted({r["name"] for r in rejected})
    ctx.log("sharpness: %d RPC(s) rejected by Trace_Padding, re-running them" % len(names))
    counts = {n: 1 for n in names}
    last = {r["name"]: r for r in rejected}
    for rnd in range(2):
        e = dict(env)
        e["VERIF_ONLY"] = "|".join(names)
        lines2, _ = _run_sharp(ctx, binp, e, "r%d" % rnd)
        rp = [r for r in lines2 if r.get("kind") == "rpc" and r["name"] in counts]
        for r in _tlc_rejects(ctx, rp, os.path.join(ctx.build, "c19.rpc.tlc%d.ndjson" % rnd)):
            if r["outcome"] == last[r["name"]]["outcome"]:
                counts[r["name"]] += 1
    for n in names:
        r = last[n]
        if counts[n] < 3:
            ctx.notes["unreproduced"] = ctx.notes.get("unreproduced", 0) + 1
            ctx.log("unreproduced RPC mismatch ignored (%d/3): %s" % (counts[n], json.dumps(r)[:300]))
            continue
        ctx.candidate(_rpc_key(r), "RPC rejected by Trace_Padding (3/3 runs): %s receive limit %d, message sizes %s, compression %d: "
                      "outcome %s (%s)" % (r["side"], r["lim"], r["sizes"], r["z"], r["outcome"], r.get("detail", "")[:200] + " " + n),
                      dict(what="rpc", rec=r, env=env))


def _replay_one(ctx, binp, rp):
    what = rp.get("what")
    if what == "rpc":
        env = dict(rp["env"])
        env["VERIF_ONLY"] = rp["rec"]["name"]
        lines, _ = _run_sharp(ctx, binp, env, "replay")
        rpcs = [r for r in lines if r.get("kind") == "rpc" and r["name"] == rp["rec"]["name"]]
        for r in _tlc_rejects(ctx, rpcs, os.path.join(ctx.build, "c19.rpc.tlc.ndjson")):
            ctx.candidate(_rpc_key(r), "RPC rejected by Trace_Padding: %s" % json.dumps(r)[:500], rp)
        return
    if what == "recorded":
        r = rp["rec"]
        scn = dict(has=r["has"], base=r["base"], n0=r["n0"], off=r["off"])
        raise vf.Machinery("replay a recorded line with VERIF_SEED=<seed of the run> (scenario %s)" % json.dumps(scn))
    if what == "sharp-setup":
        return _sharp(ctx, binp)
    scnp = os.path.join(ctx.build, "c19.scn.ndjson")
    outp = os.path.join(ctx.build, "c19.out.ndjson")
    vf.write_ndjson(scnp, [rp["scn"]])
    test = "TestVerifC19Case" if what == "case" else "TestVerifC19Replay"
    ctx.run_harness(binp, test, env=dict(VERIF_SCN=scnp, VERIF_OUT=outp, VERIF_PARSE_EVERY=1), timeout=600)
    _report_mismatches(ctx, vf.read_ndjson(outp))
