"""C06 - config expansion equals the declarative feature/include/exclude specification.
spec: ConfigExpandDecl.tla (meaning: Resolve / FeatErrs / Possible / FeatureCases / EntryCases / Conforms),
      ConfigExpand.tla (loader machine + theorems), MC_ConfigExpand*.cfg (design checks),
      Gen_ConfigExpand*.cfg (configurations + required verdicts), Trace_ConfigExpand (acceptor of recorded
      parseConfig executions).  harness: harness/c06 (in-package, drives parseConfig)."""
import json
import os
import vf

PKG = "internal/app/connectconformance"
VNAME = {1: "HTTP/1.1", 2: "HTTP/2", 3: "HTTP/3"}
PNAME = {1: "Connect", 2: "gRPC", 3: "gRPC-Web"}
CNAME = {1: "proto", 2: "json"}
ZNAME = {1: "identity", 2: "gzip", 3: "br", 4: "zstd", 5: "deflate", 6: "snappy"}
SNAME = {1: "unary", 2: "client-stream", 3: "server-stream", 4: "half-duplex", 5: "full-duplex"}


def decode(code):
    """inverse of ConfigExpandDecl!Code"""
    core, rest = divmod(code, 12)
    c, z = divmod(rest, 6)
    core, lim = divmod(core, 2)
    core, get = divmod(core, 2)
    core, cert = divmod(core, 2)
    core, tls = divmod(core, 2)
    core, s = divmod(core, 5)
    v, p = divmod(core, 3)
    return "{%s %s %s %s %s%s%s%s%s}" % (VNAME[v + 1], PNAME[p + 1], CNAME[c + 1], ZNAME[z + 1], SNAME[s + 1],
                                         " tls" if tls else "", " certs" if cert else "", " GET" if get else "",
                                         " recv-limit" if lim else "")


def cfg_text(cfg):
    f = cfg["f"]
    parts = []
    for k in ("vs", "ps", "cs", "zs", "ss"):
        if f[k]:
            parts.append("%s=%s" % (k, f[k]))
    for k in ("h2c", "tls", "certs", "trailers", "hdh1", "get", "lim"):
        if f[k] != "unset":
            parts.append("%s=%s" % (k, f[k]))

    def ent(e):
        return "{" + ",".join("%s=%s" % (k, e[k]) for k in ("v", "p", "c", "z", "s", "tls", "cert", "lim")
                              if e[k] not in (0, "unset")) + "}"
    return "features[%s] include[%s] exclude[%s]" % (" ".join(parts), " ".join(ent(e) for e in cfg["inc"]),
                                                     " ".join(ent(e) for e in cfg["exc"]))


def scn_lines(res):
    """raw JSON payloads of the SCN lines of a TLC run (no parsing: there can be > 10^5 of them)"""
    out = []
    for ln in res.out.splitlines():
        if ln.startswith('"SCN '):
            out.append(ln[5:-1].replace('\\"', '"'))
    return out


def judge(ctx, binp, items, tag):
    """items: [{variant, cfg}].  Re-observe each on the real parseConfig (Explain harness) and let TLC
    (Trace_ConfigExpand) accept or reject the observation with the exact difference.
    Returns list of (item, record, explanation) for the rejected ones."""
    if not items:
        return []
    inp = os.path.join(ctx.build, "c06.%s.explain.ndjson" % tag)
    trp = os.path.join(ctx.build, "c06.%s.explain.trace.ndjson" % tag)
    vf.write_ndjson(inp, items)
    ctx.run_harness(binp, "TestVerifC06Explain", env=dict(VERIF_SCN=inp, VERIF_OUT=trp), timeout=600)
    recs = vf.read_ndjson(trp)
    if len(recs) != len(items):
        raise vf.Machinery("explain harness returned %d records for %d inputs" % (len(recs), len(items)))
    tr = ctx.tlc("Trace_ConfigExpand", "Trace_ConfigExpand.cfg", env=dict(VERIF_TRACE=trp), timeout=900)
    if len(tr.lines("END ")) != 64:
        raise vf.Machinery("trace spec did not consume the whole explain trace")
    res = []
    for ex in tr.json_lines("REJECT "):
        i = ex["line"] - 1
        res.append((items[i], recs[i], ex))
    return res


def report(ctx, item, rec, ex, origin):
    cfg, obs = rec["cfg"], rec["obs"]
    if obs["kind"] in ("unclassified", "out-of-domain"):
        raise vf.Machinery("parseConfig returned something the harness cannot classify (%s): %s for %s" % (
            obs["kind"], obs.get("msg"), cfg_text(cfg)))
    es = cfg["inc"] + cfg["exc"]
    ent = es[obs["pos"] - 1] if obs["kind"] == "entry-error" and 0 < obs["pos"] <= len(es) else None
    if ex["ferr"]:
        want = "feature-error"
    elif any(e["must"] for e in ex["ent"]):
        want = "entry-error"
    elif ex["want_n"] == 0:
        want = "empty-error"
    else:
        want = "cases"
    key = dict(obs_kind=obs["kind"], obs_class=obs.get("class", ""), want_kind=want,
               entry_cert=ent["cert"] if ent else "", entry_tls=ent["tls"] if ent else "",
               missing=len(ex["missing"]) > 0, extra=len(ex["extra"]) > 0)
    if obs["kind"] == "cases":
        got = "%d cases (dups=%d); missing %d: %s; extra %d: %s" % (
            len(obs["cases"]), obs["dups"], len(ex["missing"]), " ".join(decode(k) for k in sorted(ex["missing"])[:4]),
            len(ex["extra"]), " ".join(decode(k) for k in sorted(ex["extra"])[:4]))
    else:
        got = "%s %s pos=%s (%s)" % (obs["kind"], obs.get("class", ""), obs.get("pos"), obs.get("msg", ""))
    if want == "feature-error":
        req = "rejection for one of %s" % sorted(ex["ferr"])
    elif want == "entry-error":
        req = "rejection of entry %s" % [(i + 1, sorted(e["must"])) for i, e in enumerate(ex["ent"]) if e["must"]]
    elif want == "empty-error":
        req = "rejection: zero cases"
    else:
        req = "exactly %d cases" % ex["want_n"]
    what = "parseConfig(%s) [%s, %s]: observed %s; specification requires %s" % (
        cfg_text(cfg), item.get("variant"), origin, got, req)
    ctx.candidate(key, what, dict(variant=item.get("variant"), cfg=cfg))


def run(ctx):
    q = ctx.quick
    binp = ctx.go_test_bin(PKG, ["c06"])

    if ctx.replay:
        obj = json.load(open(ctx.replay))["scenario"]
        items = [dict(variant=v, cfg=obj["cfg"]) for v in ("json", "yaml", "yamlCamel")]
        for it, rec, ex in judge(ctx, binp, items, "replay"):
            report(ctx, it, rec, ex, "replay")
        ctx.cov["evaluations"] += len(items)
        ctx.cov["traces_validated_against_impl"] += len(items)
        return

    # ---- 1. design: loader machine == declarative meaning, laws of the meaning
    mcs = ["MC_ConfigExpand_quick_features.cfg", "MC_ConfigExpand_quick_lists.cfg"] if q else \
          ["MC_ConfigExpand_features.cfg", "MC_ConfigExpand_inc.cfg", "MC_ConfigExpand_exc.cfg", "MC_ConfigExpand_lists.cfg",
           "MC_ConfigExpand_quick_lists.cfg"]
    ctx.notes["mc_design"] = []
    for cfg in mcs:
        mc = ctx.tlc("MC_ConfigExpand", cfg, timeout=2400)
        ctx.notes["mc_design"].append(dict(cfg=cfg, distinct=mc.distinct, generated=mc.generated, wall_s=round(mc.wall, 1)))

    # ---- 2. spec -> code: generated configurations with the verdict the meaning requires
    ph = ctx.seed
    gens = [("features", {}, None), ("passive", {}, None), ("streams", {}, None),
            ("include", dict(VERIF_ESTRIDE=ctx.pick(12, 2)), None),
            ("exclude", dict(VERIF_ESTRIDE=ctx.pick(12, 2)), None),
            ("lists", dict(VERIF_ESTRIDE=ctx.pick(2, 1)), None),
            ("walk", {}, "num=%d" % ctx.pick(1500, 10000))]
    scnp = os.path.join(ctx.build, "c06.scn.ndjson")
    counts = {}
    total = 0
    with open(scnp, "w") as fh:
        for name, env, sim in gens:
            env = dict(env, VERIF_PHASE=ph)
            if sim:
                res = ctx.tlc("Gen_ConfigExpand", "Gen_ConfigExpand_%s.cfg" % name, workers=1, simulate=sim, depth=10,
                              env=env, timeout=2400)
                lines = sorted(set(scn_lines(res)))
            else:
                res = ctx.tlc("Gen_ConfigExpand", "Gen_ConfigExpand_%s.cfg" % name, env=env, timeout=2400)
                lines = scn_lines(res)
            counts[name] = len(lines)
            total += len(lines)
            for i, ln in enumerate(lines):
                fh.write(ln)
                fh.write("\n")
            for ln in lines[len(lines) // 3: len(lines) // 3 + 1]:
                s = json.loads(ln)
                ctx.sample(dict(gen=name, cfg=cfg_text(s["cfg"]), required=s["exp"]), limit=4)
            del res, lines
    ctx.log("generated configurations: %s (total %d)" % (counts, total))
    ctx.notes["generated"] = counts
    outp = os.path.join(ctx.build, "c06.out.ndjson")
    ctx.run_harness(binp, "TestVerifC06Replay", env=dict(VERIF_SCN=scnp, VERIF_OUT=outp), timeout=3000)
    res = vf.read_ndjson(outp)
    summ = [r for r in res if r.get("summary")]
    if not summ:
        raise vf.Machinery("replay harness wrote no summary")
    summ = summ[0]
    if summ["scenarios"] != total:
        raise vf.Machinery("replay harness saw %d of %d scenarios" % (summ["scenarios"], total))
    mism = [r for r in res if not r.get("summary")]
    for r in mism:
        if r.get("machinery"):
            raise vf.Machinery("replay harness: %s" % r.get("error"))
    ctx.notes["replay"] = summ
    ctx.notes["replay_mismatches"] = len(mism)
    # distinct mismatch shapes, each confirmed by TLC with the exact difference
    shapes = {}
    for r in mism:
        if r.get("repro", 0) < 3:
            raise vf.Machinery("parseConfig mismatch not reproducible (%d/3): %s" % (r.get("repro", 0), json.dumps(r)[:400]))
        o = r["obs"]
        es = r["cfg"]["inc"] + r["cfg"]["exc"]
        ent = es[o["pos"] - 1] if o["kind"] == "entry-error" and 0 < o["pos"] <= len(es) else {}
        k = (o["kind"], o.get("class"), bool(r["exp"]["ferr"]), tuple(r["exp"]["ferr"]), ent.get("cert"), ent.get("tls"),
             r["exp"]["fp"]["n"] == 0, len(es))
        shapes.setdefault(k, [])
        if len(shapes[k]) < 3:
            shapes[k].append(dict(variant=r["variant"], cfg=r["cfg"]))
    items = [it for v in list(shapes.values())[:200] for it in v]
    rejected = judge(ctx, binp, items, "gen")
    if mism and not rejected:
        raise vf.Machinery("replay harness reported %d mismatches but TLC accepts the re-observed executions: %s" % (
            len(mism), json.dumps(mism[0])[:500]))
    for it, rec, ex in rejected:
        report(ctx, it, rec, ex, "generated")
    ctx.cov["evaluations"] += summ["evaluations"]
    ctx.cov["traces_validated_against_impl"] += summ["scenarios"]
    ctx.cov["distinct_nontrivial"] += summ["nontrivial"]

    # ---- 3. code -> spec: parseConfig on random configurations beyond the TLC domain + shipped files
    trp = os.path.join(ctx.build, "c06.trace.ndjson")
    ctx.run_harness(binp, "TestVerifC06Record", env=dict(VERIF_OUT=trp, VERIF_N=ctx.pick(8000, 60000),
                    VERIF_YAML_DIR=os.path.join(vf.REPO, "testing")), timeout=3000)
    recs = vf.read_ndjson(trp)
    files = [r for r in recs if r["src"].startswith("file:")]
    if len(files) < 3:
        raise vf.Machinery("shipped configuration files not found (%d)" % len(files))
    tr = ctx.tlc("Trace_ConfigExpand", "Trace_ConfigExpand.cfg", env=dict(VERIF_TRACE=trp), timeout=2400)
    if len(tr.lines("END ")) != 64:
        raise vf.Machinery("trace spec did not consume the whole trace")
    rej = tr.json_lines("REJECT ")
    seen = set()
    for ex in rej:
        r = recs[ex["line"] - 1]
        o = r["obs"]
        k = (o["kind"], o.get("class"), bool(ex["ferr"]), len(ex["missing"]) > 0, len(ex["extra"]) > 0)
        if k in seen and len(seen) > 40:
            continue
        seen.add(k)
        report(ctx, dict(variant=r["src"]), r, ex, "recorded")
    default = next((r["obs"]["cases"] for r in recs if r["src"] == "empty-file"), None)
    ctx.cov["traces_validated_against_impl"] += len(recs)
    ctx.cov["evaluations"] += len(recs)
    ctx.cov["distinct_nontrivial"] += len({json.dumps(r["cfg"], sort_keys=True) for r in recs
                                           if r["obs"]["kind"] != "cases" or r["obs"]["cases"] != default})
    kinds = {}
    for r in recs:
        kinds[r["obs"]["kind"]] = kinds.get(r["obs"]["kind"], 0) + 1
    ctx.notes["recorded"] = dict(n=len(recs), by_kind=kinds, rejected=len(rej), files=[r["src"] for r in files])
    ctx.sample(dict(recorded=files[0]["src"], cfg=cfg_text(files[0]["cfg"]), observed_cases=len(files[0]["obs"]["cases"])), limit=5)
    ctx.cov["exhaustive"] = False
    ctx.cov["rule"] = (
        "TLC enumerates configurations as construction behaviours (flags, axes, entries): all version x protocol subsets x 8 "
        "stream-type classes x 3^5 interacting flag tri-states; all 32 stream subsets x version subsets; all codec subsets x "
        "compression sets x get/limit tri-states; one include / one exclude from a 1008-entry pool (every combination of the "
        "interacting entry fields) x 24 axis sets x 16 flag seeds (thorough: every 2nd entry, quick: every 12th, sample chosen by VERIF_SEED); lists of <= 2 "
        "includes + <= 1 exclude from a 16-entry pool; random walks up to 4+4 entries. Each carries the verdict computed by the "
        "declarative operators and is replayed on parseConfig in two encodings (protojson, YAML). Recorded direction: seeded random "
        "configurations over all 19 axis values (any order, repetitions), 0-4 includes, 0-4 excludes, plus testing/*.yaml and the "
        "docs example; each accepted by Trace_ConfigExpand with exact set equality. Non-trivial = required verdict is a rejection or "
        "a case set different from the default configuration's.")
    ctx.assumptions += [
        "repeated enum fields of Features are read as sets (order/repetition carry no meaning)",
        "error classes are recognised from the error text by keyword; an unrecognised text is a machinery error, not a verdict",
        "AsImplemented_TextCodecMatchesNothing: CODEC_TEXT never appears in a case; a TEXT-only codec list / TEXT-pinned entry yields nothing",
        "AsImplemented_IndirectlyEmptyEntryTolerated: an entry that matches nothing only through a chain of clauses may be rejected or contribute nothing",
        "defaults of omitted axes are the documented default sets restricted to what the declared flags/versions make feasible",
        "generated-direction comparison uses a 4-component fingerprint of the case set; every reported difference is re-observed and decided by TLC with exact sets",
    ]
