"""C20 - every supported compression round-trips, also when instances are reused; one name, one algorithm.
spec: CompressDecl (law), CompressImpl (library contracts + the six wrappers), Compress (machine, usage
grammars, theorem), Gen_Compress (histories), Gen_CompressNames (name table), Trace_Compress (acceptor)."""
import json
import os
import random
import vf

MC_EXPECT = [  # design variants whose violation of the law TLC must find (the theorem has teeth)
    ("MC_Compress_x_code.cfg", "the wrappers as they were before the three fix: commits"),
    ("MC_Compress_x_codeBrotli.cfg", "brotliDecompressor.Reset relying on brotli.Reader.Reset (leftover input)"),
    ("MC_Compress_x_codeIdentity.cfg", "noOpCompressor adopting the sink's Close"),
    ("MC_Compress_x_codeGzip.cfg", "the bare zero gzip.Reader (Close after a failed first Reset panics)"),
    ("MC_Compress_x_zstdKeepClosed.cfg", "zstd wrapper keeping a closed decoder"),
    ("MC_Compress_x_zstdNoLazyNew.cfg", "zstd wrapper not recreating the decoder"),
    ("MC_Compress_x_libResetLeaks.cfg", "a reader whose Reset keeps state"),
    ("MC_Compress_x_resetKeepsPending.cfg", "a writer whose Reset keeps buffered data"),
    ("MC_Compress_x_closeNoFlush.cfg", "a writer whose Close does not flush"),
]


def scn_lines(res):
    seen, out = set(), []
    for s in res.json_lines("SCN "):
        k = json.dumps(s, sort_keys=True)
        if k not in seen:
            seen.add(k)
            out.append(s)
    return out


def summary_of(rows, what):
    summ = [r for r in rows if r.get("summary")]
    if not summ:
        raise vf.Machinery("%s harness wrote no summary" % what)
    return summ[0], [r for r in rows if not r.get("summary")]


def fmt_ops(ops):
    return " ".join("%s(%s)" % (o["o"], ",".join(x for x in (o["k"], o["p"]) if x != "-")) if o["o"] in ("Reset", "Write")
                    else o["o"] for o in ops)


def report_instance(ctx, r):
    if r.get("repro", 0) < 3:
        ctx.notes["unreproduced"] = ctx.notes.get("unreproduced", 0) + 1
        if ctx.notes["unreproduced"] <= 5:
            ctx.log("unreproduced mismatch ignored: %s" % json.dumps(r)[:300])
        return
    key = dict(component="instance", side=r["side"], enc=r["enc"], gram=r["gram"], kind=r["kind"], op=r.get("op", {}).get("o"),
               must=r.get("obl", {}).get("must"), obs_ret=r.get("obs", {}).get("ret"), cause=r.get("cause", ""))
    what = ("%s %s instance, history [%s] (grammar %s): call #%d %s must %s, observed ret=%s err=%r eq=%s w=%s %s (payload set %d, chunk %d, ctor %s)" % (
        r["enc"], "decompressor" if r["side"] == "D" else "compressor", fmt_ops(r["scn"]["ops"]), r["gram"], r["at"] + 1,
        r.get("op", {}).get("o"), json.dumps(r.get("obl")), r.get("obs", {}).get("ret"), r.get("obs", {}).get("err", ""),
        r.get("obs", {}).get("eq"), r.get("obs", {}).get("w"), r.get("obs", {}).get("note", ""), r["conc"]["payload_set"],
        r["conc"]["chunk"], r["conc"]["ctor"]))
    ctx.candidate(key, what, dict(component="instance", enc=r["enc"], conc=r["conc"], scn=r["scn"], at=r["at"], obs=r.get("obs")))


def replay_instances(ctx, binp, scns, tag, variants, allpos=0, big_every=0, timeout=2400, force=None):
    total = None
    shard = 120000
    for lo in range(0, max(1, len(scns)), shard):
        part = scns[lo:lo + shard]
        scnp = os.path.join(ctx.build, "c20.%s.%d.scn.ndjson" % (tag, lo))
        outp = os.path.join(ctx.build, "c20.%s.%d.out.ndjson" % (tag, lo))
        vf.write_ndjson(scnp, part)
        env = dict(VERIF_SCN=scnp, VERIF_OUT=outp, VERIF_VARIANTS=variants, VERIF_ALLPOS=allpos, VERIF_BIG_EVERY=big_every,
                   VERIF_HUGE_EVERY=(max(1, len(part) // (24 if ctx.quick else 200)) if tag == "D" else 0), GOMEMLIMIT="6GiB")
        if force:
            env["VERIF_FORCE"] = json.dumps(force)
        ctx.run_harness(binp, "TestVerifC20Replay", env=env, timeout=timeout)
        summ, rows = summary_of(vf.read_ndjson(outp), "replay(%s)" % tag)
        os.remove(scnp)
        for r in rows:
            report_instance(ctx, r)
        ctx.cov["evaluations"] += summ["evaluations"]
        ctx.cov["traces_validated_against_impl"] += summ["evaluations"]
        if tag not in ("allpos", "replay"):  # those histories were counted with tag "D" already
            ctx.cov["distinct_nontrivial"] += summ["nontrivial"]
        if total is None:
            total = summ
        else:
            for k, v in summ.items():
                if isinstance(v, int) and not isinstance(v, bool):
                    total[k] = total.get(k, 0) + v
                elif isinstance(v, dict):
                    for k2, v2 in v.items():
                        total[k][k2] = total[k].get(k2, 0) + v2
    ctx.notes.setdefault("replay", {})[tag] = total
    return total


def sandwich(s):
    """a malformed (cut / flipped / trailing) decode precedes the decode of a valid stream"""
    bad = False
    for op, ob in zip(s["ops"], s["obl"]):
        if op["o"] == "Reset" and op["k"] in ("cut", "flip"):
            bad = True
        if bad and ob["must"] == "bytes":
            return True
    return False


def run(ctx):
    q = ctx.quick
    rnd = random.Random(ctx.seed)

    if ctx.replay:
        return run_replay(ctx)

    # 1. design: the wrappers meet the law for histories of any length under every usage grammar
    mc = ctx.tlc("Compress", "MC_Compress.cfg", timeout=600)
    ctx.notes["mc_design"] = dict(distinct=mc.distinct, generated=mc.generated, cfg="MC_Compress.cfg",
                                  theorem="Conforms, RefinesBinding, WrapperShape, Returns, SinkStaysOpen, GrammarWithinDiscipline")
    found = {}
    for cfg, what in MC_EXPECT:
        r = ctx.tlc("Compress", cfg, timeout=600, expect_violation=True, workers=4)
        if r.violated != "Conforms":
            raise vf.Machinery("design variant %s (%s) should violate Conforms, TLC says %r" % (cfg, what, r.violated))
        found[cfg] = what
    ctx.notes["mc_variants_refuted"] = found

    # 2. behaviours
    gens = [("freeD4" if q else "freeD5"), ("freeC5" if q else "freeC6"), ("pool12" if q else "pool16"), ("tracer4" if q else "tracer6")]
    scns = []
    for g in gens:
        res = ctx.tlc("Gen_Compress", "Gen_Compress_%s.cfg" % g, timeout=1500)
        s = scn_lines(res)
        ctx.notes.setdefault("generated", {})[g] = len(s)
        scns += s
    sim = ctx.tlc("Gen_Compress", "Gen_Compress_sim.cfg", workers=1, simulate="num=%d" % (1500 if q else 20000), depth=30, timeout=1500)
    sims = scn_lines(sim)
    ctx.notes["generated"]["sim"] = len(sims)
    seen = {json.dumps(s, sort_keys=True) for s in scns}
    scns += [s for s in sims if json.dumps(s, sort_keys=True) not in seen]
    dsc = [s for s in scns if s["side"] == "D"]
    csc = [s for s in scns if s["side"] == "C"]
    ctx.log("histories: %d decompressor + %d compressor (%d simulated)" % (len(dsc), len(csc), len(sims)))
    def first(pred, pool):
        return next((x for x in pool if pred(x)), None)
    picks = [first(lambda s: s["gram"] == "pool" and sandwich(s), dsc),
             first(lambda s: s["gram"] == "free" and sandwich(s) and any(o["o"] == "Close" for o in s["ops"]), dsc),
             first(lambda s: s["gram"] == "free" and sum(1 for o in s["obl"] if o["must"] == "stream") >= 2, csc),
             first(lambda s: s["gram"] == "raw" and len(s["ops"]) >= 8, csc)]
    for s in picks:
        if s:
            ctx.sample(dict(side=s["side"], grammar=s["gram"], calls=fmt_ops(s["ops"]),
                            obligations=[o["must"] + ((":" + o["p"]) if o["must"] == "bytes" else "") for o in s["obl"]]))

    # 3. spec -> code: every history on real instances of all six encodings
    binp = ctx.go_test_bin("internal/compression", ["c20"])
    replay_instances(ctx, binp, dsc, "D", variants=2 if q else 3, big_every=400 if q else 150)
    replay_instances(ctx, binp, csc, "C", variants=1, big_every=0)
    sw = [s for s in dsc if sandwich(s) and len(s["ops"]) <= 8]
    rnd.shuffle(sw)
    sw = sw[: (60 if q else 500)]
    replay_instances(ctx, binp, sw, "allpos", variants=0, allpos=64 if q else 100000)
    ctx.notes["all_positions"] = dict(histories=len(sw), rule="every cut position; %s flipped bits of a 43-byte payload's stream" % ("64 seeded" if q else "all"))

    # crashes (the last clause of the statement): fixed probes
    run_hazard(ctx, binp)
    # volume: one pooled instance per encoding and side, reused for a few hundred MiB of valid messages
    run_volume(ctx, binp, 160 if q else 1500)

    # 4. code -> spec: long seeded histories of real instances, accepted line by line by Trace_Compress
    n_rec = 4000 if q else 40000
    trp = os.path.join(ctx.build, "c20.trace.ndjson")
    ctx.run_harness(binp, "TestVerifC20Record", env=dict(VERIF_OUT=trp, VERIF_N=n_rec, VERIF_MAXLEN=40), timeout=1800)
    recs = sorted(vf.read_ndjson(trp), key=lambda r: r["i"])
    drift = 0
    shard = 8000
    for lo in range(0, len(recs), shard):
        part = recs[lo:lo + shard]
        pp = os.path.join(ctx.build, "c20.trace.%d.ndjson" % lo)
        vf.write_ndjson(pp, part)
        tr = ctx.tlc("Trace_Compress", "Trace_Compress.cfg", workers=1, env=dict(VERIF_TRACE=pp), timeout=1800)
        if not tr.lines("CONSUMED "):
            raise vf.Machinery("trace spec did not consume the whole trace")
        drift += len(tr.lines("DRIFT "))
        rej = [tuple(int(x) for x in ln.split()) for ln in tr.lines("REJECT ")]
        if rej:
            # reproduce: the recorder is deterministic in (seed, index)
            only = ",".join(str(part[l - 1]["i"]) for l, _ in rej)
            again = []
            for k in range(2):
                ap = os.path.join(ctx.build, "c20.trace.again%d.ndjson" % k)
                ctx.run_harness(binp, "TestVerifC20Record", env=dict(VERIF_OUT=ap, VERIF_N=n_rec, VERIF_MAXLEN=40, VERIF_ONLY=only), timeout=900)
                again.append({r["i"]: r for r in vf.read_ndjson(ap)})
            for l, at in rej:
                r = part[l - 1]
                same = sum(1 for a in again if a.get(r["i"], {}).get("obs") == r["obs"])
                if same < 2:
                    ctx.notes["unreproduced"] = ctx.notes.get("unreproduced", 0) + 1
                    continue
                report_recorded(ctx, r, at)
    ctx.cov["traces_validated_against_impl"] += len(recs)
    ctx.cov["evaluations"] += len(recs)
    ctx.cov["distinct_nontrivial"] += len({json.dumps([r["enc"], r["ops"]]) for r in recs if len(r["ops"]) > 2})
    ctx.notes["recorded"] = dict(lines=len(recs), calls=sum(len(r["ops"]) for r in recs), model_drift_lines=drift)
    if drift:
        ctx.log("note: %d recorded histories are outside the operational model (law met; model drift, not a verdict)" % drift)
    r0 = next((r for r in recs if r["side"] == "D" and 6 <= len(r["ops"]) <= 14), recs[0])
    ctx.sample(dict(recorded=dict(enc=r0["enc"], side=r0["side"], calls=fmt_ops(r0["ops"]),
                                  results=[o["ret"] + ("=" + "/".join(o["eq"]) if o["eq"] else "") for o in r0["obs"]])), limit=6)

    # 5. name table: obligations from Gen_CompressNames on the real components
    xc = ctx.go_test_bin("internal/app/referenceclient", ["c20/xc"], name="c20xc")
    nm = ctx.tlc("Gen_CompressNames", "Gen_CompressNames.cfg", timeout=300)
    obls = scn_lines(nm)
    run_names(ctx, xc, obls)

    # 6. the same histories through the RPC library's own pools (real reference server) and through the
    #    raw-payload encoder on a shared pipe
    seqs, seen = [], set()
    for s in dsc:
        if s["gram"] != "pool":
            continue
        msgs = [dict(k=o["k"], p=o["p"]) for o in s["ops"] if o["o"] == "Reset" and o["k"] != "nobody"]
        k = json.dumps(msgs)
        if len(msgs) >= 2 and k not in seen:
            seen.add(k)
            seqs.append(dict(msgs=msgs))
    rnd.shuffle(seqs)
    seqs = seqs[: (400 if q else 2000)]
    run_seq(ctx, xc, seqs)
    raws, seen = [], set()
    for s in csc:
        if s["gram"] != "raw":
            continue
        items = [o["p"] for o in s["ops"] if o["o"] == "Write"]
        if items and tuple(items) not in seen:
            seen.add(tuple(items))
            raws.append(dict(items=items))
    run_raw(ctx, xc, raws)

    ctx.cov["exhaustive"] = False
    if not ctx.replay:
        # the wire tracer: BodyTrace.tla's flags family and random bodies on the real tracer (same encodings; a malformed
        # compressed end-of-stream message followed by a valid one)
        import sys
        sys.path.insert(0, os.path.dirname(os.path.abspath(__file__)))
        import c14
        c14.replay_reduced(ctx)
    ctx.cov["rule"] = (
        "TLC enumerates every call history of one pooled instance that starts with Reset - free grammar up to %s calls "
        "(decompressor: Reset on 9 stream classes / Read1 / ReadAll / Close) and %s calls (compressor: Reset on 4 sink kinds / Write of 3 "
        "payload tokens / Close), connect's pool protocol for %s cycles, the tracer's and the raw encoder's protocols, plus simulated "
        "histories of 24 calls - each with the obligations DReq/CReq computed from the calls alone; every history is replayed on real "
        "instances of all six encodings (GetCompressor/GetDecompressor and the New* constructors) with seeded concretisations (payload set, "
        "chunk size, source kind, cut position, flipped bit, garbage), a sample with every cut position and bit flip. Non-trivial = more than "
        "one call and at least one obligation beyond 'returns'. Recorded histories (<= 40 calls, payloads to 1 MiB) are accepted line by "
        "line by Trace_Compress (law) and followed by the operational model (drift note). The name table is 352 obligations "
        "(produce / consume name x format matrix / enum x header matrix / ordered pairs) executed on the real components." % (
            "4" if q else "5", "5" if q else "6", "3" if q else "4"))
    ctx.assumptions += [
        "stock codecs of the same third-party libraries (used without the repository's wrappers) identify wire formats",
        "usage discipline: the first call on an instance is Reset (before it the wrappers hold nil pointers); nothing else is assumed "
        "about call order - Read and Close right after a Reset that reported an error are part of the histories",
        "compressed bytes are not modelled: Z(z,p) is an uninterpreted token, the harness supplies and compares bytes",
        "e2e sequences run with GOMAXPROCS(1) so that sync.Pool hands the recycled instance to the next request",
        "corrupted zstd streams whose frame header announces more than 32 MiB are re-drawn in the bulk replay: the klauspost decoder "
        "allocates the announced size up front (a 13-byte message costs 400 MiB, measured as a note), which would only exhaust the sandbox",
    ]


def run_volume(ctx, binp, mib):
    """Reset/use/Close/Reset(empty) on ONE compressor and ONE decompressor per encoding for `mib` MiB of valid
    messages (1 MiB and 21 bytes in turn): Compress.tla has no bound on what went through an instance before."""
    vp = os.path.join(ctx.build, "c20.volume.ndjson")
    ctx.run_harness(binp, "TestVerifC20Volume", env=dict(VERIF_OUT=vp, VERIF_MIB=mib), timeout=2400)
    recs = vf.read_ndjson(vp)
    ctx.notes["volume"] = [dict(enc=r["enc"], rounds=r["rounds"], mib=r["mib"], ret=r["ret"]) for r in recs]
    for r in recs:
        ctx.cov["evaluations"] += r["rounds"]
        ctx.cov["traces_validated_against_impl"] += 1
        if r["ret"] != "ok":
            ctx.candidate(dict(component="volume", enc=r["enc"], obs_ret=r["ret"]),
                          "%s instances reused as a pool reuses them: %s fails after %d MiB of valid messages: %s %s" % (
                              r["enc"], r["at"], r["mib"], r["ret"], r["err"][:300]), dict(component="volume", mib=mib, probe=r))


def run_hazard(ctx, binp):
    """Close / Read right after a Reset that failed on a never-used instance; a stream with 8 bytes after its end
    delivered one byte per Read; what a 13-byte zstd header makes the decoder allocate (note only)."""
    runs = []
    for k in range(3):
        hz = os.path.join(ctx.build, "c20.hazard.%d.ndjson" % k)
        ctx.run_harness(binp, "TestVerifC20Hazard", env=dict(VERIF_OUT=hz), timeout=600)
        runs.append(vf.read_ndjson(hz))
    ctx.notes["zstd_header_announced_allocation"] = [r for r in runs[0] if r.get("then") == "alloc"]
    ctx.notes["hazard_probes"] = [dict(enc=r["enc"], then=r["then"], ret=r["ret"]) for r in runs[0]]
    for i, r in enumerate(runs[0]):
        ctx.cov["evaluations"] += 1
        if r["ret"] != "panic":
            continue
        if not all(len(o) > i and o[i]["ret"] == "panic" for o in runs[1:]):
            ctx.notes["unreproduced"] = ctx.notes.get("unreproduced", 0) + 1
            continue
        cause = "brotli-bytewise-source-internal-buffer-overrun" if r.get("overrun") else ""
        key = dict(component="instance", side="D", enc=r["enc"], op=r["then"], obs_ret="panic", cause=cause)
        ctx.candidate(key, "%s decompressor from GetDecompressor panics: %s -> %s" % (
            r["enc"], "Reset(garbage) reported %s, then %s" % (r.get("reset_garbage"), r["then"]) if "reset_garbage" in r
            else "%d-byte stream = valid stream + 8 bytes, source hands out one byte per Read" % r.get("stream_bytes", 0), r["err"]),
            dict(component="hazard", probe=r))


def report_recorded(ctx, r, at):
    ops, obs = r["ops"], r["obs"]
    cause = ""
    if r["enc"] == "br" and r["side"] == "D" and at and obs[at - 1]["ret"] == "panic" \
            and "index out of range [8] with length 8" in obs[at - 1].get("err", "") \
            and "brotli.decoderDecompressStream" in obs[at - 1].get("err", ""):
        cause = "brotli-bytewise-source-internal-buffer-overrun"
    key = dict(component="instance-recorded", side=r["side"], enc=r["enc"], op=ops[at - 1]["o"] if at else None,
               obs_ret=obs[at - 1]["ret"] if at else None, cause=cause)
    ctx.candidate(key, "recorded %s %s history rejected by Trace_Compress at call #%d: [%s] observed %s" % (
        r["enc"], "decompressor" if r["side"] == "D" else "compressor", at, fmt_ops(ops[:at]), json.dumps(obs[at - 1] if at else None)),
        dict(component="instance-recorded", rec=r, at=at))


def run_names(ctx, xc, obls):
    scnp = os.path.join(ctx.build, "c20.names.ndjson")
    outp = os.path.join(ctx.build, "c20.names.out.ndjson")
    vf.write_ndjson(scnp, obls)
    ctx.run_harness(xc, "TestVerifC20Names", env=dict(VERIF_SCN=scnp, VERIF_OUT=outp), timeout=900)
    summ, rows = summary_of(vf.read_ndjson(outp), "names")
    for r in rows:
        if r["ok"]:
            continue
        if r.get("repro", 0) < 3:
            ctx.notes["unreproduced"] = ctx.notes.get("unreproduced", 0) + 1
            continue
        o = r["obl"]
        key = dict(component=o["comp"], kind="name-" + o["kind"], enc=o["n"], enum=o["e"], format=o["f"], consumer=o["comp2"], header=o["hdr"])
        ctx.candidate(key, "name table: %s %s for %s (enum %d)%s: spec requires %s, observed label=%r formats=%s decoded/complained=%s %s" % (
            o["comp"], o["kind"], o["n"], o["e"], (" stream format " + o["f"]) if o["kind"] == "consume" else
            (" -> " + o["comp2"]) if o["kind"] == "pair" else (" header " + o["hdr"]) if o["kind"] == "check" else "",
            "label %s, format %s" % (o["hdr"], o["f"]) if o["kind"] == "produce" else o["expect"], r.get("label"), r.get("formats"),
            r.get("decoded"), r.get("note", "")), dict(component="names", obl=o))
    # "the same encoding name denotes the same algorithm": for the formats that are a series of members / frames, every
    # consumer of a name must treat a two-member stream alike (the peers use their RPC library's gzip, the tracer and the
    # raw-payload side the repository's own)
    groups = {}
    for r in rows:
        if r.get("members") is not None and r.get("repro", 3) >= 3:
            groups.setdefault((r["obl"]["n"], r["obl"]["f"]), {})[r["obl"]["comp"]] = r["members"]
    for (n, f), by in sorted(groups.items()):
        if len(set(by.values())) > 1:
            ctx.candidate(dict(component="names", kind="members-disagree", enc=n, format=f),
                          "name table: a %s stream of two members labelled %s is decoded whole by %s but not by %s" % (
                              f, n, sorted(c for c, v in by.items() if v), sorted(c for c, v in by.items() if not v)),
                          dict(component="names", members=by, enc=n, format=f))
    ctx.notes["names_members"] = {"%s/%s" % k: v for k, v in groups.items()}
    ctx.cov["evaluations"] += summ["obligations"]
    ctx.cov["traces_validated_against_impl"] += summ["obligations"]
    ctx.cov["distinct_nontrivial"] += summ["obligations"]
    ctx.notes["names"] = summ
    ctx.sample(dict(name_obligation=obls[len(obls) // 2]), limit=7)


def run_seq(ctx, xc, seqs, force=None):
    scnp = os.path.join(ctx.build, "c20.seq.ndjson")
    outp = os.path.join(ctx.build, "c20.seq.out.ndjson")
    vf.write_ndjson(scnp, seqs)
    env = dict(VERIF_SCN=scnp, VERIF_OUT=outp)
    if force:
        env.update(VERIF_FORCE_ENC=force["enc"], VERIF_FORCE_SEED=force["seed"])
    ctx.run_harness(xc, "TestVerifC20Seq", env=env, timeout=2400)
    summ, rows = summary_of(vf.read_ndjson(outp), "seq")
    for r in rows:
        if r.get("repro", 0) < 3:
            ctx.notes["unreproduced"] = ctx.notes.get("unreproduced", 0) + 1
            continue
        key = dict(component="referenceserver-pool", side="D", enc=r["enc"], msg=r["msg"]["k"], status=r["status"], cause="")
        ctx.candidate(key, "reference server, Content-Encoding %s, message sequence %s: message #%d (%s) must round-trip but: %s (earlier on this "
                      "connection: %s, statuses %s)" % (r["enc"], json.dumps([m["k"] + ":" + m["p"] for m in r["seq"]]), r["at"] + 1,
                                                         r["msg"]["k"], r["note"], r.get("earlier"), r.get("statuses")),
                      dict(component="seq", enc=r["enc"], seq=dict(msgs=r["seq"]), seed=r["seed"]))
    ctx.cov["evaluations"] += summ["messages"]
    ctx.cov["traces_validated_against_impl"] += summ["sequences"] * 6
    ctx.cov["distinct_nontrivial"] += summ["sequences"]
    ctx.notes["server_pool_sequences"] = summ


def run_raw(ctx, xc, raws):
    scnp = os.path.join(ctx.build, "c20.raw.ndjson")
    outp = os.path.join(ctx.build, "c20.raw.out.ndjson")
    vf.write_ndjson(scnp, raws)
    ctx.run_harness(xc, "TestVerifC20Raw", env=dict(VERIF_SCN=scnp, VERIF_OUT=outp), timeout=900)
    summ, rows = summary_of(vf.read_ndjson(outp), "raw")
    for r in rows:
        if r.get("repro", 0) < 3:
            ctx.notes["unreproduced"] = ctx.notes.get("unreproduced", 0) + 1
            continue
        key = dict(component="internal.WriteRawStreamContents", side="C", enc=r["enc"], what=r["what"], cause="")
        ctx.candidate(key, "WriteRawStreamContents onto an io.PipeWriter (as rawRequestSender does), %d %s items with explicit length %s: %s: %s" % (
            len(r["items"]), r["enc"], r["items"], r["what"], r["note"]), dict(component="raw", enc=r["enc"], items=dict(items=r["items"])))
    ctx.cov["evaluations"] += summ["evaluations"]
    ctx.cov["traces_validated_against_impl"] += summ["evaluations"]
    ctx.notes["raw_encoder_on_pipe"] = summ


def run_replay(ctx):
    sc = json.load(open(ctx.replay))["scenario"]
    comp = sc.get("component")
    ctx.cov["states"] = ctx.cov["transitions"] = 1  # no model run in replay mode
    if comp == "instance":
        binp = ctx.go_test_bin("internal/compression", ["c20"])
        replay_instances(ctx, binp, [sc["scn"]], "replay", variants=1, force=dict(enc=sc["enc"], conc=sc["conc"]))
    elif comp == "seq":
        xc = ctx.go_test_bin("internal/app/referenceclient", ["c20/xc"], name="c20xc")
        run_seq(ctx, xc, [sc["seq"]], force=dict(enc=sc["enc"], seed=sc["seed"]))
    elif comp == "raw":
        xc = ctx.go_test_bin("internal/app/referenceclient", ["c20/xc"], name="c20xc")
        run_raw(ctx, xc, [sc["items"]])
    elif comp == "names":
        xc = ctx.go_test_bin("internal/app/referenceclient", ["c20/xc"], name="c20xc")
        run_names(ctx, xc, [sc["obl"]])
    elif comp == "hazard":
        run_hazard(ctx, ctx.go_test_bin("internal/compression", ["c20"]))
    elif comp == "volume":
        run_volume(ctx, ctx.go_test_bin("internal/compression", ["c20"]), sc.get("mib", 160))
    elif comp == "instance-recorded":
        meta = json.load(open(ctx.replay))
        if meta.get("seed") != ctx.seed:
            raise vf.Machinery("recorded histories are a function of (VERIF_SEED, index): re-run with VERIF_SEED=%s" % meta.get("seed"))
        binp = ctx.go_test_bin("internal/compression", ["c20"])
        r = sc["rec"]
        ap = os.path.join(ctx.build, "c20.trace.replay.ndjson")
        ctx.run_harness(binp, "TestVerifC20Record", env=dict(VERIF_OUT=ap, VERIF_N=r["i"] + 1, VERIF_MAXLEN=40, VERIF_ONLY=str(r["i"])), timeout=900)
        recs = vf.read_ndjson(ap)
        tr = ctx.tlc("Trace_Compress", "Trace_Compress.cfg", workers=1, env=dict(VERIF_TRACE=ap), timeout=600)
        for ln in tr.lines("REJECT "):
            l, at = (int(x) for x in ln.split())
            report_recorded(ctx, recs[l - 1], at)
        ctx.cov["evaluations"] += len(recs)
    else:
        raise vf.Machinery("unknown replay component %r" % comp)
    ctx.sample(sc)
