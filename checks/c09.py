"""C09 - length-prefixed message framing survives any chunking and detects truncation.
spec: Framing.tla (machine == Decode for every chunking), Gen_Framing (behaviours), Trace_Framing."""
import json
import os
import vf


def peer_writer_discipline(ctx, pkg="internal/app/referenceclient", hdir="refclient", test="TestVerifRefClient", leg="refclient", who="reference client"):
    """RefClient.tla: the reference client's main loop (bounded parallelism, one writer at a time on stdout,
    exactly one response per request read, failure latch) - the peer-side precondition of the framing property."""
    q = ctx.quick
    mc = ctx.tlc("RefClient", "MC_RefClient.cfg", deadlock=True, timeout=1200) if leg == "refclient" else None
    g = ctx.tlc("Gen_RefClient", "Gen_RefClient.cfg", workers=1, simulate="num=%d" % (600 if q else 12000), depth=200, timeout=1200)
    seen, scns = set(), []
    for s in g.json_lines("SCN "):
        k = json.dumps(s)
        if k not in seen:
            seen.add(k)
            scns.append(s)
    scnp, outp = os.path.join(ctx.build, leg + ".scn"), os.path.join(ctx.build, leg + ".out")
    vf.write_ndjson(scnp, scns)
    binp = ctx.go_test_bin(pkg, [hdir], race=True)
    p = ctx.run_harness(binp, test, env=dict(VERIF_SCN=scnp, VERIF_OUT=outp, VERIF_P=2, VERIF_NREQ=4), timeout=3000, check=False)
    if "WARNING: DATA RACE" in p.stdout:
        i = p.stdout.index("WARNING: DATA RACE")
        ctx.candidate(dict(kind="race", leg=leg), "data race in the %s loop:" % who + "\n" + p.stdout[i:i + 3000], dict(kind="race", report=p.stdout[i:i + 3000]))
    elif p.returncode != 0:
        ctx.harness_died(p, leg + " harness")
    traces = vf.read_ndjson(outp)
    unrep = 0
    for t in traces:
        if t.get("hang"):
            if t["hang"].startswith("harness"):
                raise vf.Machinery(t["hang"])
            if t["hang"].startswith("UNREPRODUCED"):
                unrep += 1
                continue
            ctx.candidate(dict(kind="hang", leg=leg), "%s: %s; schedule=%s" % (who, t["hang"], json.dumps(t["schedule"])), t)
    ok = [t for t in traces if not t.get("hang")]
    trp = os.path.join(ctx.build, leg + ".trace")
    vf.write_ndjson(trp, [dict(events=t["events"]) for t in ok])
    r = ctx.tlc("Trace_RefClient", "Trace_RefClient.cfg", workers=4, env=dict(VERIF_TRACE=trp), timeout=2400)
    acc = {int(x) - 1 for x in r.lines("ACCEPT ")}
    rejected = [i for i in range(len(ok)) if i not in acc]
    if rejected:
        # re-execute: a rejection counts when it reproduces in 2 of 3 executions
        again_scn = [dict(hist=ok[i]["schedule"]) for i in rejected[:100]]
        counts = [1] * len(again_scn)
        for rnd in range(2):
            vf.write_ndjson(scnp, again_scn)
            ctx.run_harness(binp, test, env=dict(VERIF_SCN=scnp, VERIF_OUT=outp, VERIF_P=2, VERIF_NREQ=4), timeout=3000, check=False)
            tr2 = vf.read_ndjson(outp)
            vf.write_ndjson(trp, [dict(events=t["events"]) for t in tr2])
            r2 = ctx.tlc("Trace_RefClient", "Trace_RefClient.cfg", workers=4, env=dict(VERIF_TRACE=trp), timeout=2400)
            a2 = {int(x) - 1 for x in r2.lines("ACCEPT ")}
            for j in range(len(tr2)):
                if j not in a2 or tr2[j].get("hang"):
                    counts[j] += 1
        for j, i in enumerate(rejected[:100]):
            if counts[j] >= 2:
                t = ok[i]
                ctx.candidate(dict(kind="trace-rejected", leg=leg, last=[e["e"] for e in t["events"]][-3:]),
                              "%s execution is not a behaviour of RefClient (rejected %d/3): schedule=%s events=%s" % (
                                  who, counts[j], json.dumps(t["schedule"]), json.dumps(t["events"])[:800]), t)
            else:
                unrep += 1
    if unrep and not ctx.violations:
        ctx.notes[leg + "_unreproduced"] = unrep
    # the same loop reading a stream whose bytes are split across reads in every way (also several messages in one
    # read), binary and JSON variant: exactly the sequence that was written is answered, and Run ends cleanly
    bout = os.path.join(ctx.build, leg + ".batch.out")
    pb = ctx.run_harness(binp, test + "Batch", env=dict(VERIF_OUT=bout), timeout=900, check=False)
    if "WARNING: DATA RACE" in pb.stdout:
        i = pb.stdout.index("WARNING: DATA RACE")
        ctx.candidate(dict(kind="race", leg=leg), "data race in the %s loop (batch input):\n" % who + pb.stdout[i:i + 3000], dict(kind="race", report=pb.stdout[i:i + 3000]))
    elif pb.returncode != 0:
        ctx.harness_died(pb, leg + " batch harness")
    else:
        brecs = vf.read_ndjson(bout)
        if not any(r.get("summary") for r in brecs):
            raise vf.Machinery(leg + " batch harness wrote no summary")
        for r in brecs:
            if r.get("kind") == "batch":
                ctx.candidate(dict(kind="batch", leg=leg, json=r["json"], split=r["split"]),
                              "%s reading a complete sequence of 6 requests (%s variant, %s): %s" % (who, "JSON" if r["json"] else "binary", r["split"], "; ".join(r["problems"])[:500]), r)
        ctx.cov["evaluations"] += sum(r.get("runs", 0) for r in brecs if r.get("summary"))
    ctx.cov["traces_validated_against_impl"] += len(ok)
    ctx.cov["evaluations"] += len(traces)
    ctx.notes[leg] = dict(mc_distinct=mc.distinct if mc else None, schedules=len(scns), accepted=len(acc))
    if ok:
        ctx.sample(dict(leg=leg, schedule=ok[0]["schedule"], events=[(e["e"], e.get("i", e.get("r", e.get("ok", "")))) for e in ok[0]["events"]]))


def replay_leg(ctx, q):
    """TLC's chunkings / cuts / stalls replayed on the real readers and the writer.  Also used by C10 and C11, whose
    specifications take 'a read of a peer's output returns within the timeout with the right classification' as given."""
    # 2. behaviours: exhaustive small + simulated long
    gen = ctx.tlc("Gen_Framing", "Gen_Framing_small.cfg" if q else "Gen_Framing_full.cfg", timeout=1200)
    scns = gen.json_lines("SCN ")
    n_ex = len(scns)
    sim = ctx.tlc("Gen_Framing", "Gen_Framing_sim.cfg", workers=1, simulate="num=%d" % (1500 if q else 40000),
                  depth=60, timeout=1200)
    sims = sim.json_lines("SCN ")
    seen = set()
    allscn = []
    for s in scns + sims:
        k = json.dumps(s, sort_keys=True)
        if k not in seen:
            seen.add(k)
            allscn.append(s)
    ctx.log("scenarios: %d exhaustive + %d simulated (%d distinct)" % (n_ex, len(sims), len(allscn)))
    scnp = os.path.join(ctx.build, "c09.scn.ndjson")
    outp = os.path.join(ctx.build, "c09.out.ndjson")
    special = False   # replay of a size-sweep / slow-peer candidate: those drivers are re-run as a whole
    if ctx.replay:
        rsc = json.load(open(ctx.replay))["scenario"]
        rscn = rsc["scn"]
        special = bool(rscn.get("trickle")) or rsc.get("note") == "size sweep" or isinstance(rsc.get("exp"), str)
        allscn = [] if special else [rscn]
    vf.write_ndjson(scnp, allscn)
    binp = ctx.go_test_bin("internal", ["c09"])
    ctx.run_harness(binp, "TestVerifC09Replay", env=dict(VERIF_SCN=scnp, VERIF_OUT=outp,
                    VERIF_MAX_STALL=300 if q else 4000), timeout=3000)
    res = vf.read_ndjson(outp)
    summ = [r for r in res if r.get("summary")]
    if not summ:
        raise vf.Machinery("replay harness wrote no summary")
    summ = summ[0]
    for r in res:
        if r.get("summary"):
            continue
        if r.get("repro", 0) < 3:
            ctx.notes.setdefault("unreproduced", 0)
            if ctx.notes["unreproduced"] < 5:
                ctx.log("unreproduced mismatch ignored (flaky): %s" % json.dumps(r)[:300])
            ctx.notes["unreproduced"] += 1
            continue
        key = dict(variant=r.get("variant"), obs_last=(r.get("obs") or [{}])[-1].get("k") if isinstance(r.get("obs"), list) else None,
                   exp_last=(r.get("exp") or [{}])[-1].get("k") if isinstance(r.get("exp"), list) else None,
                   scn=r.get("scn"))
        ctx.candidate(key, "framing %s: observed %s, spec requires %s (script_ok=%s %s) scenario=%s" % (
            r.get("variant"), json.dumps(r.get("obs")), json.dumps(r.get("exp")), r.get("script_ok"), r.get("note", ""),
            json.dumps(r.get("scn"))[:400]), r)
    # size sweep: the simplest behaviour (complete two-message stream, clean end) for every first-message size in a
    # dense range and around the powers of two - TLC enumerates chunkings, this instantiates sizes
    if not ctx.replay or special:
        swp = os.path.join(ctx.build, "c09.sweep.ndjson")
        ctx.run_harness(binp, "TestVerifC09Sweep", env=dict(VERIF_OUT=swp, VERIF_DENSE=9000 if q else 70000), timeout=3000)
        sw = vf.read_ndjson(swp)
        ssum = [r for r in sw if r.get("summary")]
        if not ssum:
            raise vf.Machinery("sweep harness wrote no summary")
        for r in sw:
            if r.get("summary"):
                continue
            ctx.candidate(dict(variant=r.get("variant"), sweep=True, lens=r["scn"]["lens"]),
                          "framing %s, message sizes %s (complete stream): observed %s, spec requires %s" % (
                              r.get("variant"), r["scn"]["lens"], json.dumps(r.get("obs"))[:300], json.dumps(r.get("exp"))[:300]), r)
        ctx.cov["evaluations"] += ssum[0]["evaluations"]
        ctx.cov["traces_validated_against_impl"] += ssum[0]["scenarios"]
        ctx.notes["size_sweep"] = ssum[0]
        # a peer that is not silent but too slow is stalled as well: the period is a budget for the whole message
        trk = os.path.join(ctx.build, "c09.trickle.ndjson")
        ctx.run_harness(binp, "TestVerifC09Trickle", env=dict(VERIF_OUT=trk), timeout=600)
        tr = vf.read_ndjson(trk)
        if not any(r.get("summary") for r in tr):
            raise vf.Machinery("trickle harness wrote no summary")
        for r in tr:
            if r.get("summary"):
                ctx.cov["evaluations"] += r["evaluations"]
                ctx.cov["traces_validated_against_impl"] += r["scenarios"]
                continue
            if r.get("repro", 0) < 3:
                ctx.notes["unreproduced"] = ctx.notes.get("unreproduced", 0) + 1
                continue
            ctx.candidate(dict(variant=r.get("variant"), trickle=True, avail=r["scn"]["avail"], lens=r["scn"]["lens"]),
                          "framing %s, %s; sizes %s, %d bytes at once, then one byte per 100 ms: observed %s" % (
                              r.get("variant"), r.get("note"), r["scn"]["lens"], r["scn"]["avail"], json.dumps(r.get("obs"))[:300]), r)
    ctx.cov["evaluations"] += summ["evaluations"]
    ctx.cov["traces_validated_against_impl"] += summ["scenarios"] - summ["stall_skipped"]
    ctx.cov["distinct_nontrivial"] += summ["nontrivial"]
    ctx.notes["replay"] = summ
    for s in allscn[:: max(1, len(allscn) // 4)][:4]:
        ctx.sample(s)
    return binp


def run(ctx):
    q = ctx.quick
    # 1. design: machine == declarative Decode for every chunking / cut / end kind
    mc = ctx.tlc("Framing", "MC_Framing.cfg", timeout=600)
    ctx.notes["mc_design"] = dict(distinct=mc.distinct, generated=mc.generated, cfg="MC_Framing.cfg")
    binp = replay_leg(ctx, q)
    if ctx.replay:
        return
    # 3. code -> spec: real readers on long random streams, accepted by Trace_Framing
    trp = os.path.join(ctx.build, "c09.trace.ndjson")
    ctx.run_harness(binp, "TestVerifC09Record", env=dict(VERIF_OUT=trp, VERIF_N=1500 if q else 30000,
                    VERIF_MAX_STALL=100 if q else 1500), timeout=3000)
    recs = vf.read_ndjson(trp)
    tr = ctx.tlc("Trace_Framing", "Trace_Framing.cfg", workers=1, env=dict(VERIF_TRACE=trp), timeout=1800)
    if not tr.lines("CONSUMED "):
        raise vf.Machinery("trace spec did not consume the whole trace")
    for ln in tr.lines("REJECT "):
        r = recs[int(ln) - 1]
        ctx.candidate(dict(variant=r["variant"], recorded=True, obs_last=r["obs"][-1]["k"]),
                      "recorded execution rejected by Trace_Framing: %s" % json.dumps(r)[:600], dict(scn=r))
    ctx.cov["traces_validated_against_impl"] += len(recs)
    ctx.cov["evaluations"] += len(recs)
    ctx.cov["distinct_nontrivial"] += len({json.dumps(r["obs"]) + str(r["lens"]) for r in recs if len(r["obs"]) > 1 or r["obs"][0]["k"] != "EOF"})
    ctx.sample(recs[0])
    peer_writer_discipline(ctx)
    # the grpc-go reference client has the same loop: same spec, second implementation
    peer_writer_discipline(ctx, "internal/app/grpcclient", "grpcclient", "TestVerifGrpcClient", "grpcclient", "grpc-go reference client")
    ctx.cov["exhaustive"] = False
    ctx.cov["rule"] = ("TLC enumerates every chunking (incl. EOF-with-data) x cut x end kind of every stream within MaxTotal bytes "
                       "(exhaustive part) and random walks of the same machine for longer streams; each is replayed on "
                       "readDelimitedMessageRaw / ReadDelimitedMessage / protoDecoder / jsonDecoder / writer; non-trivial = "
                       "result is not a lone clean EOF or the chunking has more than one read. Recorded executions over long "
                       "random streams are accepted line by line by Trace_Framing (obs = Decode).")
    ctx.assumptions += ["two reader flavours: zero-length Reads return at once (os.File) and, for stall scenarios, block until the next write/close (io.Pipe - what the runner reads its peers through)",
                        "stall = reader that never returns; real timeout shortened to 150 ms via the function's own parameter"]
