"""G2 (growth item, extra leg of C02) - client cancellation and timeouts in test cases.
spec: EchoCancelDecl.tla (timeline, Allowed / AllowedStrict / AllowedRef, Exp, AssertAccepts, the embedded
suites), EchoCancel.tla (timed client/server machine, design theorem), EchoCancelCases.tla (scenario space),
Gen_EchoCancel.tla (generator).  Called from checks/c02.py as g_cancel.leg(ctx)."""
import json
import os
import random
import shutil
import vf

PKG = "internal/app/connectconformance"
PROTOS = ("connect", "grpc", "grpcweb")
PROTONAME = {1: "connect", 2: "grpc", 3: "grpcweb"}


def rk(r):
    return (r["np"], r["code"], r["unsent"])


def tkey(t):
    return json.dumps(t, sort_keys=True)


def shape(s):
    """scenario attributes used for stratification and for known-finding keys"""
    t = s["t"]
    tok = "none" if t["to"] == 0 else ("far" if t["to"] == 99 else "short")
    return dict(st=t["st"], nreq=t["n"], nresp=t["m"], derr=t["derr"], rdelay=t["rd"] > 0, qdelay=t["qd"] > 0,
                cancel=t["ck"], cancel_at=t["ca"], timeout=tok, racy=not s["det"],
                spec_unsent=max(r["unsent"] for r in s["allowed"]))


def details(t, code):
    return 1 if (code == "deferr" and t["m"] == 0) else 0


def accepts(t, exp, obs):
    """AssertAccepts of EchoCancelDecl (results.go assert: count, error presence, code or other allowed code, details)"""
    return (obs["np"] == exp["np"] and (exp["code"] == "none") == (obs["code"] == "none")
            and (obs["code"] == exp["code"] or obs["code"] in exp["other"])
            and details(t, obs["code"]) == details(t, exp["code"]))


def design(ctx):
    """TLC: machine vs. declarative sets, both directions; returns the scenarios"""
    mc = ctx.tlc("EchoCancel", ctx.pick("MC_EchoCancel_q.cfg", "MC_EchoCancel_t.cfg"), timeout=1800, heap="8g")
    neg = ctx.tlc("EchoCancel", "MC_EchoCancel_x_eos.cfg", timeout=600, expect_violation=True)
    if neg.violated != "Sound":
        raise vf.Machinery("MC_EchoCancel_x_eos: a half-close sent after the cancellation must break Sound (got %s)" % neg.violated)
    gen = ctx.tlc("Gen_EchoCancel", ctx.pick("Gen_EchoCancel_q.cfg", "Gen_EchoCancel_t.cfg"), timeout=1800, heap="8g")
    scns = gen.json_lines("SCN ")
    scns.sort(key=lambda s: tkey(s["t"]))
    for i, s in enumerate(scns):
        s["id"] = i + 1
    reach = {}
    for x in mc.json_lines("TERM "):
        reach.setdefault((tkey(x["t"]), x["lib"]), set()).add(rk(x["res"]))
    # converse of the invariant Sound: every member of the declarative sets is reached by the machine
    for s in scns:
        k = tkey(s["t"])
        a, st = {rk(r) for r in s["allowed"]}, {rk(r) for r in s["strict"]}
        if reach.get((k, "lenient")) != a or reach.get((k, "strict")) != st:
            raise vf.Machinery("EchoCancel: terminal results of the machine differ from the declarative sets for %s: lenient %s vs %s, strict %s vs %s" % (
                k, sorted(reach.get((k, "lenient"), [])), sorted(a), sorted(reach.get((k, "strict"), [])), sorted(st)))
    if len(scns) * 2 != len({k for k in reach}):
        raise vf.Machinery("EchoCancel: machine explored %d (case, library) pairs, generator emitted %d cases" % (len(reach), len(scns)))
    return mc, scns


def pick(ctx, scns, n):
    """seeded, stratified choice: round-robin over (stream type, interruption, delays, racy) buckets"""
    rnd = random.Random(ctx.seed * 104729 + 7)
    buckets = {}
    for s in scns:
        sh = shape(s)
        if sh["cancel"] == "none" and sh["timeout"] == "none" and (sh["rdelay"] or sh["qdelay"] or sh["derr"]):
            continue  # uninterrupted calls are the Echo family's; keep the plain ones as controls
        partial = s["exp"]["np"] > 0 and s["exp"]["code"] in ("canceled", "deadline")   # payloads AND an interruption
        key = (sh["st"], sh["cancel"], sh["timeout"], sh["rdelay"], sh["qdelay"], sh["racy"], sh["spec_unsent"] > 0, partial)
        buckets.setdefault(key, []).append(s)
    keys = sorted(buckets)
    rnd.shuffle(keys)
    # deterministic cases first in the rotation: they carry the tight verdicts
    keys.sort(key=lambda k: (k[5], not k[7], not (k[3] or k[4])))
    for k in keys:
        rnd.shuffle(buckets[k])
    chosen, i = [], 0
    while len(chosen) < n and any(buckets[k] for k in keys):
        k = keys[i % len(keys)]
        i += 1
        if buckets[k]:
            chosen.append(buckets[k].pop())
    for s in chosen:
        ps = list(PROTOS)
        rnd.shuffle(ps)
        s["protos"] = sorted(ps[:ctx.pick(2, 3)])
    return chosen


def run_e2e(ctx, binp, scns, tag, runpass, timeout=600):
    scnp = os.path.join(ctx.build, "g2.%s.scn" % tag)
    outp = os.path.join(ctx.build, "g2.%s.out" % tag)
    wd = os.path.join(ctx.build, "g2-" + tag)
    os.makedirs(wd, exist_ok=True)
    vf.write_ndjson(scnp, [dict(id=s["id"], t=s["t"], exp=s["exp"], protos=s["protos"]) for s in scns])
    env = dict(VERIF_SCN=scnp, VERIF_OUT=outp, VERIF_DIR=wd, VERIF_RUNPASS=1 if runpass else 0,
               VERIF_WATCHDOG_S=timeout - 60, VERIF_UNIT_MS=os.environ.get("VERIF_UNIT_MS", "250"))
    ctx.run_harness(binp, "TestVerifG2E2E", env=env, timeout=timeout)
    recs = vf.read_ndjson(outp)
    for r in recs:
        if r.get("harness_error"):
            raise vf.Machinery("g2 harness: " + r["harness_error"])
    summ = [r for r in recs if r.get("summary")]
    if not summ:
        raise vf.Machinery("g2 harness wrote no summary")
    recs = [r for r in recs if not r.get("summary")]
    for r in recs:
        txt = r["m1"] + r["m2"] + r["cerr"]
        if "too many open files" in txt or "cannot assign requested address" in txt:
            raise vf.Machinery("g2 harness ran out of OS resources: " + txt[:300])
    shutil.rmtree(wd, ignore_errors=True)
    return recs, summ[0]


def judge(s, r, runpass):
    """mismatches of one executed permutation against the specification: list of (kind, text)"""
    t, obs = s["t"], r["obs"]
    refclient = r["peers"].startswith("ref/")
    if obs is None:
        return [("no-result", "the client reported no ClientResponseResult: %s" % (r["cerr"] or "nothing recorded"))]
    bad = []
    allowed = {rk(x) for x in s["allowed"]}
    # the reference client sits on connect-go, which reports a cancellation at once: the strict subset
    tight = {rk(x) for x in s["strict"]} if refclient else allowed
    got = rk(obs)
    if got not in tight:
        same = sorted({x[2] for x in tight if x[:2] == got[:2]})
        if same:
            asimpl = got in {rk(x) for x in s["ref"]}   # AsImplemented_UnsentOnlyOnEOF: exactly the modelled deviation
            bad.append(("unsent", "num_unsent_requests %d, the documented client program records %s (result np=%d code=%s%s)" % (
                obs["unsent"], same, obs["np"], obs["code"], "; as AllowedRef models the reference client" if asimpl else "")))
        elif got in allowed:
            bad.append(("ref-lenient", "reference client (connect-go reports a cancellation at once) reported np=%d code=%s unsent=%d, allowed only for a library that hands out what arrived by the instant of the cancellation; strict set %s" % (
                obs["np"], obs["code"], obs["unsent"], sorted(tight))))
        else:
            bad.append(("result", "reported np=%d code=%s unsent=%d (%s), not among the allowed %s" % (
                obs["np"], obs["code"], obs["unsent"], obs["msg"], sorted(allowed))))
    if not obs["prefix"]:
        bad.append(("payloads", "the reported payloads are not the first %d of the definition" % obs["np"]))
    # the first payload carries the deadline the server saw iff a timeout was set: at most timeout_ms
    echo, to_ms = obs["echo_ms"], obs["to_ms"]
    carries = obs["np"] >= 1 or details(t, obs["code"]) == 1
    echo_ok = (0 < echo <= to_ms) if (carries and to_ms) else echo == -1
    if not echo_ok:
        bad.append(("timeout-echo", "request info of the first payload / of the error echoes timeout %d ms; timeout_ms of the request %d (0 = unset, -1 = none echoed)" % (echo, to_ms)))
    # the runner's verdict on exactly this result (an echoed timeout is compared with a 500 ms grace period)
    window_ok = echo == -1 or to_ms - 500 <= echo <= to_ms
    predicted = "pass" if (accepts(t, s["exp"], obs) and not r["feedback"] and echo_ok and window_ok and obs["prefix"]) else "fail"
    if r["o2"] != predicted:
        bad.append(("verdict", "runner verdict %s on the recorded result np=%d code=%s, the specification's assertion says %s for expectation %s (%s %s)" % (
            r["o2"], obs["np"], obs["code"], predicted, json.dumps(s["exp"]), r["m2"][:200].replace("\n", " / "), r["feedback"][:120])))
    # ... and of run() itself (another execution): only where no verdict may depend on scheduling
    if runpass and s["det"] and r["o1"] != "pass" and (echo == -1 or echo >= to_ms - 250) and not any(k in ("result", "payloads", "timeout-echo", "no-result") for k, _ in bad):
        bad.append(("verdict-run", "run() verdict %s on a case whose every allowed result the assertion accepts: %s" % (
            r["o1"], r["m1"][:300].replace("\n", " / "))))
    return bad


def leg(ctx):
    replay = None
    if ctx.replay:
        replay = json.load(open(ctx.replay))["scenario"]
        if replay.get("leg") != "g2-cancel":
            return
    mc, scns = design(ctx)
    byid = {s["id"]: s for s in scns}
    racy = sum(1 for s in scns if not s["det"])
    ctx.log("g2: %d cancellation/timeout cases (%d racy by the specification), machine %d distinct states" % (len(scns), racy, mc.distinct))
    binp = ctx.go_test_bin(PKG, ["c02cancel"], name="g2_cancel")
    if replay:
        want = tkey(replay["scn"]["t"])
        hit = [s for s in scns if tkey(s["t"]) == want]
        if not hit:
            raise vf.Machinery("g2 replay: scenario not in the generated space of this tier")
        hit[0]["protos"] = replay["scn"].get("protos", list(PROTOS))
        chosen = hit
    else:
        chosen = pick(ctx, scns, ctx.pick(150, 450))
    recs, summ = run_e2e(ctx, binp, chosen, "main", True)
    ctx.log("g2 e2e: %d cases x config cases -> %d permutations, %d observed; run %.0fs + capture %.0fs (unit %d ms)" % (
        summ["cases"], summ["permutations"], summ["observed"], summ["run_s"], summ["capture_s"], summ["unit_ms"]))
    first = {}   # (name, kind) -> (record, text)
    for r in recs:
        for kind, text in judge(byid[r["id"]], r, True):
            first[(r["name"], kind)] = (r, text)
    # real sockets and timers: a mismatch counts only when it shows in 3 of 3 executions
    count = {k: 1 for k in first}
    for rep in range(2):
        live = [k for k in first if count[k] == rep + 1]
        if not live:
            break
        again = [byid[i] for i in sorted({first[k][0]["id"] for k in live})]
        rpass = any(k[1] == "verdict-run" for k in live)
        recs2, _ = run_e2e(ctx, binp, again, "rep%d" % rep, rpass)
        seen = set()
        for r in recs2:
            for kind, _ in judge(byid[r["id"]], r, rpass):
                seen.add((r["name"], kind))
        for k in live:
            if k in seen:
                count[k] += 1
    confirmed = {}
    for k, (r, text) in first.items():
        if count[k] >= 3:
            confirmed.setdefault((r["id"], k[1]), []).append((r, text))
        else:
            ctx.notes["g2_unreproduced"] = ctx.notes.get("g2_unreproduced", 0) + 1
            ctx.notes.setdefault("g2_unreproduced_examples", [])
            if len(ctx.notes["g2_unreproduced_examples"]) < 5:
                ctx.notes["g2_unreproduced_examples"].append("%s: %s (%d of 3)" % (k[0], text[:200], count[k]))
    for (cid, kind), rs in sorted(confirmed.items()):
        s = byid[cid]
        r, text = rs[0]
        obs = r["obs"] or {}
        key = dict(leg="g2-cancel", kind=kind, clients="+".join(sorted({x[0]["peers"].split("/")[0] for x in rs})),
                   servers="+".join(sorted({x[0]["peers"].split("/")[1] for x in rs})),
                   protocols="+".join(sorted({PROTONAME[x[0]["cfg"]["protocol"]] for x in rs})),
                   obs_np=obs.get("np"), obs_code=obs.get("code"), obs_unsent=obs.get("unsent"), **shape(s))
        ctx.candidate(key, "g2 cancel/timeout: %d permutation(s) of case g%d (3 of 3 executions; clients %s, servers %s, %s), e.g. %s: %s; case=%s timeline=%s" % (
            len(rs), cid, key["clients"], key["servers"], key["protocols"], r["name"], text, json.dumps(s["t"]), json.dumps(s["ops"])),
            dict(leg="g2-cancel", scn=dict(t=s["t"], protos=s["protos"]), kind=kind, names=[x[0]["name"] for x in rs][:20]))
    # ---- evidence
    ctx.cov["evaluations"] += len(recs) * 2
    ctx.cov["traces_validated_against_impl"] += sum(1 for r in recs if r["obs"] is not None)
    ctx.cov["distinct_nontrivial"] += sum(1 for s in chosen if s["t"]["ck"] != "none" or s["t"]["to"] != 0)
    verdicts = {}
    for r in recs:
        k = "%s/%s" % (r["o1"], r["o2"])
        verdicts[k] = verdicts.get(k, 0) + 1
    ctx.notes["g2_cancel"] = dict(
        mc=dict(distinct=mc.distinct, generated=mc.generated, cfg=ctx.pick("MC_EchoCancel_q.cfg", "MC_EchoCancel_t.cfg")),
        cases=len(scns), racy_cases=racy, lenient_differs=sum(1 for s in scns if len(s["allowed"]) != len(s["strict"])),
        unsent_cases=sum(1 for s in scns if shape(s)["spec_unsent"] > 0),
        e2e=dict(cases=summ["cases"], permutations=summ["permutations"], observed=summ["observed"], unit_ms=summ["unit_ms"],
                 by_peers={p: sum(1 for r in recs if r["peers"] == p) for p in ("ref/ref", "ref/grpc", "grpc/ref", "grpc/grpc")},
                 by_protocol={PROTONAME[p]: sum(1 for r in recs if r["cfg"]["protocol"] == p) for p in (1, 2, 3)},
                 by_http={str(v): sum(1 for r in recs if r["cfg"]["version"] == v) for v in (1, 2)},
                 verdicts_run_capture=verdicts, mismatches_first_run=len(first), confirmed=len(confirmed),
                 run_s=round(summ["run_s"], 1), capture_s=round(summ["capture_s"], 1)))
    ctx.notes["g2_rule"] = ("cancellation/timeout leg: TLC enumerates every test case of the bounded space (stream type x requests x responses x "
                            "error at the end x response/request delay x cancel kind and position x timeout against the delays) with the set of results "
                            "the timeline admits (Allowed / AllowedStrict) and checks the timed client/server machine against it in both directions; "
                            "a seeded stratified sample is rendered to real test cases (one abstract unit = %d ms) with the expectation the specification "
                            "names and run through run() and a recording pass over Connect/gRPC/gRPC-Web and HTTP/1.1/2; every recorded "
                            "ClientResponseResult must be in the allowed set (the strict one for the reference client), carry the first np payloads, "
                            "echo a timeout iff one was set, and the runner's verdict must be the one the specification's assertion gives for that "
                            "result; non-trivial = the case has a cancel instruction or a timeout" % summ["unit_ms"])
    if recs:
        r = recs[len(recs) // 2]
        ctx.sample(dict(g2=r["name"], peers=r["peers"], case=byid[r["id"]]["t"], allowed=byid[r["id"]]["allowed"], observed=r["obs"], verdict=r["o2"]))
    ctx.assumptions += [
        "g2: steps take no time against the delays of a test case (one abstract unit = %d ms; delays are even, client timers odd multiples, so two long durations differ by at least one unit); an after-close-send delay of 0..5 ms is 'eps' and races with the steps of its instant" % summ["unit_ms"],
        "g2: a timeout is never combined with a cancel instruction; unary/client-stream definitions carry no error; full duplex has at least as many responses as requests; no custom headers or trailers (the Echo family covers those)",
        "g2: a mismatch is reported only when the same permutation shows it in 3 of 3 executions"]
