"""C18 - error, metadata and message conversions are lossless.
spec: ConvertDecl.tla (declarative meaning of every conversion), ConvertHdr / ConvertErr / ConvertPct /
ConvertCodec (the conversions as loops + the round-trip laws, checked by TLC), Gen_Convert* (behaviours with
the value the specification requires), Trace_Convert (acceptor of recorded executions of the real code)."""
import json
import os
import re
import vf

PKG = "internal/grpcutil"


def _dedupe(items):
    seen, res = set(), []
    for s in items:
        k = json.dumps(s, sort_keys=True)
        if k not in seen:
            seen.add(k)
            res.append(s)
    return res


def _what(r):
    scn = r.get("scn")
    return "%s %s: %s [%s]: observed %s, specification requires %s%s; scenario=%s" % (
        r.get("area"), r.get("op"), r.get("fn"), r.get("class"), json.dumps(r.get("obs"), ensure_ascii=False)[:260],
        json.dumps(r.get("exp"), ensure_ascii=False)[:260], (" (" + r["note"] + ")") if r.get("note") else "",
        json.dumps(scn, ensure_ascii=False)[:500])


def _design(ctx):
    q = ctx.quick
    runs = [("ConvertHdr", "MC_ConvertHdr.cfg"), ("ConvertHdr", "MC_ConvertHdr_live.cfg"),
            ("ConvertErr", "MC_ConvertErr.cfg"), ("ConvertPct", "MC_ConvertPct.cfg"),
            ("ConvertCodec", "MC_ConvertCodec_small.cfg" if q else "MC_ConvertCodec.cfg")]
    notes = {}
    for mod, cfg in runs:
        r = ctx.tlc(mod, cfg, timeout=900)
        notes[cfg] = dict(distinct=r.distinct, generated=r.generated, wall_s=round(r.wall, 1))
    ctx.notes["mc_design"] = notes


def _generate(ctx):
    q = ctx.quick
    gens = [("Gen_ConvertHdr", "Gen_ConvertHdr_small.cfg", None),
            ("Gen_ConvertHdr", "Gen_ConvertHdr_sim.cfg", 1500 if q else 30000),
            ("Gen_ConvertErr", "Gen_ConvertErr_small.cfg" if q else "Gen_ConvertErr_full.cfg", None),
            ("Gen_ConvertPct", "Gen_ConvertPct_small.cfg" if q else "Gen_ConvertPct_full.cfg", None),
            ("Gen_ConvertCodec", "Gen_ConvertCodec_small.cfg" if q else "Gen_ConvertCodec_full.cfg", None)]
    if not q:
        gens += [("Gen_ConvertHdr", "Gen_ConvertHdr_full.cfg", None), ("Gen_ConvertErr", "Gen_ConvertErr_deep.cfg", None),
                 ("Gen_ConvertCodec", "Gen_ConvertCodec_rep2.cfg", None)]
    allscn, counts = [], {}
    for mod, cfg, sim in gens:
        if sim:
            r = ctx.tlc(mod, cfg, workers=1, simulate="num=%d" % sim, depth=80, timeout=1800)
        else:
            r = ctx.tlc(mod, cfg, timeout=1800)
        if sim:
            m = re.search(r"number of states generated: (\d+)", r.out)
            ctx.notes["simulated_states"] = ctx.notes.get("simulated_states", 0) + (int(m.group(1)) if m else 0)
        s = r.json_lines("SCN ")
        if not s:
            raise vf.Machinery("generator %s/%s printed no scenario" % (mod, cfg))
        counts[cfg] = len(s)
        allscn += s
    n_raw = len(allscn)
    allscn = _dedupe(allscn)
    ctx.notes["generated"] = dict(per_cfg=counts, raw=n_raw, distinct=len(allscn))
    ctx.log("scenarios: %d printed, %d distinct" % (n_raw, len(allscn)))
    return allscn


def _replay(ctx, binp, scns):
    scnp = os.path.join(ctx.build, "c18.scn.ndjson")
    outp = os.path.join(ctx.build, "c18.out.ndjson")
    vf.write_ndjson(scnp, scns)
    ctx.run_harness(binp, "TestVerifC18Replay", env=dict(VERIF_SCN=scnp, VERIF_OUT=outp), timeout=3000)
    res = vf.read_ndjson(outp)
    summ = [r for r in res if r.get("summary")]
    if not summ:
        raise vf.Machinery("replay harness wrote no summary")
    summ = summ[0]
    if summ["scenarios"] != len(scns):
        raise vf.Machinery("replay harness saw %d of %d scenarios" % (summ["scenarios"], len(scns)))
    for r in res:
        if r.get("summary"):
            continue
        if r.get("repro", 0) < 3:
            ctx.notes["unreproduced"] = ctx.notes.get("unreproduced", 0) + 1
            ctx.log("unreproduced mismatch ignored: %s" % json.dumps(r)[:300])
            continue
        key = dict(area=r.get("area"), op=r.get("op"), fn=r.get("fn"), **{"class": r.get("class")})
        ctx.candidate(key, _what(r), dict(source="replay", scn=r.get("scn")))
    ctx.cov["evaluations"] += summ["evaluations"]
    ctx.cov["traces_validated_against_impl"] += summ["scenarios"]
    ctx.cov["distinct_nontrivial"] += summ["nontrivial"]
    ctx.notes["replay"] = summ
    return summ


def _wire(ctx, binp, scns, limit):
    """end-to-end leg: header list -> AppendToOutgoingContext -> real grpc-go connection -> FromIncomingContext ->
    ConvertMetadataToProtoHeader; a seeded sample of the generated 'out' scenarios"""
    import random
    rnd = random.Random(ctx.seed)
    if len(scns) > limit:
        scns = rnd.sample(scns, limit)
    if not scns:
        return
    scnp = os.path.join(ctx.build, "c18.wire.scn.ndjson")
    outp = os.path.join(ctx.build, "c18.wire.out.ndjson")
    vf.write_ndjson(scnp, scns)
    ctx.run_harness(binp, "TestVerifC18Wire", env=dict(VERIF_SCN=scnp, VERIF_OUT=outp), timeout=1800)
    res = vf.read_ndjson(outp)
    summ = [r for r in res if r.get("summary")]
    if not summ or summ[0]["scenarios"] != len(scns):
        raise vf.Machinery("wire harness did not run all %d scenarios: %s" % (len(scns), summ))
    for r in res:
        if r.get("summary"):
            continue
        if r.get("repro", 0) < 3:
            ctx.notes["unreproduced"] = ctx.notes.get("unreproduced", 0) + 1
            continue
        key = dict(area=r.get("area"), op=r.get("op"), fn=r.get("fn"), **{"class": r.get("class")})
        ctx.candidate(key, _what(r), dict(source="wire", scn=r.get("scn")))
    ctx.cov["evaluations"] += summ[0]["evaluations"]
    ctx.cov["traces_validated_against_impl"] += summ[0]["scenarios"]
    ctx.notes["wire"] = summ[0]


# clause of Trace_Convert -> (function, class) of the candidate key
def _trace_key(rec, clause):
    t = rec.get("t")
    if t == "hdr":
        fn = {"h2md": "ConvertProtoHeaderToMetadata", "out": "AppendToOutgoingContext", "md2h": "ConvertMetadataToProtoHeader",
              "addh": "AddHeaders", "addt": "AddTrailers", "map2h": "ConvertToProtoHeader",
              "rt": "ConvertProtoHeaderToMetadata+inverse"}.get(rec.get("op"), "?")
        return dict(area="hdr", op=rec.get("op"), fn=fn, **{"class": "recorded-" + clause})
    if t == "err":
        fn = {"c": "ConvertProtoToConnectError", "p_c": "ConvertConnectToProtoError", "p_w": "ConvertErrorToProtoError(wrapped)",
              "s": "ConvertProtoToGrpcError", "p_s": "ConvertGrpcToProtoError"}.get(clause, clause)
        return dict(area="err", op="err", fn=fn, **{"class": "recorded-" + clause})
    if t == "pct":
        return dict(area="pct", op="pct", fn="PercentEncodeMessage", **{"class": "recorded-" + clause})
    if t == "codec":
        cn = "Strict%sCodec." % {"proto": "Proto", "json": "JSON"}.get(rec.get("codec"), "?")
        if clause == "wrote":
            return dict(area="codec", op=rec.get("codec"), fn=cn + "Marshal", **{"class": "marshal-wrong-format:" + str(rec.get("wrote"))})
        if clause == "stable":
            return dict(area="codec", op=rec.get("codec"), fn=cn + "MarshalStable", **{"class": "marshal-wrong-format:" + str(rec.get("stable"))})
        if clause == "verdict":
            if rec.get("verdict") == "ok":
                cls = "nested-unknown-field-accepted" if rec.get("where") == "nested" else "unknown-field-accepted"
            else:
                cls = "valid-input-rejected"
            return dict(area="codec", op=rec.get("codec"), fn=cn + "Unmarshal", **{"class": cls})
        return dict(area="codec", op=rec.get("codec"), fn=cn + "Unmarshal", **{"class": "decoded-message-differs"})
    return dict(area=str(t), op="?", fn="?", **{"class": clause})


def _record(ctx, binp, n, only=None):
    trp = os.path.join(ctx.build, "c18.trace.ndjson")
    ctx.run_harness(binp, "TestVerifC18Record", env=dict(VERIF_OUT=trp, VERIF_N=n), timeout=3000)
    recs = vf.read_ndjson(trp)
    if len(recs) < n * 0.9:
        raise vf.Machinery("record harness wrote %d of %d lines" % (len(recs), n))
    if only is not None:
        recs = [recs[only]]
        vf.write_ndjson(trp, recs)
    tr = ctx.tlc("Trace_Convert", "Trace_Convert.cfg", workers=1, env=dict(VERIF_TRACE=trp), timeout=1800)
    if not tr.lines("CONSUMED "):
        raise vf.Machinery("trace spec did not consume the whole trace")
    nrej = 0
    for ln in tr.lines("REJECT "):
        m = re.match(r"(\d+) \{(.*)\}$", ln.strip())
        if not m:
            raise vf.Machinery("cannot parse REJECT line %r" % ln)
        idx = int(m.group(1)) - 1
        rec = recs[idx]
        clauses = [c for c in (re.sub(r'[\\" ]', "", c) for c in m.group(2).split(",")) if c]
        nrej += 1
        for cl in clauses:
            ctx.candidate(_trace_key(rec, cl), "recorded execution rejected by Trace_Convert (clause %s): %s" % (
                cl, json.dumps(rec, ensure_ascii=False)[:700]),
                dict(source="trace", index=(idx if only is None else only), n=n, rec=rec))
    ctx.cov["traces_validated_against_impl"] += len(recs)
    ctx.cov["evaluations"] += len(recs)
    nontriv = set()
    for r in recs:
        t = r.get("t")
        if (t == "hdr" and len(r.get("h", [])) >= 2) or (t == "err" and r["e"]["details"]) or \
           (t == "pct" and len(r["enc"]) != len(r["b"])) or (t == "codec" and r.get("where") != "none"):
            nontriv.add(json.dumps(r, sort_keys=True))
    ctx.cov["distinct_nontrivial"] += len(nontriv)
    ctx.notes["trace"] = dict(lines=len(recs), rejected=nrej, by_type={t: sum(1 for r in recs if r.get("t") == t) for t in ("hdr", "err", "pct", "codec")})
    return recs


def run(ctx):
    q = ctx.quick
    if ctx.replay:
        obj = json.load(open(ctx.replay))["scenario"]
        binp = ctx.go_test_bin(PKG, ["c18"])
        if obj.get("source") == "trace":
            _record(ctx, binp, obj["n"], only=obj["index"])
        elif obj.get("source") == "wire":
            _wire(ctx, binp, [obj["scn"]], 1)
        else:
            _replay(ctx, binp, [obj["scn"]])
        ctx.cov["states"] = max(ctx.cov["states"], 1)
        ctx.cov["transitions"] = max(ctx.cov["transitions"], 1)
        return
    # 1. design theorems: loops == declarative functions, round-trip laws, termination
    _design(ctx)
    # 2. spec -> code: TLC-generated behaviours replayed on the real functions
    scns = _generate(ctx)
    binp = ctx.go_test_bin(PKG, ["c18"])
    _replay(ctx, binp, scns)
    _wire(ctx, binp, [s for s in scns if s.get("area") == "hdr" and s.get("op") == "out"], 400 if q else 6000)
    by_area = {}
    for s in scns:
        by_area.setdefault(s.get("area"), []).append(s)
    for a in ("hdr", "err", "pct", "codec"):
        if by_area.get(a):
            ctx.sample(by_area[a][len(by_area[a]) // 2])
    # 2b. the reference server's own rendering of an error as gRPC / gRPC-Web status (a second implementation of
    # the Connect -> status conversion, used for unary errors with custom response headers): same errors
    errs = [s for s in scns if s.get("area") == "err"]
    if errs and not ctx.replay:
        sbin = ctx.go_test_bin("internal/app/referenceserver", ["c18srv"])
        scnp, outp = os.path.join(ctx.build, "c18srv.scn"), os.path.join(ctx.build, "c18srv.out")
        vf.write_ndjson(scnp, errs)
        ctx.run_harness(sbin, "TestVerifC18SrvStatus", env=dict(VERIF_SCN=scnp, VERIF_OUT=outp), timeout=1800)
        srecs = vf.read_ndjson(outp)
        summ = [r for r in srecs if r.get("summary")]
        if not summ or summ[0]["errors"] == 0:
            raise vf.Machinery("reference-server status harness evaluated nothing")
        for r in srecs:
            if r.get("kind") == "srvraw":
                ctx.candidate(dict(kind="srvraw", form=r["form"], first=r["problems"][0].split(" ")[0]),
                              "reference server's own %s status for error %s: %s" % (r["form"], json.dumps(r["e"]), "; ".join(r["problems"])[:600]), r)
        ctx.cov["evaluations"] += 2 * summ[0]["errors"]
        ctx.cov["traces_validated_against_impl"] += summ[0]["errors"]
    # 3. code -> spec: recorded executions beyond the TLC domain accepted by Trace_Convert
    recs = _record(ctx, binp, 4000 if q else 60000)
    ctx.sample(recs[0])
    ctx.cov["exhaustive"] = False
    ctx.cov["rule"] = (
        "TLC enumerates, per conversion, every input of the bounded abstract domain (header lists up to 2 entries x 2 values over "
        "names {2 stems x letter-case styles x -bin or not} and value terms Txt/Bytes/B64(.,pad) incl. padded, undecodable and "
        "doubly-encoded -bin values, with/without pre-existing destination; errors: 16 codes x 5 message classes x detail lists "
        "(<=2, deep cfg <=4) over URL prefix x type x payload; byte strings up to 3 (thorough 4) bytes over a class-representative "
        "alphabet; message trees over UnaryRequest/UnaryResponseDefinition/Error/RawHTTPResponse/Header with one unknown field "
        "injected first/last in any node, every wire kind, both codecs) and random walks (-simulate) for lists up to 5x3; each "
        "behaviour carries the value the declarative operators require and is replayed on the real functions (scenarios are "
        "de-duplicated: distinct). Non-trivial = header scenario with a key repeated up to case, a -bin key with a value or a "
        "pre-existing destination; error with at least one detail; byte string that needs escaping; non-empty message tree. "
        "Recorded executions (seeded, beyond the TLC domain: lists up to 8x4, terms to depth 3, up to 6 details, strings to 40 "
        "bytes, randomly populated messages of 10 conformance types) are accepted line by line by Trace_Convert; non-trivial = "
        ">=2 entries / >=1 detail / escaping needed / unknown field injected.")
    ctx.assumptions += [
        "metadata.FromOutgoingContext shows what grpc-go will send; that grpc-go base64-encodes '-bin' values on the wire and decodes "
        "them on receipt is observed (not assumed) on a sample of scenarios sent over a real in-memory grpc-go connection",
        "header names are rendered from <stem, style, bin>; the harness checks on every name that Lower/Canon of the "
        "specification are strings.ToLower / http.CanonicalHeaderKey",
        "base64 is an uninterpreted injective constructor in the specification; connect.EncodeBinaryHeader/DecodeBinaryHeader "
        "and encoding/base64 supply the bytes",
        "protobuf/JSON byte-level fidelity is decided by the stock decoders (proto.Unmarshal, protojson.Unmarshal) + proto.Equal; "
        "the harness's own tree encoder is validated against the stock lenient decoder on every scenario",
        "a header key without values is not observable (neither HTTP nor gRPC transmits it): results are compared modulo such keys",
        "AsImplemented_UndecodableBinKeptRaw: a '-bin' value that is not base64 is passed through unchanged",
    ]
