package tracer

// C15 harness (part 2): robustness.  "Wrapping an HTTP/2 connection never changes what is read
// from or written to it and never crashes, for any byte stream, well-formed or not."  Seeded
// arbitrary byte strings and mutations of well-formed exchanges (bit flips, truncation, bogus
// lengths, bad preface, frames dropped / duplicated / swapped / moved to the other stream) are
// pushed through the real wrapper in randomly sized Read/Write calls on both sides; required:
// every call returns, with exactly the scripted bytes / count / error.

import (
	"bytes"
	"encoding/json"
	"errors"
	"fmt"
	"math/rand/v2"
	"runtime/debug"
	"sync"
	"testing"

	"connectrpc.com/conformance/internal/verifutil"
)

type c15FuzzIn struct {
	Server bool   `json:"server"`
	Req    []byte `json:"req"`
	Resp   []byte `json:"resp"`
	End    string `json:"end"`
	Seed   uint64 `json:"seed"`
}

type c15FuzzRes struct {
	Kind    string `json:"kind"` // fuzz-panic | fuzz-transparency
	Fn      string `json:"fn,omitempty"`
	Msg     string `json:"msg"`
	Mut     string `json:"mut"`
	Src     int    `json:"src"` // scenario index the bytes were derived from, -1 = arbitrary bytes
	Repro   int    `json:"repro"`
	In      c15FuzzIn `json:"in"`
	Summary bool   `json:"summary,omitempty"`
}

// run one input; returns "" or a description of what went wrong
func c15FuzzRun(in *c15FuzzIn) (kind, fn, msg string) {
	rnd := rand.New(rand.NewPCG(in.Seed, 1515))
	inner := &c15Conn{}
	coll := &c15Coll{}
	conn := TracingHTTP2Conn(inner, in.Server, coll)
	rd, wr := in.Resp, in.Req
	if in.Server {
		rd, wr = in.Req, in.Resp
	}
	defer func() {
		if r := recover(); r != nil {
			kind, fn, msg = "fuzz-panic", c15PanicFn(string(debug.Stack())), fmt.Sprint(r)
		}
	}()
	for len(rd) > 0 || len(wr) > 0 {
		doRead := len(wr) == 0 || (len(rd) > 0 && rnd.IntN(2) == 0)
		src := &wr
		if doRead {
			src = &rd
		}
		n := 1 + rnd.IntN(40)
		if rnd.IntN(4) == 0 {
			n = 1 + rnd.IntN(400)
		}
		if n > len(*src) {
			n = len(*src)
		}
		chunk := (*src)[:n]
		*src = (*src)[n:]
		if doRead {
			inner.rd, inner.rdErr = append([]byte(nil), chunk...), nil
			buf := make([]byte, n+rnd.IntN(5))
			got, err := conn.Read(buf)
			if got != n || err != nil || !bytes.Equal(buf[:got], chunk) {
				return "fuzz-transparency", "", fmt.Sprintf("Read returned n=%d err=%v, script had %d bytes", got, err, n)
			}
		} else {
			arg := append([]byte(nil), chunk...)
			got, err := conn.Write(arg)
			if got != n || err != nil || !bytes.Equal(inner.wr, chunk) || !bytes.Equal(arg, chunk) {
				return "fuzz-transparency", "", fmt.Sprintf("Write returned n=%d err=%v, script had %d bytes, inner got %d", got, err, n, len(inner.wr))
			}
		}
		if rnd.IntN(50) == 0 {
			inner.rd, inner.rdErr = nil, c15Timeout{}
			if got, err := conn.Read(make([]byte, 8)); got != 0 || err != (c15Timeout{}) {
				return "fuzz-transparency", "", fmt.Sprintf("Read timeout returned n=%d err=%v", got, err)
			}
			inner.rdErr = nil
		}
	}
	switch in.End {
	case "close":
		if err := conn.Close(); err != nil {
			return "fuzz-transparency", "", "Close returned " + err.Error()
		}
	case "readerr":
		e := errors.New("verif: read failed")
		inner.rd, inner.rdErr = nil, e
		if got, err := conn.Read(make([]byte, 8)); got != 0 || err != e {
			return "fuzz-transparency", "", fmt.Sprintf("Read error returned n=%d err=%v", got, err)
		}
	case "writeerr":
		e := errors.New("verif: write failed")
		inner.wrN, inner.wrErr = 1, e
		if got, err := conn.Write([]byte{0, 0}); got != 1 || err != e {
			return "fuzz-transparency", "", fmt.Sprintf("Write error returned n=%d err=%v", got, err)
		}
	}
	return "", "", ""
}

// frame boundaries of a serialised direction (after the preface, if any)
func c15FrameSpans(b []byte, preface bool) [][2]int {
	var res [][2]int
	off := 0
	if preface {
		off = len(clientPreface)
		if off > len(b) {
			return nil
		}
	}
	for off+9 <= len(b) {
		l := int(b[off])<<16 | int(b[off+1])<<8 | int(b[off+2])
		if off+9+l > len(b) {
			break
		}
		res = append(res, [2]int{off, off + 9 + l})
		off += 9 + l
	}
	return res
}

func c15Mutate(rnd *rand.Rand, b []byte, preface bool) ([]byte, string) {
	b = append([]byte(nil), b...)
	spans := c15FrameSpans(b, preface)
	pick := func() [2]int { return spans[rnd.IntN(len(spans))] }
	switch k := rnd.IntN(10); {
	case k == 0 && len(b) > 0:
		for i := 0; i <= rnd.IntN(4); i++ {
			b[rnd.IntN(len(b))] ^= 1 << rnd.IntN(8)
		}
		return b, "bitflip"
	case k == 1 && len(b) > 0:
		return b[:rnd.IntN(len(b))], "truncate"
	case k == 2 && len(spans) > 0:
		s := pick()
		return append(b[:s[0]:s[0]], b[s[1]:]...), "drop-frame"
	case k == 3 && len(spans) > 0:
		s := pick()
		out := append([]byte(nil), b[:s[1]]...)
		out = append(out, b[s[0]:s[1]]...)
		return append(out, b[s[1]:]...), "dup-frame"
	case k == 4 && len(spans) > 1:
		i := rnd.IntN(len(spans) - 1)
		a, c := spans[i], spans[i+1]
		out := append([]byte(nil), b[:a[0]]...)
		out = append(out, b[c[0]:c[1]]...)
		out = append(out, b[a[0]:a[1]]...)
		return append(out, b[c[1]:]...), "swap-frames"
	case k == 5 && len(spans) > 0:
		s := pick()
		b[s[0]+rnd.IntN(3)] = byte(rnd.IntN(256))
		return b, "bogus-length"
	case k == 6 && len(spans) > 0:
		s := pick()
		b[s[0]+3] = byte(rnd.IntN(12)) // frame type
		return b, "retype-frame"
	case k == 7 && len(spans) > 0:
		s := pick()
		b[s[0]+8] = byte(1 + 2*rnd.IntN(4)) // stream id
		return b, "restream-frame"
	case k == 8 && len(spans) > 0:
		s := pick()
		b[s[0]+4] = byte(rnd.IntN(256)) // flags
		return b, "reflag-frame"
	case k == 9 && preface && len(b) > 0:
		b[rnd.IntN(min(len(b), len(clientPreface)))] ^= 0x20
		return b, "bad-preface"
	}
	return b, "none"
}

func TestVerifC15Fuzz(t *testing.T) {
	lines, err := verifutil.ReadLines(verifutil.Env("VERIF_SCN", ""))
	if err != nil {
		t.Fatal(err)
	}
	out, err := verifutil.NewOut(verifutil.Env("VERIF_OUT", ""))
	if err != nil {
		t.Fatal(err)
	}
	defer out.Close()
	n := verifutil.EnvInt("VERIF_N", 20000)
	var scns []c15Scn
	for _, l := range lines {
		var s c15Scn
		if json.Unmarshal(l, &s) == nil && len(s.Req)+len(s.Resp) >= 4 {
			scns = append(scns, s)
		}
	}
	var mu sync.Mutex
	total, arbitrary, mutated, clean, bad := 0, 0, 0, 0, 0
	byKey := map[string]int{}
	muts := map[string]int{}
	verifutil.ParallelFor(n, verifutil.EnvInt("VERIF_WORKERS", 8), func(i int) {
		rnd := rand.New(rand.NewPCG(verifutil.Seed(), uint64(i)+77))
		in := c15FuzzIn{Server: rnd.IntN(2) == 0, End: []string{"close", "readerr", "writeerr", "none"}[rnd.IntN(4)], Seed: rnd.Uint64()}
		mut, src := "arbitrary", -1
		if i%4 == 0 || len(scns) == 0 {
			// arbitrary bytes, sometimes behind a valid preface / shaped like frame headers
			mk := func(pref bool) []byte {
				b := make([]byte, rnd.IntN(300))
				for j := range b {
					b[j] = byte(rnd.IntN(256))
				}
				if rnd.IntN(2) == 0 { // small lengths so that many "frames" complete
					for off := 0; off+9 <= len(b); off += 9 + int(b[off+2]) {
						b[off], b[off+1], b[off+2] = 0, 0, byte(rnd.IntN(24))
						b[off+3] = byte(rnd.IntN(11))
						b[off+5], b[off+6], b[off+7], b[off+8] = 0, 0, 0, byte(rnd.IntN(6))
					}
				}
				if pref && rnd.IntN(3) > 0 {
					b = append([]byte(clientPreface), b...)
				}
				return b
			}
			in.Req, in.Resp = mk(true), mk(false)
		} else {
			src = rnd.IntN(len(scns))
			scn := &scns[src]
			in.Server = scn.Side == "server"
			o := c15Opts{rnd: rnd, pad: rnd.IntN(2) == 0}
			wq, e1 := c15Encode("req", scn.Req, o)
			wp, e2 := c15Encode("resp", scn.Resp, o)
			if e1 != nil || e2 != nil {
				return
			}
			in.Req, in.Resp = wq.data, wp.data
			var m1, m2 string
			in.Req, m1 = c15Mutate(rnd, in.Req, true)
			if rnd.IntN(2) == 0 {
				in.Resp, m2 = c15Mutate(rnd, in.Resp, false)
			} else {
				m2 = "none"
			}
			mut = m1 + "+" + m2
		}
		kind, fn, msg := c15FuzzRun(&in)
		mu.Lock()
		total++
		muts[mut]++
		if src < 0 {
			arbitrary++
		} else {
			mutated++
		}
		if kind == "" {
			clean++
			mu.Unlock()
			return
		}
		bad++
		key := kind + "/" + fn
		byKey[key]++
		cnt := byKey[key]
		mu.Unlock()
		if cnt > 10 {
			return
		}
		r := c15FuzzRes{Kind: kind, Fn: fn, Msg: msg, Mut: mut, Src: src, Repro: 1, In: in}
		for k := 0; k < 2; k++ {
			if k2, f2, _ := c15FuzzRun(&in); k2 == kind && f2 == fn {
				r.Repro++
			}
		}
		out.Put(r)
	})
	out.Put(map[string]any{"summary": true, "inputs": total, "arbitrary": arbitrary, "mutated": mutated, "clean": clean, "bad": bad,
		"by_key": byKey, "mutations": len(muts)})
}
