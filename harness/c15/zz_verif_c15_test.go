package tracer

// C15 harness (part 1): replays TLC-generated HTTP/2 exchanges (Gen_H2Trace) through the real
// TracingHTTP2Conn.  The abstract frames are serialised with the real x/net/http2 Framer and one
// hpack.Encoder per direction, the byte streams are cut into the Read/Write calls the scenario
// prescribes (chunking units -> concrete byte offsets chosen here), and the wrapper sits around a
// scripted net.Conn.  Compared: (i) bytes / counts / errors seen by the caller of every call with
// the script (transparency, no panic), (ii) the traces handed to the Collector with the traces the
// specification requires (H2TraceDecl!Traces), including the concrete header fields.

import (
	"bytes"
	"encoding/binary"
	"encoding/json"
	"errors"
	"fmt"
	"io"
	"math/rand/v2"
	"net"
	"net/http"
	"os"
	"reflect"
	"runtime/debug"
	"sort"
	"strconv"
	"strings"
	"sync"
	"testing"
	"time"

	"connectrpc.com/conformance/internal/verifutil"
	"golang.org/x/net/http2"
	"golang.org/x/net/http2/hpack"
)

/* ------------------------------------------------------------------ scenario types */

type c15Env struct {
	Fl  int `json:"fl"`
	Len int `json:"len"`
}

type c15Frame struct {
	T    string   `json:"t"`
	D    string   `json:"d"`
	S    uint32   `json:"s"`
	Hk   string   `json:"hk"`
	Nm   string   `json:"nm"`
	Es   bool     `json:"es"`
	Eh   bool     `json:"eh"`
	N    int      `json:"n"`
	St   int      `json:"st"`
	Code string   `json:"code"`
	Last uint32   `json:"last"`
	Bp   []c15Env `json:"bp"`
	Hs   int      `json:"hs"`
	Pu   int      `json:"pu"`
	K    string   `json:"k"`
}

type c15Call struct {
	D string `json:"d"`
	U int    `json:"u"`
	E string `json:"e"`
}

type c15Ev struct {
	K   string `json:"k"`
	I   int    `json:"i"`
	Env int    `json:"env"`
	Fl  int    `json:"fl"`
	Dl  int    `json:"dl"`
	Len int    `json:"len"`
	St  int    `json:"st"`
	E   string `json:"e"`
}

type c15Trace struct {
	S   int     `json:"s"`
	Nm  string  `json:"nm"`
	Ev  []c15Ev `json:"ev"`
	St  int     `json:"st"`
	Tr  bool    `json:"tr"`
	Rtr bool    `json:"rtr"`
	Err string  `json:"err"`
}

type c15Scn struct {
	Side  string     `json:"side"`
	Req   []c15Frame `json:"req"`
	Resp  []c15Frame `json:"resp"`
	Calls []c15Call  `json:"calls"`
	Nh    int        `json:"nh"`
	Exp   []c15Trace `json:"exp"`
}

func (s *c15Scn) frames(d string) []c15Frame {
	if d == "req" {
		return s.Req
	}
	return s.Resp
}

/* ------------------------------------------------------------------ concrete header fields */

type c15KV struct{ N, V string }

// the header fields of a block are a function of (direction, stream, kind, name, status): a
// block decoded with the wrong HPACK state or attributed to the wrong stream shows at once
func c15Fields(d string, s uint32, hk, nm string, st int, fill string) []c15KV {
	sid := strconv.Itoa(int(s))
	switch {
	case hk == "request":
		kv := []c15KV{{":method", "POST"}, {":scheme", "http"}, {":path", "/verif.Svc" + sid + "/Method" + sid + "?q=" + sid},
			{":authority", "host" + sid + ".test"}, {"content-type", "application/grpc"}, {"te", "trailers"},
			{"x-sid", sid}, {"x-shared", "the-same-long-value-on-every-request-so-that-it-is-indexed"},
			{"x-uniq-" + sid, "u" + sid}, {"x-multi", "m1-" + sid}, {"x-multi", "m2-" + sid}}
		if nm != "" {
			kv = append(kv, c15KV{"x-test-case-name", nm})
		}
		return append(kv, c15KV{"x-fill", fill})
	case hk == "response":
		return []c15KV{{":status", strconv.Itoa(st)}, {"content-type", "application/grpc"}, {"x-sid", sid},
			{"x-shared", "the-same-long-value-on-every-response-so-that-it-is-indexed"}, {"x-resp-" + sid, "r" + sid}, {"x-fill", fill}}
	case d == "req":
		return []c15KV{{"x-req-trailer", "qt" + sid}, {"x-sid", sid}, {"x-fill", fill}}
	default:
		return []c15KV{{"grpc-status", strconv.Itoa(int(s) % 17)}, {"grpc-message", "msg" + sid}, {"x-sid", sid}, {"x-fill", fill}}
	}
}

func c15Header(kv []c15KV) http.Header {
	h := http.Header{}
	for _, f := range kv {
		if strings.HasPrefix(f.N, ":") {
			continue
		}
		h.Add(f.N, f.V)
	}
	return h
}

// payload bytes of envelope j of stream s in direction d (a function of all three)
func c15Payload(d string, s uint32, j, n int) []byte {
	b := make([]byte, n)
	for i := range b {
		b[i] = byte('a' + (int(s)*7+j*3+i+len(d))%26)
	}
	return b
}

func c15Body(d string, s uint32, bp []c15Env) []byte {
	var b []byte
	for j, e := range bp {
		b = append(b, byte(e.Fl))
		b = binary.BigEndian.AppendUint32(b, uint32(e.Len))
		b = append(b, c15Payload(d, s, j, e.Len)...)
	}
	return b
}

/* ------------------------------------------------------------------ serialisation */

type c15Wire struct {
	data   []byte
	ends   []int // ends[k] = byte offset at which chunking unit k+1 ends
	fend   []int // fend[i] = index into ends (unit count) at which frame i is complete
	hdrs   map[string][]c15KV
	fills  map[string]string
	bodies map[uint32][]byte
	emptyEnd []int           // unit counts at which a frame with an EMPTY header-block fragment is complete
	free   bool              // recorded real traffic: header fields are whatever the peers sent
	sidOf  map[string]uint32 // free: value of the x-call header -> stream id
}

type c15Opts struct {
	rnd       *rand.Rand
	tableSize int  // dynamic table size of the HPACK encoders (0 = default)
	pad       bool // use padding / priority where allowed
	empty     bool // now and then render one fragment of a split header block with no bytes
}

func c15RstCode(c string) http2.ErrCode {
	switch c {
	case "cancel":
		return http2.ErrCodeCancel
	case "refused":
		return http2.ErrCodeRefusedStream
	case "internal":
		return http2.ErrCodeInternal
	case "no":
		return http2.ErrCodeNo
	case "proto":
		return http2.ErrCodeProtocol
	}
	panic("verif: unknown code " + c)
}

func c15Encode(d string, frames []c15Frame, o c15Opts) (*c15Wire, error) {
	w := &c15Wire{hdrs: map[string][]c15KV{}, fills: map[string]string{}, bodies: map[uint32][]byte{}}
	var buf bytes.Buffer
	fr := http2.NewFramer(&buf, nil)
	fr.AllowIllegalWrites = true
	var hb bytes.Buffer
	enc := hpack.NewEncoder(&hb)
	if o.tableSize > 0 {
		enc.SetMaxDynamicTableSizeLimit(uint32(o.tableSize))
		enc.SetMaxDynamicTableSize(uint32(o.tableSize))
	}
	sent := map[uint32]int{}
	var parts [][]byte
	units := 0
	addUnits := func(start int, pu int) error {
		end := buf.Len()
		l := end - start - 9
		w.ends = append(w.ends, start+1+o.rnd.IntN(8), start+9)
		units += 2
		switch pu {
		case 0:
			if l != 0 {
				return fmt.Errorf("frame with pu=0 has %d payload bytes", l)
			}
		case 2:
			if l < 2 {
				// (a header-block fragment may be empty: its two payload units are then empty as well; the caller
				// keeps such a rendering only if no call ends between the frame's header and its end)
				if l != 0 {
					return fmt.Errorf("frame with pu=2 has %d payload bytes", l)
				}
				w.ends = append(w.ends, end, end)
				w.emptyEnd = append(w.emptyEnd, units+2)
			} else {
				w.ends = append(w.ends, start+9+1+o.rnd.IntN(l-1), end)
			}
			units += 2
		default:
			return fmt.Errorf("unsupported pu=%d", pu)
		}
		w.fend = append(w.fend, units)
		return nil
	}
	for i, f := range frames {
		start := buf.Len()
		var err error
		switch f.T {
		case "PREFACE":
			buf.WriteString(clientPreface)
			w.ends = append(w.ends, start+1+o.rnd.IntN(len(clientPreface)-1), buf.Len())
			units += 2
			w.fend = append(w.fend, units)
			continue
		case "HEADERS":
			c := 0
			for j := i + 1; !frames[j-1].Eh; j++ {
				if j >= len(frames) || frames[j].T != "CONT" {
					return nil, fmt.Errorf("header block of frame %d not closed", i)
				}
				c++
			}
			fill := c15RandStr(o.rnd, 8+o.rnd.IntN(60)+2*c)
			kv := c15Fields(d, f.S, f.Hk, f.Nm, f.St, fill)
			key := fmt.Sprintf("%s/%d/%s", d, f.S, f.Hk)
			w.hdrs[key] = kv
			if f.Hk == "request" {
				w.bodies[f.S] = c15Body(d, f.S, f.Bp)
			} else if f.Hk == "response" {
				w.bodies[f.S] = c15Body(d, f.S, f.Bp)
			}
			hb.Reset()
			for _, x := range kv {
				if err := enc.WriteField(hpack.HeaderField{Name: x.N, Value: x.V, Sensitive: x.N == "x-uniq-3"}); err != nil {
					return nil, err
				}
			}
			block := append([]byte(nil), hb.Bytes()...)
			if len(block) < 2*(c+1) {
				return nil, fmt.Errorf("block too short to split")
			}
			// c cut points leaving every part >= 2 bytes
			parts = parts[:0]
			cuts := c15Cuts(o.rnd, len(block), c+1, 2)
			prev := 0
			for _, x := range cuts {
				parts = append(parts, block[prev:x])
				prev = x
			}
			parts = append(parts, block[prev:])
			if o.empty && c >= 1 && o.rnd.IntN(2) == 0 {
				// RFC 9113 6.10: a header block is a HEADERS frame and any number of CONTINUATION frames; no fragment
				// has a minimum length, so one of them may carry nothing at all
				k := o.rnd.IntN(c + 1)
				if k < c {
					parts[k+1] = append(append([]byte(nil), parts[k]...), parts[k+1]...)
				} else {
					parts[k-1] = append(append([]byte(nil), parts[k-1]...), parts[k]...)
				}
				parts[k] = nil
			}
			p := http2.HeadersFrameParam{StreamID: f.S, BlockFragment: parts[0], EndStream: f.Es, EndHeaders: f.Eh}
			if o.pad && o.rnd.IntN(3) == 0 {
				p.PadLength = uint8(o.rnd.IntN(6))
			}
			if o.pad && o.rnd.IntN(4) == 0 {
				p.Priority = http2.PriorityParam{StreamDep: 0, Weight: uint8(o.rnd.IntN(200)), Exclusive: o.rnd.IntN(2) == 0}
			}
			parts = parts[1:]
			err = fr.WriteHeaders(p)
		case "CONT":
			if len(parts) == 0 {
				return nil, fmt.Errorf("CONT without block")
			}
			err = fr.WriteContinuation(f.S, f.Eh, parts[0])
			parts = parts[1:]
		case "DATA":
			body := w.bodies[f.S]
			off := sent[f.S]
			if off+f.N > len(body) {
				return nil, fmt.Errorf("DATA beyond body plan")
			}
			sent[f.S] = off + f.N
			var pad []byte
			if f.N == 1 || (f.N > 0 && o.pad && o.rnd.IntN(3) == 0) {
				pad = make([]byte, 1+o.rnd.IntN(5))
			}
			if pad != nil {
				err = fr.WriteDataPadded(f.S, f.Es, body[off:off+f.N], pad)
			} else {
				err = fr.WriteData(f.S, f.Es, body[off:off+f.N])
			}
		case "RST":
			err = fr.WriteRSTStream(f.S, c15RstCode(f.Code))
		case "GOAWAY":
			var dbg []byte
			if o.rnd.IntN(2) == 0 {
				dbg = []byte(c15RandStr(o.rnd, o.rnd.IntN(20)))
			}
			err = fr.WriteGoAway(f.Last, c15RstCode(f.Code), dbg)
		case "OTHER":
			switch f.K {
			case "settings":
				st := []http2.Setting{{ID: http2.SettingMaxFrameSize, Val: 16384 + uint32(o.rnd.IntN(1000))}}
				if o.tableSize > 4096 {
					// the peer may then use a larger HPACK table - and says so in its next header block
					st = append(st, http2.Setting{ID: http2.SettingHeaderTableSize, Val: uint32(o.tableSize)})
				}
				err = fr.WriteSettings(st...)
			case "settingsack":
				err = fr.WriteSettingsAck()
			case "ping":
				err = fr.WritePing(o.rnd.IntN(2) == 0, [8]byte{1, 2, 3, 4, 5, 6, 7, byte(o.rnd.IntN(256))})
			case "winupd":
				err = fr.WriteWindowUpdate(0, 1+uint32(o.rnd.IntN(65535)))
			default:
				err = fr.WriteRawFrame(http2.FrameType(0xbe), http2.Flags(o.rnd.IntN(256)), uint32(o.rnd.IntN(8)), []byte(c15RandStr(o.rnd, 2+o.rnd.IntN(6))))
			}
		default:
			return nil, fmt.Errorf("unknown frame type %q", f.T)
		}
		if err != nil {
			return nil, fmt.Errorf("frame %d (%s): %w", i, f.T, err)
		}
		if err := addUnits(start, f.Pu); err != nil {
			return nil, fmt.Errorf("frame %d (%s): %w", i, f.T, err)
		}
	}
	w.data = append([]byte(nil), buf.Bytes()...)
	return w, nil
}

func c15RandStr(r *rand.Rand, n int) string {
	const al = "abcdefghijklmnopqrstuvwxyzABCDEFGHIJKLMNOPQRSTUVWXYZ0123456789-_.~"
	b := make([]byte, n)
	for i := range b {
		b[i] = al[r.IntN(len(al))]
	}
	return string(b)
}

// k-1 increasing cut points in (0,total) such that every one of the k parts has >= min bytes
func c15Cuts(r *rand.Rand, total, k, min int) []int {
	slack := total - k*min
	extra := make([]int, k-1)
	for i := range extra {
		extra[i] = r.IntN(slack + 1)
	}
	sort.Ints(extra)
	cuts := make([]int, k-1)
	for i := range cuts {
		cuts[i] = extra[i] + (i+1)*min
	}
	return cuts
}

/* ------------------------------------------------------------------ scripted conn + collector */

type c15Timeout struct{}

func (c15Timeout) Error() string   { return "verif: i/o timeout" }
func (c15Timeout) Timeout() bool   { return true }
func (c15Timeout) Temporary() bool { return true }

type c15Conn struct {
	rd       []byte
	rdErr    error
	wr       []byte
	wrN      int
	wrErr    error
	closeErr error
	closed   int
}

func (c *c15Conn) Read(p []byte) (int, error) {
	n := copy(p, c.rd)
	c.rd = c.rd[n:]
	return n, c.rdErr
}
func (c *c15Conn) Write(p []byte) (int, error) {
	c.wr = append(c.wr[:0], p...)
	if c.wrErr != nil {
		return c.wrN, c.wrErr
	}
	return len(p), nil
}
func (c *c15Conn) Close() error                     { c.closed++; return c.closeErr }
func (c *c15Conn) LocalAddr() net.Addr              { return nil }
func (c *c15Conn) RemoteAddr() net.Addr             { return nil }
func (c *c15Conn) SetDeadline(time.Time) error      { return nil }
func (c *c15Conn) SetReadDeadline(time.Time) error  { return nil }
func (c *c15Conn) SetWriteDeadline(time.Time) error { return nil }

type c15Coll struct {
	mu  sync.Mutex
	got []Trace
}

func (c *c15Coll) Complete(t Trace) {
	c.mu.Lock()
	defer c.mu.Unlock()
	c.got = append(c.got, t)
}

/* ------------------------------------------------------------------ one run */

type c15Run struct {
	Traces   []c15Trace     `json:"traces"`
	Hdr      []string       `json:"hdr,omitempty"`    // concrete header / content mismatches
	Transp   []string       `json:"transp,omitempty"` // transparency mismatches
	Panic    string         `json:"panic,omitempty"`
	PanicAt  int            `json:"panic_at"`
	PanicFn  string         `json:"panic_fn,omitempty"`
	BrokenAt map[string]int `json:"broken_at,omitempty"`
	Early    []string       `json:"early,omitempty"` // retry hold-back violated
	NotHeld  []string       `json:"not_held,omitempty"` // timer events of the scenario for which nothing was held back
	ReqStart []string       `json:"reqstart,omitempty"` // headers listed by the RequestStart event differ from the wire
}

func c15CodeName(c http2.ErrCode) string {
	switch c {
	case http2.ErrCodeCancel:
		return "cancel"
	case http2.ErrCodeRefusedStream:
		return "refused"
	case http2.ErrCodeInternal:
		return "internal"
	case http2.ErrCodeNo:
		return "no"
	case http2.ErrCodeProtocol:
		return "proto"
	}
	return c.String()
}

func c15ErrClass(err error, s int, endErr error) string {
	if err == nil {
		return "nil"
	}
	var se http2.StreamError
	if errors.As(err, &se) {
		c := c15CodeName(se.Code)
		if int(se.StreamID) != s {
			c += fmt.Sprintf("@%d", se.StreamID)
		}
		return "rst:" + c
	}
	var ce http2.ConnectionError
	if errors.As(err, &ce) {
		return "goaway:" + c15CodeName(http2.ErrCode(ce))
	}
	if strings.HasPrefix(err.Error(), "socket closed") {
		return "end:close"
	}
	var ee *c15EndErr
	if errors.As(endErr, &ee) && (errors.Is(err, endErr) || (ee.cause != nil && errors.Is(err, ee.cause))) {
		return "end:" + ee.kind
	}
	return "other:" + err.Error()
}

type c15EndErr struct {
	kind  string
	cause error // recorded traffic: the error value the wrapped conn returned at the end
}

func (e *c15EndErr) Error() string { return e.kind }

// abstraction of a real trace + concrete checks against the wires
func c15Abstract(t *Trace, wires map[string]*c15Wire, endErr error, problems, reqStart *[]string) c15Trace {
	a := c15Trace{Nm: t.TestName, Ev: []c15Ev{}}
	prob := func(f string, args ...any) { *problems = append(*problems, fmt.Sprintf(f, args...)) }
	if t.Request == nil {
		prob("trace %q without request", t.TestName)
		return a
	}
	a.S, _ = strconv.Atoi(t.Request.Header.Get("X-Sid"))
	if wires["req"].free {
		a.S = int(wires["req"].sidOf[t.Request.Header.Get("X-Call")])
	}
	s := uint32(a.S)
	sid := strconv.Itoa(a.S)
	a.Err = c15ErrClass(t.Err, a.S, endErr)
	reqKV := wires["req"].hdrs["req/"+sid+"/request"]
	if reqKV == nil {
		prob("trace for unknown stream %q", sid)
		return a
	}
	wantReq := c15Header(reqKV)
	if !reflect.DeepEqual(t.Request.Header, wantReq) {
		prob("s=%s request headers: got %v want %v", sid, t.Request.Header, wantReq)
	}
	if wires["req"].free {
		if t.Request.Method != "POST" || t.Request.URL == nil || t.Request.URL.Path != "/verif/call" {
			prob("s=%s request line: got %s %v", sid, t.Request.Method, t.Request.URL)
		}
	} else if t.Request.Method != "POST" || t.Request.URL == nil || t.Request.URL.Path != "/verif.Svc"+sid+"/Method"+sid ||
		t.Request.URL.RawQuery != "q="+sid || t.Request.URL.Host != "host"+sid+".test" || t.Request.URL.Scheme != "http" {
		prob("s=%s request line: got %s %v", sid, t.Request.Method, t.Request.URL)
	}
	a.Rtr = len(t.Request.Trailer) > 0
	if a.Rtr {
		if want := c15Header(wires["req"].hdrs["req/"+sid+"/trailers"]); !reflect.DeepEqual(t.Request.Trailer, want) {
			prob("s=%s request trailers: got %v want %v", sid, t.Request.Trailer, want)
		}
	}
	if t.Response != nil {
		a.St = t.Response.StatusCode
		if want := c15Header(wires["resp"].hdrs["resp/"+sid+"/response"]); !reflect.DeepEqual(t.Response.Header, want) {
			prob("s=%s response headers: got %v want %v", sid, t.Response.Header, want)
		}
		a.Tr = len(t.Response.Trailer) > 0
		if a.Tr {
			if want := c15Header(wires["resp"].hdrs["resp/"+sid+"/trailers"]); !reflect.DeepEqual(t.Response.Trailer, want) {
				prob("s=%s response trailers: got %v want %v", sid, t.Response.Trailer, want)
			}
		}
	}
	lastResp := -1
	for i, ev := range t.Events {
		switch e := ev.(type) {
		case *RequestStart:
			if i != 0 || e.Request != t.Request {
				prob("s=%s RequestStart at %d / other request", sid, i)
			}
			if h := e.getHeaders(); !reflect.DeepEqual(h, wantReq) {
				h2 := h.Clone()
				if h2 == nil {
					h2 = http.Header{}
				}
				h2.Del("Content-Length")
				rs := func(f string, args ...any) { *reqStart = append(*reqStart, fmt.Sprintf(f, args...)) }
				if len(h) == 0 {
					rs("s=%s RequestStart lists no request headers", sid)
				} else if reflect.DeepEqual(h2, wantReq) && len(h["Content-Length"]) == 1 && h.Get("Content-Length") == "0" {
					rs("s=%s RequestStart lists a Content-Length: 0 header that was not sent", sid)
				} else {
					rs("s=%s RequestStart headers: got %v", sid, h)
				}
			}
			a.Ev = append(a.Ev, c15Ev{K: "ReqStart"})
		case *RequestBodyData:
			x := c15Ev{K: "ReqData", I: e.MessageIndex, Len: int(e.Len)}
			if e.Envelope != nil {
				x.Env, x.Fl, x.Dl = 1, int(e.Envelope.Flags), int(e.Envelope.Len)
			}
			a.Ev = append(a.Ev, x)
		case *RequestBodyEnd:
			a.Ev = append(a.Ev, c15Ev{K: "ReqEnd", E: c15ErrClass(e.Err, a.S, endErr)})
		case *ResponseStart:
			if e.Response != t.Response {
				prob("s=%s ResponseStart carries another response", sid)
			}
			a.Ev = append(a.Ev, c15Ev{K: "RespStart", St: e.Response.StatusCode})
		case *ResponseBodyData:
			x := c15Ev{K: "RespData", I: e.MessageIndex, Len: int(e.Len)}
			if e.Envelope != nil {
				x.Env, x.Fl, x.Dl = 1, int(e.Envelope.Flags), int(e.Envelope.Len)
			}
			lastResp = e.MessageIndex
			a.Ev = append(a.Ev, x)
		case *ResponseBodyEndStream:
			a.Ev = append(a.Ev, c15Ev{K: "RespEos", I: lastResp})
			// the content must be exactly the payload of that message of THIS stream
			want := ""
			body := wires["resp"].bodies[s]
			off := 0
			for j := 0; off+5 <= len(body); j++ {
				l := int(binary.BigEndian.Uint32(body[off+1:]))
				if j == lastResp && off+5+l <= len(body) {
					want = string(body[off+5 : off+5+l])
				}
				off += 5 + l
			}
			if e.Content != want {
				prob("s=%s end-stream content %q want %q", sid, e.Content, want)
			}
		case *ResponseBodyEnd:
			a.Ev = append(a.Ev, c15Ev{K: "RespEnd", E: c15ErrClass(e.Err, a.S, endErr)})
		case *RequestCanceled:
			a.Ev = append(a.Ev, c15Ev{K: "ReqCanceled"})
		case *ResponseError:
			a.Ev = append(a.Ev, c15Ev{K: "RespError", E: c15ErrClass(e.Err, a.S, endErr)})
		default:
			prob("s=%s unknown event %T", sid, ev)
		}
	}
	return a
}

func c15PanicFn(stack string) string {
	// first frame of package tracer below the panic
	lines := strings.Split(stack, "\n")
	seenPanic := false
	for _, l := range lines {
		if strings.HasPrefix(l, "panic(") {
			seenPanic = true
			continue
		}
		if seenPanic && strings.Contains(l, "internal/tracer.") && !strings.Contains(l, "internal/tracer.c15") &&
			!strings.Contains(l, "internal/tracer.(*c15") && !strings.Contains(l, "internal/tracer.TestVerif") {
			l = l[strings.Index(l, "internal/tracer.")+len("internal/tracer."):]
			if i := strings.LastIndex(l, "("); i > 0 {
				l = l[:i]
			}
			return l
		}
	}
	return "?"
}

// one Read or Write call moving exactly chunk; false if transparency was violated
func c15OneCall(conn net.Conn, inner *c15Conn, read bool, chunk []byte, rnd *rand.Rand, ci int, run *c15Run) bool {
	if read {
		inner.rd, inner.rdErr = append([]byte(nil), chunk...), nil
		buf := make([]byte, len(chunk)+rnd.IntN(9))
		for i := range buf {
			buf[i] = 0xEE
		}
		n, err := conn.Read(buf)
		if n != len(chunk) || err != nil || !bytes.Equal(buf[:n], chunk) {
			run.Transp = append(run.Transp, fmt.Sprintf("call %d (piece) Read: n=%d err=%v want n=%d", ci, n, err, len(chunk)))
			return false
		}
		return true
	}
	arg := append([]byte(nil), chunk...)
	n, err := conn.Write(arg)
	if n != len(chunk) || err != nil || !bytes.Equal(inner.wr, chunk) || !bytes.Equal(arg, chunk) {
		run.Transp = append(run.Transp, fmt.Sprintf("call %d (piece) Write: n=%d err=%v inner got %d bytes want %d", ci, n, err, len(inner.wr), len(chunk)))
		return false
	}
	return true
}

// c15Play runs one scenario once.  vseed selects the concrete bytes (cuts, padding, HPACK table size).
func c15Play(scn *c15Scn, vseed uint64) (run *c15Run, wires map[string]*c15Wire, mach error) {
	rnd := rand.New(rand.NewPCG(vseed, 15))
	opts := c15Opts{rnd: rnd, pad: vseed%2 == 1}
	refine := vseed%2 == 1
	switch vseed % 3 {
	case 1:
		opts.tableSize = 128
	case 2:
		opts.tableSize = 4096
	}
	if vseed%4 == 3 {
		// a table larger than the protocol default: the header blocks then begin with a dynamic table size
		// update above 4096, which is well-formed once the receiver announced SETTINGS_HEADER_TABLE_SIZE (the
		// SETTINGS frames of these variants do; the tracer does not follow SETTINGS, so it must accept any size)
		opts.tableSize = 65536
	}
	wires = map[string]*c15Wire{}
	opts.empty = vseed%5 >= 3
	for _, d := range []string{"req", "resp"} {
		w, err := c15Encode(d, scn.frames(d), opts)
		if err != nil {
			return nil, nil, fmt.Errorf("encode %s: %w", d, err)
		}
		if len(w.emptyEnd) > 0 {
			// The chunking units of the behaviour give a frame's payload two units.  For an empty fragment they are
			// empty: a call that ends after the frame's header units would, in bytes, already have delivered the whole
			// frame.  Such a rendering is kept only when no call of this direction ends there.
			conflict, at := false, 0
			for _, call := range scn.Calls {
				if call.E == "" && call.D == d {
					at += call.U
					for _, fe := range w.emptyEnd {
						if at == fe-2 || at == fe-1 {
							conflict = true
						}
					}
				}
			}
			if conflict {
				o2 := opts
				o2.empty = false
				if w, err = c15Encode(d, scn.frames(d), o2); err != nil {
					return nil, nil, fmt.Errorf("encode %s: %w", d, err)
				}
			}
		}
		wires[d] = w
	}
	run = &c15Run{Traces: []c15Trace{}, PanicAt: -1, BrokenAt: map[string]int{}}
	inner := &c15Conn{}
	coll := &c15Coll{}
	isServer := scn.Side == "server"
	conn := TracingHTTP2Conn(inner, isServer, coll)
	tc := conn.(*tracingHTTP2Conn)
	readDir := "resp"
	if isServer {
		readDir = "req"
	}
	unit := map[string]int{"req": 0, "resp": 0}
	var endErr error
	timerSeen := false
	start := time.Now()
	skipNext := false
	for ci, call := range scn.Calls {
		stop := false
		if skipNext {
			// this call (a timeout or a read error) was delivered together with the data of the previous Read
			skipNext = false
			continue
		}
		mergedEnd := false
		func() {
			defer func() {
				if r := recover(); r != nil {
					run.Panic = fmt.Sprint(r)
					run.PanicAt = ci
					run.PanicFn = c15PanicFn(string(debug.Stack()))
					stop = true
				}
			}()
			switch {
			case call.E == "":
				w := wires[call.D]
				from := 0
				if unit[call.D] > 0 {
					from = w.ends[unit[call.D]-1]
				}
				if unit[call.D]+call.U > len(w.ends) {
					mach = fmt.Errorf("call %d beyond the wire", ci)
					stop = true
					return
				}
				to := w.ends[unit[call.D]+call.U-1]
				unit[call.D] += call.U
				chunk := w.data[from:to]
				// The traces depend on the order in which frames are completed only (the theorem of
				// H2Trace): cutting one call into consecutive calls of the same direction is another
				// behaviour of the specification with the same handled events.  Some variants do that
				// at arbitrary byte offsets, so that headers and payloads arrive in many pieces.
				if refine && len(chunk) > 1 && rnd.IntN(3) > 0 {
					rest := chunk
					for len(rest) > 0 {
						k := 1 + rnd.IntN(len(rest))
						if rnd.IntN(2) == 0 && k > 3 {
							k = 1 + rnd.IntN(3)
						}
						if !c15OneCall(conn, inner, call.D == readDir, rest[:k], rnd, ci, run) {
							break
						}
						rest = rest[k:]
					}
					return
				}
				if call.D == readDir {
					inner.rd, inner.rdErr = append([]byte(nil), chunk...), nil
					// io.Reader: a Read may return n > 0 together with an error (crypto/tls does when the
					// close_notify alert is right behind the last record; a deadline can fire mid-copy).  The
					// n bytes were read before the error, so this is the same behaviour as the data call
					// followed by the error call.  Some variants deliver a following timeout / read error
					// that way.
					var wantErr error
					if ci+1 < len(scn.Calls) && len(chunk) > 0 && vseed%3 != 0 && rnd.IntN(2) == 0 {
						switch scn.Calls[ci+1].E {
						case "timeout":
							wantErr = c15Timeout{}
						case "readerr":
							e := &c15EndErr{kind: "readerr"}
							endErr = e
							wantErr = e
							mergedEnd = true
						}
						if wantErr != nil {
							inner.rdErr = wantErr
							skipNext = true
						}
					}
					buf := make([]byte, len(chunk)+rnd.IntN(9))
					for i := range buf {
						buf[i] = 0xEE
					}
					n, err := conn.Read(buf)
					inner.rdErr = nil
					if n != len(chunk) || err != wantErr || !bytes.Equal(buf[:n], chunk) {
						run.Transp = append(run.Transp, fmt.Sprintf("call %d Read: n=%d err=%v want n=%d", ci, n, err, len(chunk)))
					}
					for _, b := range buf[n:] {
						if b != 0xEE {
							run.Transp = append(run.Transp, fmt.Sprintf("call %d Read: buffer written beyond n", ci))
							break
						}
					}
				} else {
					arg := append([]byte(nil), chunk...)
					n, err := conn.Write(arg)
					if n != len(chunk) || err != nil || !bytes.Equal(inner.wr, chunk) || !bytes.Equal(arg, chunk) {
						run.Transp = append(run.Transp, fmt.Sprintf("call %d Write: n=%d err=%v inner got %d bytes want %d", ci, n, err, len(inner.wr), len(chunk)))
					}
				}
			case call.E == "timeout":
				inner.rd, inner.rdErr = nil, c15Timeout{}
				n, err := conn.Read(make([]byte, 16))
				if n != 0 || err != (c15Timeout{}) {
					run.Transp = append(run.Transp, fmt.Sprintf("call %d Read timeout: n=%d err=%v", ci, n, err))
				}
				inner.rdErr = nil
			case call.E == "close":
				if rnd.IntN(2) == 0 {
					inner.closeErr = errors.New("verif: close failed")
				}
				err := conn.Close()
				if err != inner.closeErr || inner.closed != 1 {
					run.Transp = append(run.Transp, fmt.Sprintf("call %d Close: err=%v want %v closed=%d", ci, err, inner.closeErr, inner.closed))
				}
			case call.E == "readerr":
				e := &c15EndErr{kind: "readerr"}
				endErr = e
				inner.rd, inner.rdErr = nil, e
				if rnd.IntN(2) == 0 {
					inner.rdErr = fmt.Errorf("wrapped: %w", e)
				}
				want := inner.rdErr
				n, err := conn.Read(make([]byte, 16))
				if n != 0 || err != want {
					run.Transp = append(run.Transp, fmt.Sprintf("call %d Read error: n=%d err=%v", ci, n, err))
				}
			case call.E == "writeerr":
				e := &c15EndErr{kind: "writeerr"}
				endErr = e
				inner.wrN, inner.wrErr = 0, e
				n, err := conn.Write([]byte{})
				if n != 0 || err != e {
					run.Transp = append(run.Transp, fmt.Sprintf("call %d Write error: n=%d err=%v", ci, n, err))
				}
			case strings.HasPrefix(call.E, "timer:"):
				// the real 3 s timer of the retry collector: wait (watchdog 60 s) until the held-back
				// trace of that name arrives at the collector
				nm := strings.TrimPrefix(call.E, "timer:")
				timerSeen = true
				tc.collector.mu.Lock()
				_, isHeld := tc.collector.waiting[nm]
				tc.collector.mu.Unlock()
				if !isHeld {
					// the specification has a trace held back under that name here; the code has
					// none, so there is nothing to wait for (the comparison of the traces will show it)
					run.NotHeld = append(run.NotHeld, nm)
					return
				}
				deadline := time.Now().Add(60 * time.Second)
				for {
					coll.mu.Lock()
					found := false
					for _, t := range coll.got {
						if t.TestName == nm && isRetryable(t.Err) {
							found = true
						}
					}
					coll.mu.Unlock()
					if found {
						break
					}
					if time.Now().After(deadline) {
						mach = fmt.Errorf("watchdog: held-back trace %q not released after 60 s", nm)
						stop = true
						return
					}
					time.Sleep(20 * time.Millisecond)
				}
			default:
				mach = fmt.Errorf("unknown call %+v", call)
				stop = true
			}
		}()
		if tc.readTracer.broken {
			if _, ok := run.BrokenAt[readDir]; !ok {
				run.BrokenAt[readDir] = ci
			}
		}
		if tc.writeTracer.broken {
			wd := "req"
			if readDir == "req" {
				wd = "resp"
			}
			if _, ok := run.BrokenAt[wd]; !ok {
				run.BrokenAt[wd] = ci
			}
		}
		// a retryable trace must be held back until the timer / the end of the connection
		if !stop && !timerSeen && call.E == "" && !mergedEnd && time.Since(start) < 2*time.Second {
			coll.mu.Lock()
			for _, t := range coll.got {
				if isRetryable(t.Err) {
					run.Early = append(run.Early, fmt.Sprintf("retryable trace %q at the collector after call %d (%.0f ms into the run)", t.TestName, ci, time.Since(start).Seconds()*1000))
				}
			}
			coll.mu.Unlock()
		}
		if stop {
			break
		}
	}
	coll.mu.Lock()
	defer coll.mu.Unlock()
	for i := range coll.got {
		run.Traces = append(run.Traces, c15Abstract(&coll.got[i], wires, endErr, &run.Hdr, &run.ReqStart))
	}
	return run, wires, mach
}

/* ------------------------------------------------------------------ comparison + attribution */

func c15SortTraces(ts []c15Trace) []c15Trace {
	r := append([]c15Trace(nil), ts...)
	sort.SliceStable(r, func(i, j int) bool { return r[i].S < r[j].S })
	for i := range r {
		if r[i].Ev == nil {
			r[i].Ev = []c15Ev{}
		}
	}
	return r
}

type c15Diff struct {
	Missing []int `json:"missing"` // streams with an expected trace and none observed
	Extra   []int `json:"extra"`   // streams with an observed trace that is not expected (or twice)
	Differ  []int `json:"differ"`  // streams whose trace differs
}

func (d c15Diff) empty() bool { return len(d.Missing)+len(d.Extra)+len(d.Differ) == 0 }

func c15Compare(exp, obs []c15Trace) c15Diff {
	var d c15Diff
	em := map[int]c15Trace{}
	for _, t := range exp {
		em[t.S] = t
	}
	seen := map[int]bool{}
	for _, t := range obs {
		e, ok := em[t.S]
		switch {
		case !ok || seen[t.S]:
			d.Extra = append(d.Extra, t.S)
		case !reflect.DeepEqual(c15SortTraces([]c15Trace{e}), c15SortTraces([]c15Trace{t})):
			d.Differ = append(d.Differ, t.S)
		}
		seen[t.S] = true
	}
	for _, t := range exp {
		if !seen[t.S] {
			d.Missing = append(d.Missing, t.S)
		}
	}
	sort.Ints(d.Missing)
	sort.Ints(d.Extra)
	sort.Ints(d.Differ)
	return d
}

// frames (direction, index) whose last byte is moved by call ci, in order
func c15Completed(scn *c15Scn, wires map[string]*c15Wire, ci int) []c15Frame {
	unit := map[string]int{"req": 0, "resp": 0}
	var res []c15Frame
	for i, call := range scn.Calls {
		if call.E != "" {
			continue
		}
		before := unit[call.D]
		unit[call.D] += call.U
		if i == ci {
			w := wires[call.D]
			for fi, fe := range w.fend {
				if fe > before && fe <= unit[call.D] {
					res = append(res, scn.frames(call.D)[fi])
				}
			}
		}
	}
	return res
}

// the order in which frames are completed (handled) over the whole scenario
func c15Hist(scn *c15Scn, wires map[string]*c15Wire) []c15Frame {
	var res []c15Frame
	for ci, call := range scn.Calls {
		if call.E == "" {
			res = append(res, c15Completed(scn, wires, ci)...)
		} else if !strings.HasPrefix(call.E, "timer:") && call.E != "timeout" {
			res = append(res, c15Frame{T: "END", Code: call.E})
		}
	}
	return res
}

// c15Cause names the one known mechanism that explains the disagreement, or "other".
// The rules look only at the scenario, at where the frame tracer gave up / the panic happened and
// at the shape of the difference.
func c15Cause(scn *c15Scn, wires map[string]*c15Wire, run *c15Run, diff c15Diff, vseed uint64, noDelta bool) string {
	hist := c15Hist(scn, wires)
	if run.Panic != "" {
		unnamed := map[uint32]bool{}
		for _, f := range scn.Req {
			if f.T == "HEADERS" && f.Hk == "request" && f.Nm == "" {
				unnamed[f.S] = true
			}
		}
		for _, f := range c15Completed(scn, wires, run.PanicAt) {
			if f.D == "resp" && (f.T == "HEADERS" || f.T == "CONT") && f.Eh && f.Hk == "trailers" && unnamed[f.S] &&
				strings.Contains(run.Panic, "nil pointer") && strings.HasSuffix(run.PanicFn, "handleFrame") {
				return "unnamed-response-trailers-panic"
			}
		}
		return "other"
	}
	if len(run.Transp) > 0 || len(run.Early) > 0 {
		return "other"
	}
	if len(run.BrokenAt) > 0 {
		// the tracer gave up on well-formed traffic: is it at a header block that continues?
		for d, ci := range run.BrokenAt {
			ok := false
			for _, f := range c15Completed(scn, wires, ci) {
				if f.D == d && (f.T == "HEADERS" || f.T == "CONT") && !f.Eh {
					ok = true
				}
			}
			if !ok {
				return "other"
			}
		}
		return "continuation-gives-up"
	}
	if len(run.Hdr) > 0 {
		return "other"
	}
	// a server reset before any response headers leaves no trace: only missing traces, all of
	// streams reset that way
	gotResp := map[uint32]bool{}
	rstNoResp := map[int]bool{}
	clientGoAway := false
	for _, f := range hist {
		switch {
		case f.D == "resp" && (f.T == "HEADERS" || f.T == "CONT") && f.Eh:
			gotResp[f.S] = true
		case f.D == "resp" && f.T == "RST" && !gotResp[f.S]:
			rstNoResp[int(f.S)] = true
		case f.D == "req" && f.T == "GOAWAY":
			clientGoAway = true
		}
	}
	if len(diff.Missing) > 0 && len(diff.Extra) == 0 && len(diff.Differ) == 0 {
		all := true
		for _, s := range diff.Missing {
			if !rstNoResp[s] {
				all = false
			}
		}
		if all {
			return "server-reset-before-response-no-trace"
		}
	}
	if clientGoAway && !noDelta {
		// a GOAWAY sent by the client says nothing about the client's own streams.  Attribute the
		// disagreement to it iff the SAME exchange with every client GOAWAY replaced by a PING frame
		// (same place, same size class, no meaning for streams; the specification's traces do not
		// depend on it) agrees with the specification.
		alt := *scn
		alt.Req = append([]c15Frame(nil), scn.Req...)
		for i, f := range alt.Req {
			if f.T == "GOAWAY" {
				alt.Req[i] = c15Frame{T: "OTHER", D: "req", K: "ping", Pu: 2, Bp: []c15Env{}}
			}
		}
		run2, wires2, err := c15Play(&alt, vseed)
		if err == nil {
			diff2 := c15Compare(scn.Exp, run2.Traces)
			if run2.Panic == "" && len(run2.Transp)+len(run2.Hdr)+len(run2.Early) == 0 && diff2.empty() {
				return "client-goaway-cuts-streams"
			}
			// two mechanisms in one exchange: what is left without the client GOAWAY must be
			// explained by one of the others
			if c2 := c15Cause(&alt, wires2, run2, diff2, vseed, true); c2 != "other" {
				return "client-goaway-cuts-streams+" + c2
			}
		}
	}
	return "other"
}

/* ------------------------------------------------------------------ replay test */

type c15Mismatch struct {
	Kind   string     `json:"kind"` // traces | transparency | panic
	Cause  string     `json:"cause"`
	Idx    int        `json:"idx"`
	VSeed  uint64     `json:"vseed"`
	Repro  int        `json:"repro"`
	Diff   c15Diff    `json:"diff"`
	Run    *c15Run    `json:"run"`
	Exp    []c15Trace `json:"exp"`
	Side   string     `json:"side"`
	Scn    *c15Scn    `json:"scn"`
	Detail string     `json:"detail"`
}

func c15ReqStartCause(scn *c15Scn, run *c15Run) string {
	all := func(suffix string) bool {
		for _, p := range run.ReqStart {
			if !strings.HasSuffix(p, suffix) {
				return false
			}
		}
		return true
	}
	switch {
	case scn.Side == "client" && all("RequestStart lists no request headers"):
		return "client-requeststart-no-headers"
	case scn.Side == "server" && all("RequestStart lists a Content-Length: 0 header that was not sent"):
		return "server-requeststart-content-length-0"
	}
	return "other"
}

// c15Check plays the scenario and returns the disagreements: at most one about the exchange as a
// whole (panic / transparency / traces) and one about the header listing of the first event.
func c15Check(scn *c15Scn, vseed uint64) ([]*c15Mismatch, *c15Run, error) {
	run, wires, mach := c15Play(scn, vseed)
	if mach != nil {
		return nil, nil, mach
	}
	var res []*c15Mismatch
	diff := c15Compare(scn.Exp, run.Traces)
	if !(run.Panic == "" && len(run.Transp) == 0 && len(run.Hdr) == 0 && len(run.Early) == 0 && diff.empty()) {
		mm := &c15Mismatch{Kind: "traces", VSeed: vseed, Diff: diff, Run: run, Exp: c15SortTraces(scn.Exp), Side: scn.Side, Scn: scn}
		switch {
		case run.Panic != "":
			mm.Kind = "panic"
			mm.Detail = fmt.Sprintf("panic in call %d (%s): %s", run.PanicAt, run.PanicFn, run.Panic)
		case len(run.Transp) > 0:
			mm.Kind = "transparency"
			mm.Detail = strings.Join(run.Transp, "; ")
		case len(run.Early) > 0:
			mm.Detail = strings.Join(run.Early, "; ")
		case len(run.Hdr) > 0 && diff.empty():
			mm.Detail = strings.Join(run.Hdr, "; ")
		default:
			mm.Detail = fmt.Sprintf("missing=%v extra=%v differ=%v broken_at=%v %s", diff.Missing, diff.Extra, diff.Differ, run.BrokenAt, strings.Join(run.Hdr, "; "))
		}
		mm.Cause = c15Cause(scn, wires, run, diff, vseed, false)
		res = append(res, mm)
	}
	if len(run.ReqStart) > 0 {
		res = append(res, &c15Mismatch{Kind: "reqstart", Cause: c15ReqStartCause(scn, run), VSeed: vseed, Run: run, Exp: c15SortTraces(scn.Exp),
			Side: scn.Side, Scn: scn, Detail: run.ReqStart[0]})
	}
	return res, run, nil
}

func TestVerifC15Replay(t *testing.T) {
	lines, err := verifutil.ReadLines(verifutil.Env("VERIF_SCN", ""))
	if err != nil {
		t.Fatal(err)
	}
	out, err := verifutil.NewOut(verifutil.Env("VERIF_OUT", ""))
	if err != nil {
		t.Fatal(err)
	}
	defer out.Close()
	variants := verifutil.EnvInt("VERIF_VARIANTS", 2)
	maxOut := verifutil.EnvInt("VERIF_MAX_OUT", 400)
	var mu sync.Mutex
	evals, scns, nontrivial, machErrs, mismatches := 0, 0, 0, 0, 0
	byCause := map[string]int{}
	distinct := map[string]bool{}
	var firstMach string
	verifutil.ParallelFor(len(lines), verifutil.EnvInt("VERIF_WORKERS", 8), func(i int) {
		var scn c15Scn
		if err := json.Unmarshal(lines[i], &scn); err != nil {
			mu.Lock()
			machErrs++
			firstMach = "bad scenario line: " + err.Error()
			mu.Unlock()
			return
		}
		nt := false
		for v := 0; v < variants; v++ {
			vseed := verifutil.Seed()*1000003 + uint64(i)*16 + uint64(v)
			mms, run, err := c15Check(&scn, vseed)
			mu.Lock()
			evals++
			if err != nil {
				machErrs++
				if firstMach == "" {
					firstMach = fmt.Sprintf("scenario %d: %v", i, err)
				}
				mu.Unlock()
				continue
			}
			if run != nil && len(run.Traces) > 0 {
				nt = true
			}
			mu.Unlock()
			if len(mms) == 0 {
				continue
			}
			// reproduce: the same scenario and bytes must disagree again, the same way
			again := [][]*c15Mismatch{}
			for k := 0; k < 2; k++ {
				m2, _, err2 := c15Check(&scn, vseed)
				if err2 == nil {
					again = append(again, m2)
				}
			}
			for _, mm := range mms {
				mm.Idx = i
				mm.Repro = 1
				for _, m2s := range again {
					for _, m2 := range m2s {
						if m2.Kind == mm.Kind && m2.Cause == mm.Cause && reflect.DeepEqual(m2.Diff, mm.Diff) {
							mm.Repro++
						}
					}
				}
				mu.Lock()
				mismatches++
				byCause[mm.Kind+"/"+mm.Cause]++
				n := byCause[mm.Kind+"/"+mm.Cause]
				mu.Unlock()
				if n <= maxOut/8 || (mm.Cause == "other" && n <= maxOut) {
					out.Put(mm)
				}
			}
			break // further variants of the same scenario add nothing
		}
		mu.Lock()
		scns++
		if nt || len(scn.Exp) > 0 {
			nontrivial++
			k, _ := json.Marshal([]any{scn.Side, scn.Req, scn.Resp, scn.Calls})
			distinct[string(k)] = true
		}
		mu.Unlock()
	})
	out.Put(map[string]any{"summary": true, "scenarios": scns, "evaluations": evals, "nontrivial": nontrivial,
		"distinct_nontrivial": len(distinct), "mismatches": mismatches, "by_cause": byCause, "machinery_errors": machErrs, "first_machinery_error": firstMach})
	if machErrs > 0 {
		fmt.Fprintf(os.Stderr, "verif: %d machinery errors, first: %s\n", machErrs, firstMach)
	}
}

var _ = io.EOF
