package tracer

// C15 harness (part 3): code -> spec.  A real golang.org/x/net/http2 client (Transport) and server
// (Server.ServeConn) talk over an in-memory duplex; BOTH ends are wrapped with TracingHTTP2Conn.
// Framing, HPACK coding, flow control, CONTINUATION for big header blocks, RST_STREAM on cancel /
// handler abort and the client's GOAWAY on Shutdown are the libraries' own.  Per wrapped end the
// bytes of every Read/Write are logged in the order in which the tracer sees them (a lock is taken
// below the wrapper when a Read has data and above it before a Write, and released above it, so
// the tracer's work of two calls never overlaps and the log order is the handling order).  The log
// is decoded by an independent frame reader (no Framer) into the abstract frames of H2TraceDecl;
// the TLC module Trace_H2Trace accepts a connection iff observed traces = Traces(frames).

import (
	"bytes"
	"context"
	"encoding/binary"
	"encoding/json"
	"errors"
	"fmt"
	"io"
	"math/rand/v2"
	"net"
	"net/http"
	"runtime/debug"
	"strconv"
	"strings"
	"sync"
	"testing"
	"time"

	"connectrpc.com/conformance/internal/verifutil"
	"golang.org/x/net/http2"
	"golang.org/x/net/http2/hpack"
)

/* ------------------------------------------------------------------ in-memory duplex, never blocks on write */

type c15Half struct {
	mu     sync.Mutex
	cond   *sync.Cond
	buf    []byte
	closed bool
}

func newC15Half() *c15Half { h := &c15Half{}; h.cond = sync.NewCond(&h.mu); return h }

type c15End struct {
	in, out *c15Half
}

func c15Duplex() (*c15End, *c15End) {
	a, b := newC15Half(), newC15Half()
	return &c15End{in: a, out: b}, &c15End{in: b, out: a}
}

func (e *c15End) Read(p []byte) (int, error) {
	e.in.mu.Lock()
	defer e.in.mu.Unlock()
	for len(e.in.buf) == 0 && !e.in.closed {
		e.in.cond.Wait()
	}
	if len(e.in.buf) == 0 {
		return 0, io.EOF
	}
	n := copy(p, e.in.buf)
	e.in.buf = e.in.buf[n:]
	return n, nil
}
func (e *c15End) Write(p []byte) (int, error) {
	e.out.mu.Lock()
	defer e.out.mu.Unlock()
	if e.out.closed {
		return 0, io.ErrClosedPipe
	}
	e.out.buf = append(e.out.buf, p...)
	e.out.cond.Broadcast()
	return len(p), nil
}
func (e *c15End) Close() error {
	for _, h := range []*c15Half{e.in, e.out} {
		h.mu.Lock()
		h.closed = true
		h.cond.Broadcast()
		h.mu.Unlock()
	}
	return nil
}
func (e *c15End) LocalAddr() net.Addr              { return c15Addr{} }
func (e *c15End) RemoteAddr() net.Addr             { return c15Addr{} }
func (e *c15End) SetDeadline(time.Time) error      { return nil }
func (e *c15End) SetReadDeadline(time.Time) error  { return nil }
func (e *c15End) SetWriteDeadline(time.Time) error { return nil }

type c15Addr struct{}

func (c15Addr) Network() string { return "verif" }
func (c15Addr) String() string  { return "verif" }

/* ------------------------------------------------------------------ the serialising recorder around the wrapper */

type c15LogEv struct {
	read bool
	data []byte
	end  string // "" | close | readerr | writeerr
	err  error
}

type c15Rec struct {
	mu      sync.Mutex // held while the tracer works on a call
	log     []c15LogEv
	ended   bool
	coll    *c15Coll
	panicked string // the wrapper panicked inside a call of the library (message)
	panicFn  string
	atEnd   int  // traces at the collector when the call that ended the connection returned
	snapped bool // (later calls on the dead connection are outside the model)
}

func (r *c15Rec) snap() {
	if r.ended && !r.snapped {
		r.snapped = true
		r.coll.mu.Lock()
		r.atEnd = len(r.coll.got)
		r.coll.mu.Unlock()
	}
}

// below the wrapper: takes the lock as soon as a Read has something to report
type c15Below struct {
	net.Conn
	rec *c15Rec
}

func (b *c15Below) Read(p []byte) (int, error) {
	n, err := b.Conn.Read(p)
	b.rec.mu.Lock()
	if !b.rec.ended {
		if n > 0 {
			b.rec.log = append(b.rec.log, c15LogEv{read: true, data: append([]byte(nil), p[:n]...)})
		}
		if err != nil {
			var ne net.Error
			if !(errors.As(err, &ne) && ne.Timeout()) {
				b.rec.log = append(b.rec.log, c15LogEv{end: "readerr", err: err})
				b.rec.ended = true
			}
		}
	}
	return n, err
}

// above the wrapper: releases the lock after a Read, holds it around a Write / Close
type c15Above struct {
	net.Conn // the tracing conn
	rec      *c15Rec
}

// a panic of the wrapper inside a library goroutine would kill the whole test binary: it is caught
// here, recorded, and the call fails (the libraries then give the connection up)
func (a *c15Above) caught(r any, stack string) error {
	if a.rec.panicked == "" {
		a.rec.panicked, a.rec.panicFn = fmt.Sprint(r), c15PanicFn(stack)
		if a.rec.panicFn == "?" {
			a.rec.panicked += " | stack: " + stack
		}
	}
	a.rec.ended = true
	return errors.New("verif: wrapper panicked")
}

func (a *c15Above) Read(p []byte) (n int, err error) {
	defer func() {
		if r := recover(); r != nil {
			n, err = 0, a.caught(r, string(debug.Stack()))
		}
		a.rec.snap()
		a.rec.mu.Unlock()
	}()
	return a.Conn.Read(p)
}
func (a *c15Above) Write(p []byte) (n int, err error) {
	a.rec.mu.Lock()
	defer a.rec.mu.Unlock()
	defer func() {
		if r := recover(); r != nil {
			n, err = 0, a.caught(r, string(debug.Stack()))
		}
	}()
	if !a.rec.ended {
		a.rec.log = append(a.rec.log, c15LogEv{data: append([]byte(nil), p...)})
	}
	n, err = a.Conn.Write(p)
	if err != nil && !a.rec.ended {
		a.rec.log = append(a.rec.log, c15LogEv{end: "writeerr", err: err})
		a.rec.ended = true
	}
	a.rec.snap()
	return n, err
}
func (a *c15Above) Close() (err error) {
	a.rec.mu.Lock()
	defer a.rec.mu.Unlock()
	defer func() {
		if r := recover(); r != nil {
			err = a.caught(r, string(debug.Stack()))
		}
	}()
	if !a.rec.ended {
		a.rec.log = append(a.rec.log, c15LogEv{end: "close"})
		a.rec.ended = true
	}
	err = a.Conn.Close()
	a.rec.snap()
	return err
}

/* ------------------------------------------------------------------ independent frame reader */

type c15Dec struct {
	dir     string
	buf     []byte
	preface bool // still to come
	hp      *hpack.Decoder
	block   []byte
	blockOf []int // indexes into hist of the frames of the open block
	bad     string
}

func c15Unpad(flags byte, p []byte) ([]byte, bool) {
	if flags&0x8 != 0 {
		if len(p) < 1 || int(p[0]) > len(p)-1 {
			return nil, false
		}
		return p[1 : len(p)-int(p[0])], true
	}
	return p, true
}

type c15Decoded struct {
	hist   []c15Frame
	wires  map[string]*c15Wire
	seenRq map[uint32]bool
	seenRp map[uint32]bool
	data   map[string][]byte // dir/sid -> concatenated DATA payload
}

func (d *c15Dec) feed(p []byte, out *c15Decoded) {
	d.buf = append(d.buf, p...)
	for d.bad == "" {
		if d.preface {
			if len(d.buf) < len(clientPreface) {
				return
			}
			if string(d.buf[:len(clientPreface)]) != clientPreface {
				d.bad = "bad preface"
				return
			}
			d.buf = d.buf[len(clientPreface):]
			d.preface = false
			out.hist = append(out.hist, c15Frame{T: "PREFACE", D: "req", Bp: []c15Env{}})
			continue
		}
		if len(d.buf) < 9 {
			return
		}
		l := int(d.buf[0])<<16 | int(d.buf[1])<<8 | int(d.buf[2])
		if len(d.buf) < 9+l {
			return
		}
		typ, flags := d.buf[3], d.buf[4]
		sid := binary.BigEndian.Uint32(d.buf[5:9]) & 0x7fffffff
		pay := append([]byte(nil), d.buf[9:9+l]...)
		d.buf = d.buf[9+l:]
		f := c15Frame{D: d.dir, S: sid, Bp: []c15Env{}}
		switch typ {
		case 0x0: // DATA
			body, ok := c15Unpad(flags, pay)
			if !ok {
				d.bad = "bad padding"
				return
			}
			f.T, f.N, f.Es = "DATA", len(body), flags&0x1 != 0
			k := d.dir + "/" + strconv.Itoa(int(sid))
			out.data[k] = append(out.data[k], body...)
		case 0x1, 0x9: // HEADERS, CONTINUATION
			frag := pay
			if typ == 0x1 {
				var ok bool
				if frag, ok = c15Unpad(flags, pay); !ok {
					d.bad = "bad padding"
					return
				}
				if flags&0x20 != 0 { // priority
					if len(frag) < 5 {
						d.bad = "short priority"
						return
					}
					frag = frag[5:]
				}
				f.T, f.Es = "HEADERS", flags&0x1 != 0
				d.block, d.blockOf = nil, nil
			} else {
				f.T = "CONT"
			}
			f.Eh = flags&0x4 != 0
			d.block = append(d.block, frag...)
			d.blockOf = append(d.blockOf, len(out.hist))
			out.hist = append(out.hist, f)
			if f.Eh {
				fields, err := d.hp.DecodeFull(d.block)
				if err != nil {
					d.bad = "hpack: " + err.Error()
					return
				}
				var kv []c15KV
				st, nm, call := 0, "", ""
				for _, hf := range fields {
					kv = append(kv, c15KV{hf.Name, hf.Value})
					switch hf.Name {
					case ":status":
						st, _ = strconv.Atoi(hf.Value)
					case "x-test-case-name":
						nm = hf.Value
					case "x-call":
						call = hf.Value
					}
				}
				seen := out.seenRq
				if d.dir == "resp" {
					seen = out.seenRp
				}
				hk := "trailers"
				if !seen[sid] {
					seen[sid] = true
					hk = map[string]string{"req": "request", "resp": "response"}[d.dir]
				}
				if hk == "response" && st >= 100 && st < 200 {
					d.bad = "1xx response"
					return
				}
				out.wires[d.dir].hdrs[fmt.Sprintf("%s/%d/%s", d.dir, sid, hk)] = kv
				if hk == "request" && call != "" {
					out.wires["req"].sidOf[call] = sid
				}
				es := out.hist[d.blockOf[0]].Es
				for _, i := range d.blockOf {
					out.hist[i].Hk, out.hist[i].Es, out.hist[i].St = hk, es, st
					if hk == "request" {
						out.hist[i].Nm = nm
					}
				}
				d.block, d.blockOf = nil, nil
			}
			continue
		case 0x3: // RST_STREAM
			if len(pay) != 4 {
				d.bad = "bad RST_STREAM"
				return
			}
			f.T, f.Code = "RST", c15CodeName(http2.ErrCode(binary.BigEndian.Uint32(pay)))
		case 0x7: // GOAWAY
			if len(pay) < 8 {
				d.bad = "bad GOAWAY"
				return
			}
			f.T, f.S = "GOAWAY", 0
			f.Last = binary.BigEndian.Uint32(pay[:4]) & 0x7fffffff
			f.Code = c15CodeName(http2.ErrCode(binary.BigEndian.Uint32(pay[4:8])))
		case 0x5:
			d.bad = "PUSH_PROMISE"
			return
		default:
			f.T, f.S = "OTHER", 0
		}
		out.hist = append(out.hist, f)
	}
}

// body plan of a direction of a stream from the bytes its DATA frames carried
func c15PlanOf(body []byte) []c15Env {
	plan := []c15Env{}
	off := 0
	for off < len(body) {
		if off+5 > len(body) {
			plan = append(plan, c15Env{}) // a cut prefix: some envelope starts here
			break
		}
		l := int(binary.BigEndian.Uint32(body[off+1:]))
		plan = append(plan, c15Env{Fl: int(body[off]), Len: l})
		off += 5 + l
	}
	return plan
}

func c15Decode(log []c15LogEv, isServer bool) (*c15Decoded, *c15EndErr, string) {
	out := &c15Decoded{wires: map[string]*c15Wire{}, seenRq: map[uint32]bool{}, seenRp: map[uint32]bool{}, data: map[string][]byte{}}
	for _, d := range []string{"req", "resp"} {
		out.wires[d] = &c15Wire{hdrs: map[string][]c15KV{}, bodies: map[uint32][]byte{}, free: true, sidOf: map[string]uint32{}}
	}
	decs := map[string]*c15Dec{
		"req":  {dir: "req", preface: true, hp: hpack.NewDecoder(4096, nil)},
		"resp": {dir: "resp", hp: hpack.NewDecoder(4096, nil)},
	}
	var end *c15EndErr
	for _, ev := range log {
		if ev.end != "" {
			end = &c15EndErr{kind: ev.end, cause: ev.err}
			out.hist = append(out.hist, c15Frame{T: "END", Code: ev.end, Bp: []c15Env{}})
			break
		}
		dir := "resp"
		if ev.read == isServer {
			dir = "req"
		}
		decs[dir].feed(ev.data, out)
		if decs[dir].bad != "" {
			return out, end, dir + ": " + decs[dir].bad
		}
	}
	for _, d := range []string{"req", "resp"} {
		if decs[d].block != nil {
			return out, end, d + ": header block left open"
		}
	}
	// announce the body plans with the header blocks
	for i := range out.hist {
		f := &out.hist[i]
		if (f.T == "HEADERS" || f.T == "CONT") && (f.Hk == "request" || f.Hk == "response") {
			body := out.data[f.D+"/"+strconv.Itoa(int(f.S))]
			f.Bp = c15PlanOf(body)
			if f.D == "resp" {
				out.wires["resp"].bodies[f.S] = body
			}
		}
	}
	return out, end, ""
}

/* ------------------------------------------------------------------ the traffic */

func c15Envelopes(rnd *rand.Rand, n int, last byte) []byte {
	var b []byte
	for i := 0; i < n; i++ {
		l := rnd.IntN(40)
		if rnd.IntN(5) == 0 {
			l = 3000 + rnd.IntN(30000)
		}
		fl := byte(0)
		if i == n-1 {
			fl = last
		}
		b = append(b, fl)
		b = binary.BigEndian.AppendUint32(b, uint32(l))
		b = append(b, bytes.Repeat([]byte{byte('a' + i%26)}, l)...)
	}
	return b
}

type c15RecordOut struct {
	Side    string     `json:"side"`
	Hist    []c15Frame `json:"hist"`
	Obs     []c15Trace `json:"obs"`
	Hdr     []string   `json:"hdr,omitempty"`
	ReqSt   []string   `json:"reqstart,omitempty"`
	Broken  []string   `json:"broken,omitempty"`
	Conn    int        `json:"conn"`
	Calls   int        `json:"calls"`
	Cause   string     `json:"cause"`
	Skipped string     `json:"skipped,omitempty"`
	Panic   string     `json:"panic,omitempty"`
	PanicFn string     `json:"panic_fn,omitempty"`
}

func c15RecordConn(ci int, rnd *rand.Rand) ([]c15RecordOut, error) {
	ce, se := c15Duplex()
	colls := map[string]*c15Coll{"client": {}, "server": {}}
	recs := map[string]*c15Rec{"client": {coll: colls["client"]}, "server": {coll: colls["server"]}}
	wrap := func(side string, raw net.Conn) (net.Conn, *tracingHTTP2Conn) {
		tc := TracingHTTP2Conn(&c15Below{Conn: raw, rec: recs[side]}, side == "server", colls[side])
		return &c15Above{Conn: tc, rec: recs[side]}, tc.(*tracingHTTP2Conn)
	}
	cconn, ctc := wrap("client", ce)
	sconn, stc := wrap("server", se)
	release := make(chan struct{})
	handler := http.HandlerFunc(func(w http.ResponseWriter, r *http.Request) {
		q := r.URL.Query()
		nresp, _ := strconv.Atoi(q.Get("resp"))
		seed, _ := strconv.Atoi(q.Get("seed"))
		hr := rand.New(rand.NewPCG(uint64(seed), 3))
		switch q.Get("mode") {
		case "abort0":
			panic(http.ErrAbortHandler)
		case "trailersonly":
			w.Header().Set("Content-Type", "application/grpc")
			w.Header().Set("Grpc-Status", "12")
			w.WriteHeader(200)
			return
		case "slow":
			w.Header().Set("Content-Type", "application/grpc")
			w.WriteHeader(200)
			w.(http.Flusher).Flush()
			select {
			case <-release:
			case <-r.Context().Done():
			}
			return
		}
		if q.Get("mode") != "noread" {
			io.Copy(io.Discard, r.Body)
		}
		w.Header().Set("Content-Type", "application/grpc")
		w.Header().Set("Trailer", "Grpc-Status, Grpc-Message")
		w.Header().Set("X-Resp", q.Get("seed"))
		w.WriteHeader(200)
		last := byte(0)
		if hr.IntN(3) == 0 {
			last = 2
		}
		body := c15Envelopes(hr, nresp, last)
		for len(body) > 0 {
			n := 1 + hr.IntN(len(body))
			w.Write(body[:n])
			body = body[n:]
			if hr.IntN(2) == 0 {
				w.(http.Flusher).Flush()
			}
		}
		if q.Get("mode") == "abort1" {
			w.(http.Flusher).Flush()
			panic(http.ErrAbortHandler)
		}
		w.Header().Set("Grpc-Status", "0")
		w.Header().Set("Grpc-Message", "ok "+q.Get("seed"))
	})
	h2s := &http2.Server{}
	srvDone := make(chan struct{})
	go func() {
		defer close(srvDone)
		h2s.ServeConn(sconn, &http2.ServeConnOpts{Handler: handler})
	}()
	tr := &http2.Transport{AllowHTTP: true, DisableCompression: true}
	cc, err := tr.NewClientConn(cconn)
	if err != nil {
		return nil, fmt.Errorf("NewClientConn: %w", err)
	}
	ncalls := 1 + rnd.IntN(4)
	var wg sync.WaitGroup
	slowCancel := []context.CancelFunc{}
	for k := 0; k < ncalls; k++ {
		mode := []string{"echo", "echo", "echo", "trailersonly", "abort0", "abort1", "noread", "slow", "cancel"}[rnd.IntN(9)]
		nreq, nresp := rnd.IntN(4), rnd.IntN(4)
		seed := rnd.IntN(1 << 30)
		name := fmt.Sprintf("c%d-%d", ci, k)
		if rnd.IntN(6) == 0 {
			name = ""
		}
		big := rnd.IntN(5) == 0
		ctx, cancel := context.WithCancel(context.Background())
		if mode == "slow" {
			slowCancel = append(slowCancel, cancel)
		}
		body := c15Envelopes(rand.New(rand.NewPCG(uint64(seed), 4)), nreq, 0)
		pr, pw := io.Pipe()
		req, _ := http.NewRequestWithContext(ctx, "POST", fmt.Sprintf("http://verif.test/verif/call?mode=%s&resp=%d&seed=%d", mode, nresp, seed), pr)
		req.Header.Set("Content-Type", "application/grpc")
		req.Header.Set("X-Call", fmt.Sprintf("%d-%d", ci, k))
		if name != "" {
			req.Header.Set("X-Test-Case-Name", name)
		}
		if big {
			req.Header.Set("X-Big", c15RandStr(rnd, 30000+rnd.IntN(40000))) // more than one 16 KB frame: CONTINUATION
		}
		wg.Add(2)
		go func() {
			defer wg.Done()
			wr := rand.New(rand.NewPCG(uint64(seed), 5))
			for len(body) > 0 {
				n := 1 + wr.IntN(len(body))
				if _, err := pw.Write(body[:n]); err != nil {
					return
				}
				body = body[n:]
			}
			if mode == "cancel" && wr.IntN(2) == 0 {
				cancel()
				pw.CloseWithError(context.Canceled)
				return
			}
			pw.Close()
		}()
		go func() {
			defer wg.Done()
			defer cancel()
			resp, err := cc.RoundTrip(req)
			if err != nil {
				pr.CloseWithError(err)
				return
			}
			if mode == "cancel" {
				buf := make([]byte, 7)
				resp.Body.Read(buf)
				cancel()
			}
			io.Copy(io.Discard, resp.Body)
			resp.Body.Close()
		}()
	}
	// how the connection ends
	endMode := rnd.IntN(3)
	time.Sleep(time.Duration(rnd.IntN(4000)) * time.Microsecond) // scheduling variety only
	waitCalls := func() {
		done := make(chan struct{})
		go func() { wg.Wait(); close(done) }()
		select {
		case <-done:
		case <-time.After(30 * time.Second):
		}
	}
	switch endMode {
	case 0: // everything finishes, then the client closes the connection
		close(release)
		waitCalls()
		cc.Close()
	case 1: // graceful client shutdown while calls may still run: the client sends GOAWAY first
		sctx, scancel := context.WithTimeout(context.Background(), 20*time.Second)
		sd := make(chan struct{})
		go func() { cc.Shutdown(sctx); close(sd) }()
		time.Sleep(time.Duration(rnd.IntN(3)) * time.Millisecond)
		close(release)
		waitCalls()
		<-sd
		scancel()
		cc.Close()
	default: // the client drops the connection in the middle
		time.Sleep(time.Duration(rnd.IntN(3)) * time.Millisecond)
		cc.Close()
		close(release)
		for _, c := range slowCancel {
			c()
		}
		waitCalls()
	}
	select {
	case <-srvDone:
	case <-time.After(30 * time.Second):
		return nil, errors.New("watchdog: server side of the connection did not finish")
	}
	sconn.Close()
	var res []c15RecordOut
	for _, side := range []string{"client", "server"} {
		rec, coll := recs[side], colls[side]
		rec.mu.Lock()
		log := rec.log
		atEnd := rec.atEnd
		panicked, panicFn := rec.panicked, rec.panicFn
		rec.mu.Unlock()
		if panicked != "" {
			res = append(res, c15RecordOut{Side: side, Conn: ci, Calls: ncalls, Hist: []c15Frame{}, Obs: []c15Trace{}, Panic: panicked, PanicFn: panicFn})
			continue
		}
		dec, end, bad := c15Decode(log, side == "server")
		o := c15RecordOut{Side: side, Conn: ci, Calls: ncalls, Hist: dec.hist, Obs: []c15Trace{}}
		if bad != "" {
			o.Skipped = bad
			res = append(res, o)
			continue
		}
		if end == nil {
			o.Skipped = "no end of connection recorded"
			res = append(res, o)
			continue
		}
		tc := map[string]*tracingHTTP2Conn{"client": ctc, "server": stc}[side]
		if tc.readTracer.broken {
			o.Broken = append(o.Broken, map[bool]string{true: "req", false: "resp"}[side == "server"])
		}
		if tc.writeTracer.broken {
			o.Broken = append(o.Broken, map[bool]string{true: "resp", false: "req"}[side == "server"])
		}
		coll.mu.Lock()
		for i := range coll.got {
			if i >= atEnd {
				break // produced by calls on the connection after it had ended
			}
			o.Obs = append(o.Obs, c15Abstract(&coll.got[i], dec.wires, end, &o.Hdr, &o.ReqSt))
		}
		coll.mu.Unlock()
		// features for the attribution of a rejection to a known mechanism
		o.Cause = "other"
		gotResp := map[uint32]bool{}
		hasTrace := map[int]bool{}
		for _, t := range o.Obs {
			hasTrace[t.S] = true
		}
		named := map[uint32]bool{}
		for _, f := range dec.hist {
			switch {
			case (f.T == "HEADERS" || f.T == "CONT") && !f.Eh && len(o.Broken) > 0:
				o.Cause = "continuation-gives-up"
			case f.T == "HEADERS" && f.Hk == "request" && f.Nm != "":
				named[f.S] = true
			case f.D == "resp" && (f.T == "HEADERS" || f.T == "CONT") && f.Eh:
				gotResp[f.S] = true
			case f.D == "resp" && f.T == "RST" && !gotResp[f.S] && named[f.S] && !hasTrace[int(f.S)] && o.Cause == "other":
				o.Cause = "server-reset-before-response-no-trace"
			case f.D == "req" && f.T == "GOAWAY" && o.Cause == "other":
				o.Cause = "client-goaway-cuts-streams"
			}
		}
		res = append(res, o)
	}
	return res, nil
}

func TestVerifC15Record(t *testing.T) {
	out, err := verifutil.NewOut(verifutil.Env("VERIF_OUT", ""))
	if err != nil {
		t.Fatal(err)
	}
	defer out.Close()
	n := verifutil.EnvInt("VERIF_N", 40)
	var mu sync.Mutex
	conns, skipped, mach, withCont, withRst, withGoAway, traces, panics := 0, 0, 0, 0, 0, 0, 0, 0
	var firstMach string
	skipWhy := map[string]int{}
	verifutil.ParallelFor(n, verifutil.EnvInt("VERIF_WORKERS", 4), func(i int) {
		rnd := rand.New(rand.NewPCG(verifutil.Seed(), uint64(i)+1500))
		var res []c15RecordOut
		var err error
		func() {
			defer func() {
				if r := recover(); r != nil {
					err = fmt.Errorf("panic while recording: %v", r)
				}
			}()
			res, err = c15RecordConn(i, rnd)
		}()
		mu.Lock()
		defer mu.Unlock()
		if err != nil {
			mach++
			if firstMach == "" {
				firstMach = err.Error()
			}
			return
		}
		for _, o := range res {
			if o.Panic != "" {
				panics++
				out.Put(o)
				continue
			}
			if o.Skipped != "" {
				skipped++
				skipWhy[strings.SplitN(o.Skipped, ":", 2)[0]+":"+strings.TrimSpace(strings.SplitN(o.Skipped+":", ":", 3)[1])]++
				continue
			}
			conns++
			traces += len(o.Obs)
			for _, f := range o.Hist {
				switch {
				case f.T == "CONT" && f.Eh:
					withCont++
				case f.T == "RST":
					withRst++
				case f.T == "GOAWAY":
					withGoAway++
				}
			}
			out.Put(o)
		}
	})
	out.Put(map[string]any{"summary": true, "connections": conns, "skipped": skipped, "skipped_why": skipWhy, "machinery_errors": mach,
		"first_machinery_error": firstMach, "continuation_blocks": withCont, "rst_frames": withRst, "goaway_frames": withGoAway, "observed_traces": traces, "panics": panics})
}

// TestVerifC15FuzzOne re-runs one recorded fuzz input (replay files).
func TestVerifC15FuzzOne(t *testing.T) {
	lines, err := verifutil.ReadLines(verifutil.Env("VERIF_IN", ""))
	if err != nil {
		t.Fatal(err)
	}
	out, err := verifutil.NewOut(verifutil.Env("VERIF_OUT", ""))
	if err != nil {
		t.Fatal(err)
	}
	defer out.Close()
	for _, l := range lines {
		var in c15FuzzIn
		if err := json.Unmarshal(l, &in); err != nil {
			t.Fatal(err)
		}
		if kind, fn, msg := c15FuzzRun(&in); kind != "" {
			out.Put(c15FuzzRes{Kind: kind, Fn: fn, Msg: msg, Repro: 3, In: in})
		}
	}
	out.Put(map[string]any{"summary": true})
}
