package connectconformance

// C07 harness.
//
// TestVerifC07Replay: replays TLC-generated runs (Gen_SuiteExpand: suite files + set of config
// cases + run mode) on the real parseTestSuites / newTestCaseLibrary / filterGRPCImplTestCases /
// allPermutations and compares with the outcome the declarative specification requires
// (SuiteExpandDecl!Outcome).  Every run is expanded several times from freshly parsed files (Go map
// iteration order differs between runs).
//
// TestVerifC07Record: expands the embedded corpus (real LoadTestSuites + parseTestSuites) against
// the shipped configurations (real parseConfig) in all three run modes, and seeded random suites
// beyond the TLC pools, and records (abstract suites, cases, mode, observed outcome) for the
// acceptor Trace_SuiteExpand.

import (
	"encoding/json"
	"fmt"
	"os"
	"runtime"
	"sort"
	"strings"
	"sync"
	"sync/atomic"
	"testing"

	"connectrpc.com/conformance/internal/app/connectconformance/testsuites"
	conformancev1 "connectrpc.com/conformance/internal/gen/proto/go/connectrpc/conformance/v1"
	"connectrpc.com/conformance/internal/verifutil"
	"google.golang.org/protobuf/encoding/protojson"
	"google.golang.org/protobuf/proto"
	"google.golang.org/protobuf/reflect/protoreflect"
	"google.golang.org/protobuf/types/known/anypb"
)

// ---- abstract run (the domain of spec/SuiteExpandDecl.tla) ----

type c07Test struct {
	Name   []string `json:"name"`
	St     int      `json:"st"`
	Svc    string   `json:"svc"`
	Mth    string   `json:"mth"`
	Raw    string   `json:"raw"`
	Expand bool     `json:"expand"`
	Pre    bool     `json:"pre"`
}

type c07Suite struct {
	Name  []string  `json:"name"`
	Mode  int       `json:"mode"`
	RelP  []int     `json:"relP"`
	RelV  []int     `json:"relV"`
	RelC  []int     `json:"relC"`
	RelZ  []int     `json:"relZ"`
	Cvm   int       `json:"cvm"`
	TLS   bool      `json:"tls"`
	Cert  bool      `json:"cert"`
	Get   bool      `json:"get"`
	Lim   bool      `json:"lim"`
	Tests []c07Test `json:"tests"`
}

type c07Grpc struct {
	C  [][]string `json:"c"`
	S  [][]string `json:"s"`
	CS [][]string `json:"cs"`
}

type c07Exp struct {
	K     string   `json:"k"`
	Errs  []string `json:"errs"`
	Perms [][]any  `json:"perms"`
	Grpc  c07Grpc  `json:"grpc"`
	Nall  []int    `json:"nall"`
}

type c07Scn struct {
	Mode   int        `json:"mode"`
	Cs     int        `json:"cs"`
	Cases  [][]any    `json:"cases,omitempty"` // inline alternative to Cs
	Suites []c07Suite `json:"suites"`
	Wf     bool       `json:"wf"`
	Exp    c07Exp     `json:"exp"`
}

type c07Perm struct {
	Name           string
	V, P, C, Z, St int
	TLS, Cert      bool
	Svc, Mth       string
	Lim            int
	Si, Ti         int
}

func c07Int(v any) int {
	f, _ := v.(float64)
	return int(f)
}

func c07Bool(v any) bool {
	b, _ := v.(bool)
	return b
}

func c07Str(v any) string {
	s, _ := v.(string)
	return s
}

func c07DecodePerm(t []any) (c07Perm, error) {
	if len(t) != 13 {
		return c07Perm{}, fmt.Errorf("permutation tuple of length %d", len(t))
	}
	return c07Perm{
		Name: c07Str(t[0]), V: c07Int(t[1]), P: c07Int(t[2]), C: c07Int(t[3]), Z: c07Int(t[4]), St: c07Int(t[5]),
		TLS: c07Bool(t[6]), Cert: c07Bool(t[7]), Svc: c07Str(t[8]), Mth: c07Str(t[9]), Lim: c07Int(t[10]),
		Si: c07Int(t[11]), Ti: c07Int(t[12]),
	}, nil
}

func c07DecodeCases(ts [][]any) ([]configCase, error) {
	res := make([]configCase, 0, len(ts))
	for _, t := range ts {
		if len(t) != 10 {
			return nil, fmt.Errorf("case tuple of length %d", len(t))
		}
		res = append(res, configCase{
			Version:                conformancev1.HTTPVersion(c07Int(t[0])),
			Protocol:               conformancev1.Protocol(c07Int(t[1])),
			Codec:                  conformancev1.Codec(c07Int(t[2])),
			Compression:            conformancev1.Compression(c07Int(t[3])),
			StreamType:             conformancev1.StreamType(c07Int(t[4])),
			UseTLS:                 c07Bool(t[5]),
			UseTLSClientCerts:      c07Bool(t[6]),
			UseConnectGET:          c07Bool(t[7]),
			UseMessageReceiveLimit: c07Bool(t[8]),
			ConnectVersionMode:     conformancev1.TestSuite_ConnectVersionMode(c07Int(t[9])),
		})
	}
	return res, nil
}

func c07EncodeCases(cs []configCase) [][]any {
	res := make([][]any, 0, len(cs))
	for _, c := range cs {
		res = append(res, []any{int(c.Version), int(c.Protocol), int(c.Codec), int(c.Compression), int(c.StreamType),
			c.UseTLS, c.UseTLSClientCerts, c.UseConnectGET, c.UseMessageReceiveLimit, int(c.ConnectVersionMode)})
	}
	sort.Slice(res, func(i, j int) bool { return fmt.Sprint(res[i]) < fmt.Sprint(res[j]) })
	return res
}

// ---- abstract -> concrete ----

func c07ReqMsg(st int, rawResp bool) proto.Message {
	var raw *conformancev1.RawHTTPResponse
	if rawResp {
		raw = &conformancev1.RawHTTPResponse{StatusCode: 200}
	}
	switch st {
	case 2:
		return &conformancev1.ClientStreamRequest{ResponseDefinition: &conformancev1.UnaryResponseDefinition{RawResponse: raw}}
	case 3:
		return &conformancev1.ServerStreamRequest{ResponseDefinition: &conformancev1.StreamResponseDefinition{RawResponse: raw}}
	case 4, 5:
		return &conformancev1.BidiStreamRequest{ResponseDefinition: &conformancev1.StreamResponseDefinition{RawResponse: raw}, FullDuplex: st == 5}
	default:
		return &conformancev1.UnaryRequest{ResponseDefinition: &conformancev1.UnaryResponseDefinition{RawResponse: raw}}
	}
}

func c07BuildTest(t c07Test) (*conformancev1.TestCase, error) {
	req := &conformancev1.ClientCompatRequest{
		TestName:       strings.Join(t.Name, "/"),
		StreamType:     conformancev1.StreamType(t.St),
		RequestHeaders: []*conformancev1.Header{{Name: "x-verif", Value: []string{strings.Join(t.Name, "/"), fmt.Sprint(t.St)}}},
		RequestDelayMs: 7,
	}
	// "" = unset: an optional string field that is absent, or present with the empty string (what `service: ""` in a
	// suite file gives) - the two renderings of the same abstract value
	explicitEmpty := (len(strings.Join(t.Name, "/"))+t.St)%3 == 0
	if t.Svc != "" || explicitEmpty {
		req.Service = proto.String(t.Svc)
	}
	if t.Mth != "" || explicitEmpty {
		req.Method = proto.String(t.Mth)
	}
	msg, err := anypb.New(c07ReqMsg(t.St, t.Raw == "resp" || t.Raw == "respnoexp"))
	if err != nil {
		return nil, err
	}
	req.RequestMessages = []*anypb.Any{msg}
	tc := &conformancev1.TestCase{Request: req}
	switch t.Raw {
	case "req":
		req.RawRequest = &conformancev1.RawHTTPRequest{Verb: "POST", Uri: "/verif"}
	case "resp":
		tc.ExpectedResponse = &conformancev1.ClientResponseResult{
			Error: &conformancev1.Error{Code: conformancev1.Code_CODE_UNKNOWN},
		}
	}
	if t.Expand {
		tc.ExpandRequests = []*conformancev1.TestCase_ExpandedSize{{}} // present, "do not expand this one"
	}
	if t.Pre {
		// fields the documentation says the runner owns: junk that must not survive
		req.HttpVersion = conformancev1.HTTPVersion_HTTP_VERSION_3
		req.Protocol = conformancev1.Protocol_PROTOCOL_GRPC
		req.Codec = conformancev1.Codec_CODEC_JSON
		req.Compression = conformancev1.Compression_COMPRESSION_SNAPPY
		req.ServerTlsCert = []byte("JUNK")
		req.ClientTlsCreds = &conformancev1.TLSCreds{Cert: []byte("JUNK"), Key: []byte("JUNK")}
		req.MessageReceiveLimit = 7
	}
	return tc, nil
}

func c07Enums[T ~int32](xs []int) []T {
	if len(xs) == 0 {
		return nil
	}
	res := make([]T, len(xs))
	for i, x := range xs {
		res[i] = T(x)
	}
	return res
}

func c07BuildSuite(s c07Suite) (*conformancev1.TestSuite, error) {
	suite := &conformancev1.TestSuite{
		Name:                        strings.Join(s.Name, "/"),
		Mode:                        conformancev1.TestSuite_TestMode(s.Mode),
		RelevantProtocols:           c07Enums[conformancev1.Protocol](s.RelP),
		RelevantHttpVersions:        c07Enums[conformancev1.HTTPVersion](s.RelV),
		RelevantCodecs:              c07Enums[conformancev1.Codec](s.RelC),
		RelevantCompressions:        c07Enums[conformancev1.Compression](s.RelZ),
		ConnectVersionMode:          conformancev1.TestSuite_ConnectVersionMode(s.Cvm),
		ReliesOnTls:                 s.TLS,
		ReliesOnTlsClientCerts:      s.Cert,
		ReliesOnConnectGet:          s.Get,
		ReliesOnMessageReceiveLimit: s.Lim,
	}
	for _, t := range s.Tests {
		tc, err := c07BuildTest(t)
		if err != nil {
			return nil, err
		}
		suite.TestCases = append(suite.TestCases, tc)
	}
	return suite, nil
}

// files: what LoadTestSuites would have returned (protoyaml accepts the JSON mapping)
func c07Files(suites []c07Suite) (map[string][]byte, []*conformancev1.TestSuite, error) {
	files := make(map[string][]byte, len(suites))
	protos := make([]*conformancev1.TestSuite, 0, len(suites))
	for i, s := range suites {
		suite, err := c07BuildSuite(s)
		if err != nil {
			return nil, nil, err
		}
		data, err := protojson.Marshal(suite)
		if err != nil {
			return nil, nil, err
		}
		files[fmt.Sprintf("f%d.yaml", i+1)] = data
		protos = append(protos, suite)
	}
	return files, protos, nil
}

func c07Class(err error) string {
	m := err.Error()
	switch {
	case strings.Contains(m, "has raw request, but that is only allowed"):
		return "rawreq_mode"
	case strings.Contains(m, "has raw response, but that is only allowed"):
		return "rawresp_mode"
	case strings.Contains(m, "does not specify an explicit expected response"):
		return "rawresp_noexp"
	case strings.Contains(m, "specifies expand requests directive"):
		return "expand_codec"
	case strings.Contains(m, "defines a suite with no name"):
		return "noname"
	case strings.Contains(m, "that has no test cases"):
		return "notests"
	case strings.Contains(m, "define a suite named"):
		return "dupsuite"
	case strings.Contains(m, "relies on TLS client certs but not TLS"):
		return "cert_without_tls"
	case strings.Contains(m, "relies on Connect GET support"):
		return "get_not_connect"
	case strings.Contains(m, "Connect Version headers, but has unexpected relevant protocols"):
		return "cvm_not_connect"
	case strings.Contains(m, "test case has no name"):
		return "unnamed"
	case strings.Contains(m, "has no stream type specified"):
		return "nostream"
	case strings.Contains(m, "has a method specified but no service"):
		return "method_nosvc"
	case strings.Contains(m, "has a service specified but no method"):
		return "svc_nomethod"
	case strings.Contains(m, "duplicate definition"):
		return "dup_fullname"
	case strings.Contains(m, "no test cases apply to current configuration"):
		return "nocases"
	}
	return "unclassified"
}

func c07In(xs []string, x string) bool {
	for _, y := range xs {
		if x == y {
			return true
		}
	}
	return false
}

// request with the runner-owned fields removed: what must be carried over untouched
func c07Rest(req *conformancev1.ClientCompatRequest) *conformancev1.ClientCompatRequest {
	r := proto.Clone(req).(*conformancev1.ClientCompatRequest) //nolint:errcheck,forcetypeassert
	r.TestName = ""
	r.HttpVersion = 0
	r.Protocol = 0
	r.Codec = 0
	r.Compression = 0
	r.ServerTlsCert = nil
	r.ClientTlsCreds = nil
	r.MessageReceiveLimit = 0
	r.Service = nil
	r.Method = nil
	return r
}

type c07Mis struct {
	Scn    int    `json:"scn"`
	Kind   string `json:"kind"`
	Detail string `json:"detail"`
	Run    int    `json:"run"`
	Repro  int    `json:"repro"`
	ExpK   string `json:"exp_k"`
}

func c07NamesOf(tcs []*conformancev1.TestCase) []string {
	res := make([]string, 0, len(tcs))
	for _, tc := range tcs {
		res = append(res, tc.Request.TestName)
	}
	sort.Strings(res)
	return res
}

func c07SameStrings(a, b []string) (bool, string) {
	if len(a) != len(b) {
		return false, fmt.Sprintf("%d names vs %d required; %s", len(a), len(b), c07Diff(a, b))
	}
	for i := range a {
		if a[i] != b[i] {
			return false, c07Diff(a, b)
		}
	}
	return true, ""
}

func c07Diff(got, want []string) string {
	g := map[string]int{}
	for _, x := range got {
		g[x]++
	}
	w := map[string]int{}
	for _, x := range want {
		w[x]++
	}
	var extra, missing []string
	for x, n := range g {
		if n > w[x] {
			extra = append(extra, x)
		}
	}
	for x, n := range w {
		if n > g[x] {
			missing = append(missing, x)
		}
	}
	sort.Strings(extra)
	sort.Strings(missing)
	if len(extra) > 3 {
		extra = extra[:3]
	}
	if len(missing) > 3 {
		missing = missing[:3]
	}
	return fmt.Sprintf("not required: %q; required but absent: %q", extra, missing)
}

// one complete run of the real code on the scenario, compared with the required outcome.
// Returns ("", "") when they agree. perms: decoded exp.perms.
func c07RunOnce(scn *c07Scn, cases []configCase, perms []c07Perm, evals *int64) (kind, detail string) {
	defer func() {
		if r := recover(); r != nil {
			buf := make([]byte, 2048)
			buf = buf[:runtime.Stack(buf, false)]
			kind, detail = "panic", fmt.Sprintf("%v\n%s", r, buf)
		}
	}()
	files, protos, err := c07Files(scn.Suites)
	if err != nil {
		return "harness", err.Error()
	}
	atomic.AddInt64(evals, 1)
	suites, err := parseTestSuites(files)
	if scn.Exp.K == "perr" {
		if err == nil {
			return "parse_accepts", fmt.Sprintf("loading succeeded; required: rejection for one of %v", scn.Exp.Errs)
		}
		if cl := c07Class(err); !c07In(scn.Exp.Errs, cl) {
			return "parse_class", fmt.Sprintf("loading rejected with %q (%s); required: one of %v", err, cl, scn.Exp.Errs)
		}
		return "", ""
	}
	if err != nil {
		return "parse_rejects", fmt.Sprintf("loading rejected with %q; required: accepted", err)
	}
	mode := conformancev1.TestSuite_TestMode(scn.Mode)
	lib, err := newTestCaseLibrary(suites, cases, mode)
	if scn.Exp.K == "lerr" {
		if err == nil {
			return "lib_accepts", fmt.Sprintf("expansion succeeded with %d permutations %.300q; required: rejection for one of %v",
				len(lib.testCases), fmt.Sprint(c07Keys(lib.testCases)), scn.Exp.Errs)
		}
		if cl := c07Class(err); !c07In(scn.Exp.Errs, cl) {
			return "lib_class", fmt.Sprintf("expansion rejected with %q (%s); required: one of %v", err, cl, scn.Exp.Errs)
		}
		return "", ""
	}
	if err != nil {
		return "lib_rejects", fmt.Sprintf("expansion rejected with %q (%s); required: %d permutations", err, c07Class(err), len(perms))
	}

	// (a) exactly the required names
	want := make([]string, 0, len(perms))
	for _, p := range perms {
		want = append(want, p.Name)
	}
	sort.Strings(want)
	if ok, d := c07SameStrings(c07Keys(lib.testCases), want); !ok {
		return "perm_set", d
	}
	// (b) request fields, (c) everything else carried over, (d) simple names
	for _, p := range perms {
		tc := lib.testCases[p.Name]
		req := tc.Request
		chk := func(field string, got, want any) (string, string) {
			return "field_" + field, fmt.Sprintf("%s: %s = %v; required %v", p.Name, field, got, want)
		}
		switch {
		case req.TestName != p.Name:
			return chk("name", req.TestName, p.Name)
		case int(req.HttpVersion) != p.V:
			return chk("http_version", req.HttpVersion, p.V)
		case int(req.Protocol) != p.P:
			return chk("protocol", req.Protocol, p.P)
		case int(req.Codec) != p.C:
			return chk("codec", req.Codec, p.C)
		case int(req.Compression) != p.Z:
			return chk("compression", req.Compression, p.Z)
		case int(req.StreamType) != p.St:
			return chk("stream_type", req.StreamType, p.St)
		case (len(req.ServerTlsCert) > 0) != p.TLS:
			return chk("server_tls_cert", len(req.ServerTlsCert) > 0, p.TLS)
		case (req.ClientTlsCreds != nil) != p.Cert:
			return chk("client_tls_creds", req.ClientTlsCreds != nil, p.Cert)
		case req.GetService() != p.Svc:
			return chk("service", req.GetService(), p.Svc)
		case req.GetMethod() != p.Mth:
			return chk("method", req.GetMethod(), p.Mth)
		case int(req.MessageReceiveLimit) != p.Lim:
			return chk("message_receive_limit", req.MessageReceiveLimit, p.Lim)
		}
		if p.Si < 1 || p.Si > len(protos) || p.Ti < 1 || p.Ti > len(protos[p.Si-1].TestCases) {
			return "harness", "bad source index"
		}
		src := protos[p.Si-1].TestCases[p.Ti-1]
		if !proto.Equal(c07Rest(req), c07Rest(src.Request)) {
			return "rest", fmt.Sprintf("%s: fields the runner does not own differ from the test case definition", p.Name)
		}
		if !proto.Equal(&conformancev1.TestCase{ExpandRequests: tc.ExpandRequests, OtherAllowedErrorCodes: tc.OtherAllowedErrorCodes},
			&conformancev1.TestCase{ExpandRequests: src.ExpandRequests, OtherAllowedErrorCodes: src.OtherAllowedErrorCodes}) {
			return "rest", fmt.Sprintf("%s: test case fields differ from the definition", p.Name)
		}
		if got := lib.testCaseNames[p.Name]; got != src.Request.TestName {
			return "simple_name", fmt.Sprintf("%s: recorded simple name %q; required %q", p.Name, got, src.Request.TestName)
		}
	}
	// (e) grouped under exactly one server instance
	seen := map[*conformancev1.TestCase]int{}
	byPtr := map[*conformancev1.TestCase]serverInstance{}
	total := 0
	for inst, tcs := range lib.casesByServer {
		if len(tcs) == 0 {
			return "group", fmt.Sprintf("empty group %+v", inst)
		}
		for _, tc := range tcs {
			seen[tc]++
			byPtr[tc] = inst
			total++
		}
	}
	if total != len(perms) {
		return "group", fmt.Sprintf("groups hold %d entries for %d permutations", total, len(perms))
	}
	instOf := map[string]serverInstance{}
	for _, p := range perms {
		tc := lib.testCases[p.Name]
		wantInst := serverInstance{protocol: conformancev1.Protocol(p.P), httpVersion: conformancev1.HTTPVersion(p.V),
			useTLS: p.TLS, useTLSClientCerts: p.Cert}
		instOf[p.Name] = wantInst
		if seen[tc] != 1 {
			return "group", fmt.Sprintf("%s is in %d groups", p.Name, seen[tc])
		}
		if byPtr[tc] != wantInst {
			return "group", fmt.Sprintf("%s is grouped under %+v; required %+v", p.Name, byPtr[tc], wantInst)
		}
	}
	if !scn.Wf {
		return "", ""
	}
	// (f) gRPC-peer copies
	all := make([]*conformancev1.TestCase, 0, len(lib.testCases))
	for _, tc := range lib.testCases {
		all = append(all, tc)
	}
	if got := lib.filterGRPCImplTestCases(all, false, false); len(got) != len(all) {
		return "grpc_none", "filter without a gRPC peer changed the list"
	}
	type combo struct {
		cg, sg bool
		tag    string
		pairs  [][]string
	}
	combos := []combo{{true, false, "c", scn.Exp.Grpc.C}, {false, true, "s", scn.Exp.Grpc.S}, {true, true, "cs", scn.Exp.Grpc.CS}}
	marked := map[string][]string{}
	for _, cb := range combos {
		wantNames := make([]string, 0, len(cb.pairs))
		base := map[string]string{}
		for _, pr := range cb.pairs {
			if len(pr) != 2 {
				return "harness", "bad grpc pair"
			}
			wantNames = append(wantNames, pr[0])
			base[pr[0]] = pr[1]
		}
		sort.Strings(wantNames)
		marked[cb.tag] = wantNames
		got := lib.filterGRPCImplTestCases(all, cb.cg, cb.sg)
		if ok, d := c07SameStrings(c07NamesOf(got), wantNames); !ok {
			return "grpc_set_" + cb.tag, d
		}
		for _, tc := range got {
			b := lib.testCases[base[tc.Request.TestName]]
			if b == nil {
				return "harness", "base permutation missing"
			}
			cp := proto.Clone(tc).(*conformancev1.TestCase) //nolint:errcheck,forcetypeassert
			cp.Request.TestName = b.Request.TestName
			if !proto.Equal(cp, b) {
				return "grpc_copy_" + cb.tag, fmt.Sprintf("%s is not a copy of %s", tc.Request.TestName, b.Request.TestName)
			}
			if tc == b {
				return "grpc_copy_" + cb.tag, fmt.Sprintf("%s shares the permutation object of %s", tc.Request.TestName, b.Request.TestName)
			}
		}
		// the same filter applied per server instance, as the runner does
		for inst, tcs := range lib.casesByServer {
			var wantInst []string
			for _, pr := range cb.pairs {
				if instOf[pr[1]] == inst {
					wantInst = append(wantInst, pr[0])
				}
			}
			sort.Strings(wantInst)
			if ok, d := c07SameStrings(c07NamesOf(lib.filterGRPCImplTestCases(tcs, cb.cg, cb.sg)), wantInst); !ok {
				return "grpc_inst_" + cb.tag, fmt.Sprintf("instance %+v: %s", inst, d)
			}
		}
	}
	if len(scn.Exp.Nall) == 4 {
		for i, fl := range [][2]bool{{false, false}, {true, false}, {false, true}, {true, true}} {
			wantAll := append([]string{}, want...)
			if fl[0] {
				wantAll = append(wantAll, marked["c"]...)
			}
			if fl[1] {
				wantAll = append(wantAll, marked["s"]...)
			}
			if fl[0] && fl[1] {
				wantAll = append(wantAll, marked["cs"]...)
			}
			sort.Strings(wantAll)
			got := c07NamesOf(lib.allPermutations(fl[0], fl[1]))
			if len(got) != scn.Exp.Nall[i] {
				return "allperm_count", fmt.Sprintf("allPermutations(%v,%v) has %d entries; required %d", fl[0], fl[1], len(got), scn.Exp.Nall[i])
			}
			if ok, d := c07SameStrings(got, wantAll); !ok {
				return "allperm_names", fmt.Sprintf("allPermutations(%v,%v): %s", fl[0], fl[1], d)
			}
			for j := 1; j < len(got); j++ {
				if got[j] == got[j-1] {
					return "allperm_unique", fmt.Sprintf("allPermutations(%v,%v) holds %q twice", fl[0], fl[1], got[j])
				}
			}
		}
	}
	return "", ""
}

func c07Keys(m map[string]*conformancev1.TestCase) []string {
	res := make([]string, 0, len(m))
	for k := range m {
		res = append(res, k)
	}
	sort.Strings(res)
	return res
}

func TestVerifC07Replay(t *testing.T) {
	lines, err := verifutil.ReadLines(verifutil.Env("VERIF_SCN", ""))
	if err != nil {
		t.Fatal(err)
	}
	var casesets map[string][][]any
	if p := verifutil.Env("VERIF_CASESETS", ""); p != "" {
		data, err := os.ReadFile(p)
		if err != nil {
			t.Fatal(err)
		}
		if err := json.Unmarshal(data, &casesets); err != nil {
			t.Fatal(err)
		}
	}
	decoded := map[int][]configCase{}
	for k, v := range casesets {
		cs, err := c07DecodeCases(v)
		if err != nil {
			t.Fatal(err)
		}
		var id int
		fmt.Sscan(k, &id)
		decoded[id] = cs
	}
	out, err := verifutil.NewOut(verifutil.Env("VERIF_OUT", ""))
	if err != nil {
		t.Fatal(err)
	}
	runs := verifutil.EnvInt("VERIF_RUNS", 5)
	var evals, nontrivial, okScn, permsChecked, mismatches int64
	var mu sync.Mutex
	bad := []string{}
	verifutil.ParallelFor(len(lines), verifutil.EnvInt("VERIF_WORKERS", 8), func(i int) {
		var scn c07Scn
		if err := json.Unmarshal(lines[i], &scn); err != nil {
			mu.Lock()
			bad = append(bad, fmt.Sprintf("line %d: %v", i+1, err))
			mu.Unlock()
			return
		}
		cases := decoded[scn.Cs]
		if scn.Cases != nil {
			if cases, err = c07DecodeCases(scn.Cases); err != nil {
				mu.Lock()
				bad = append(bad, fmt.Sprintf("line %d: %v", i+1, err))
				mu.Unlock()
				return
			}
		}
		perms := make([]c07Perm, 0, len(scn.Exp.Perms))
		for _, pt := range scn.Exp.Perms {
			p, err := c07DecodePerm(pt)
			if err != nil {
				mu.Lock()
				bad = append(bad, fmt.Sprintf("line %d: %v", i+1, err))
				mu.Unlock()
				return
			}
			perms = append(perms, p)
		}
		if scn.Exp.K == "ok" {
			atomic.AddInt64(&okScn, 1)
			atomic.AddInt64(&permsChecked, int64(len(perms)))
		}
		if scn.Exp.K == "ok" || !(len(scn.Exp.Errs) == 1 && scn.Exp.Errs[0] == "nocases") {
			atomic.AddInt64(&nontrivial, 1)
		}
		for r := 0; r < runs; r++ {
			kind, detail := c07RunOnce(&scn, cases, perms, &evals)
			if kind == "" {
				continue
			}
			if kind == "harness" {
				mu.Lock()
				bad = append(bad, fmt.Sprintf("line %d: %s", i+1, detail))
				mu.Unlock()
				return
			}
			// reproduce before reporting: schedule (map order) dependent outcomes get up to 20 tries
			repro := 0
			for k := 0; k < 20 && repro < 3; k++ {
				if k2, _ := c07RunOnce(&scn, cases, perms, &evals); k2 == kind {
					repro++
				}
			}
			atomic.AddInt64(&mismatches, 1)
			out.Put(c07Mis{Scn: i, Kind: kind, Detail: detail, Run: r, Repro: repro, ExpK: scn.Exp.K})
			return
		}
	})
	if len(bad) > 0 {
		t.Fatalf("harness problems: %v", bad[:min(len(bad), 5)])
	}
	out.Put(map[string]any{"summary": true, "scenarios": len(lines), "evaluations": evals, "nontrivial": nontrivial,
		"ok_scenarios": okScn, "perms_checked": permsChecked, "mismatches": mismatches, "runs_per_scenario": runs})
	if err := out.Close(); err != nil {
		t.Fatal(err)
	}
}

// ---- code -> spec: recorded executions ----

type c07Obs struct {
	K     string   `json:"k"`
	Err   string   `json:"err"`
	Msg   string   `json:"msg,omitempty"`
	Perms [][]any  `json:"perms"`
	GC    []string `json:"gc"`
	GS    []string `json:"gs"`
	GCS   []string `json:"gcs"`
	Nall  []int    `json:"nall"`
}

type c07Rec struct {
	Src    string     `json:"src"`
	Cfg    string     `json:"cfg"`
	Mode   int        `json:"mode"`
	Wf     bool       `json:"wf"`
	Suites []c07Suite `json:"suites"`
	Cases  [][]any    `json:"cases"`
	Obs    c07Obs     `json:"obs"`
}

func c07Ints[T ~int32](xs []T) []int {
	res := make([]int, len(xs))
	for i, x := range xs {
		res[i] = int(x)
	}
	return res
}

// does the first request message carry a raw response? (own reflection-based reading)
func c07HasRawResponse(tc *conformancev1.TestCase) bool {
	if len(tc.Request.RequestMessages) == 0 {
		return false
	}
	msg, err := tc.Request.RequestMessages[0].UnmarshalNew()
	if err != nil {
		return false
	}
	m := msg.ProtoReflect()
	fd := m.Descriptor().Fields().ByName("response_definition")
	if fd == nil || fd.Kind() != protoreflect.MessageKind || !m.Has(fd) {
		return false
	}
	def := m.Get(fd).Message()
	rd := def.Descriptor().Fields().ByName("raw_response")
	return rd != nil && def.Has(rd)
}

func c07Abstract(suites map[string]*conformancev1.TestSuite) ([]c07Suite, bool, error) {
	files := make([]string, 0, len(suites))
	for f := range suites {
		files = append(files, f)
	}
	sort.Strings(files)
	wf := true
	res := make([]c07Suite, 0, len(files))
	for _, f := range files {
		s := suites[f]
		as := c07Suite{
			Name: strings.Split(s.Name, "/"), Mode: int(s.Mode),
			RelP: c07Ints(s.RelevantProtocols), RelV: c07Ints(s.RelevantHttpVersions),
			RelC: c07Ints(s.RelevantCodecs), RelZ: c07Ints(s.RelevantCompressions),
			Cvm: int(s.ConnectVersionMode), TLS: s.ReliesOnTls, Cert: s.ReliesOnTlsClientCerts,
			Get: s.ReliesOnConnectGet, Lim: s.ReliesOnMessageReceiveLimit, Tests: []c07Test{},
		}
		if s.Name == "" {
			as.Name = []string{}
		}
		for _, seg := range as.Name {
			if seg == "" || seg == "." || seg == ".." {
				wf = false
			}
		}
		for _, tc := range s.TestCases {
			req := tc.Request
			at := c07Test{Name: strings.Split(req.TestName, "/"), St: int(req.StreamType), Svc: req.GetService(), Mth: req.GetMethod(), Raw: "none",
				Expand: len(tc.ExpandRequests) > 0}
			if req.TestName == "" {
				at.Name = []string{}
			}
			for _, seg := range at.Name {
				if seg == "" || seg == "." || seg == ".." {
					wf = false
				}
			}
			rawResp := c07HasRawResponse(tc)
			switch {
			case req.RawRequest != nil && rawResp:
				return nil, false, fmt.Errorf("%s: test %q has both raw request and raw response (outside the abstraction)", f, req.TestName)
			case req.RawRequest != nil:
				at.Raw = "req"
			case rawResp && tc.ExpectedResponse == nil:
				at.Raw = "respnoexp"
			case rawResp:
				at.Raw = "resp"
			}
			at.Pre = req.HttpVersion != 0 || req.Protocol != 0 || req.Codec != 0 || req.Compression != 0 ||
				len(req.ServerTlsCert) > 0 || req.ClientTlsCreds != nil || req.MessageReceiveLimit != 0
			as.Tests = append(as.Tests, at)
		}
		res = append(res, as)
	}
	return res, wf, nil
}

func c07Observe(lib *testCaseLibrary, err error, wf bool) c07Obs {
	obs := c07Obs{K: "ok", Perms: [][]any{}, GC: []string{}, GS: []string{}, GCS: []string{}, Nall: []int{}}
	if err != nil {
		obs.K = "lerr"
		obs.Err = c07Class(err)
		obs.Msg = err.Error()
		return obs
	}
	names := c07Keys(lib.testCases)
	for _, n := range names {
		req := lib.testCases[n].Request
		obs.Perms = append(obs.Perms, []any{n, int(req.HttpVersion), int(req.Protocol), int(req.Codec), int(req.Compression),
			int(req.StreamType), len(req.ServerTlsCert) > 0, req.ClientTlsCreds != nil, req.GetService(), req.GetMethod(),
			int(req.MessageReceiveLimit)})
	}
	if wf {
		all := make([]*conformancev1.TestCase, 0, len(lib.testCases))
		for _, tc := range lib.testCases {
			all = append(all, tc)
		}
		obs.GC = c07NamesOf(lib.filterGRPCImplTestCases(all, true, false))
		obs.GS = c07NamesOf(lib.filterGRPCImplTestCases(all, false, true))
		obs.GCS = c07NamesOf(lib.filterGRPCImplTestCases(all, true, true))
		for _, fl := range [][2]bool{{false, false}, {true, false}, {false, true}, {true, true}} {
			obs.Nall = append(obs.Nall, len(lib.allPermutations(fl[0], fl[1])))
		}
	}
	return obs
}

// groups must partition the library (checked here: the acceptor sees only names and fields)
func c07GroupsOK(lib *testCaseLibrary) string {
	n := 0
	seen := map[*conformancev1.TestCase]bool{}
	for inst, tcs := range lib.casesByServer {
		for _, tc := range tcs {
			if seen[tc] {
				return fmt.Sprintf("%s grouped twice", tc.Request.TestName)
			}
			seen[tc] = true
			if serverInstanceForCase(tc) != inst || lib.testCases[tc.Request.TestName] != tc {
				return fmt.Sprintf("%s grouped under %+v", tc.Request.TestName, inst)
			}
			n++
		}
	}
	if n != len(lib.testCases) {
		return fmt.Sprintf("groups hold %d of %d permutations", n, len(lib.testCases))
	}
	return ""
}

func TestVerifC07Record(t *testing.T) {
	out, err := verifutil.NewOut(verifutil.Env("VERIF_OUT", ""))
	if err != nil {
		t.Fatal(err)
	}
	defer out.Close()
	// 1. the embedded corpus, as run() loads it
	data, err := testsuites.LoadTestSuites()
	if err != nil {
		t.Fatal(err)
	}
	cfgs := strings.Split(verifutil.Env("VERIF_CONFIGS", ""), ",")
	for _, cfgPath := range cfgs {
		var cfgData []byte
		if cfgPath != "" && cfgPath != "default" {
			if cfgData, err = os.ReadFile(cfgPath); err != nil {
				t.Fatal(err)
			}
		}
		cases, err := parseConfig(cfgPath, cfgData)
		if err != nil {
			t.Fatalf("parseConfig(%s): %v", cfgPath, err)
		}
		for mode := 0; mode <= 2; mode++ {
			var first *c07Rec
			for rep := 0; rep < 3; rep++ { // repeated expansion must give the same set
				rec, err := c07RecordCorpus(data, cfgPath, cases, mode)
				if err != nil {
					t.Fatal(err)
				}
				if first == nil {
					first = rec
					out.Put(rec)
					continue
				}
				a, _ := json.Marshal(first.Obs)
				b, _ := json.Marshal(rec.Obs)
				if string(a) != string(b) {
					rec.Src = "corpus-unstable"
					out.Put(rec)
				}
			}
		}
	}
	// 2. seeded random suites beyond the TLC pools
	n := verifutil.EnvInt("VERIF_NRANDOM", 200)
	defaultCases, err := parseConfig("", nil)
	if err != nil {
		t.Fatal(err)
	}
	sort.Slice(defaultCases, func(i, j int) bool { return fmt.Sprint(defaultCases[i]) < fmt.Sprint(defaultCases[j]) })
	rnd := verifutil.Rand(7)
	pick := func(xs []string) string { return xs[rnd.IntN(len(xs))] }
	sseg := []string{"A", "B", "Suite One", "TLS:true", "k:v", "a b", "(x)", "Protocol:PROTOCOL_GRPC", "C-1", "d_e"}
	tseg := []string{"x", "y", "unary", "a b", "k:v", "error-with-responses", "full-duplex", "TLS:false", "z9", "B"}
	relOf := func(max int) []int {
		switch rnd.IntN(10) {
		case 0, 1, 2, 3, 4, 5:
			return []int{}
		case 6, 7:
			return []int{1 + rnd.IntN(max)}
		}
		k := 2 + rnd.IntN(2)
		res := make([]int, k)
		for i := range res {
			res[i] = rnd.IntN(max + 1) // 0 (UNSPECIFIED) and repeats are possible
		}
		return res
	}
	name := func(pool []string) []string {
		k := 1 + rnd.IntN(3)
		res := make([]string, k)
		for i := range res {
			res[i] = pick(pool)
		}
		return res
	}
	for i := 0; i < n; i++ {
		ns := 1 + rnd.IntN(3)
		abs := make([]c07Suite, 0, ns)
		for j := 0; j < ns; j++ {
			s := c07Suite{Name: name(sseg), Mode: max(0, rnd.IntN(5)-2), RelP: relOf(3), RelV: relOf(3), RelC: relOf(3), RelZ: relOf(6), Tests: []c07Test{}}
			if rnd.IntN(4) == 0 {
				s.TLS = true
				s.Cert = rnd.IntN(3) == 0
			}
			if rnd.IntN(8) == 0 {
				s.Get = true
				if rnd.IntN(4) != 0 {
					s.RelP = []int{1}
				}
			}
			s.Lim = rnd.IntN(6) == 0
			if rnd.IntN(10) == 0 {
				s.Cvm = 1 + rnd.IntN(2)
				if rnd.IntN(4) != 0 {
					s.RelP = []int{1}
				}
			}
			if rnd.IntN(40) == 0 {
				s.Cert = true
			}
			nt := 1 + rnd.IntN(8)
			for k := 0; k < nt; k++ {
				at := c07Test{Name: name(tseg), St: 1 + rnd.IntN(5), Raw: "none"}
				switch rnd.IntN(12) {
				case 0:
					at.Svc, at.Mth = "my.Service", "Do"
				case 1:
					if rnd.IntN(10) == 0 {
						at.Svc = "my.Service"
					}
				case 2:
					if rnd.IntN(10) == 0 {
						at.Mth = "Do"
					}
				case 3:
					if s.Mode == 2 {
						at.Raw = "req"
					}
				case 4:
					if s.Mode == 1 {
						at.Raw = "resp"
					}
				case 5:
					at.Pre = true
				case 6:
					if rnd.IntN(20) == 0 {
						at.St = 0
					}
				}
				s.Tests = append(s.Tests, at)
			}
			abs = append(abs, s)
		}
		// a random sub-product of the config-case space (not necessarily feasible)
		sub := func(max int) []int {
			var res []int
			for v := 1; v <= max; v++ {
				if rnd.IntN(4) < 3 {
					res = append(res, v)
				}
			}
			if len(res) == 0 {
				res = []int{1 + rnd.IntN(max)}
			}
			return res
		}
		bools := func() []bool {
			switch rnd.IntN(6) {
			case 0, 1:
				return []bool{false}
			case 2:
				return []bool{true}
			}
			return []bool{false, true}
		}
		var cases []configCase
		vs, ps, cs, zs, ss := sub(3), sub(3), sub(2), sub(4), sub(5)
		ts, ks, gs, ls := bools(), bools(), []bool{false, true}, bools()
		if len(ks) == 1 && ks[0] && rnd.IntN(8) != 0 {
			ks = []bool{false, true}
		}
		if len(ls) == 1 && ls[0] && rnd.IntN(8) != 0 {
			ls = []bool{false, true}
		}
		if rnd.IntN(2) == 0 {
			ts = []bool{false, true}
		}
		for _, v := range vs {
			for _, p := range ps {
				for _, c := range cs {
					for _, z := range zs {
						for _, s := range ss {
							for _, tl := range ts {
								for _, k := range ks {
									for _, g := range gs {
										for _, l := range ls {
											if (k && !tl) || (g && p != 1) || rnd.IntN(10) == 0 {
												continue
											}
											cases = append(cases, configCase{Version: conformancev1.HTTPVersion(v), Protocol: conformancev1.Protocol(p),
												Codec: conformancev1.Codec(c), Compression: conformancev1.Compression(z), StreamType: conformancev1.StreamType(s),
												UseTLS: tl, UseTLSClientCerts: k, UseConnectGET: g, UseMessageReceiveLimit: l})
										}
									}
								}
							}
						}
					}
				}
			}
		}
		if rnd.IntN(3) == 0 { // a realistic set: what the default configuration yields
			cases = append([]configCase{}, defaultCases...)
		}
		if len(cases) > 400 {
			rnd.Shuffle(len(cases), func(a, b int) { cases[a], cases[b] = cases[b], cases[a] })
			cases = cases[:400]
		}
		mode := rnd.IntN(3)
		rec, err := c07RecordAbstract(abs, cases, mode, fmt.Sprint(i))
		if err != nil {
			t.Fatal(err)
		}
		out.Put(rec)
	}
}

func c07RecordCorpus(data map[string][]byte, cfgPath string, cases []configCase, mode int) (*c07Rec, error) {
	suites, err := parseTestSuites(data)
	if err != nil {
		return nil, fmt.Errorf("embedded corpus does not load: %w", err)
	}
	abs, wf, err := c07Abstract(suites)
	if err != nil {
		return nil, err
	}
	lib, err := newTestCaseLibrary(suites, cases, conformancev1.TestSuite_TestMode(mode))
	rec := &c07Rec{Src: "corpus", Cfg: cfgPath, Mode: mode, Wf: wf, Suites: abs, Cases: c07EncodeCases(cases), Obs: c07Observe(lib, err, wf)}
	if err == nil {
		if g := c07GroupsOK(lib); g != "" {
			rec.Obs.K = "badgroups"
			rec.Obs.Msg = g
		}
	}
	return rec, nil
}

func c07RecordAbstract(abs []c07Suite, cases []configCase, mode int, tag string) (*c07Rec, error) {
	files, _, err := c07Files(abs)
	if err != nil {
		return nil, err
	}
	rec := &c07Rec{Src: "random", Cfg: tag, Mode: mode, Wf: true, Suites: abs, Cases: c07EncodeCases(cases)}
	suites, err := parseTestSuites(files)
	if err != nil {
		rec.Obs = c07Obs{K: "perr", Err: c07Class(err), Msg: err.Error(), Perms: [][]any{}, GC: []string{}, GS: []string{}, GCS: []string{}, Nall: []int{}}
		return rec, nil
	}
	lib, err := newTestCaseLibrary(suites, cases, conformancev1.TestSuite_TestMode(mode))
	rec.Obs = c07Observe(lib, err, true)
	if err == nil {
		if g := c07GroupsOK(lib); g != "" {
			rec.Obs.K = "badgroups"
			rec.Obs.Msg = g
		}
	}
	return rec, nil
}

// TestVerifC07Reobserve runs the real code again on the inputs of recorded lines (reproduction, --replay).
func TestVerifC07Reobserve(t *testing.T) {
	lines, err := verifutil.ReadLines(verifutil.Env("VERIF_SCN", ""))
	if err != nil {
		t.Fatal(err)
	}
	out, err := verifutil.NewOut(verifutil.Env("VERIF_OUT", ""))
	if err != nil {
		t.Fatal(err)
	}
	defer out.Close()
	for _, ln := range lines {
		var in c07Rec
		if err := json.Unmarshal(ln, &in); err != nil {
			t.Fatal(err)
		}
		if strings.HasPrefix(in.Src, "corpus") {
			data, err := testsuites.LoadTestSuites()
			if err != nil {
				t.Fatal(err)
			}
			var cfgData []byte
			if in.Cfg != "" && in.Cfg != "default" {
				if cfgData, err = os.ReadFile(in.Cfg); err != nil {
					t.Fatal(err)
				}
			}
			cases, err := parseConfig(in.Cfg, cfgData)
			if err != nil {
				t.Fatal(err)
			}
			rec, err := c07RecordCorpus(data, in.Cfg, cases, in.Mode)
			if err != nil {
				t.Fatal(err)
			}
			out.Put(rec)
			continue
		}
		cases, err := c07DecodeCases(in.Cases)
		if err != nil {
			t.Fatal(err)
		}
		rec, err := c07RecordAbstract(in.Suites, cases, in.Mode, in.Cfg)
		if err != nil {
			t.Fatal(err)
		}
		out.Put(rec)
	}
}
