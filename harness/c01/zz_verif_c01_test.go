package connectconformance

// C01 harness: the runs of `make runconformance` (minus the browser client) executed through the
// in-package run() - same code path as the connectconformance binary, but the per-case outcome
// map is readable - against the built reference / gRPC peer binaries.

import (
	"encoding/json"
	"fmt"
	"os"
	"sort"
	"strings"
	"sync"
	"testing"
	"time"

	"connectrpc.com/conformance/internal/app/connectconformance/testsuites"
	conformancev1 "connectrpc.com/conformance/internal/gen/proto/go/connectrpc/conformance/v1"
	"connectrpc.com/conformance/internal/verifutil"
)

type c01Run struct {
	ID           string   `json:"id"`
	Mode         string   `json:"mode"`
	Config       string   `json:"config"`
	Command      []string `json:"command"`
	KnownFailing []string `json:"knownFailing"`
	Skip         []string `json:"skip"`
	Run          []string `json:"run"`
	Lane         int      `json:"lane"`
	MaxServers   int      `json:"maxServers"`
}

type c01Case struct {
	Fate string `json:"fate"`
	Mark string `json:"mark"`
	Fb   bool   `json:"fb"`
}

type c01Printer struct {
	mu    sync.Mutex
	lines []string
}

func (p *c01Printer) Printf(format string, args ...any) {
	s := fmt.Sprintf(format, args...)
	if strings.HasPrefix(s, "FAILED") || strings.HasPrefix(s, "INFO") || strings.HasPrefix(s, "Total") ||
		strings.HasPrefix(s, "Another") || strings.HasPrefix(s, "(Another") || strings.HasPrefix(s, "Computed") || strings.HasPrefix(s, "Filtered") {
		p.mu.Lock()
		p.lines = append(p.lines, s)
		p.mu.Unlock()
	}
}
func (p *c01Printer) PrefixPrintf(prefix, format string, args ...any) {
	p.mu.Lock()
	p.lines = append(p.lines, "STDERR "+prefix+": "+fmt.Sprintf(format, args...))
	p.mu.Unlock()
}

func TestVerifC01Matrix(t *testing.T) {
	lines, err := verifutil.ReadLines(verifutil.Env("VERIF_SCN", "runs.ndjson"))
	if err != nil {
		t.Fatal(err)
	}
	out, err := verifutil.NewOut(verifutil.Env("VERIF_OUT", "out.ndjson"))
	if err != nil {
		t.Fatal(err)
	}
	defer out.Close()
	data, err := testsuites.LoadTestSuites()
	if err != nil {
		t.Fatal(err)
	}
	// two lanes: the reference pair (large) and the gRPC peers (small) run side by side
	recs := make([]map[string]any, len(lines))
	var lanes [2][]int
	for i, l := range lines {
		var r c01Run
		if err := json.Unmarshal(l, &r); err != nil {
			t.Fatal(err)
		}
		lane := r.Lane
		if lane < 0 || lane > 1 {
			lane = 1
		}
		lanes[lane] = append(lanes[lane], i)
	}
	var wg sync.WaitGroup
	for _, lane := range lanes {
		wg.Add(1)
		go func(idx []int) {
			defer wg.Done()
			for _, i := range idx {
				recs[i] = c01One(lines[i], data)
			}
		}(lane)
	}
	wg.Wait()
	for _, rec := range recs {
		out.Put(rec)
	}
}

func c01One(l json.RawMessage, data map[string][]byte) map[string]any {
	{
		var r c01Run
		if err := json.Unmarshal(l, &r); err != nil {
			return map[string]any{"harness_error": err.Error()}
		}
		rec := map[string]any{"id": r.ID, "mode": r.Mode}
		configCases, err := parseConfig("config.yaml", []byte(r.Config))
		if err != nil {
			rec["harness_error"] = "config: " + err.Error()
			return rec
		}
		allSuites, err := parseTestSuites(data)
		if err != nil {
			rec["harness_error"] = "suites: " + err.Error()
			return rec
		}
		knownFailing := parsePatterns(r.KnownFailing)
		if knownFailing == nil {
			knownFailing = &testTrie{}
		}
		flags := &Flags{Verbose: true, HTTPTrace: true, MaxServers: uint(r.MaxServers), Parallelism: 64, ServerBind: "127.0.0.1"}
		mode := conformancev1.TestSuite_TEST_MODE_SERVER
		if r.Mode == "client" {
			flags.ClientCommand = r.Command
			mode = conformancev1.TestSuite_TEST_MODE_CLIENT
		} else {
			flags.ServerCommand = r.Command
		}
		// expected names: what the library selects for this config and mode (peer-kind filters applied)
		lib, err := newTestCaseLibrary(allSuites, configCases, mode)
		if err != nil {
			rec["harness_error"] = "library: " + err.Error()
			return rec
		}
		skip := parsePatterns(r.Skip)
		runPat := parsePatterns(r.Run)
		filter := newFilter(runPat, skip)
		expected := map[string]bool{}
		for _, tc := range lib.allPermutations(r.Mode == "server", r.Mode == "client") {
			if filter.accept(tc) {
				expected[tc.Request.TestName] = true
			}
		}
		pr := &c01Printer{}
		t0 := time.Now()
		results, runErr := run(configCases, knownFailing, &testTrie{}, parsePatterns(r.Run), skip, allSuites, pr, pr, flags)
		rec["elapsed_s"] = time.Since(t0).Seconds()
		if runErr != nil {
			rec["err"] = runErr.Error()
		}
		if results == nil {
			rec["ok"] = false
			rec["cases"] = []c01Case{}
			rec["namesExact"] = false
			return rec
		}
		ok := results.report(pr) && runErr == nil
		results.mu.Lock()
		names := make([]string, 0, len(results.outcomes))
		for n := range results.outcomes {
			names = append(names, n)
		}
		sort.Strings(names)
		cases := make([]c01Case, 0, len(names))
		var unmet []string
		exact := len(names) == len(expected)
		for _, n := range names {
			o := results.outcomes[n]
			if !expected[n] {
				exact = false
			}
			c := c01Case{Mark: "none"}
			if o.knownFailing {
				c.Mark = "failing"
			} else if o.knownFlaky {
				c.Mark = "flaky"
			}
			switch {
			case o.actualFailure == nil:
				c.Fate = "pass"
			case o.setupError:
				c.Fate = "setupErr"
			default:
				c.Fate = "assertFail"
			}
			if (c.Fate == "pass") != (c.Mark == "none") && len(unmet) < 20 {
				unmet = append(unmet, n+" => "+c.Fate+"/"+c.Mark)
			}
			cases = append(cases, c)
		}
		results.mu.Unlock()
		pr.mu.Lock()
		rec["output"] = append([]string(nil), pr.lines[max(0, len(pr.lines)-12):]...)
		pr.mu.Unlock()
		rec["ok"] = ok
		rec["cases"] = cases
		rec["selected"] = len(expected)
		rec["namesExact"] = exact
		rec["unmet"] = unmet
		fmt.Fprintf(os.Stderr, "c01 run %s: ok=%v cases=%d selected=%d in %.0fs\n", r.ID, ok, len(cases), len(expected), time.Since(t0).Seconds())
		return rec
	}
}
