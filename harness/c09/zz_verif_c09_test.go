package internal

// C09 harness: replays TLC-generated framing scenarios (Gen_Framing) on the real readers, and
// records executions of the real readers over long randomly chunked streams for Trace_Framing.

import (
	"bytes"
	"strings"
	"encoding/binary"
	"encoding/json"
	"errors"
	"fmt"
	"io"
	"reflect"
	"regexp"
	"runtime"
	"strconv"
	"sync"
	"sync/atomic"
	"testing"
	"time"

	conformancev1 "connectrpc.com/conformance/internal/gen/proto/go/connectrpc/conformance/v1"
	"connectrpc.com/conformance/internal/verifutil"
	"google.golang.org/protobuf/proto"
)

type c09Res struct {
	K    string `json:"k"`
	I    *int   `json:"i,omitempty"`
	N    *int   `json:"n,omitempty"`
	Read *int   `json:"read,omitempty"`
	Want *int   `json:"want,omitempty"`
	Ph   string `json:"ph,omitempty"`
	Text string `json:"text,omitempty"`
}

type c09Scn struct {
	Lens       []int           `json:"lens"`
	Avail      int             `json:"avail"`
	End        string          `json:"end"`
	Chunks     [][]interface{} `json:"chunks"`
	Limit      int             `json:"limit"`
	Exp        []c09Res        `json:"exp"`
	ExpNoLimit []c09Res        `json:"expNoLimit"`
	Trickle    bool            `json:"trickle,omitempty"` // stall scenarios: the rest of the stream arrives one byte per 100 ms
}

func c09p(i int) *int { return &i }

// scripted reader: follows the chunk script, then (if script is exhausted) delivers what is left
// and ends with EOF or blocks forever ("stall") until released.
type c09Reader struct {
	data     []byte // exactly the available bytes
	chunks   [][2]int
	ci, pos  int
	end      string
	release  chan struct{}
	scriptOK bool
	pipeSem  bool // io.Pipe semantics: a Read with an empty buffer waits for the next write / close
	maxChunk int // used when the script is exhausted / not applicable (0 = all)
	cyc      []int
	cyci     int
	reads    int
	// trickle: once data is used up the peer is not silent but slow - one more byte every trickleEvery
	trickle      []byte
	trickleEvery time.Duration
	tpos         int
}

func (r *c09Reader) Read(p []byte) (int, error) {
	if len(p) == 0 {
		if !r.pipeSem || r.pos < len(r.data) {
			return 0, nil
		}
		// nothing more will be written: an io.Pipe reader waits for the close (EOF) or for ever
		if r.end == "eof" {
			return 0, io.EOF
		}
		<-r.release
		return 0, errors.New("verif: released stalled reader")
	}
	r.reads++
	if r.ci < len(r.chunks) {
		k, e := r.chunks[r.ci][0], r.chunks[r.ci][1]
		r.ci++
		if k > len(p) || r.pos+k > len(r.data) {
			r.scriptOK = false
			k = min(len(p), len(r.data)-r.pos)
		}
		copy(p, r.data[r.pos:r.pos+k])
		r.pos += k
		if e == 1 {
			return k, io.EOF
		}
		return k, nil
	}
	if r.pos < len(r.data) {
		k := len(r.data) - r.pos
		if len(r.cyc) > 0 {
			c := r.cyc[r.cyci%len(r.cyc)]
			r.cyci++
			if c == 0 {
				return 0, nil // an empty read: allowed by io.Reader ("does not indicate EOF"), what an io.Pipe hands out for an empty write
			}
			if c < 1 {
				c = 1
			}
			k = min(k, c)
		}
		k = min(k, len(p))
		copy(p, r.data[r.pos:r.pos+k])
		r.pos += k
		return k, nil
	}
	if r.end == "eof" {
		return 0, io.EOF
	}
	if r.tpos < len(r.trickle) {
		select {
		case <-r.release:
			return 0, errors.New("verif: released trickling reader")
		case <-time.After(r.trickleEvery):
		}
		p[0] = r.trickle[r.tpos]
		r.tpos++
		return 1, nil
	}
	<-r.release
	return 0, errors.New("verif: released stalled reader")
}

var (
	c09ReTimeoutD = regexp.MustCompile(`^timed out waiting for result from (\S+): read (\d+)/(\d+) bytes of (length prefix|message)$`)
	c09ReTimeout  = regexp.MustCompile(`^timed out waiting for result from (\S+)$`)
	c09ReTooLarge = regexp.MustCompile(`^(\S+) result indicates message size of (\d+) bytes, but should not exceed (\d+)$`)
)

func c09Classify(err error, limit int) c09Res {
	switch {
	case errors.Is(err, io.ErrUnexpectedEOF):
		return c09Res{K: "UnexpectedEOF"}
	case errors.Is(err, io.EOF):
		return c09Res{K: "EOF"}
	}
	s := err.Error()
	if m := c09ReTimeoutD.FindStringSubmatch(s); m != nil && m[1] == "src" {
		a, _ := strconv.Atoi(m[2])
		b, _ := strconv.Atoi(m[3])
		return c09Res{K: "Timeout", Read: &a, Want: &b, Ph: m[4]}
	}
	if m := c09ReTimeout.FindStringSubmatch(s); m != nil && m[1] == "src" {
		return c09Res{K: "Timeout", Read: c09p(0), Want: c09p(4), Ph: "none"}
	}
	if m := c09ReTooLarge.FindStringSubmatch(s); m != nil && m[1] == "src" {
		n, _ := strconv.Atoi(m[2])
		l, _ := strconv.Atoi(m[3])
		if l == limit {
			return c09Res{K: "TooLarge", N: &n}
		}
	}
	return c09Res{K: "Other", Text: s}
}

// body of message i (1-based) with abstract length n; proto-parseable for n in {0,2,3,...}.
func c09Body(i, n int) []byte {
	v := byte(i%100 + 1)
	switch {
	case n == 0:
		return nil
	case n == 1:
		return []byte{0x78}
	case n == 2:
		return []byte{0x78, v} // unknown varint field 15
	case n == 3:
		return []byte{0x78, 0x80 | v, 0x01}
	default:
		// test_name (field 1, string) of the right length: n = 1 (tag) + len(varint(l)) + l;
		// sizes that no single string reaches get an unknown varint field (2 bytes) in front
		for _, hdr := range []int{2, 3, 4} {
			l := n - hdr
			if l >= 0 && 1+len(binary.AppendUvarint(nil, uint64(l))) == hdr {
				b := make([]byte, 0, n)
				b = append(b, 0x0a)
				b = binary.AppendUvarint(b, uint64(l))
				for j := 0; j < l; j++ {
					b = append(b, byte('a'+(i+j)%26))
				}
				return b
			}
		}
		return append(c09Body(i, n-2), 0x78, 0x01)
	}
}

func c09Stream(lens []int) ([]byte, [][]byte) {
	var buf bytes.Buffer
	bodies := make([][]byte, len(lens))
	for i, n := range lens {
		b := c09Body(i+1, n)
		if len(b) != n {
			panic(fmt.Sprintf("c09Body(%d,%d) has length %d", i+1, n, len(b)))
		}
		bodies[i] = b
		var p [4]byte
		binary.BigEndian.PutUint32(p[:], uint32(n))
		buf.Write(p[:])
		buf.Write(b)
	}
	return buf.Bytes(), bodies
}

func c09Chunks(s *c09Scn) [][2]int {
	res := make([][2]int, 0, len(s.Chunks))
	for _, c := range s.Chunks {
		k := int(c[0].(float64))
		e := 0
		if b, ok := c[1].(bool); ok && b {
			e = 1
		}
		res = append(res, [2]int{k, e})
	}
	return res
}

const c09StallTimeout = 150 * time.Millisecond

type c09Run struct {
	Obs      []c09Res
	ScriptOK bool
	Elapsed  time.Duration // of the final (failing) call
	Note     string
}

// variant "raw": timeoutDelimitedReader.readDelimitedMessageRaw
// variant "msg": ReadDelimitedMessage into a ClientCompatResponse
// variant "dec": protoDecoder.DecodeNext (no limit)
func c09Execute(variant string, s *c09Scn, stream []byte, bodies [][]byte, useScript bool, cyc []int) c09Run {
	rd := &c09Reader{data: stream[:s.Avail], end: s.End, release: make(chan struct{}), scriptOK: true, cyc: cyc}
	if useScript {
		rd.chunks = c09Chunks(s)
	}
	if s.Trickle {
		rd.trickle, rd.trickleEvery = stream[s.Avail:], 100*time.Millisecond
	}
	pipe := strings.HasSuffix(variant, "pipe")
	if pipe {
		// the runner reads its peers through io.Pipe: a Read with an empty buffer does not return
		// until the other side writes or closes
		rd.pipeSem = true
		variant = strings.TrimSuffix(variant, "pipe")
	}
	var relOnce sync.Once
	release := func() { relOnce.Do(func() { close(rd.release) }) }
	defer release()
	timeout := 30 * time.Second
	if s.End == "stall" {
		timeout = c09StallTimeout
	}
	var run c09Run
	var dec StreamDecoder
	v0 := variant
	if variant == "dec" {
		dec = NewCodec(false).NewDecoder(rd)
	}
	for i := 1; ; i++ {
		var data []byte
		var err error
		t0 := time.Now()
		if s.End == "stall" && variant != "dec" {
			// watchdog: the call must return within the configured period (plus slack)
			type res struct {
				data []byte
				err  error
			}
			ch := make(chan res, 1)
			v := variant
			go func() {
				if v == "raw" {
					r := timeoutDelimitedReader{in: rd, source: "src", timeout: timeout, maxSize: s.Limit, readDone: make(chan struct{})}
					d, e := r.readDelimitedMessageRaw()
					ch <- res{d, e}
					return
				}
				var msg conformancev1.ClientCompatResponse
				e := ReadDelimitedMessage(rd, &msg, "src", timeout, s.Limit)
				var d []byte
				if e == nil {
					d, e = proto.Marshal(&msg)
				}
				ch <- res{d, e}
			}()
			select {
			case r := <-ch:
				data, err = r.data, r.err
			case <-time.After(timeout + 5*time.Second):
				run.Obs = append(run.Obs, c09Res{K: "Hang", Text: "call did not return within timeout+5s"})
				release()
				<-ch
				run.ScriptOK = true
				return run
			}
			variant = "watched"
		}
		switch variant {
		case "watched":
			variant = v0
		case "raw":
			r := timeoutDelimitedReader{in: rd, source: "src", timeout: timeout, maxSize: s.Limit, readDone: make(chan struct{})}
			data, err = r.readDelimitedMessageRaw()
		case "msg":
			var msg conformancev1.ClientCompatResponse
			err = ReadDelimitedMessage(rd, &msg, "src", timeout, s.Limit)
			if err == nil {
				data, err = proto.Marshal(&msg)
				if err != nil {
					err = fmt.Errorf("verif: remarshal: %w", err)
				}
			}
		case "dec":
			var msg conformancev1.ClientCompatResponse
			err = dec.DecodeNext(&msg)
			if err == nil {
				data, err = proto.Marshal(&msg)
				if err != nil {
					err = fmt.Errorf("verif: remarshal: %w", err)
				}
			}
		}
		el := time.Since(t0)
		if err != nil {
			run.Obs = append(run.Obs, c09Classify(err, s.Limit))
			run.Elapsed = el
			break
		}
		n := len(data)
		if i > len(bodies) || !bytes.Equal(data, bodies[i-1]) {
			run.Obs = append(run.Obs, c09Res{K: "WrongMsg", I: &i, N: &n, Text: fmt.Sprintf("%x", data)})
			break
		}
		ii := i
		run.Obs = append(run.Obs, c09Res{K: "Msg", I: &ii, N: &n})
		if i > len(bodies)+1 {
			break
		}
	}
	run.ScriptOK = rd.scriptOK && (!useScript || rd.ci == len(rd.chunks))
	return run
}

func c09Equal(a, b []c09Res) bool { return reflect.DeepEqual(a, b) }

func c09ProtoOK(exp []c09Res) bool {
	for _, r := range exp {
		if r.K == "Msg" && *r.N == 1 {
			return false
		}
	}
	return true
}

type c09Mismatch struct {
	Variant  string   `json:"variant"`
	Scn      *c09Scn  `json:"scn"`
	Obs      []c09Res `json:"obs"`
	Exp      []c09Res `json:"exp"`
	ScriptOK bool     `json:"script_ok"`
	Note     string   `json:"note,omitempty"`
	Repro    int      `json:"repro"`
}

// JSON variant: same message count and cut class, JSON text stream.
func c09JSON(s *c09Scn, cyc []int, rnd func(n int) int) (obs []c09Res, exp []c09Res, ok bool) {
	if s.End != "eof" {
		return nil, nil, false
	}
	e := s.ExpNoLimit
	term := e[len(e)-1].K
	nmsg := len(e) - 1
	var buf bytes.Buffer
	var msgs []*conformancev1.ClientCompatResponse
	enc := NewCodec(true).NewEncoder(&buf)
	ends := []int{}
	for i := 0; i < len(s.Lens); i++ {
		m := &conformancev1.ClientCompatResponse{TestName: fmt.Sprintf("t%d/%d", i, s.Lens[i])}
		if s.Lens[i] == 0 {
			m = &conformancev1.ClientCompatResponse{}
		}
		msgs = append(msgs, m)
		if err := enc.Encode(m); err != nil {
			return nil, nil, false
		}
		ends = append(ends, buf.Len())
	}
	all := buf.Bytes()
	var cut int
	switch term {
	case "EOF":
		if nmsg == 0 {
			cut = 0
		} else {
			cut = ends[nmsg-1] - rnd(2) // with or without the trailing newline
		}
	case "UnexpectedEOF":
		start := 0
		if nmsg > 0 {
			start = ends[nmsg-1]
		}
		// strictly inside the text of message nmsg+1 (excluding its closing brace and newline)
		textLen := ends[nmsg] - 1 - start
		if textLen < 2 {
			return nil, nil, false
		}
		cut = start + 1 + rnd(textLen-1)
	default:
		return nil, nil, false
	}
	rd := &c09Reader{data: all[:cut], end: "eof", release: make(chan struct{}), scriptOK: true, cyc: cyc}
	dec := NewCodec(true).NewDecoder(rd)
	for i := 1; i <= len(msgs)+1; i++ {
		var m conformancev1.ClientCompatResponse
		err := dec.DecodeNext(&m)
		if err != nil {
			if errors.Is(err, io.EOF) && !errors.Is(err, io.ErrUnexpectedEOF) {
				obs = append(obs, c09Res{K: "EOF"})
			} else {
				obs = append(obs, c09Res{K: "UnexpectedEOF"}) // class: non-EOF error
			}
			break
		}
		ii := i
		if i > len(msgs) || !proto.Equal(&m, msgs[i-1]) {
			obs = append(obs, c09Res{K: "WrongMsg", I: &ii})
			break
		}
		obs = append(obs, c09Res{K: "Msg", I: &ii})
	}
	for i := 1; i <= nmsg; i++ {
		ii := i
		exp = append(exp, c09Res{K: "Msg", I: &ii})
	}
	exp = append(exp, c09Res{K: term})
	return obs, exp, true
}

func TestVerifC09Replay(t *testing.T) {
	lines, err := verifutil.ReadLines(verifutil.Env("VERIF_SCN", "scn.ndjson"))
	if err != nil {
		t.Fatal(err)
	}
	out, err := verifutil.NewOut(verifutil.Env("VERIF_OUT", "out.ndjson"))
	if err != nil {
		t.Fatal(err)
	}
	defer out.Close()
	maxStall := verifutil.EnvInt("VERIF_MAX_STALL", 400)
	scns := make([]*c09Scn, len(lines))
	for i, l := range lines {
		var s c09Scn
		if err := json.Unmarshal(l, &s); err != nil {
			t.Fatalf("line %d: %v", i, err)
		}
		scns[i] = &s
	}
	// choose which stall scenarios run (each costs the real timeout)
	rnd := verifutil.Rand(9)
	stallIdx := []int{}
	for i, s := range scns {
		if s.End == "stall" {
			stallIdx = append(stallIdx, i)
		}
	}
	rnd.Shuffle(len(stallIdx), func(a, b int) { stallIdx[a], stallIdx[b] = stallIdx[b], stallIdx[a] })
	runStall := map[int]bool{}
	for j, i := range stallIdx {
		if j < maxStall {
			runStall[i] = true
		}
	}
	var evals, skipped, nontrivial, stalls int64
	var byVariant sync.Map
	count := func(v string) {
		c, _ := byVariant.LoadOrStore(v, new(int64))
		atomic.AddInt64(c.(*int64), 1)
	}
	var rmu sync.Mutex
	workers := runtime.NumCPU() * 4
	verifutil.ParallelFor(len(scns), workers, func(i int) {
		s := scns[i]
		if s.End == "stall" && !runStall[i] {
			atomic.AddInt64(&skipped, 1)
			return
		}
		stream, bodies := c09Stream(s.Lens)
		if len(s.Exp) > 1 || s.Exp[0].K != "EOF" || len(s.Chunks) > 1 {
			atomic.AddInt64(&nontrivial, 1)
		}
		if s.End == "stall" {
			atomic.AddInt64(&stalls, 1)
		}
		check := func(variant string, exp []c09Res) {
			run := c09Execute(variant, s, stream, bodies, true, nil)
			atomic.AddInt64(&evals, 1)
			count(variant)
			bad := !c09Equal(run.Obs, exp) || !run.ScriptOK
			note := ""
			if !bad && s.End == "stall" && exp[len(exp)-1].K == "Timeout" {
				if run.Elapsed < c09StallTimeout || run.Elapsed > 10*time.Second {
					bad, note = true, fmt.Sprintf("timeout reported after %v (configured %v)", run.Elapsed, c09StallTimeout)
				}
			}
			if bad {
				// reproduce twice more
				repro := 1
				for k := 0; k < 2; k++ {
					r2 := c09Execute(variant, s, stream, bodies, true, nil)
					if !c09Equal(r2.Obs, exp) || !r2.ScriptOK {
						repro++
					}
				}
				out.Put(c09Mismatch{Variant: variant, Scn: s, Obs: run.Obs, Exp: exp, ScriptOK: run.ScriptOK, Note: note, Repro: repro})
			}
		}
		{
			// encoder binding: the real writer must produce exactly the stream the readers are fed
			var eb bytes.Buffer
			for _, b := range bodies {
				if err := writeDelimitedMessageRaw(&eb, b); err != nil {
					out.Put(map[string]any{"variant": "enc", "scn": s, "obs": err.Error(), "repro": 3})
				}
			}
			atomic.AddInt64(&evals, 1)
			count("enc")
			if !bytes.Equal(eb.Bytes(), stream) {
				out.Put(map[string]any{"variant": "enc", "scn": s, "obs": fmt.Sprintf("%x", eb.Bytes()), "exp": fmt.Sprintf("%x", stream), "repro": 3})
			}
		}
		check("raw", s.Exp)
		if s.End == "stall" {
			check("rawpipe", s.Exp)
		}
		if c09ProtoOK(s.Exp) {
			check("msg", s.Exp)
		}
		if s.End == "eof" && c09ProtoOK(s.ExpNoLimit) {
			check("dec", s.ExpNoLimit)
		}
		if s.End == "eof" {
			cyc := []int{}
			for _, c := range c09Chunks(s) {
				cyc = append(cyc, c[0])
			}
			rmu.Lock()
			seed := rnd.IntN(1 << 30)
			rmu.Unlock()
			lr := verifutil.Rand(uint64(seed))
			obs, exp, ok := c09JSON(s, cyc, func(n int) int { return lr.IntN(n) })
			if ok {
				atomic.AddInt64(&evals, 1)
				count("json")
				if !c09Equal(obs, exp) {
					out.Put(c09Mismatch{Variant: "json", Scn: s, Obs: obs, Exp: exp, ScriptOK: true, Repro: 3})
				}
			}
		}
	})
	// allocation check: an absurd prefix must be rejected without allocating the announced size
	for _, pre := range []uint32{0xFFFFFFFF, 0x80000000, 16*1024*1024 + 1} {
		var p [4]byte
		binary.BigEndian.PutUint32(p[:], pre)
		var before, after runtime.MemStats
		runtime.GC()
		runtime.ReadMemStats(&before)
		var msg conformancev1.ClientCompatResponse
		err := ReadDelimitedMessage(io.MultiReader(bytes.NewReader(p[:]), bytes.NewReader(make([]byte, 64))), &msg, "src", time.Second, 16*1024*1024)
		runtime.ReadMemStats(&after)
		evals++
		got := c09Res{K: "nil"}
		if err != nil {
			got = c09Classify(err, 16*1024*1024)
		}
		alloc := after.TotalAlloc - before.TotalAlloc
		if got.K != "TooLarge" || alloc > 8*1024*1024 {
			out.Put(map[string]any{"variant": "alloc", "prefix": pre, "obs": got, "alloc": alloc, "repro": 3})
		}
	}
	bv := map[string]int64{}
	byVariant.Range(func(k, v any) bool { bv[k.(string)] = *v.(*int64); return true })
	out.Put(map[string]any{"summary": true, "scenarios": len(scns), "evaluations": evals, "stall_skipped": skipped,
		"stall_run": stalls, "nontrivial": nontrivial, "by_variant": bv})
}

// TestVerifC09Record: long streams of real runner messages, random chunkings / cuts, real
// readers; one line per execution for Trace_Framing.
func TestVerifC09Record(t *testing.T) {
	out, err := verifutil.NewOut(verifutil.Env("VERIF_OUT", "trace.ndjson"))
	if err != nil {
		t.Fatal(err)
	}
	defer out.Close()
	n := verifutil.EnvInt("VERIF_N", 2000)
	nStall := verifutil.EnvInt("VERIF_MAX_STALL", 100)
	type rec struct {
		Variant string   `json:"variant"`
		Lens    []int    `json:"lens"`
		Avail   int      `json:"avail"`
		End     string   `json:"end"`
		Limit   int      `json:"limit"`
		NChunks int      `json:"nchunks"`
		Obs     []c09Res `json:"obs"`
	}
	verifutil.ParallelFor(n, runtime.NumCPU()*2, func(i int) {
		r := verifutil.Rand(uint64(1000 + i))
		nm := r.IntN(7)
		lens := make([]int, nm)
		limit := 64 + r.IntN(5000)
		for j := range lens {
			switch r.IntN(6) {
			case 0:
				lens[j] = 0
			case 1:
				lens[j] = 2 + r.IntN(3)
			case 2:
				lens[j] = limit + r.IntN(3) - 1 // limit-1, limit, limit+1
			default:
				lens[j] = 4 + r.IntN(limit)
			}
			if lens[j] == 1 {
				lens[j] = 2
			}
		}
		stream, bodies := c09Stream(lens)
		avail := len(stream)
		if r.IntN(3) > 0 && len(stream) > 0 {
			// bias cuts towards unit boundaries
			if r.IntN(2) == 0 {
				avail = r.IntN(len(stream) + 1)
			} else {
				pos := 0
				cands := []int{0}
				for _, l := range lens {
					cands = append(cands, pos+1, pos+3, pos+4, pos+4+l/2, pos+4+l-1, pos+4+l)
					pos += 4 + l
				}
				avail = cands[r.IntN(len(cands))]
				if avail < 0 || avail > len(stream) {
					avail = len(stream)
				}
			}
		}
		end := "eof"
		if i < nStall {
			end = "stall"
		}
		cyc := make([]int, 1+r.IntN(6))
		for j := range cyc {
			switch r.IntN(4) {
			case 0:
				cyc[j] = 1
			case 1:
				cyc[j] = 1 + r.IntN(5)
			default:
				cyc[j] = 1 + r.IntN(limit)
			}
		}
		s := &c09Scn{Lens: lens, Avail: avail, End: end, Limit: limit}
		variants := []string{"raw", "msg"}
		for _, v := range variants {
			run := c09Execute(v, s, stream, bodies, false, cyc)
			out.Put(rec{Variant: v, Lens: lens, Avail: avail, End: end, Limit: limit, NChunks: len(cyc), Obs: run.Obs})
		}
		if end == "eof" {
			s2 := &c09Scn{Lens: lens, Avail: avail, End: end, Limit: 2147483647}
			run := c09Execute("dec", s2, stream, bodies, false, cyc)
			out.Put(rec{Variant: "dec", Lens: lens, Avail: avail, End: end, Limit: 2147483647, Obs: run.Obs})
		}
	})
}

// TestVerifC09Sweep: the Gen_Framing behaviours keep message sizes small (TLC enumerates chunkings, not
// sizes); this driver instantiates the simplest behaviour - a complete stream of two messages, then a
// clean end - for every first-message size in a dense range plus the neighbourhoods of powers of two,
// and runs it through the writer and every reader.  Decode of such a stream is Msg(1) Msg(2) EOF.
func TestVerifC09Sweep(t *testing.T) {
	out, err := verifutil.NewOut(verifutil.Env("VERIF_OUT", "sweep.ndjson"))
	if err != nil {
		t.Fatal(err)
	}
	defer out.Close()
	dense := verifutil.EnvInt("VERIF_DENSE", 9000)
	sizes := []int{}
	for n := 0; n <= dense; n++ {
		sizes = append(sizes, n)
	}
	for k := 13; k <= 21; k++ {
		for d := -5; d <= 5; d++ {
			if n := 1<<k + d; n > dense {
				sizes = append(sizes, n)
			}
		}
	}
	var evals int64
	verifutil.ParallelFor(len(sizes), runtime.NumCPU(), func(ix int) {
		n := sizes[ix]
		lens := []int{n, 3}
		stream, bodies := c09Stream(lens)
		one, two, n2 := 1, 2, 3
		nn := n
		exp := []c09Res{{K: "Msg", I: &one, N: &nn}, {K: "Msg", I: &two, N: &n2}, {K: "EOF"}}
		s := &c09Scn{Lens: lens, Avail: len(stream), End: "eof", Limit: 16 * 1024 * 1024, Exp: exp, ExpNoLimit: exp}
		var eb bytes.Buffer
		for _, b := range bodies {
			if err := writeDelimitedMessageRaw(&eb, b); err != nil {
				out.Put(map[string]any{"variant": "enc", "scn": s, "obs": err.Error(), "repro": 3})
			}
		}
		atomic.AddInt64(&evals, 1)
		if !bytes.Equal(eb.Bytes(), stream) {
			o, e := eb.Bytes(), stream
			at := 0
			for at < len(o) && at < len(e) && o[at] == e[at] {
				at++
			}
			out.Put(map[string]any{"variant": "enc", "scn": s, "obs": fmt.Sprintf("%d bytes, first difference at %d", len(o), at),
				"exp": fmt.Sprintf("%d bytes", len(e)), "repro": 3})
		}
		// the typed writer on the same message
		var m conformancev1.ClientCompatResponse
		if n != 1 && proto.Unmarshal(bodies[0], &m) == nil {
			var tb bytes.Buffer
			err := WriteDelimitedMessage(&tb, &m)
			atomic.AddInt64(&evals, 1)
			if err != nil || !bytes.Equal(tb.Bytes(), stream[:4+n]) {
				out.Put(map[string]any{"variant": "encmsg", "scn": s, "obs": fmt.Sprintf("err=%v, %d bytes written", err, tb.Len()),
					"exp": fmt.Sprintf("%d bytes", 4+n), "repro": 3})
			}
		}
		variants := []string{"raw"}
		if c09ProtoOK(exp) {
			variants = append(variants, "msg", "dec")
		}
		for _, v := range variants {
			for _, cyc := range [][]int{nil, {3, 4096}, {511, 1, 513}, {0, 2, 0, 4096}} {
				run := c09Execute(v, s, stream, bodies, false, cyc)
				atomic.AddInt64(&evals, 1)
				if !c09Equal(run.Obs, exp) {
					out.Put(c09Mismatch{Variant: v, Scn: s, Obs: run.Obs, Exp: exp, ScriptOK: true, Note: "size sweep", Repro: 3})
				}
			}
		}
	})
	out.Put(map[string]any{"summary": true, "scenarios": len(sizes), "evaluations": evals})
}


// TestVerifC09Trickle: "a stalled peer yields a timeout error within the configured period" - the period is a
// budget for the whole message, so a peer that is not silent but too slow (one byte every 100 ms, period 150 ms,
// at least 60 bytes missing) is stalled in the sense of the statement: the call must end with the timeout error
// within the period plus slack, after the messages that were complete.  How many bytes the error reports depends
// on timing and is only bounded from below.
func TestVerifC09Trickle(t *testing.T) {
	out, err := verifutil.NewOut(verifutil.Env("VERIF_OUT", "trickle.ndjson"))
	if err != nil {
		t.Fatal(err)
	}
	defer out.Close()
	type scn struct {
		lens  []int
		avail int
	}
	var scns []scn
	for _, pre := range [][]int{{}, {5}} {
		off := 0
		for _, n := range pre {
			off += 4 + n
		}
		lens := append(append([]int{}, pre...), 70)
		for _, cut := range []int{0, 1, 3, 4, 5, 9} { // bytes of the last message (prefix + body) that arrive at once
			scns = append(scns, scn{lens, off + cut})
		}
	}
	var evals int64
	verifutil.ParallelFor(len(scns), len(scns), func(i int) {
		sc := scns[i]
		stream, bodies := c09Stream(sc.lens)
		for _, variant := range []string{"raw", "msg"} {
			s := &c09Scn{Lens: sc.lens, Avail: sc.avail, End: "stall", Limit: 16 * 1024 * 1024, Trickle: true}
			bad := func(run c09Run) string {
				n := len(sc.lens) - 1
				if len(run.Obs) != n+1 {
					return fmt.Sprintf("%d results, %d complete messages and a timeout required", len(run.Obs), n)
				}
				for k := 0; k < n; k++ {
					if run.Obs[k].K != "Msg" || *run.Obs[k].I != k+1 {
						return fmt.Sprintf("result %d is not message %d", k+1, k+1)
					}
				}
				last := run.Obs[n]
				if last.K != "Timeout" {
					return "the call on the slow message ended with " + last.K + ", a timeout is required"
				}
				if run.Elapsed > c09StallTimeout+3*time.Second {
					return fmt.Sprintf("timeout reported after %v (configured %v)", run.Elapsed, c09StallTimeout)
				}
				return ""
			}
			run := c09Execute(variant, s, stream, bodies, false, nil)
			atomic.AddInt64(&evals, 1)
			if why := bad(run); why != "" {
				repro := 1
				for k := 0; k < 2; k++ {
					if bad(c09Execute(variant, s, stream, bodies, false, nil)) != "" {
						repro++
					}
				}
				out.Put(c09Mismatch{Variant: variant, Scn: s, Obs: run.Obs, ScriptOK: true, Note: "slow peer: " + why, Repro: repro})
			}
		}
	})
	out.Put(map[string]any{"summary": true, "scenarios": len(scns), "evaluations": evals})
}
