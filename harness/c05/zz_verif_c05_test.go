package connectconformance

// C05 harness: end-to-end runs of the real run() with the reference peers wrapped as OS processes
// (harness/peers).  The wrappers report, through one synchronous sequencer, when a server is up
// (instance, address), every request the client receives (name, address, instance, probe of the
// address, test-name header) and when a server is told to stop.  The plan (selected permutations
// grouped by server instance, in start order) is computed with the runner's own library code.

import (
	"bufio"
	"encoding/json"
	"fmt"
	"net"
	"os"
	"path/filepath"
	"runtime"
	"sort"
	"strings"
	"sync"
	"testing"
	"time"

	"connectrpc.com/conformance/internal/app/connectconformance/testsuites"
	conformancev1 "connectrpc.com/conformance/internal/gen/proto/go/connectrpc/conformance/v1"
	"connectrpc.com/conformance/internal/verifutil"
)

type c05Scn struct {
	Config     string   `json:"config"` // YAML text
	Run        []string `json:"run"`
	Skip       []string `json:"skip"`
	MaxServers int      `json:"maxServers"`
	Par        int      `json:"par"`
	ServerFail bool     `json:"serverFail"` // the server under test fails to start (every batch)
	SrvFault   string   `json:"srvFault"`   // wrapper fault spec (overrides ServerFail): none:<ms> | failstart:1 | garbage:<ms> | slowstop:<ms>
	CliFault   string   `json:"cliFault"`   // client wrapper fault spec: "" / none | garbageAfterResp:<k> | exitAfterResp:<k>:<code>
}

type c05Batch struct {
	Inst  string   `json:"inst"`
	Cases []string `json:"cases"`
}

type c05Out struct {
	Scn        c05Scn           `json:"scn"`
	Plan       []c05Batch       `json:"plan"`
	MaxServers int              `json:"maxServers"`
	Events     []map[string]any `json:"events"`
	Err        string           `json:"err,omitempty"`
	Hang       bool             `json:"hang,omitempty"`
	Elapsed    float64          `json:"elapsed_s"`
}

type c05Seq struct {
	mu     sync.Mutex
	events []map[string]any
}

func (s *c05Seq) serve(l net.Listener) {
	for {
		conn, err := l.Accept()
		if err != nil {
			return
		}
		go func() {
			defer conn.Close()
			rd := bufio.NewReader(conn)
			for {
				line, err := rd.ReadBytes('\n')
				if err != nil {
					return
				}
				var m map[string]any
				if json.Unmarshal(line, &m) == nil {
					s.mu.Lock()
					s.events = append(s.events, m)
					s.mu.Unlock()
				}
				if _, err := conn.Write([]byte("ok\n")); err != nil {
					return
				}
			}
		}()
	}
}

func c05Inst(si serverInstance) string {
	return fmt.Sprintf("p%d/v%d/tls=%v/cert=%v", int(si.protocol), int(si.httpVersion), si.useTLS, si.useTLSClientCerts)
}

func c05RunOne(dir string, id int, scn c05Scn) (out c05Out) {
	out.Scn = scn
	out.MaxServers = scn.MaxServers
	base := filepath.Join(dir, fmt.Sprintf("r%d", id))
	_ = os.MkdirAll(base, 0o755)
	sock := filepath.Join(base, "s")
	l, err := net.Listen("unix", sock)
	if err != nil {
		out.Err = "harness: " + err.Error()
		return out
	}
	defer l.Close()
	seq := &c05Seq{}
	go seq.serve(l)

	configCases, err := parseConfig("config.yaml", []byte(scn.Config))
	if err != nil {
		out.Err = "harness: config: " + err.Error()
		return out
	}
	data, err := testsuites.LoadTestSuites()
	if err != nil {
		out.Err = "harness: " + err.Error()
		return out
	}
	allSuites, err := parseTestSuites(data)
	if err != nil {
		out.Err = "harness: " + err.Error()
		return out
	}
	runPat, skipPat := parsePatterns(scn.Run), parsePatterns(scn.Skip)
	// the plan, with the library's own code (selection itself is the subject of C06-C08)
	lib, err := newTestCaseLibrary(allSuites, configCases, conformancev1.TestSuite_TEST_MODE_UNSPECIFIED)
	if err != nil {
		out.Err = "harness: library: " + err.Error()
		return out
	}
	filter := newFilter(parsePatterns(scn.Run), parsePatterns(scn.Skip))
	for _, si := range serverInstancesSlice(lib, true) {
		cases := filter.apply(lib.filterGRPCImplTestCases(lib.casesByServer[si], false, false))
		if len(cases) == 0 {
			continue
		}
		b := c05Batch{Inst: c05Inst(si)}
		for _, tc := range cases {
			b.Cases = append(b.Cases, tc.Request.TestName)
		}
		sort.Strings(b.Cases)
		out.Plan = append(out.Plan, b)
	}
	srvFault := "none"
	if scn.ServerFail {
		srvFault = "failstart:1"
	}
	if scn.SrvFault != "" {
		srvFault = scn.SrvFault
	}
	cliFault := "none"
	if scn.CliFault != "" {
		cliFault = scn.CliFault
	}
	flags := &Flags{
		Verbose:       true, // batches are started in sorted instance order
		MaxServers:    uint(scn.MaxServers),
		Parallelism:   uint(scn.Par),
		ClientCommand: []string{os.Args[0], "verif-helper", "refclient", cliFault, filepath.Join(base, "client.log"), sock},
		ServerCommand: []string{os.Args[0], "verif-helper", "refserver", srvFault, filepath.Join(base, "server.log"), sock},
	}
	pr := &c05Printer{}
	type ret struct {
		res *testResults
		err error
	}
	ch := make(chan ret, 1)
	t0 := time.Now()
	go func() {
		res, err := run(configCases, &testTrie{}, &testTrie{}, runPat, skipPat, allSuites, pr, pr, flags)
		ch <- ret{res, err}
	}()
	var r ret
	select {
	case r = <-ch:
	case <-time.After(4 * time.Minute):
		out.Hang = true
		return out
	}
	out.Elapsed = time.Since(t0).Seconds()
	if r.err != nil {
		out.Err = r.err.Error()
	}
	seq.mu.Lock()
	out.Events = append([]map[string]any(nil), seq.events...)
	seq.mu.Unlock()
	fin := map[string]any{"e": "Finish", "outcomes": []string{}, "setup": []string{}, "failed": []string{}}
	if r.res != nil {
		r.res.mu.Lock()
		var names, setup, failed []string
		for name, o := range r.res.outcomes {
			names = append(names, name)
			if o.setupError {
				setup = append(setup, name)
			} else if o.actualFailure != nil {
				failed = append(failed, name)
			}
		}
		r.res.mu.Unlock()
		sort.Strings(names)
		sort.Strings(setup)
		sort.Strings(failed)
		if names == nil {
			names = []string{}
		}
		if setup == nil {
			setup = []string{}
		}
		if failed == nil {
			failed = []string{}
		}
		fin["outcomes"], fin["setup"], fin["failed"] = names, setup, failed
	}
	out.Events = append(out.Events, fin)
	return out
}

type c05Printer struct{ mu sync.Mutex }

func (p *c05Printer) Printf(string, ...any)               {}
func (p *c05Printer) PrefixPrintf(string, string, ...any) {}

func TestVerifC05Run(t *testing.T) {
	lines, err := verifutil.ReadLines(verifutil.Env("VERIF_SCN", "scn.ndjson"))
	if err != nil {
		t.Fatal(err)
	}
	out, err := verifutil.NewOut(verifutil.Env("VERIF_OUT", "out.ndjson"))
	if err != nil {
		t.Fatal(err)
	}
	defer out.Close()
	dir := verifutil.Env("VERIF_DIR", t.TempDir())
	res := make([]c05Out, len(lines))
	verifutil.ParallelFor(len(lines), max(2, runtime.NumCPU()/4), func(i int) {
		var s c05Scn
		if err := json.Unmarshal(lines[i], &s); err != nil {
			res[i] = c05Out{Err: "harness: " + err.Error()}
			return
		}
		res[i] = c05RunOne(dir, i, s)
	})
	for _, r := range res {
		out.Put(r)
	}
	_ = strings.TrimSpace
}
