package connectconformance

// Reference-mode leg of C05: with no commands given, run() tests the reference client and server
// against each other in process and adds the grpc-go peers, whose permutations carry marked names.
// The harness records the names of all permutations (marked ones included), the --run / --skip
// patterns and the names that got an outcome; Trace_Select accepts the record iff the outcomes are
// exactly the permutations that GlobDecl's Selected picks.

import (
	"encoding/json"
	"fmt"
	"net"
	"os"
	"sort"
	"strings"
	"sync/atomic"
	"testing"
	"time"

	"connectrpc.com/conformance/internal/app/connectconformance/testsuites"
	conformancev1 "connectrpc.com/conformance/internal/gen/proto/go/connectrpc/conformance/v1"
	"connectrpc.com/conformance/internal/verifutil"
)

type c05RefScn struct {
	Config string   `json:"config"`
	Run    []string `json:"run"`
	Skip   []string `json:"skip"`
	// FixedPort: run with --port (a port that is free right now) and --max-servers 1, as the command line does
	// when a port is given: the servers of both kinds (reference and grpc-go) take turns on the one port, so a
	// second server alive at the same time cannot bind and its permutations become setup failures
	FixedPort bool `json:"fixedPort"`
	// "@unmarked" / "@marked:<marker>" in Run or Skip is replaced by the first (sorted) full name of
	// that kind under Basic/
}

var c05PortSeq atomic.Int64

type c05RefOut struct {
	Scn      c05RefScn `json:"scn"`
	Names    []string  `json:"names"`
	Run      []string  `json:"run"`
	Skip     []string  `json:"skip"`
	Outcomes []string  `json:"outcomes"`
	Setup    []string  `json:"setup"` // permutations recorded as setup failures
	Port     int       `json:"port,omitempty"`
	Err      string    `json:"err,omitempty"`
	Hang     bool      `json:"hang,omitempty"`
	// gRPC-peer permutations whose name is not "the name of the permutation it was derived from, with one marker
	// element in front of the test case's own name", or that is issued twice
	Misnamed []string `json:"misnamed"`
}

// a suite as --test-file could supply it: test cases called like the suite itself and like a piece of an
// earlier name element (names only have to be unique within the suite)
const c05EchoSuite = `
name: Echo
testCases:
- request:
    testName: Echo
    streamType: STREAM_TYPE_UNARY
    requestMessages:
    - "@type": type.googleapis.com/connectrpc.conformance.v1.UnaryRequest
      responseDefinition:
        responseData: "dGVzdCByZXNwb25zZQ=="
- request:
    testName: Protocol
    streamType: STREAM_TYPE_UNARY
    requestMessages:
    - "@type": type.googleapis.com/connectrpc.conformance.v1.UnaryRequest
      responseDefinition:
        responseData: "dGVzdCByZXNwb25zZQ=="
        responseTrailers:
        - name: x-custom-trailer
          value: ["bing"]
`

func c05RefOne(scn c05RefScn) (out c05RefOut) {
	out.Scn = scn
	out.Names, out.Run, out.Skip, out.Outcomes, out.Setup = []string{}, []string{}, []string{}, []string{}, []string{}
	configCases, err := parseConfig("config.yaml", []byte(scn.Config))
	if err != nil {
		out.Err = "harness: config: " + err.Error()
		return out
	}
	data, err := testsuites.LoadTestSuites()
	if err != nil {
		out.Err = "harness: " + err.Error()
		return out
	}
	data["zz_verif_echo.yaml"] = []byte(c05EchoSuite)
	allSuites, err := parseTestSuites(data)
	if err != nil {
		out.Err = "harness: " + err.Error()
		return out
	}
	lib, err := newTestCaseLibrary(allSuites, configCases, conformancev1.TestSuite_TEST_MODE_UNSPECIFIED)
	if err != nil {
		out.Err = "harness: library: " + err.Error()
		return out
	}
	for _, tc := range lib.allPermutations(true, true) {
		out.Names = append(out.Names, tc.Request.TestName)
	}
	sort.Strings(out.Names)
	out.Misnamed = []string{}
	issued := map[string]bool{}
	for _, n := range out.Names {
		if issued[n] {
			out.Misnamed = append(out.Misnamed, n+" (issued twice)")
		}
		issued[n] = true
		for _, marker := range []string{grpcImplMarker, grpcClientImplMarker, grpcServerImplMarker} {
			if !strings.Contains(n, "/"+marker+"/") && !strings.HasPrefix(n, marker+"/") {
				continue
			}
			ok := false
			for base, simple := range lib.testCaseNames {
				if n == strings.TrimSuffix(base, simple)+marker+"/"+simple {
					ok = true
					break
				}
			}
			if !ok {
				out.Misnamed = append(out.Misnamed, n)
			}
			break
		}
	}
	resolve := func(pats []string) []string {
		res := []string{}
		for _, p := range pats {
			switch {
			case p == "@unmarked":
				for _, n := range out.Names {
					if strings.HasPrefix(n, "Basic/") && !strings.Contains(n, "(grpc") && strings.Contains(n, "PROTOCOL_GRPC/") {
						p = n
						break
					}
				}
			case strings.HasPrefix(p, "@marked:"):
				marker := strings.TrimPrefix(p, "@marked:")
				for _, n := range out.Names {
					if strings.HasPrefix(n, "Basic/") && strings.Contains(n, "/"+marker+"/") {
						p = n
						break
					}
				}
			}
			res = append(res, p)
		}
		return res
	}
	out.Run, out.Skip = resolve(scn.Run), resolve(scn.Skip)
	flags := &Flags{Verbose: true, MaxServers: 4, Parallelism: 8, ServerBind: "127.0.0.1"}
	if scn.FixedPort {
		// below the kernel's ephemeral range, so that no client socket of a concurrent run can be given it
		for try := 0; try < 200 && out.Port == 0; try++ {
			p := 21000 + (os.Getpid()*131+int(c05PortSeq.Add(1))*17+try)%1000
			if l, err := net.Listen("tcp", fmt.Sprintf("127.0.0.1:%d", p)); err == nil {
				_ = l.Close()
				out.Port = p
			}
		}
		if out.Port == 0 {
			out.Err = "harness: no free port"
			return out
		}
		flags.MaxServers, flags.ServerPort = 1, uint(out.Port)
	}
	pr := &c05Printer{}
	type ret struct {
		res *testResults
		err error
	}
	ch := make(chan ret, 1)
	go func() {
		res, err := run(configCases, &testTrie{}, &testTrie{}, parsePatterns(out.Run), parsePatterns(out.Skip), allSuites, pr, pr, flags)
		ch <- ret{res, err}
	}()
	var r ret
	select {
	case r = <-ch:
	case <-time.After(4 * time.Minute):
		out.Hang = true
		return out
	}
	if r.err != nil {
		out.Err = r.err.Error()
	}
	if r.res != nil {
		r.res.mu.Lock()
		for name, o := range r.res.outcomes {
			out.Outcomes = append(out.Outcomes, name)
			if o.setupError {
				out.Setup = append(out.Setup, name)
			}
		}
		sort.Strings(out.Setup)
		r.res.mu.Unlock()
		sort.Strings(out.Outcomes)
	}
	return out
}

func TestVerifC05RefMode(t *testing.T) {
	lines, err := verifutil.ReadLines(verifutil.Env("VERIF_SCN", "scn.ndjson"))
	if err != nil {
		t.Fatal(err)
	}
	out, err := verifutil.NewOut(verifutil.Env("VERIF_OUT", "out.ndjson"))
	if err != nil {
		t.Fatal(err)
	}
	defer out.Close()
	res := make([]c05RefOut, len(lines))
	verifutil.ParallelFor(len(lines), 4, func(i int) {
		var s c05RefScn
		if err := json.Unmarshal(lines[i], &s); err != nil {
			res[i] = c05RefOut{Err: "harness: " + err.Error()}
			return
		}
		res[i] = c05RefOne(s)
	})
	for _, r := range res {
		out.Put(r)
	}
}
