package connectconformance

// C12 harness, runner side: the expectation headers (x-expect-*, x-test-case-name) are added by
// runTestCasesForServer (server_runner.go).  For every expected tuple E printed by the
// specification (with RefChecksDecl!ExpectHeaders(E)) one test case is pushed through the real
// runTestCasesForServer with a fake server process and a fake client, and the headers on the
// request handed to the client are compared with the specification's.

import (
	"bytes"
	"context"
	"encoding/json"
	"fmt"
	"strings"
	"sync/atomic"
	"testing"

	"connectrpc.com/conformance/internal"
	conformancev1 "connectrpc.com/conformance/internal/gen/proto/go/connectrpc/conformance/v1"
	"connectrpc.com/conformance/internal/verifutil"
)

type c12rScn struct {
	Reqs []struct {
		E struct {
			Ver    int    `json:"ver"`
			Method string `json:"method"`
			Proto  int    `json:"proto"`
			Codec  int    `json:"codec"`
			Comp   int    `json:"comp"`
			TLS    bool   `json:"tls"`
			Cert   bool   `json:"cert"`
		} `json:"e"`
		X map[string]string `json:"x"`
	} `json:"reqs"`
}

func TestVerifC12Runner(t *testing.T) {
	lines, err := verifutil.ReadLines(verifutil.Env("VERIF_SCN", ""))
	if err != nil {
		t.Fatal(err)
	}
	out, err := verifutil.NewOut(verifutil.Env("VERIF_OUT", ""))
	if err != nil {
		t.Fatal(err)
	}
	defer out.Close()
	var mismatches, machinery atomic.Int64
	headerOf := map[string]string{"version": "x-expect-http-version", "method": "x-expect-http-method",
		"protocol": "x-expect-protocol", "codec": "x-expect-codec", "compression": "x-expect-compression",
		"tls": "x-expect-tls", "cert": "x-expect-client-cert"}
	verifutil.ParallelFor(len(lines), 8, func(n int) {
		var scn c12rScn
		if err := json.Unmarshal(lines[n], &scn); err != nil || len(scn.Reqs) != 1 {
			machinery.Add(1)
			out.Put(map[string]any{"machinery": fmt.Sprintf("bad scenario line %d: %v", n+1, err)})
			return
		}
		exp := scn.Reqs[0].E
		name := fmt.Sprintf("Verif Suite/case-%d", n)
		want := map[string]string{"x-test-case-name": name}
		for k, v := range scn.Reqs[0].X {
			if v != "none" {
				want[headerOf[k]] = v
			}
		}
		run := func() (map[string]string, error) {
			svrResp := &conformancev1.ServerCompatResponse{Host: "127.0.0.1", Port: 12345}
			if exp.TLS {
				svrResp.PemCert = []byte("-----BEGIN CERTIFICATE-----\nverif\n-----END CERTIFICATE-----\n")
			}
			var respBuf, svrReq bytes.Buffer
			if err := internal.WriteDelimitedMessage(&respBuf, svrResp); err != nil {
				return nil, err
			}
			testCase := &conformancev1.TestCase{
				Request: &conformancev1.ClientCompatRequest{
					TestName:         name,
					HttpVersion:      conformancev1.HTTPVersion(exp.Ver),
					Protocol:         conformancev1.Protocol(exp.Proto),
					Codec:            conformancev1.Codec(exp.Codec),
					Compression:      conformancev1.Compression(exp.Comp),
					UseGetHttpMethod: exp.Method == "GET",
					RequestHeaders:   []*conformancev1.Header{{Name: "x-user-header", Value: []string{"kept"}}},
				},
				ExpectedResponse: &conformancev1.ClientResponseResult{},
			}
			meta := serverInstance{protocol: testCase.Request.Protocol, httpVersion: testCase.Request.HttpVersion,
				useTLS: exp.TLS, useTLSClientCerts: exp.Cert}
			var clientCreds *conformancev1.TLSCreds
			if exp.Cert {
				clientCreds = &conformancev1.TLSCreds{Cert: []byte("cert"), Key: []byte("key")}
			}
			client := &fakeClient{responses: map[string]*conformancev1.ClientCompatResponse{
				name: {TestName: name, Result: &conformancev1.ClientCompatResponse_Response{Response: testCase.ExpectedResponse}},
			}}
			results := newResults(1, &testTrie{}, &testTrie{}, nil)
			runTestCasesForServer(context.Background(), false, true, meta, []*conformancev1.TestCase{testCase},
				&conformancev1.TLSCreds{Cert: []byte("c"), Key: []byte("k")}, clientCreds,
				newFakeProcess(&svrReq, bytes.NewReader(respBuf.Bytes()), strings.NewReader("")),
				discardPrinter{}, discardPrinter{}, results, client, nil, false)
			if len(client.actualRequests) != 1 {
				return nil, fmt.Errorf("runner sent %d requests to the client", len(client.actualRequests))
			}
			got := map[string]string{}
			for _, h := range client.actualRequests[0].RequestHeaders {
				if h.Name == "x-user-header" {
					continue
				}
				if _, dup := got[h.Name]; dup {
					got[h.Name] += "," + strings.Join(h.Value, ",")
				} else {
					got[h.Name] = strings.Join(h.Value, ",")
				}
			}
			return got, nil
		}
		same := func(got map[string]string) bool {
			if len(got) != len(want) {
				return false
			}
			for k, v := range want {
				if got[k] != v {
					return false
				}
			}
			return true
		}
		got, err := run()
		if err != nil {
			machinery.Add(1)
			out.Put(map[string]any{"machinery": err.Error(), "line": n + 1})
			return
		}
		if same(got) {
			return
		}
		repro := 0
		for k := 0; k < 3; k++ {
			if again, err := run(); err == nil && !same(again) {
				repro++
			}
		}
		mismatches.Add(1)
		out.Put(map[string]any{"e": exp, "obs": got, "exp": want, "repro": repro})
	})
	out.Put(map[string]any{"summary": true, "scenarios": len(lines), "mismatches": mismatches.Load(), "machinery": machinery.Load()})
}
