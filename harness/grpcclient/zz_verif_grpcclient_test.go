package grpcclient

// Harness for RefClient.tla, second implementation of the same loop: the real grpcclient.Run (grpc-go
// reference client) over synchronous pipes against a gate
// server whose handlers answer only when told to.  The harness is the environment (offers
// requests, lets RPCs be answered, reads responses, closes stdin / stdout) and logs the observable
// events; Trace_RefClient explains each log with the client's steps silent.

import (
	"bytes"
	"context"
	"encoding/json"
	"errors"
	"fmt"
	"io"
	"net"
	"net/http"
	"net/http/httptest"
	"runtime"
	"strconv"
	"sync"
	"sync/atomic"
	"testing"
	"time"

	"connectrpc.com/conformance/internal"
	conformancev1 "connectrpc.com/conformance/internal/gen/proto/go/connectrpc/conformance/v1"
	"connectrpc.com/conformance/internal/gen/proto/go/connectrpc/conformance/v1/conformancev1connect"
	"connectrpc.com/conformance/internal/verifutil"
	"connectrpc.com/connect"
	"golang.org/x/net/http2"
	"golang.org/x/net/http2/h2c"
	"google.golang.org/protobuf/types/known/anypb"
)

type rcEvent struct {
	E  string `json:"e"`
	I  *int   `json:"i,omitempty"`
	Ok *bool  `json:"ok,omitempty"`
	R  string `json:"r,omitempty"`
}

type rcLog struct {
	mu     sync.Mutex
	events []rcEvent
}

func (l *rcLog) put(e rcEvent) {
	l.mu.Lock()
	l.events = append(l.events, e)
	l.mu.Unlock()
}

func rcI(i int) *int   { return &i }
func rcB(b bool) *bool { return &b }

type rcGate struct {
	conformancev1connect.UnimplementedConformanceServiceHandler
	log     *rcLog
	mu      sync.Mutex
	gates   map[int]chan struct{}
	arrived map[int]bool
	cond    *sync.Cond
	open    bool // answer at once (batch driver)
}

func (g *rcGate) gate(i int) chan struct{} {
	g.mu.Lock()
	defer g.mu.Unlock()
	ch := g.gates[i]
	if ch == nil {
		ch = make(chan struct{})
		g.gates[i] = ch
	}
	return ch
}

func (g *rcGate) Unary(ctx context.Context, req *connect.Request[conformancev1.UnaryRequest]) (*connect.Response[conformancev1.UnaryResponse], error) {
	i, _ := strconv.Atoi(req.Header().Get("x-verif-index"))
	if g.open {
		return connect.NewResponse(&conformancev1.UnaryResponse{Payload: &conformancev1.ConformancePayload{Data: []byte("ok")}}), nil
	}
	ch := g.gate(i)
	g.log.put(rcEvent{E: "Arrive", I: rcI(i)})
	g.mu.Lock()
	g.arrived[i] = true
	g.cond.Broadcast()
	g.mu.Unlock()
	select {
	case <-ch:
	case <-ctx.Done():
		return nil, ctx.Err()
	}
	return connect.NewResponse(&conformancev1.UnaryResponse{Payload: &conformancev1.ConformancePayload{Data: []byte("ok")}}), nil
}

func (g *rcGate) waitArrived(i int, d time.Duration) bool {
	deadline := time.Now().Add(d)
	g.mu.Lock()
	defer g.mu.Unlock()
	for !g.arrived[i] {
		if time.Now().After(deadline) {
			return false
		}
		g.mu.Unlock()
		time.Sleep(time.Millisecond)
		g.mu.Lock()
	}
	return true
}

type rcResult struct {
	Events   []rcEvent `json:"events"`
	Schedule [][]any   `json:"schedule"`
	Hang     string    `json:"hang,omitempty"`
	P        int       `json:"p"`
	N        int       `json:"n"`
}

func rcRun(p, n int, sched [][]any) rcResult {
	log := &rcLog{}
	res := rcResult{Schedule: sched, P: p, N: n}
	g := &rcGate{log: log, gates: map[int]chan struct{}{}, arrived: map[int]bool{}}
	g.cond = sync.NewCond(&g.mu)
	mux := http.NewServeMux()
	mux.Handle(conformancev1connect.NewConformanceServiceHandler(g))
	srv := httptest.NewServer(h2c.NewHandler(mux, &http2.Server{}))
	defer srv.Close()
	host, portStr, _ := net.SplitHostPort(srv.Listener.Addr().String())
	port, _ := strconv.Atoi(portStr)

	inR, inW := io.Pipe()
	outR, outW := io.Pipe()
	ctx, cancel := context.WithCancel(context.Background())
	defer cancel()
	runDone := make(chan struct{})
	go func() {
		err := Run(ctx, []string{"grpcclient", "-p", strconv.Itoa(p)}, inR, rcSlowWriter{outW}, rcDiscard{})
		r := "ok"
		if err != nil {
			r = "err"
		}
		log.put(rcEvent{E: "RunRet", R: r})
		_ = inR.Close()
		_ = outW.Close()
		close(runDone)
	}()

	mkReq := func(i int) *conformancev1.ClientCompatRequest {
		msg, _ := anypb.New(&conformancev1.UnaryRequest{})
		return &conformancev1.ClientCompatRequest{
			TestName: fmt.Sprintf("t%d", i), HttpVersion: conformancev1.HTTPVersion_HTTP_VERSION_2,
			Protocol: conformancev1.Protocol_PROTOCOL_GRPC, Codec: conformancev1.Codec_CODEC_PROTO,
			Compression: conformancev1.Compression_COMPRESSION_IDENTITY, Host: host, Port: uint32(port),
			Service: rcStr("connectrpc.conformance.v1.ConformanceService"), Method: rcStr("Unary"),
			StreamType:      conformancev1.StreamType_STREAM_TYPE_UNARY,
			RequestHeaders:  []*conformancev1.Header{{Name: "x-verif-index", Value: []string{strconv.Itoa(i)}}},
			RequestMessages: []*anypb.Any{msg},
		}
	}
	offered, answered := 0, map[int]bool{}
	stdinClosed, stdoutClosed := false, false
	var offerBusy, drainBusy chan struct{}
	var corrupt atomic.Bool // a read from stdout failed although the client is still running
	soft := func(ch chan struct{}) {
		if ch == nil {
			return
		}
		select {
		case <-ch:
		case <-time.After(100 * time.Millisecond):
		}
	}
	offer := func() {
		if stdinClosed || offered >= n {
			return
		}
		if offerBusy != nil {
			select {
			case <-offerBusy:
			default:
				return // the previous offer is still blocked: the client is not reading
			}
		}
		offered++
		i := offered
		done := make(chan struct{})
		offerBusy = done
		log.put(rcEvent{E: "OfferCall"})
		go func() {
			err := internal.WriteDelimitedMessage(inW, mkReq(i))
			log.put(rcEvent{E: "OfferRet", Ok: rcB(err == nil)})
			close(done)
		}()
		soft(done)
	}
	drain := func() {
		if stdoutClosed {
			return
		}
		if drainBusy != nil {
			select {
			case <-drainBusy:
			default:
				return
			}
		}
		done := make(chan struct{})
		drainBusy = done
		log.put(rcEvent{E: "DrainCall"})
		go func() {
			var resp conformancev1.ClientCompatResponse
			err := internal.ReadDelimitedMessage(outR, &resp, "client", time.Hour, 1<<24)
			i := 0
			if err == nil {
				fmt.Sscanf(resp.TestName, "t%d", &i)
			}
			if i == 0 {
				select {
				case <-runDone:
				default:
					corrupt.Store(true)
				}
			}
			log.put(rcEvent{E: "DrainRet", I: rcI(i)})
			close(done)
		}()
		soft(done)
	}
	answer := func(i int) {
		if answered[i] || !g.waitArrived(i, 150*time.Millisecond) {
			return
		}
		answered[i] = true
		log.put(rcEvent{E: "Answer", I: rcI(i)})
		close(g.gate(i))
	}
	closeStdin := func() {
		if stdinClosed {
			return
		}
		if offerBusy != nil {
			select {
			case <-offerBusy:
			default:
				return // a write is in flight; closing now would not be the modelled step
			}
		}
		stdinClosed = true
		log.put(rcEvent{E: "CloseStdin"})
		_ = inW.Close()
	}
	closeStdout := func() {
		if stdoutClosed {
			return
		}
		if drainBusy != nil {
			select {
			case <-drainBusy:
			default:
				return
			}
		}
		stdoutClosed = true
		log.put(rcEvent{E: "CloseStdout"})
		_ = outR.Close()
	}
	for _, st := range sched {
		switch st[0].(string) {
		case "O":
			offer()
		case "A":
			answer(int(st[1].(float64)))
		case "D":
			drain()
		case "CI":
			closeStdin()
		case "CO":
			closeStdout()
		}
	}
	// epilogue: let the client finish - no more input, answer everything that arrives, read everything
	deadline := time.Now().Add(20 * time.Second)
	for {
		select {
		case <-runDone:
		default:
		}
		finished := false
		select {
		case <-runDone:
			finished = true
		default:
		}
		if finished {
			break
		}
		if time.Now().After(deadline) {
			res.Hang = "Run did not return after stdin was closed, every RPC answered and stdout drained"
			break
		}
		closeStdin()
		for i := 1; i <= offered; i++ {
			if !answered[i] {
				g.mu.Lock()
				arr := g.arrived[i]
				g.mu.Unlock()
				if arr {
					answer(i)
				}
			}
		}
		if corrupt.Load() {
			closeStdout() // what came out of stdout was not a response: nothing more can be read from it
		} else {
			drain()
		}
		runtime.Gosched()
	}
	// let pending offer / drain goroutines log their return
	if offerBusy != nil {
		soft(offerBusy)
	}
	if drainBusy != nil {
		soft(drainBusy)
	}
	for i := range g.gates {
		if !answered[i] {
			answered[i] = true
			close(g.gates[i])
		}
	}
	log.mu.Lock()
	res.Events = append([]rcEvent(nil), log.events...)
	log.mu.Unlock()
	return res
}

func rcStr(s string) *string { return &s }

var (
	rcBatchVersion  = conformancev1.HTTPVersion_HTTP_VERSION_2
	rcBatchProtocol = conformancev1.Protocol_PROTOCOL_GRPC
)

func rcBatchServer(h http.Handler) *httptest.Server {
	return httptest.NewServer(h2c.NewHandler(h, &http2.Server{}))
}

func TestVerifGrpcClient(t *testing.T) {
	lines, err := verifutil.ReadLines(verifutil.Env("VERIF_SCN", "scn.ndjson"))
	if err != nil {
		t.Fatal(err)
	}
	out, err := verifutil.NewOut(verifutil.Env("VERIF_OUT", "trace.ndjson"))
	if err != nil {
		t.Fatal(err)
	}
	defer out.Close()
	p, n := verifutil.EnvInt("VERIF_P", 2), verifutil.EnvInt("VERIF_NREQ", 4)
	results := make([]rcResult, len(lines))
	verifutil.ParallelFor(len(lines), runtime.NumCPU(), func(i int) {
		var s struct {
			Hist [][]any `json:"hist"`
		}
		if err := json.Unmarshal(lines[i], &s); err != nil {
			results[i] = rcResult{Hang: "harness: " + err.Error()}
			return
		}
		r := rcRun(p, n, s.Hist)
		if r.Hang != "" {
			k := 1
			for j := 0; j < 2; j++ {
				if r2 := rcRun(p, n, s.Hist); r2.Hang != "" {
					k++
				}
			}
			if k < 3 {
				r.Hang = "UNREPRODUCED " + r.Hang
			}
		}
		results[i] = r
	})
	for _, r := range results {
		out.Put(r)
	}
}

// rcSlowWriter is stdout as a slow consumer sees it: after the length prefix of a response has
// been taken, the writer is held up for a moment before it can go on with the body, so that a
// second goroutine writing at the same time - if the client allowed one - gets in between.
type rcSlowWriter struct{ w io.WriteCloser }

func (s rcSlowWriter) Write(p []byte) (int, error) {
	n, err := s.w.Write(p)
	if len(p) == 4 {
		time.Sleep(time.Millisecond)
	}
	return n, err
}
func (s rcSlowWriter) Close() error { return s.w.Close() }

type rcDiscard struct{}

func (rcDiscard) Write(p []byte) (int, error) { return len(p), nil }
func (rcDiscard) Close() error                { return nil }

// TestVerifRefClientBatch: the requests arrive as a stream whose bytes are split across reads in the ways the
// framing property quantifies over - also several messages in one read - in the binary and in the JSON variant:
// Run must read back exactly the sequence that was written (every request answered once) and end cleanly.
func TestVerifGrpcClientBatch(t *testing.T) {
	out, err := verifutil.NewOut(verifutil.Env("VERIF_OUT", "batch.ndjson"))
	if err != nil {
		t.Fatal(err)
	}
	defer out.Close()
	log := &rcLog{}
	g := &rcGate{log: log, gates: map[int]chan struct{}{}, arrived: map[int]bool{}, open: true}
	g.cond = sync.NewCond(&g.mu)
	mux := http.NewServeMux()
	mux.Handle(conformancev1connect.NewConformanceServiceHandler(g))
	srv := rcBatchServer(mux)
	defer srv.Close()
	host, portStr, _ := net.SplitHostPort(srv.Listener.Addr().String())
	port, _ := strconv.Atoi(portStr)
	const n = 6
	n_ := 0
	for _, useJSON := range []bool{false, true} {
		codec := internal.NewCodec(useJSON)
		var stream bytes.Buffer
		enc := codec.NewEncoder(&stream)
		var ends []int
		for i := 1; i <= n; i++ {
			if err := enc.Encode(rcBatchReq(i, host, port)); err != nil {
				t.Fatal(err)
			}
			ends = append(ends, stream.Len())
		}
		all := stream.Bytes()
		splits := map[string][]int{
			"one read spanning all messages": {len(all)},
			"reads spanning two messages":    {ends[1], ends[3] - ends[1], ends[5] - ends[3]},
			"one message per read":           {ends[0], ends[1] - ends[0], ends[2] - ends[1], ends[3] - ends[2], ends[4] - ends[3], ends[5] - ends[4]},
			"reads cut inside messages":      {ends[0] - 3, 7, ends[2] - ends[0] - 4, len(all) - ends[2]},
			"one byte per read":              nil,
		}
		for name, sizes := range splits {
			n_++
			in := &rcChunkReader{data: all, sizes: sizes}
			var stdout bytes.Buffer
			args := []string{"client", "-p", "3"}
			if useJSON {
				args = append(args, "-json")
			}
			done := make(chan error, 1)
			go func() { done <- Run(context.Background(), args, in, rcNopWriteCloser{&stdout}, rcDiscard{}) }()
			var runErr error
			hang := false
			select {
			case runErr = <-done:
			case <-time.After(60 * time.Second):
				hang = true
			}
			got := map[string]int{}
			problems := []string{}
			if hang {
				problems = append(problems, "Run did not return within 60 s")
			} else {
				if runErr != nil {
					problems = append(problems, "Run returned an error although the input was a complete sequence: "+runErr.Error())
				}
				dec := codec.NewDecoder(&stdout)
				for {
					var resp conformancev1.ClientCompatResponse
					if err := dec.DecodeNext(&resp); err != nil {
						if !errors.Is(err, io.EOF) {
							problems = append(problems, "stdout is not a sequence of responses: "+err.Error())
						}
						break
					}
					if resp.GetError() != nil {
						problems = append(problems, resp.TestName+": "+resp.GetError().GetMessage())
					}
					got[resp.TestName]++
				}
				for i := 1; i <= n; i++ {
					if got[fmt.Sprintf("t%d", i)] != 1 {
						problems = append(problems, fmt.Sprintf("request t%d answered %d times", i, got[fmt.Sprintf("t%d", i)]))
					}
				}
				if len(got) > n {
					problems = append(problems, fmt.Sprintf("%d distinct names answered, %d requested", len(got), n))
				}
			}
			if len(problems) > 0 {
				out.Put(map[string]any{"kind": "batch", "json": useJSON, "split": name, "problems": problems})
			}
		}
	}
	out.Put(map[string]any{"summary": true, "runs": n_})
}

type rcChunkReader struct {
	data  []byte
	sizes []int // nil: one byte per read
	i     int
}

func (r *rcChunkReader) Read(p []byte) (int, error) {
	if len(r.data) == 0 {
		return 0, io.EOF
	}
	k := 1
	if r.sizes != nil {
		if r.i < len(r.sizes) {
			k = r.sizes[r.i]
		} else {
			k = len(r.data)
		}
	}
	if k > len(r.data) {
		k = len(r.data)
	}
	if k > len(p) {
		k = len(p) // the rest of this chunk comes with the next read
		if r.sizes != nil && r.i < len(r.sizes) {
			r.sizes[r.i] -= k
			r.i--
		}
	}
	copy(p, r.data[:k])
	r.data = r.data[k:]
	r.i++
	return k, nil
}
func (r *rcChunkReader) Close() error { return nil }

type rcNopWriteCloser struct{ io.Writer }

func (rcNopWriteCloser) Close() error { return nil }

func rcBatchReq(i int, host string, port int) *conformancev1.ClientCompatRequest {
	msg, _ := anypb.New(&conformancev1.UnaryRequest{})
	return &conformancev1.ClientCompatRequest{
		TestName: fmt.Sprintf("t%d", i), HttpVersion: rcBatchVersion, Protocol: rcBatchProtocol,
		Codec: conformancev1.Codec_CODEC_PROTO, Compression: conformancev1.Compression_COMPRESSION_IDENTITY, Host: host, Port: uint32(port),
		Service: rcStr("connectrpc.conformance.v1.ConformanceService"), Method: rcStr("Unary"),
		StreamType:      conformancev1.StreamType_STREAM_TYPE_UNARY,
		RequestHeaders:  []*conformancev1.Header{{Name: "x-verif-index", Value: []string{strconv.Itoa(i)}}},
		RequestMessages: []*anypb.Any{msg},
	}
}
