package connectconformance

// C04 harness (report level): every TLC-generated assignment of fate x marking x feedback is
// materialised on a real testResults through its real API, report() is called, and the verdict,
// the named cases and the printed totals are returned for comparison with Verdict.tla.

import (
	"encoding/json"
	"errors"
	"fmt"
	"regexp"
	"runtime"
	"strconv"
	"strings"
	"sync"
	"testing"

	conformancev1 "connectrpc.com/conformance/internal/gen/proto/go/connectrpc/conformance/v1"
	"connectrpc.com/conformance/internal/verifutil"
)

type c04Case struct {
	Fate string `json:"fate"`
	Mark string `json:"mark"`
	Fb   bool   `json:"fb"`
}

type c04Scn struct {
	Cases       []c04Case `json:"cases"`
	Success     bool      `json:"success"`
	Passed      int       `json:"passed"`
	Failed      int       `json:"failed"`
	Expected    int       `json:"expected"`
	NoRun       int       `json:"noRun"`
	NamedFailed []bool    `json:"namedFailed"`
	NamedInfo   []bool    `json:"namedInfo"`
}

type c04Printer struct {
	mu    sync.Mutex
	lines []string
}

func (p *c04Printer) Printf(format string, args ...any) {
	p.mu.Lock()
	defer p.mu.Unlock()
	p.lines = append(p.lines, fmt.Sprintf(format, args...))
}
func (p *c04Printer) PrefixPrintf(prefix, format string, args ...any) {
	p.Printf(prefix+": "+format, args...)
}

var (
	c04ReFailed  = regexp.MustCompile(`^FAILED: (\S+)`)
	c04ReInfo    = regexp.MustCompile(`^INFO: (\S+) failed \(as expected\)`)
	c04ReTotals  = regexp.MustCompile(`^Total cases: (\d+)\n(\d+) passed, (\d+) failed`)
	c04ReNoRun   = regexp.MustCompile(`^Another (\d+) could not be run`)
	c04ReExpFail = regexp.MustCompile(`^\(Another (\d+) failed as expected`)
)

type c04Obs struct {
	Success     bool   `json:"success"`
	Passed      int    `json:"passed"`
	Failed      int    `json:"failed"`
	Expected    int    `json:"expected"`
	NoRun       int    `json:"noRun"`
	Total       int    `json:"total"`
	NamedFailed []bool `json:"namedFailed"`
	NamedInfo   []bool `json:"namedInfo"`
	Extra       string `json:"extra,omitempty"`
}

var c04ClientErrTexts = []string{"verif: client error", "", "\n", "  \r\n\t\n", "first line\n\nthird line\n", " "}

func c04Run(s *c04Scn, order []int, fbFirst bool) c04Obs {
	n := len(s.Cases)
	names := make([]string, n)
	prefix := map[string]string{"none": "ok", "failing": "kf", "flaky": "fl"}
	for i, c := range s.Cases {
		names[i] = fmt.Sprintf("%s/Suite %d/case-%d", prefix[c.Mark], i, i)
	}
	results := newResults(n, parsePatterns([]string{"kf/**"}), parsePatterns([]string{"fl/**"}), nil)
	def := func(i int) *conformancev1.TestCase {
		return &conformancev1.TestCase{
			Request:          &conformancev1.ClientCompatRequest{TestName: names[i], StreamType: conformancev1.StreamType_STREAM_TYPE_UNARY},
			ExpectedResponse: &conformancev1.ClientResponseResult{Payloads: []*conformancev1.ConformancePayload{{Data: []byte("data")}}},
		}
	}
	feedback := func(i int) {
		if s.Cases[i].Fb {
			results.recordSideband(names[i], "verif: peer feedback")
		}
	}
	for _, i := range order {
		if fbFirst {
			feedback(i)
		}
		switch s.Cases[i].Fate {
		case "pass":
			results.assert(names[i], def(i), &conformancev1.ClientResponseResult{Payloads: []*conformancev1.ConformancePayload{{Data: []byte("data")}}})
		case "assertFail":
			results.assert(names[i], def(i), &conformancev1.ClientResponseResult{Payloads: []*conformancev1.ConformancePayload{{Data: []byte("other")}}})
		case "clientErr":
			// the text of a client-reported error is the client's business: any text, including none at all
			salt := i + len(order)
			for _, c := range s.Cases {
				salt += len(c.Fate)*3 + len(c.Mark)
			}
			if fbFirst {
				salt++
			}
			results.failed(names[i], &conformancev1.ClientErrorResult{Message: c04ClientErrTexts[salt%len(c04ClientErrTexts)]})
		case "setupErr":
			results.failedToStart([]*conformancev1.TestCase{def(i)}, errors.New("error starting server: verif"))
		case "noResult":
			results.failRemaining([]*conformancev1.TestCase{def(i)}, &failedToGetResultError{errNoOutcome})
		case "couldNotRun":
			results.setOutcome(names[i], true, &couldNotRunError{errClosed})
		case "absent":
		}
		if !fbFirst {
			feedback(i)
		}
	}
	pr := &c04Printer{}
	obs := c04Obs{NamedFailed: make([]bool, n), NamedInfo: make([]bool, n), Total: -1}
	obs.Success = results.report(pr)
	idx := map[string]int{}
	for i, nm := range names {
		idx[strings.SplitN(nm, " ", 2)[0]+" "+strings.SplitN(nm, " ", 2)[1]] = i
	}
	find := func(line string, re *regexp.Regexp) (int, bool) {
		// names contain a space; match by prefix instead of \S+
		for i, nm := range names {
			if strings.HasPrefix(line, re.String()[1:strings.Index(re.String(), "(")]+nm) {
				return i, true
			}
		}
		return 0, false
	}
	for _, l := range pr.lines {
		switch {
		case strings.HasPrefix(l, "FAILED: "):
			if i, ok := find(l, c04ReFailed); ok {
				if obs.NamedFailed[i] {
					obs.Extra += "case named twice as FAILED; "
				}
				obs.NamedFailed[i] = true
			} else {
				obs.Extra += "FAILED line for unknown name: " + l + "; "
			}
		case strings.HasPrefix(l, "INFO: "):
			if i, ok := find(l, c04ReInfo); ok {
				obs.NamedInfo[i] = true
			}
		default:
			if m := c04ReTotals.FindStringSubmatch(l); m != nil {
				obs.Total, _ = strconv.Atoi(m[1])
				obs.Passed, _ = strconv.Atoi(m[2])
				obs.Failed, _ = strconv.Atoi(m[3])
			} else if m := c04ReNoRun.FindStringSubmatch(l); m != nil {
				obs.NoRun, _ = strconv.Atoi(m[1])
			} else if m := c04ReExpFail.FindStringSubmatch(l); m != nil {
				obs.Expected, _ = strconv.Atoi(m[1])
			}
		}
	}
	return obs
}

func TestVerifC04Report(t *testing.T) {
	lines, err := verifutil.ReadLines(verifutil.Env("VERIF_SCN", "scn.ndjson"))
	if err != nil {
		t.Fatal(err)
	}
	out, err := verifutil.NewOut(verifutil.Env("VERIF_OUT", "out.ndjson"))
	if err != nil {
		t.Fatal(err)
	}
	defer out.Close()
	verifutil.ParallelFor(len(lines), runtime.NumCPU(), func(li int) {
		var s c04Scn
		if err := json.Unmarshal(lines[li], &s); err != nil {
			out.Put(map[string]any{"harness_error": err.Error()})
			return
		}
		r := verifutil.Rand(uint64(li))
		order := r.Perm(len(s.Cases))
		obs := c04Run(&s, order, r.IntN(2) == 0)
		absent := 0
		for _, c := range s.Cases {
			if c.Fate == "absent" {
				absent++
			}
		}
		var why []string
		if obs.Success != s.Success {
			why = append(why, fmt.Sprintf("verdict %v, spec requires %v", obs.Success, s.Success))
		}
		if obs.Passed != s.Passed || obs.Failed != s.Failed || obs.Expected != s.Expected || obs.NoRun != s.NoRun {
			why = append(why, fmt.Sprintf("totals passed/failed/expected/noRun = %d/%d/%d/%d, spec requires %d/%d/%d/%d",
				obs.Passed, obs.Failed, obs.Expected, obs.NoRun, s.Passed, s.Failed, s.Expected, s.NoRun))
		}
		if obs.Total != len(s.Cases)-absent {
			why = append(why, fmt.Sprintf("Total cases: %d, spec requires %d", obs.Total, len(s.Cases)-absent))
		}
		for i := range s.Cases {
			if obs.NamedFailed[i] != s.NamedFailed[i] {
				why = append(why, fmt.Sprintf("case %d named FAILED=%v, spec requires %v", i+1, obs.NamedFailed[i], s.NamedFailed[i]))
			}
			if obs.NamedInfo[i] != s.NamedInfo[i] {
				why = append(why, fmt.Sprintf("case %d named INFO=%v, spec requires %v", i+1, obs.NamedInfo[i], s.NamedInfo[i]))
			}
		}
		if obs.Extra != "" {
			why = append(why, obs.Extra)
		}
		if len(why) > 0 {
			// deterministic code: re-run with two other orders to confirm
			repro := 1
			for k := 0; k < 2; k++ {
				o2 := c04Run(&s, r.Perm(len(s.Cases)), k == 0)
				if o2.Success != s.Success || o2.Passed != s.Passed || o2.Failed != s.Failed || o2.Expected != s.Expected || o2.NoRun != s.NoRun {
					repro++
				} else if fmt.Sprint(o2.NamedFailed, o2.NamedInfo) != fmt.Sprint(s.NamedFailed, s.NamedInfo) {
					repro++
				}
			}
			out.Put(map[string]any{"scn": s, "obs": obs, "why": why, "repro": repro})
		}
	})
	out.Put(map[string]any{"summary": true, "scenarios": len(lines)})
}
