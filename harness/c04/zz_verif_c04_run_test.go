package connectconformance

// C04 harness (Run level): the real Run() in client mode against a fault-injecting wrapper around
// the reference client (an OS process started by runCommand), and in server mode against a wrapped
// reference server.  The wrapper's own log says which cases were received / answered / tampered
// with; the verdict the specification requires is computed from that by the check.

import (
	"encoding/json"
	"fmt"
	"os"
	"path/filepath"
	"runtime"
	"strings"
	"testing"
	"time"

	"connectrpc.com/conformance/internal/verifutil"
)

type c04RunScn struct {
	Mode    string   `json:"mode"` // "client" (client under test = wrapper) | "server"
	N       int      `json:"n"`
	Fault   string   `json:"fault"`
	Failing []int    `json:"failing"` // 1-based case numbers marked known-failing
	Flaky   []int    `json:"flaky"`
	Names   []string `json:"-"`
}

type c04RunObs struct {
	Scn     c04RunScn        `json:"scn"`
	OK      bool             `json:"ok"`
	Err     string           `json:"err"`
	Log     []map[string]any `json:"log"`
	Output  []string         `json:"output"`
	Hang    bool             `json:"hang"`
	Elapsed float64          `json:"elapsed_s"`
}

func c04RunOne(dir string, id int, s c04RunScn) c04RunObs {
	obs := c04RunObs{Scn: s}
	base := filepath.Join(dir, fmt.Sprintf("run%d", id))
	_ = os.MkdirAll(base, 0o755)
	var suite strings.Builder
	suite.WriteString("name: VerifVerdict\ntestCases:\n")
	for i := 1; i <= s.N; i++ {
		fmt.Fprintf(&suite, "- request:\n    testName: c%d\n    streamType: STREAM_TYPE_UNARY\n    requestMessages:\n"+
			"    - \"@type\": type.googleapis.com/connectrpc.conformance.v1.UnaryRequest\n      responseDefinition:\n        responseData: \"dGVzdA==\"\n", i)
	}
	suitePath := filepath.Join(base, "suite.yaml")
	_ = os.WriteFile(suitePath, []byte(suite.String()), 0o644)
	cfgPath := filepath.Join(base, "config.yaml")
	_ = os.WriteFile(cfgPath, []byte("features:\n  versions: [HTTP_VERSION_1]\n  protocols: [PROTOCOL_CONNECT]\n  codecs: [CODEC_PROTO]\n"+
		"  compressions: [COMPRESSION_IDENTITY]\n  streamTypes: [STREAM_TYPE_UNARY]\n  supportsTls: false\n  supportsH2c: false\n"+
		"  supportsConnectGet: false\n  supportsMessageReceiveLimit: false\n"), 0o644)
	logPath := filepath.Join(base, "peer.log")
	flags := &Flags{
		ConfigFile:  cfgPath,
		TestFiles:   []string{suitePath},
		MaxServers:  2,
		Parallelism: 4,
		ServerBind:  "127.0.0.1",
	}
	for _, i := range s.Failing {
		flags.KnownFailingPatterns = append(flags.KnownFailingPatterns, fmt.Sprintf("**/c%d", i))
	}
	for _, i := range s.Flaky {
		flags.KnownFlakyPatterns = append(flags.KnownFlakyPatterns, fmt.Sprintf("**/c%d", i))
	}
	cmd := []string{os.Args[0], "verif-helper", "refclient", s.Fault, logPath}
	if s.Mode == "server" {
		cmd[2] = "refserver"
		flags.ServerCommand = cmd
	} else {
		flags.ClientCommand = cmd
	}
	pr := &c04Printer{}
	type ret struct {
		ok  bool
		err error
	}
	ch := make(chan ret, 1)
	t0 := time.Now()
	go func() {
		ok, err := Run(flags, pr, pr)
		ch <- ret{ok, err}
	}()
	select {
	case r := <-ch:
		obs.OK = r.ok
		if r.err != nil {
			obs.Err = r.err.Error()
		}
	case <-time.After(90 * time.Second):
		obs.Hang = true
	}
	obs.Elapsed = time.Since(t0).Seconds()
	if lines, err := verifutil.ReadLines(logPath); err == nil {
		for _, l := range lines {
			var m map[string]any
			if jsonUnmarshal(l, &m) == nil {
				obs.Log = append(obs.Log, m)
			}
		}
	}
	pr.mu.Lock()
	for _, l := range pr.lines {
		if strings.HasPrefix(l, "FAILED") || strings.HasPrefix(l, "INFO") || strings.HasPrefix(l, "Total") || strings.HasPrefix(l, "Another") || strings.HasPrefix(l, "(Another") {
			obs.Output = append(obs.Output, strings.SplitN(l, "\n", 3)[0])
		}
	}
	pr.mu.Unlock()
	return obs
}

func TestVerifC04Run(t *testing.T) {
	lines, err := verifutil.ReadLines(verifutil.Env("VERIF_SCN", "scn.ndjson"))
	if err != nil {
		t.Fatal(err)
	}
	out, err := verifutil.NewOut(verifutil.Env("VERIF_OUT", "out.ndjson"))
	if err != nil {
		t.Fatal(err)
	}
	defer out.Close()
	dir := verifutil.Env("VERIF_DIR", t.TempDir())
	res := make([]c04RunObs, len(lines))
	verifutil.ParallelFor(len(lines), runtime.NumCPU()/2, func(i int) {
		var s c04RunScn
		if err := jsonUnmarshal(lines[i], &s); err != nil {
			res[i] = c04RunObs{Err: "harness: " + err.Error()}
			return
		}
		res[i] = c04RunOne(dir, i, s)
	})
	for _, r := range res {
		out.Put(r)
	}
}

func jsonUnmarshal(b []byte, v any) error { return json.Unmarshal(b, v) }
