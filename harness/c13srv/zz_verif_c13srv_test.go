package referenceserver

// C13 harness, encoder side (in-package: grpcStatusTrailers and grpcWebStatusEndStream are
// unexported).  For every application error of the scenario file (shapes enumerated by TLC:
// 16 codes x message byte classes x 0..2 details) and for seeded random errors beyond that
// domain it calls the reference server's own encoders and writes what they produced; the
// client-side harness (harness/c13, TestVerifC13Emit) hands it to the real examiners.

import (
	"encoding/hex"
	"encoding/json"
	"fmt"
	"math/rand/v2"
	"strings"
	"testing"

	conformancev1 "connectrpc.com/conformance/internal/gen/proto/go/connectrpc/conformance/v1"
	"connectrpc.com/conformance/internal/verifutil"
	"connectrpc.com/connect"
	"google.golang.org/genproto/googleapis/rpc/status"
	"google.golang.org/protobuf/proto"
	"encoding/base64"
	"errors"
)

type c13sEmission struct {
	ID       int                     `json:"id"`
	Job      map[string]any          `json:"job"`
	Code     int                     `json:"code"`
	Message  string                  `json:"message"`
	ND       int                     `json:"nd"`
	Meta     []*conformancev1.Header `json:"meta"`
	Trailers []*conformancev1.Header `json:"trailers"`
	Web      string                  `json:"web"`
	Conflict bool                    `json:"conflict"`
}

var c13sMulti = []string{"é", "ß", "ñ", "世", "界", "😀", "ж", " "}

func c13sMessage(r *rand.Rand, syms []any) string {
	var b strings.Builder
	for _, s := range syms {
		switch s.(string) {
		case "g":
			b.WriteByte(byte(0x21 + r.IntN(0x5e)))
			if b.String()[b.Len()-1] == '%' {
				return c13sMessage(r, syms) // '%' is its own class
			}
		case "s":
			b.WriteByte(' ')
		case "p":
			b.WriteByte('%')
		case "c":
			b.WriteByte([]byte{0x00, 0x01, 0x09, 0x0a, 0x0d, 0x1b, 0x1f, 0x7f}[r.IntN(8)])
		case "h":
			b.WriteString(c13sMulti[r.IntN(len(c13sMulti))])
		}
	}
	return b.String()
}

func c13sClasses(s string) []any {
	res := make([]any, len(s))
	for i := 0; i < len(s); i++ {
		switch c := s[i]; {
		case c == '%':
			res[i] = "p"
		case c == ' ':
			res[i] = "s"
		case c < ' ' || c == 0x7f:
			res[i] = "c"
		case c >= 0x80:
			res[i] = "h"
		default:
			res[i] = "g"
		}
	}
	return res
}

func c13sMeta(r *rand.Rand) []*conformancev1.Header {
	var res []*conformancev1.Header
	for i := r.IntN(4); i > 0; i-- {
		switch r.IntN(5) {
		case 0:
			res = append(res, &conformancev1.Header{Name: fmt.Sprintf("x-custom-%d", i), Value: []string{"v1", "v 2"}})
		case 1:
			res = append(res, &conformancev1.Header{Name: fmt.Sprintf("X-Upper-Case-%d", i), Value: []string{"Value"}})
		case 2:
			data := make([]byte, 1+r.IntN(9))
			for j := range data {
				data[j] = byte(r.IntN(256))
			}
			res = append(res, &conformancev1.Header{Name: fmt.Sprintf("x-custom-%d-bin", i), Value: []string{base64.RawStdEncoding.EncodeToString(data)}})
		case 3:
			res = append(res, &conformancev1.Header{Name: fmt.Sprintf("x-multi-%d", i), Value: []string{"a", "b", "c,d", ""}})
		default:
			res = append(res, &conformancev1.Header{Name: fmt.Sprintf("x-sym-%d!#$&'*+.^_`|~", i), Value: []string{"é", "(),/:;<=>?@[\\]{}"}})
		}
	}
	return res
}

func c13sEmit(r *rand.Rand, id int, job map[string]any, code int, msg string, nd int, conflict bool) c13sEmission {
	cerr := connect.NewError(connect.Code(code), errors.New(msg))
	for i := 0; i < nd; i++ {
		var m proto.Message
		switch r.IntN(3) {
		case 0:
			m = &conformancev1.Header{Name: fmt.Sprintf("x-detail-%d", i), Value: []string{"a", "b"}}
		case 1:
			m = &status.Status{Code: int32(r.IntN(17)), Message: "inner " + msg}
		default:
			m = &conformancev1.ConformancePayload_RequestInfo{TimeoutMs: proto.Int64(int64(r.IntN(1000)))}
		}
		d, err := connect.NewErrorDetail(m)
		if err != nil {
			panic(err)
		}
		cerr.AddDetail(d)
	}
	meta := c13sMeta(r)
	// the encoders append to their arguments: hand each its own copy
	metaCopy := make([]*conformancev1.Header, len(meta))
	for i, h := range meta {
		metaCopy[i] = proto.Clone(h).(*conformancev1.Header)
	}
	return c13sEmission{ID: id, Job: job, Code: code, Message: hex.EncodeToString([]byte(msg)), ND: nd, Meta: meta,
		Trailers: grpcStatusTrailers(cerr), Web: hex.EncodeToString([]byte(grpcWebStatusEndStream(cerr, metaCopy))), Conflict: conflict}
}

func c13sRandMessage(r *rand.Rand) string {
	var b strings.Builder
	for n := r.IntN(40); n > 0; n-- {
		switch r.IntN(10) {
		case 0:
			b.WriteByte('%')
		case 1:
			b.WriteByte(byte(r.IntN(0x20)))
		case 2:
			b.WriteRune(rune(0x80 + r.IntN(0x2000)))
		case 3:
			b.WriteRune([]rune{0x1F600, 0x10FFFF, 0x7f, 0xFFFD, 0x2028}[r.IntN(5)])
		case 4:
			b.WriteByte(' ')
		default:
			b.WriteByte(byte(0x21 + r.IntN(0x5e)))
		}
	}
	return b.String()
}

func TestVerifC13SrvEmit(t *testing.T) {
	lines, err := verifutil.ReadLines(verifutil.Env("VERIF_SCN", "emit.scn.ndjson"))
	if err != nil {
		t.Fatal(err)
	}
	out, err := verifutil.NewOut(verifutil.Env("VERIF_OUT", "emit.ndjson"))
	if err != nil {
		t.Fatal(err)
	}
	defer out.Close()
	variants := verifutil.EnvInt("VERIF_VARIANTS", 1)
	id := 0
	for i, l := range lines {
		var scn struct {
			Job      map[string]any `json:"job"`
			Conflict bool           `json:"conflict"`
		}
		if err := json.Unmarshal(l, &scn); err != nil {
			t.Fatalf("line %d: %v", i, err)
		}
		syms, _ := scn.Job["m"].([]any)
		code := int(scn.Job["code"].(float64))
		nd := int(scn.Job["nd"].(float64))
		for v := 0; v < variants; v++ {
			r := verifutil.Rand(uint64(880000 + i*16 + v))
			out.Put(c13sEmit(r, id, scn.Job, code, c13sMessage(r, syms), nd, scn.Conflict))
			id++
		}
	}
	n := verifutil.EnvInt("VERIF_N", 1000)
	for i := 0; i < n; i++ {
		r := verifutil.Rand(uint64(990000 + i))
		msg := c13sRandMessage(r)
		nd := r.IntN(4)
		code := 1 + r.IntN(16)
		job := map[string]any{"kind": "emitRandom", "code": code, "m": c13sClasses(msg), "nd": nd}
		out.Put(c13sEmit(r, id, job, code, msg, nd, nd > 0 && msg != strings.Trim(msg, " ")))
		id++
	}
}
