package connectconformance

// C10 harness: executes TLC-generated controller schedules (Gen_ClientMux) against the real
// runClient / sendRequest / consumeOutput / closeSend / waitForResponses with a scripted in-process
// client, and records the event log that Trace_ClientMux validates.

import (
	"context"
	"net"
	"os"
	"path/filepath"
	"encoding/binary"
	"encoding/json"
	"errors"
	"fmt"
	"io"
	"runtime"
	"sync"
	"sync/atomic"
	"testing"
	"time"

	"connectrpc.com/conformance/internal"
	conformancev1 "connectrpc.com/conformance/internal/gen/proto/go/connectrpc/conformance/v1"
	"connectrpc.com/conformance/internal/verifutil"
)

type c10Event struct {
	E    string `json:"e"`
	S    string `json:"s,omitempty"`
	N    string `json:"n,omitempty"`
	R    string `json:"r,omitempty"`
	K    string `json:"k,omitempty"`
	I    int    `json:"i,omitempty"` // Cb: which of the sender's sends (1-based) registered the callback that ran
	Fail *bool  `json:"fail,omitempty"`
	B    *bool  `json:"b,omitempty"`
}

type c10Log struct {
	mu     sync.Mutex
	events []c10Event
	gate   chan struct{} // closed (and replaced) whenever a sender logs SendCall
	slowCb bool
}

func (l *c10Log) put(e c10Event) {
	l.mu.Lock()
	l.events = append(l.events, e)
	if e.E == "SendCall" && l.gate != nil {
		close(l.gate)
		l.gate = make(chan struct{})
	}
	l.mu.Unlock()
}

// linger keeps a callback (and with it the reader goroutine that runs it) busy until the next
// sender has started or a few milliseconds passed.  The specification lets the reader be
// arbitrarily slow between its steps, so this only steers which interleavings are produced.
func (l *c10Log) linger() {
	if !l.slowCb {
		return
	}
	l.mu.Lock()
	g := l.gate
	l.mu.Unlock()
	select {
	case <-g:
		for i := 0; i < 50; i++ {
			runtime.Gosched()
		}
	case <-time.After(5 * time.Millisecond):
	}
}

type c10Scn struct {
	Hist [][]any `json:"hist"`
}

var c10Scripts = map[string]map[string][]string{
	"A": {"s1": {"a", "b"}, "s2": {"a"}},
	"B": {"s1": {"a", "b", "a"}, "s2": {"c", "a"}},
}

// 15 s; schedules in which the client goes quiet need more than the runner's 20 s response timeout (VERIF_WATCHDOG_S)
var c10Watchdog = time.Duration(verifutil.EnvInt("VERIF_WATCHDOG_S", 15)) * time.Second

type c10Result struct {
	Events   []c10Event `json:"events"`
	Hang     string     `json:"hang,omitempty"`
	Skipped  bool       `json:"skipped,omitempty"`
	Script   string     `json:"script"`
	Schedule [][]any    `json:"schedule"`
}

func c10b(b bool) *bool { return &b }

// one client operation handed to the client goroutine
type c10Op struct {
	kind    string // "R", "W", "X", "CI" (close own stdin), "CO" (close own stdout), "B" (wait to be aborted)
	wkind   string
	name    string
	fail    bool
	started chan struct{}
}

var c10OSKind = false // set by TestVerifC10RunOS: the client is an OS process (runCommand)

func c10Run(script string, hist [][]any, slowCb bool) c10Result {
	if c10OSKind {
		return c10RunOS(script, hist, slowCb)
	}
	return c10RunWith(script, hist, slowCb, nil)
}

// c10RunWith: starter == nil uses the scripted in-process client below; otherwise the given starter
// (an OS process whose operations are driven by osClient) is used.
func c10RunWith(script string, hist [][]any, slowCb bool, osc *c10OSClient) c10Result {
	log := &c10Log{gate: make(chan struct{}), slowCb: slowCb}
	res := c10Result{Script: script, Schedule: hist}
	scr := c10Scripts[script]
	clientOps := make(chan *c10Op, 64)
	clientExited := make(chan struct{})

	impl := func(ctx context.Context, _ []string, in io.ReadCloser, out, _ io.WriteCloser) error {
		defer close(clientExited)
		readPh := 1
		var bodyLen int
		doRead := func() string {
			log.put(c10Event{E: "ReadCall"})
			var err error
			if readPh == 1 {
				var p [4]byte
				_, err = io.ReadFull(in, p[:])
				if err == nil {
					bodyLen = int(binary.BigEndian.Uint32(p[:]))
					readPh = 2
				}
			} else {
				_, err = io.ReadFull(in, make([]byte, bodyLen))
				if err == nil {
					readPh = 1
				}
			}
			r := "ok"
			if err != nil {
				r = "eof"
			}
			log.put(c10Event{E: "ReadRet", R: r})
			return r
		}
		doWrite := func(kind, name string) string {
			log.put(c10Event{E: "WriteCall", K: kind, N: name})
			done := make(chan error, 1)
			go func() {
				switch kind {
				case "resp":
					done <- internal.WriteDelimitedMessage(out, &conformancev1.ClientCompatResponse{
						TestName: name,
						Result:   &conformancev1.ClientCompatResponse_Response{Response: &conformancev1.ClientResponseResult{}},
					})
				case "garbage":
					_, err := out.Write([]byte{0, 0, 0, 3, 0xff, 0xff, 0xff})
					done <- err
				case "oversize":
					var p [4]byte
					binary.BigEndian.PutUint32(p[:], maxClientResponseSize+1)
					_, err := out.Write(p[:])
					done <- err
				case "trunc":
					_, err := out.Write([]byte{0, 0, 0, 10, 0x0a, 0x01, 'x'})
					done <- err
				}
			}()
			r := "ok"
			select {
			case err := <-done:
				if err != nil {
					r = "aborted"
				}
			case <-ctx.Done():
				// the runner gave up on us; the specification only allows "aborted" when the message
				// was not taken, so give the reader a moment to have taken it
				select {
				case err := <-done:
					if err != nil {
						r = "aborted"
					}
				case <-time.After(50 * time.Millisecond):
					r = "aborted"
				}
			}
			log.put(c10Event{E: "WriteRet", R: r})
			return r
		}
		exit := func(fail bool) error {
			log.put(c10Event{E: "Exit", Fail: c10b(fail)})
			if fail {
				return errors.New("verif client failure")
			}
			return nil
		}
		inClosed, outClosed, fatalWritten := false, false, false
		for {
			var op *c10Op
			var ok bool
			select {
			case op, ok = <-clientOps:
			case <-ctx.Done():
				// a conformant in-process client ends when its context is cancelled
				return exit(false)
			}
			if !ok {
				break
			}
			switch op.kind {
			case "R":
				close(op.started)
				doRead()
			case "CO":
				close(op.started)
				if outClosed {
					continue
				}
				log.put(c10Event{E: "CloseOutCall"})
				_ = out.Close()
				outClosed = true
				log.put(c10Event{E: "CloseOutRet"})
			case "W":
				close(op.started)
				if outClosed {
					continue // (the specification offers no write once the client has closed its stdout)
				}
				r := doWrite(op.wkind, op.name)
				if r == "aborted" || op.wkind == "trunc" {
					return exit(false)
				}
				if op.wkind == "garbage" || op.wkind == "oversize" || op.name == "zz" {
					fatalWritten = true // the reader has taken something it must reject, whatever the interleaving
				}
			case "CI":
				close(op.started)
				if inClosed {
					continue
				}
				log.put(c10Event{E: "CloseInCall"})
				_ = in.Close()
				inClosed = true
				log.put(c10Event{E: "CloseInRet"})
			case "B":
				close(op.started)
				if !fatalWritten {
					continue // in this execution nothing fatal has been written: there is nothing to wait for
				}
				log.put(c10Event{E: "WaitAbortCall"})
				r := "aborted"
				select {
				case <-ctx.Done():
				case <-time.After(3 * time.Second):
					r = "timeout"
				}
				log.put(c10Event{E: "WaitAbortRet", R: r})
				if r == "aborted" {
					return exit(false)
				}
			case "ST":
				// goes quiet for good: writes nothing, reads nothing, stays - until told to stop
				close(op.started)
				log.put(c10Event{E: "StallCall"})
				r := "aborted"
				select {
				case <-ctx.Done():
				case <-time.After(c10Watchdog):
					r = "timeout"
				}
				log.put(c10Event{E: "WaitAbortRet", R: r})
				return exit(false)
			case "X":
				close(op.started)
				return exit(op.fail)
			}
		}
		// schedule exhausted: behave like a conformant client - consume stdin until it ends, exit
		for !inClosed {
			if doRead() == "eof" {
				return exit(false)
			}
		}
		return exit(false)
	}

	ctx, cancel := context.WithCancel(context.Background())
	defer cancel()
	starter := runInProcess([]string{"verifclient"}, impl)
	if osc != nil {
		starter = osc.starter(log, clientOps, clientExited)
	}
	runner, err := runClient(ctx, starter)
	if err != nil {
		res.Hang = "runClient failed: " + err.Error()
		return res
	}

	type sendCmd struct{ started chan struct{} }
	senderCh := map[string]chan sendCmd{}
	senderDone := map[string]chan struct{}{}
	var sendersWG sync.WaitGroup
	for s, names := range scr {
		ch := make(chan sendCmd, 8)
		senderCh[s] = ch
		done := make(chan struct{})
		senderDone[s] = done
		sendersWG.Add(1)
		go func(s string, names []string) {
			defer sendersWG.Done()
			defer close(done)
			for si, n := range names {
				si := si
				cmd, ok := <-ch
				if !ok {
					return
				}
				name := n
				log.put(c10Event{E: "SendCall", S: s, N: name})
				close(cmd.started)
				err := runner.sendRequest(&conformancev1.ClientCompatRequest{TestName: name}, func(cbName string, resp *conformancev1.ClientCompatResponse, err error) {
					k := "err"
					if err == nil && resp != nil {
						k = "resp"
						if resp.TestName != cbName {
							k = "resp-wrong-name:" + resp.TestName
						}
					} else if err == nil {
						k = "nil-nil"
					}
					log.put(c10Event{E: "Cb", N: cbName, K: k, S: s, I: si + 1})
					log.linger()
				})
				r := "ok"
				switch {
				case err == nil:
				case errors.Is(err, errDuplicate):
					r = "dup"
				default:
					r = "refused"
				}
				log.put(c10Event{E: "SendRet", S: s, N: name, R: r})
			}
		}(s, names)
	}

	// The schedule comes from one interleaving of the specification; the real goroutines may
	// interleave differently, in which case a step may be unable to start before later steps have
	// been issued.  So the controller waits only briefly for a step to start and then moves on (the
	// step stays queued).  This affects which executions are produced, never their validity; real
	// hangs are caught by the hard watchdogs of the epilogue.
	waitStarted := func(ch chan struct{}, what string) bool {
		select {
		case <-ch:
		case <-time.After(100 * time.Millisecond):
		}
		return true
	}
	hung := false
	sent := map[string]int{}
	clientOpen := true
	for _, h := range hist {
		kind := h[0].(string)
		switch kind {
		case "S":
			s := h[1].(string)
			cmd := sendCmd{started: make(chan struct{})}
			sent[s]++
			senderCh[s] <- cmd
			if !waitStarted(cmd.started, fmt.Sprintf("send #%d of %s", sent[s], s)) {
				hung = true
			}
		case "R", "W", "X", "CI", "CO", "B", "ST":
			if !clientOpen {
				continue
			}
			op := &c10Op{kind: kind, started: make(chan struct{})}
			if kind == "W" {
				op.wkind, op.name = h[1].(string), h[2].(string)
			}
			if kind == "X" {
				op.fail, _ = h[1].(bool)
			}
			clientOps <- op
			select {
			case <-op.started:
			case <-clientExited:
				clientOpen = false // the client already left (aborted write / truncated output)
			case <-time.After(100 * time.Millisecond):
			}
			if kind == "X" {
				clientOpen = false
			}
		}
		if hung {
			break
		}
	}
	close(clientOps)
	if !hung {
		// remaining scripted sends that the schedule did not reach are issued now (run() sends everything)
		for s, names := range scr {
			for sent[s] < len(names) {
				cmd := sendCmd{started: make(chan struct{})}
				sent[s]++
				senderCh[s] <- cmd
				if !waitStarted(cmd.started, "epilogue send of "+s) {
					hung = true
					break
				}
			}
		}
	}
	for _, ch := range senderCh {
		close(ch)
	}
	if !hung {
		allDone := make(chan struct{})
		go func() { sendersWG.Wait(); close(allDone) }()
		select {
		case <-allDone:
		case <-time.After(c10Watchdog):
			res.Hang = "a sendRequest call never returned"
			hung = true
		}
	}
	if !hung {
		step := func(call, ret string, f func() string) bool {
			log.put(c10Event{E: call})
			done := make(chan string, 1)
			go func() { done <- f() }()
			select {
			case r := <-done:
				log.put(c10Event{E: ret, R: r})
				return true
			case <-time.After(c10Watchdog):
				res.Hang = call + " never returned"
				return false
			}
		}
		if step("CloseCall", "CloseRet", func() string { runner.closeSend(); return "" }) {
			if step("WaitCall", "WaitRet", func() string {
				if err := runner.waitForResponses(); err != nil {
					return "err"
				}
				return "nil"
			}) {
				// liveness flag: must become false once the process is known to have ended
				deadline := time.Now().Add(2 * time.Second)
				running := runner.isRunning()
				for running && time.Now().Before(deadline) {
					time.Sleep(2 * time.Millisecond)
					running = runner.isRunning()
				}
				log.put(c10Event{E: "Running", B: c10b(running)})
			}
		}
	}
	cancel()
	log.mu.Lock()
	res.Events = append([]c10Event(nil), log.events...)
	log.mu.Unlock()
	return res
}

func TestVerifC10Run(t *testing.T) {
	lines, err := verifutil.ReadLines(verifutil.Env("VERIF_SCN", "scn.ndjson"))
	if err != nil {
		t.Fatal(err)
	}
	out, err := verifutil.NewOut(verifutil.Env("VERIF_OUT", "trace.ndjson"))
	if err != nil {
		t.Fatal(err)
	}
	defer out.Close()
	script := verifutil.Env("VERIF_SCRIPT", "B")
	var hangs int64
	results := make([]c10Result, len(lines))
	verifutil.ParallelFor(len(lines), verifutil.EnvInt("VERIF_PAR", runtime.NumCPU()*2), func(i int) {
		var s c10Scn
		if err := json.Unmarshal(lines[i], &s); err != nil {
			results[i] = c10Result{Hang: "harness: " + err.Error()}
			return
		}
		if atomic.LoadInt64(&hangs) >= 6 {
			// every hang costs several watchdog periods: six reproduced ones are reported, the
			// remaining schedules are skipped (marked) so that the check ends in bounded time
			results[i] = c10Result{Schedule: s.Hist, Skipped: true}
			return
		}
		slow := i%2 == 1
		r := c10Run(script, s.Hist, slow)
		if r.Hang != "" {
			// confirm: a hang must reproduce.  Whether a schedule hangs may depend on how the real goroutines and
			// the peer process interleave (the controller only steers), so the schedule is executed up to seven
			// more times and the hang counts when it is seen three times in all
			n := 1
			for k := 0; k < 7 && n < 3; k++ {
				if r2 := c10Run(script, s.Hist, slow); r2.Hang != "" {
					n++
				}
			}
			if n < 3 {
				r.Hang = "UNREPRODUCED " + r.Hang
			} else {
				r.Hang += fmt.Sprintf(" (seen %d times in repeated executions of the schedule)", n)
				atomic.AddInt64(&hangs, 1)
			}
		}
		results[i] = r
	})
	for _, r := range results {
		out.Put(r)
	}
}


/* ------------------------------------------------------------------------------------------------
   OS-process kind: the client is the test binary re-executed as `verif-helper scriptclient <sock>`;
   every operation it performs on its real stdin/stdout is commanded over a control socket, so the
   harness can log Call before and Ret after it, exactly as for the in-process client.           */

type c10OSClient struct {
	dir string
	id  int
}

type c10Ctl struct {
	Op   string `json:"op"`
	Kind string `json:"kind,omitempty"`
	Name string `json:"name,omitempty"`
	Code int    `json:"code,omitempty"`
}

type c10CtlReply struct {
	Ret string `json:"ret,omitempty"`
	Sig string `json:"sig,omitempty"`
}

func (o *c10OSClient) starter(log *c10Log, clientOps chan *c10Op, clientExited chan struct{}) processStarter {
	return func(ctx context.Context, pipeStderr bool) (*process, error) {
		sock := filepath.Join(o.dir, fmt.Sprintf("c%d.sock", o.id))
		_ = os.Remove(sock)
		l, err := net.Listen("unix", sock)
		if err != nil {
			return nil, err
		}
		proc, err := runCommand([]string{os.Args[0], "verif-helper", "scriptclient", "-", "-", sock})(ctx, pipeStderr)
		if err != nil {
			l.Close()
			return nil, err
		}
		go func() {
			defer close(clientExited)
			defer l.Close()
			_ = l.(*net.UnixListener).SetDeadline(time.Now().Add(10 * time.Second))
			conn, err := l.Accept()
			if err != nil {
				return
			}
			defer conn.Close()
			replies := make(chan c10CtlReply, 16)
			go func() {
				defer close(replies)
				dec := json.NewDecoder(conn)
				for {
					var r c10CtlReply
					if dec.Decode(&r) != nil {
						return
					}
					replies <- r
				}
			}()
			enc := json.NewEncoder(conn)
			exited := false
			exit := func(fail bool) {
				if exited {
					return
				}
				exited = true
				log.put(c10Event{E: "Exit", Fail: c10b(fail)})
				code := 0
				if fail {
					code = 1
				}
				_ = enc.Encode(c10Ctl{Op: "X", Code: code})
			}
			// call performs one commanded operation; it returns ("", false) if the child was told to
			// stop by the runner (SIGTERM) before the operation finished
			call := func(c c10Ctl) (string, bool) {
				if enc.Encode(c) != nil {
					return "", false
				}
				for r := range replies {
					if r.Sig != "" {
						exit(false)
						return "", false
					}
					return r.Ret, true
				}
				return "", false
			}
			doRead := func() (string, bool) {
				log.put(c10Event{E: "ReadCall"})
				r, ok := call(c10Ctl{Op: "R"})
				if ok {
					log.put(c10Event{E: "ReadRet", R: r})
				}
				return r, ok
			}
			for !exited {
				var op *c10Op
				var ok bool
				select {
				case op, ok = <-clientOps:
				case r, rok := <-replies:
					if !rok || r.Sig != "" {
						exit(false)
					}
					continue
				}
				if !ok {
					break
				}
				switch op.kind {
				case "R":
					close(op.started)
					if _, ok := doRead(); !ok {
						exit(false)
					}
				case "W":
					close(op.started)
					log.put(c10Event{E: "WriteCall", K: op.wkind, N: op.name})
					if _, ok := call(c10Ctl{Op: "W", Kind: op.wkind, Name: op.name}); !ok {
						exit(false)
						break
					}
					log.put(c10Event{E: "WriteRet", R: "ok"})
					if op.wkind == "trunc" {
						exit(false)
					}
				case "X":
					close(op.started)
					exit(op.fail)
				}
			}
			// schedule exhausted: behave like a conformant client - consume stdin until it ends, exit
			for !exited {
				r, ok := doRead()
				if !ok || r == "eof" {
					exit(false)
				}
			}
		}()
		return proc, nil
	}
}

func c10RunOS(script string, hist [][]any, slowCb bool) c10Result {
	id := int(atomic.AddInt64(&c10OSSeq, 1))
	return c10RunWith(script, hist, slowCb, &c10OSClient{dir: c10OSDir, id: id})
}

var (
	c10OSSeq int64
	c10OSDir string
)

func TestVerifC10RunOS(t *testing.T) {
	c10OSKind = true
	c10OSDir = verifutil.Env("VERIF_DIR", t.TempDir())
	TestVerifC10Run(t)
}
