package internal

// G3 (Sideband.tla), binding 1: the messages that TLC-chosen writers print are printed by concurrent goroutines
// through the real NewPrinter; the Write calls that reach the underlying writer are logged in order and are
// validated by SidebandTrace (one printer action per Write call).

import (
	"encoding/json"
	"runtime"
	"strings"
	"sync"
	"sync/atomic"
	"testing"
	"time"

	"connectrpc.com/conformance/internal/verifutil"
)

type sbMsg struct {
	Name []string `json:"name"`
	Text []string `json:"text"`
}

type sbScn struct {
	Sent [][]sbMsg `json:"sent"`
}

type sbObs struct {
	I          int      `json:"i"`
	Writes     []string `json:"writes"`
	Concurrent bool     `json:"concurrent"` // two Write calls were in progress at the same time
	Hang       string   `json:"hang,omitempty"`
}

const sbLong = 5000

func sbBytes(toks []string) string {
	var b strings.Builder
	for _, t := range toks {
		switch t {
		case "NL":
			b.WriteByte('\n')
		case "SP":
			b.WriteByte(' ')
		case "CR":
			b.WriteByte('\r')
		case "CO":
			b.WriteByte(':')
		case "LONG":
			b.WriteString(strings.Repeat("X", sbLong))
		default:
			b.WriteString(t)
		}
	}
	return b.String()
}

// sbWriter logs every Write call and is slow and piecemeal about it, so that writers which are not excluded from
// each other do overlap
type sbWriter struct {
	mu     sync.Mutex
	writes []string
	active int32
	conc   int32
	slow   int
}

func (w *sbWriter) Write(b []byte) (int, error) {
	if atomic.AddInt32(&w.active, 1) > 1 {
		atomic.StoreInt32(&w.conc, 1)
	}
	w.mu.Lock()
	w.writes = append(w.writes, string(b))
	w.mu.Unlock()
	for i := 0; i < len(b) && i < 8; i++ { // piece by piece
		runtime.Gosched()
	}
	if w.slow > 0 {
		time.Sleep(time.Duration(w.slow) * time.Microsecond)
	}
	atomic.AddInt32(&w.active, -1)
	return len(b), nil
}

func sbRunPrinter(scn *sbScn, slow int) sbObs {
	w := &sbWriter{slow: slow}
	p := NewPrinter(w)
	start := make(chan struct{})
	var wg sync.WaitGroup
	for _, msgs := range scn.Sent {
		msgs := msgs
		wg.Add(1)
		go func() {
			defer wg.Done()
			<-start
			for k, m := range msgs {
				// the way feedbackPrinter.Printf calls it: a literal message, or a format and arguments
				if k%2 == 0 {
					p.PrefixPrintf(sbBytes(m.Name), sbBytes(m.Text))
				} else {
					h := len(m.Text) / 2
					p.PrefixPrintf(sbBytes(m.Name), "%s%v", sbBytes(m.Text[:h]), sbBytes(m.Text[h:]))
				}
			}
		}()
	}
	close(start)
	done := make(chan struct{})
	go func() { wg.Wait(); close(done) }()
	select {
	case <-done:
	case <-time.After(30 * time.Second):
		return sbObs{Hang: "printer: the writers did not finish"}
	}
	return sbObs{Writes: w.writes, Concurrent: atomic.LoadInt32(&w.conc) == 1}
}

func TestVerifSidebandPrinter(t *testing.T) {
	lines, err := verifutil.ReadLines(verifutil.Env("VERIF_SCN", "scn.ndjson"))
	if err != nil {
		t.Fatal(err)
	}
	out, err := verifutil.NewOut(verifutil.Env("VERIF_OUT", "out.ndjson"))
	if err != nil {
		t.Fatal(err)
	}
	defer out.Close()
	res := make([]sbObs, len(lines))
	verifutil.ParallelFor(len(lines), 4, func(i int) {
		var scn sbScn
		if err := json.Unmarshal(lines[i], &scn); err != nil {
			res[i] = sbObs{Hang: "harness: " + err.Error()}
			return
		}
		res[i] = sbRunPrinter(&scn, []int{0, 30, 300}[i%3])
		res[i].I = i
	})
	for i := range res {
		out.Put(res[i])
	}
}
