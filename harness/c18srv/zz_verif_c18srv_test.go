package referenceserver

// C18, second implementation: for a unary error with custom response headers the reference server renders the
// gRPC / gRPC-Web response itself (makeRawGRPCResponse, makeRawGRPCWebResponse -> grpcStatusTrailers,
// grpcWebStatusEndStream) instead of leaving it to connect-go.  The status it puts on the wire - grpc-status,
// grpc-message (percent-encoded) and grpc-status-details-bin (google.rpc.Status) - must carry the Connect
// error's code, message and every detail (type and bytes), like the shared converters (ConvertErr.tla).

import (
	"encoding/base64"
	"encoding/json"
	"fmt"
	"net/url"
	"strconv"
	"strings"
	"testing"

	"connectrpc.com/conformance/internal"
	conformancev1 "connectrpc.com/conformance/internal/gen/proto/go/connectrpc/conformance/v1"
	"connectrpc.com/conformance/internal/verifutil"
	"google.golang.org/genproto/googleapis/rpc/status"
	"google.golang.org/protobuf/encoding/protowire"
	"google.golang.org/protobuf/proto"
	"google.golang.org/protobuf/types/known/anypb"
	"google.golang.org/protobuf/types/known/durationpb"
	"google.golang.org/protobuf/types/known/wrapperspb"
)

type c18Detail struct {
	Pfx  string `json:"pfx,omitempty"`
	Type string `json:"type"`
	Val  int    `json:"val"`
}

type c18Err struct {
	Code    int         `json:"code"`
	Msg     string      `json:"msg"`
	Details []c18Detail `json:"details"`
}

var c18Pfx = map[string]string{"std": "type.googleapis.com/", "other": "example.com/some/registry/", "none": ""}

var c18Types = map[string]string{
	"t1": "connectrpc.conformance.v1.Header",
	"t2": "google.protobuf.StringValue",
	"t3": "connectrpc.conformance.v1.Error",
	"t4": "google.protobuf.Duration",
	"t5": "connectrpc.conformance.v1.ConformancePayload.RequestInfo",
}

func c18MsgText(class string) string {
	seed := verifutil.Seed()
	switch class {
	case "absent", "empty":
		return ""
	case "ascii":
		return fmt.Sprintf("something failed: attempt %d of 3", seed)
	case "utf8":
		return fmt.Sprintf("défaillance ☃ \U0001D11E 世界 #%d", seed)
	case "pct":
		return fmt.Sprintf("100%% sure\t%%2F\n\x7f +%d%%", seed)
	}
	return class // the trace driver uses literal texts
}

func c18Payload(typ string, val int) []byte {
	if val == 0 {
		return nil
	}
	seed := int(verifutil.Seed())
	tag := fmt.Sprintf("%s/%d/%d", typ, val, seed)
	var m proto.Message
	switch typ {
	case "t1":
		m = &conformancev1.Header{Name: "x-" + tag, Value: []string{"v1", tag}}
	case "t2":
		m = wrapperspb.String("detail " + tag)
	case "t3":
		m = &conformancev1.Error{Code: conformancev1.Code(1 + (val+seed)%16), Message: proto.String(tag)}
	case "t4":
		m = &durationpb.Duration{Seconds: int64(val*1000 + seed), Nanos: 5}
	default:
		m = &conformancev1.ConformancePayload_RequestInfo{TimeoutMs: proto.Int64(int64(val*100 + seed)),
			RequestHeaders: []*conformancev1.Header{{Name: tag}}}
	}
	b, err := proto.MarshalOptions{Deterministic: true}.Marshal(m)
	if err != nil {
		panic(err)
	}
	if val == 3 {
		// "every detail (type and bytes)": a peer written in another language may encode the same
		// message differently - fields in another order, a field given twice.  Value 3 of every type
		// is such a valid but non-canonical encoding: an empty occurrence of field 1 first, then the
		// fields in reverse order.
		var fields [][]byte
		rest := b
		for len(rest) > 0 {
			_, _, n := protowire.ConsumeField(rest)
			if n < 0 {
				panic("verif: cannot split payload")
			}
			fields = append(fields, rest[:n])
			rest = rest[n:]
		}
		nc := []byte{0x0a, 0x00}
		if typ == "t4" {
			nc = []byte{0x08, 0x00} // Duration.seconds is a varint
		}
		for i := len(fields) - 1; i >= 0; i-- {
			nc = append(nc, fields[i]...)
		}
		return nc
	}
	return b
}

func c18srvDecode(trailers []*conformancev1.Header) (code int, msg string, details [][2]string, problems []string) {
	code = -1
	var bin string
	for _, h := range trailers {
		if len(h.Value) != 1 {
			problems = append(problems, fmt.Sprintf("%s has %d values", h.Name, len(h.Value)))
			continue
		}
		switch strings.ToLower(h.Name) {
		case "grpc-status":
			code, _ = strconv.Atoi(h.Value[0])
		case "grpc-message":
			for _, c := range []byte(h.Value[0]) {
				if c < 0x20 || c > 0x7e {
					problems = append(problems, "grpc-message is not printable ASCII")
					break
				}
			}
			m, err := url.PathUnescape(h.Value[0])
			if err != nil {
				problems = append(problems, "grpc-message does not percent-decode: "+err.Error())
			}
			msg = m
		case "grpc-status-details-bin":
			bin = h.Value[0]
		}
	}
	if bin != "" {
		data, err := base64.RawStdEncoding.DecodeString(strings.TrimRight(bin, "="))
		if err != nil {
			return code, msg, nil, append(problems, "grpc-status-details-bin is not base64: "+err.Error())
		}
		var st status.Status
		if err := proto.Unmarshal(data, &st); err != nil {
			return code, msg, nil, append(problems, "grpc-status-details-bin is not a Status: "+err.Error())
		}
		if int(st.Code) != code {
			problems = append(problems, fmt.Sprintf("status code %d in details-bin, %d in grpc-status", st.Code, code))
		}
		if st.Message != msg {
			problems = append(problems, fmt.Sprintf("message %q in details-bin, %q in grpc-message", st.Message, msg))
		}
		for _, d := range st.Details {
			details = append(details, [2]string{d.TypeUrl[strings.LastIndex(d.TypeUrl, "/")+1:], fmt.Sprintf("%x", d.Value)})
		}
	}
	return code, msg, details, problems
}

func TestVerifC18SrvStatus(t *testing.T) {
	lines, err := verifutil.ReadLines(verifutil.Env("VERIF_SCN", "scn.ndjson"))
	if err != nil {
		t.Fatal(err)
	}
	out, err := verifutil.NewOut(verifutil.Env("VERIF_OUT", "out.ndjson"))
	if err != nil {
		t.Fatal(err)
	}
	defer out.Close()
	n, bad := 0, 0
	for i, ln := range lines {
		var s struct {
			E *c18Err `json:"e"`
		}
		if json.Unmarshal(ln, &s) != nil || s.E == nil || s.E.Code < 1 || s.E.Code > 16 || s.E.Msg == "absent" {
			continue
		}
		pe := &conformancev1.Error{Code: conformancev1.Code(s.E.Code), Message: proto.String(c18MsgText(s.E.Msg))}
		for _, d := range s.E.Details {
			pe.Details = append(pe.Details, &anypb.Any{TypeUrl: c18Pfx[d.Pfx] + c18Types[d.Type], Value: c18Payload(d.Type, d.Val)})
		}
		ce := internal.ConvertProtoToConnectError(pe)
		if ce == nil {
			continue
		}
		n++
		var want [][2]string
		for _, d := range ce.Details() {
			want = append(want, [2]string{d.Type(), fmt.Sprintf("%x", d.Bytes())})
		}
		for _, form := range []string{"grpc", "grpc-web"} {
			var trailers []*conformancev1.Header
			if form == "grpc" {
				trailers = grpcStatusTrailers(ce)
			} else {
				// the end-stream block of the gRPC-Web form: "name: value\r\n" lines
				for _, l := range strings.Split(strings.TrimSuffix(grpcWebStatusEndStream(ce, nil), "\r\n"), "\r\n") {
					if k, v, ok := strings.Cut(l, ": "); ok {
						trailers = append(trailers, &conformancev1.Header{Name: k, Value: []string{v}})
					}
				}
			}
			code, msg, details, problems := c18srvDecode(trailers)
			if code != int(ce.Code()) {
				problems = append(problems, fmt.Sprintf("code %d, the error has %d", code, ce.Code()))
			}
			if msg != ce.Message() {
				problems = append(problems, fmt.Sprintf("message %q, the error has %q", msg, ce.Message()))
			}
			if len(want) > 0 && fmt.Sprint(details) != fmt.Sprint(want) {
				problems = append(problems, fmt.Sprintf("details %v, the error has %v", details, want))
			}
			if len(problems) > 0 && bad < 20 {
				bad++
				out.Put(map[string]any{"kind": "srvraw", "form": form, "line": i, "e": s.E, "problems": problems})
			}
		}
	}
	out.Put(map[string]any{"summary": true, "errors": n})
}
