package connectconformance

// C11 harness: runs TLC-generated fault scripts (Gen_ServerBatch) through the real
// runTestCasesForServer with a scripted server process and a scripted (optionally asynchronous)
// client runner, then reports the outcome vector, what was sent, abort calls and the side band.

import (
	"bytes"
	"context"
	"encoding/json"
	"errors"
	"fmt"
	"io"
	"os"
	"path/filepath"
	"runtime"
	"strings"
	"sync"
	"syscall"
	"testing"
	"time"

	"connectrpc.com/conformance/internal"
	conformancev1 "connectrpc.com/conformance/internal/gen/proto/go/connectrpc/conformance/v1"
	"connectrpc.com/conformance/internal/verifutil"
)

type c11Script struct {
	Srv     string   `json:"srv"`
	TLS     bool     `json:"tls"`
	Die     int      `json:"die"`
	Notice  string   `json:"notice"`
	Ans     []string `json:"ans"`
	CbMode  string   `json:"cbmode"`
	CloseAt int      `json:"closeAt"`
}

type c11Line struct {
	K string `json:"k"`
	C int    `json:"c"`
	M string `json:"m"`
}

type c11Scn struct {
	Script c11Script `json:"script"`
	Lines  []c11Line `json:"lines"`
	RefSrv bool      `json:"refsrv"`
}

type c11Obs struct {
	Outcome   []string `json:"outcome"`
	Sent      []bool   `json:"sent"`
	Aborted   bool     `json:"aborted"`
	Sideband  []string `json:"sideband"`
	Forwarded []string `json:"forwarded"`
	ReqFill   string   `json:"reqfill"` // "" or description of a wrongly completed request
	Hang      string   `json:"hang,omitempty"`
	Panic     string   `json:"panic,omitempty"`
	Early     []string `json:"early,omitempty"` // outcome vector at the moment the function returned
}

/* ---- scripted server process ---- */

type c11Proc struct {
	mu        sync.Mutex
	done      chan struct{}
	isDone    bool
	callbacks []func(error)
	aborts    int
	async     bool
	stderrW   *io.PipeWriter
}

func (p *c11Proc) result() error { <-p.done; return nil }

func (p *c11Proc) abort() {
	p.mu.Lock()
	p.aborts++
	p.mu.Unlock()
	p.end(true)
}

func (p *c11Proc) end(fromAbort bool) {
	p.mu.Lock()
	if p.isDone {
		p.mu.Unlock()
		return
	}
	p.isDone = true
	cbs := p.callbacks
	p.callbacks = nil
	close(p.done)
	p.mu.Unlock()
	if p.stderrW != nil {
		_ = p.stderrW.Close()
	}
	for _, cb := range cbs {
		if p.async && !fromAbort {
			go cb(nil)
		} else {
			cb(nil)
		}
	}
}

func (p *c11Proc) whenDone(f func(error)) {
	p.mu.Lock()
	if p.isDone {
		p.mu.Unlock()
		go f(nil)
		return
	}
	p.callbacks = append(p.callbacks, f)
	p.mu.Unlock()
}

type c11Stdin struct {
	failWrite, failClose bool
	buf                  bytes.Buffer
}

func (s *c11Stdin) Write(b []byte) (int, error) {
	if s.failWrite {
		return 0, errors.New("verif: stdin write failure")
	}
	return s.buf.Write(b)
}
func (s *c11Stdin) Close() error {
	if s.failClose {
		return errors.New("verif: stdin close failure")
	}
	return nil
}

/* ---- scripted client runner ---- */

type c11Client struct {
	mu       sync.Mutex
	scn      *c11Scn
	cases    []*conformancev1.TestCase
	proc     *c11Proc
	nrecv    int
	reqs     map[string]*conformancev1.ClientCompatRequest
	pending  map[string]func(string, *conformancev1.ClientCompatResponse, error)
	allSeen  chan struct{}
	seenOnce sync.Once
	async    sync.WaitGroup
}

func (c *c11Client) idx(name string) int {
	for i, tc := range c.cases {
		if tc.Request.TestName == name {
			return i
		}
	}
	return -1
}

func (c *c11Client) respond(i int) *conformancev1.ClientCompatResponse {
	name := c.cases[i].Request.TestName
	switch c.scn.Script.Ans[i] {
	case "pass":
		return &conformancev1.ClientCompatResponse{TestName: name, Result: &conformancev1.ClientCompatResponse_Response{
			Response: &conformancev1.ClientResponseResult{Payloads: []*conformancev1.ConformancePayload{{Data: []byte("data")}}}}}
	case "mismatch":
		return &conformancev1.ClientCompatResponse{TestName: name, Result: &conformancev1.ClientCompatResponse_Response{
			Response: &conformancev1.ClientResponseResult{Payloads: []*conformancev1.ConformancePayload{{Data: []byte("other")}}}}}
	case "cerr":
		return &conformancev1.ClientCompatResponse{TestName: name, Result: &conformancev1.ClientCompatResponse_Error{
			Error: &conformancev1.ClientErrorResult{Message: "verif client error"}}}
	default: // "empty"
		return &conformancev1.ClientCompatResponse{TestName: name}
	}
}

func (c *c11Client) sendRequest(req *conformancev1.ClientCompatRequest, whenDone func(string, *conformancev1.ClientCompatResponse, error)) error {
	c.mu.Lock()
	attempt := c.nrecv + 1
	if c.scn.Script.CloseAt != 0 && attempt >= c.scn.Script.CloseAt {
		c.mu.Unlock()
		c.seenOnce.Do(func() { close(c.allSeen) })
		return errClosed
	}
	c.nrecv++
	i := c.idx(req.TestName)
	c.reqs[req.TestName] = req
	dies := c.scn.Script.Die != 0 && c.nrecv == c.scn.Script.Die
	last := c.nrecv == len(c.cases)
	ans := "none"
	if i >= 0 {
		ans = c.scn.Script.Ans[i]
	}
	if ans == "none" || c.scn.Script.CbMode == "async" {
		c.pending[req.TestName] = whenDone
	}
	c.mu.Unlock()
	if dies {
		c.proc.end(false)
	}
	if ans != "none" {
		if c.scn.Script.CbMode == "sync" {
			whenDone(req.TestName, c.respond(i), nil)
		} else {
			c.async.Add(1)
			go func() {
				defer c.async.Done()
				runtime.Gosched()
				c.mu.Lock()
				cb := c.pending[req.TestName]
				delete(c.pending, req.TestName)
				c.mu.Unlock()
				if cb != nil {
					cb(req.TestName, c.respond(i), nil)
				}
			}()
		}
	}
	if last {
		c.seenOnce.Do(func() { close(c.allSeen) })
	}
	return nil
}

// drain fires every callback still pending with the error the real client runner uses
func (c *c11Client) drain() {
	c.async.Wait()
	c.mu.Lock()
	cbs := c.pending
	c.pending = map[string]func(string, *conformancev1.ClientCompatResponse, error){}
	c.mu.Unlock()
	for name, cb := range cbs {
		cb(name, nil, &failedToGetResultError{errNoOutcome})
	}
}

func (c *c11Client) closeSend()              {}
func (c *c11Client) waitForResponses() error { return nil }
func (c *c11Client) isRunning() bool         { return true }
func (c *c11Client) stop()                   {}

type c11Stderr struct {
	r    io.Reader
	eof  chan struct{}
	once sync.Once
}

func (s *c11Stderr) Read(p []byte) (int, error) {
	n, err := s.r.Read(p)
	if err != nil {
		s.once.Do(func() { close(s.eof) })
	}
	return n, err
}

type c11Gated struct {
	r    io.Reader
	gate chan struct{}
}

func (g *c11Gated) Read(p []byte) (int, error) {
	<-g.gate
	return g.r.Read(p)
}

type c11Printer struct {
	mu    sync.Mutex
	lines []string
}

func (p *c11Printer) Printf(string, ...any) {}
func (p *c11Printer) PrefixPrintf(prefix, format string, args ...any) {
	p.mu.Lock()
	defer p.mu.Unlock()
	p.lines = append(p.lines, prefix+"|"+fmt.Sprintf(format, args...))
}

func c11Classify(o testOutcome, ok bool) string {
	if !ok {
		return "-"
	}
	err := o.actualFailure
	if err == nil {
		if o.setupError {
			return "setupError-without-error"
		}
		return "pass"
	}
	var noRun *couldNotRunError
	var noResult *failedToGetResultError
	msg := err.Error()
	switch {
	case errors.As(err, &noRun):
		if !o.setupError {
			return "couldNotRun-not-setup"
		}
		return "couldNotRun"
	case o.setupError && strings.Contains(msg, "server process terminated unexpectedly"):
		return "serverDied"
	case o.setupError && (strings.Contains(msg, "error starting server") || strings.Contains(msg, "error writing server request") ||
		strings.Contains(msg, "error reading server response") || strings.Contains(msg, "did not indicate a certificate")):
		return "failedToStart"
	case o.setupError && errors.As(err, &noResult):
		if errors.Is(err, errNoOutcome) {
			return "noResult" // drained by the client  (noOutcome when set by failRemaining: same error value)
		}
		return "noResult"
	case o.setupError:
		return "setupError:" + msg
	case strings.Contains(msg, "verif client error"):
		return "clientErr"
	case strings.Contains(msg, "neither an error nor result"):
		return "emptyResp"
	default:
		return "assertFail"
	}
}

const c11Watchdog = 20 * time.Second

func c11Run(scn *c11Scn) (obs c11Obs) {
	n := len(scn.Script.Ans)
	cases := make([]*conformancev1.TestCase, n)
	names := make([]string, n)
	for i := range cases {
		names[i] = fmt.Sprintf("Suite %d/case-%d", i/2, i+1)
		cases[i] = &conformancev1.TestCase{
			Request:          &conformancev1.ClientCompatRequest{TestName: names[i], RequestHeaders: []*conformancev1.Header{{Name: "x-own", Value: []string{"v"}}}},
			ExpectedResponse: &conformancev1.ClientResponseResult{Payloads: []*conformancev1.ConformancePayload{{Data: []byte("data")}}},
		}
	}
	srvResp := &conformancev1.ServerCompatResponse{Host: "10.1.2.3", Port: 4321}
	if scn.Script.TLS && scn.Script.Srv != "noCert" {
		srvResp.PemCert = []byte("-----VERIF CERT-----")
	}
	var respBuf bytes.Buffer
	_ = internal.WriteDelimitedMessage(&respBuf, srvResp)
	var stdout io.Reader
	switch scn.Script.Srv {
	case "truncated":
		stdout = bytes.NewReader(respBuf.Bytes()[:respBuf.Len()-3])
	case "oversize":
		stdout = bytes.NewReader([]byte{0x7f, 0xff, 0xff, 0xff, 1, 2, 3})
	case "garbage":
		stdout = bytes.NewReader([]byte{0, 0, 0, 3, 0xff, 0xff, 0xff})
	case "empty":
		stdout = bytes.NewReader(nil)
	default:
		stdout = bytes.NewReader(respBuf.Bytes())
	}
	stdin := &c11Stdin{failWrite: scn.Script.Srv == "writeFail", failClose: scn.Script.Srv == "closeFail"}
	proc := &c11Proc{done: make(chan struct{}), async: scn.Script.Notice == "async"}
	var stderrDone chan struct{}
	stderrEOF := make(chan struct{})
	starter := func(_ context.Context, pipeStderr bool) (*process, error) {
		if scn.Script.Srv == "startFail" {
			return nil, errors.New("verif: cannot start")
		}
		var stderr io.Reader = bytes.NewReader(nil)
		if pipeStderr {
			pr, pw := io.Pipe()
			proc.stderrW = pw
			stderrDone = make(chan struct{})
			go func() {
				defer close(stderrDone)
				for _, l := range scn.Lines {
					var text string
					switch l.K {
					case "fb":
						text = names[l.C-1] + ": " + l.M + "\n"
					case "unknownName":
						text = "Other Suite/other-case: hello there\n"
					case "noColon":
						text = "just some text without separator\n"
					case "blank":
						text = "   \n"
					case "noSpace":
						text = names[0] + ":nospace\n"
					case "long":
						text = strings.Repeat("x", 100*1024) + "\n"
					}
					if _, err := pw.Write([]byte(text)); err != nil {
						return
					}
				}
			}()
			stderr = &c11Stderr{r: pr, eof: stderrEOF}
			// the server prints its diagnostics before it answers on stdout
			stdout = &c11Gated{r: stdout, gate: stderrDone}
		}
		return &process{processController: proc, stdin: stdin, stdout: stdout, stderr: stderr}, nil
	}
	client := &c11Client{scn: scn, cases: cases, proc: proc, reqs: map[string]*conformancev1.ClientCompatRequest{},
		pending: map[string]func(string, *conformancev1.ClientCompatResponse, error){}, allSeen: make(chan struct{})}
	results := newResults(n, &testTrie{}, &testTrie{}, nil)
	errPrinter := &c11Printer{}
	meta := serverInstance{protocol: conformancev1.Protocol_PROTOCOL_CONNECT, httpVersion: conformancev1.HTTPVersion_HTTP_VERSION_1,
		useTLS: scn.Script.TLS, useTLSClientCerts: false}
	serverCreds := &conformancev1.TLSCreds{Cert: []byte("c"), Key: []byte("k")}

	returned := make(chan struct{})
	go func() {
		defer close(returned)
		defer func() {
			if r := recover(); r != nil {
				obs.Panic = fmt.Sprint(r)
			}
		}()
		runTestCasesForServer(context.Background(), false, scn.RefSrv, meta, cases, serverCreds, nil, starter,
			&c11Printer{}, errPrinter, results, client, nil, false)
	}()
	// the client gives up on unanswered requests once it has seen everything it will get
	go func() {
		select {
		case <-client.allSeen:
			client.drain()
		case <-returned:
		}
	}()
	select {
	case <-returned:
	case <-time.After(c11Watchdog):
		obs.Hang = "runTestCasesForServer did not return"
		proc.end(true)
		return obs
	}
	snapshot := func() []string {
		results.mu.Lock()
		defer results.mu.Unlock()
		v := make([]string, n)
		for i, name := range names {
			o, ok := results.outcomes[name]
			v[i] = c11Classify(o, ok)
		}
		return v
	}
	obs.Early = snapshot()
	// quiescence: the client has answered or given up on everything it received
	client.drain()
	if stderrDone != nil {
		proc.end(true) // make sure the stderr stream ends even on paths that never aborted
		select {
		case <-stderrEOF: // the runner's stderr goroutine has processed every complete line
		case <-time.After(c11Watchdog):
			obs.Hang = "stderr reader never reached end of stream"
		}
	}
	obs.Outcome = snapshot()
	obs.Sent = make([]bool, n)
	for i, name := range names {
		req := client.reqs[name]
		obs.Sent[i] = req != nil
		if req != nil && obs.ReqFill == "" {
			var nameHdr []string
			for _, h := range req.RequestHeaders {
				if strings.EqualFold(h.Name, "x-test-case-name") {
					nameHdr = append(nameHdr, h.Value...)
				}
			}
			switch {
			case req.Host != srvResp.Host || req.Port != srvResp.Port:
				obs.ReqFill = fmt.Sprintf("%s sent to %s:%d, server said %s:%d", name, req.Host, req.Port, srvResp.Host, srvResp.Port)
			case !bytes.Equal(req.ServerTlsCert, srvResp.PemCert):
				obs.ReqFill = name + ": server certificate not the one the server reported"
			case len(nameHdr) != 1 || nameHdr[0] != name:
				obs.ReqFill = fmt.Sprintf("%s: x-test-case-name header = %v", name, nameHdr)
			case len(cases[i].Request.RequestHeaders) != 1:
				obs.ReqFill = name + ": the test case's own request was mutated"
			}
		}
	}
	proc.mu.Lock()
	obs.Aborted = proc.aborts >= 1
	proc.mu.Unlock()
	obs.Sideband = make([]string, n)
	results.mu.Lock()
	for i, name := range names {
		obs.Sideband[i] = results.serverSideband[name]
	}
	results.mu.Unlock()
	obs.Forwarded = []string{}
	errPrinter.mu.Lock()
	for _, l := range errPrinter.lines {
		switch {
		case l == "referenceserver|Other Suite/other-case: hello there\n":
			obs.Forwarded = append(obs.Forwarded, "unknownName")
		case l == "referenceserver|just some text without separator\n":
			obs.Forwarded = append(obs.Forwarded, "noColon")
		case l == "referenceserver|"+names[0]+":nospace\n":
			obs.Forwarded = append(obs.Forwarded, "noSpace")
		case l == "referenceserver|"+strings.Repeat("x", 100*1024)+"\n":
			obs.Forwarded = append(obs.Forwarded, "long")
		default:
			obs.Forwarded = append(obs.Forwarded, "altered:"+l)
		}
	}
	errPrinter.mu.Unlock()
	return obs
}

func TestVerifC11Run(t *testing.T) {
	lines, err := verifutil.ReadLines(verifutil.Env("VERIF_SCN", "scn.ndjson"))
	if err != nil {
		t.Fatal(err)
	}
	out, err := verifutil.NewOut(verifutil.Env("VERIF_OUT", "out.ndjson"))
	if err != nil {
		t.Fatal(err)
	}
	defer out.Close()
	reps := verifutil.EnvInt("VERIF_REPS", 3)
	res := make([][]c11Obs, len(lines))
	verifutil.ParallelFor(len(lines), runtime.NumCPU()*2, func(i int) {
		var scn c11Scn
		if err := json.Unmarshal(lines[i], &scn); err != nil {
			res[i] = []c11Obs{{Hang: "harness: " + err.Error()}}
			return
		}
		for k := 0; k < reps; k++ {
			res[i] = append(res[i], c11Run(&scn))
		}
	})
	for i := range res {
		out.Put(map[string]any{"i": i, "obs": res[i]})
	}
}

/* ---- process stop protocol (Process.tla): real runCommand against peers that do not cooperate ---- */

type c11ProcObs struct {
	Kind     string  `json:"kind"`
	Result   string  `json:"result"`
	Seconds  float64 `json:"seconds"`
	Fired    []int   `json:"fired"`
	Stable   bool    `json:"stable"`
	SecondUs int64   `json:"second_result_us"`
	StartErr string  `json:"start_err,omitempty"`
	Hang     bool    `json:"hang,omitempty"`
	// kind selfexit-unread: the peer ends without reading its stdin while the runner still writes to it
	// OS kinds: is the peer process still there (up to 2 s) after result() has returned?  Process.tla: GoneWhenDone
	AliveAfter bool  `json:"alive_after,omitempty"`
	Pid        int   `json:"pid,omitempty"`
	WriteHang bool   `json:"write_hang,omitempty"`
	WriteErr  string `json:"write_err,omitempty"`
}

func TestVerifC11Process(t *testing.T) {
	out, err := verifutil.NewOut(verifutil.Env("VERIF_OUT", "proc.ndjson"))
	if err != nil {
		t.Fatal(err)
	}
	defer out.Close()
	kinds := strings.Split(verifutil.Env("VERIF_KINDS", "polite,selfexit"), ",")
	pidDir := t.TempDir()
	var wg sync.WaitGroup
	for _, kind := range kinds {
		wg.Add(1)
		go func(kind string) {
			defer wg.Done()
			obs := c11ProcObs{Kind: kind, Fired: []int{0, 0}}
			pidLog := filepath.Join(pidDir, kind+".log")
			start := runCommand([]string{os.Args[0], "verif-helper", "proc", strings.TrimSuffix(kind, "-unread"), pidLog})
			inproc := strings.HasPrefix(kind, "inproc-")
			release := make(chan struct{})
			defer close(release)
			if inproc {
				// a peer that runs in process (how the runner starts the reference peers): LocalProcess.tla
				start = runInProcess([]string{"verif-inproc"}, func(ctx context.Context, _ []string, _ io.ReadCloser, _, _ io.WriteCloser) error {
					if kind == "inproc-polite" {
						<-ctx.Done()
						return nil
					}
					<-release // stubborn: does not come down when asked to (until the test is over)
					return nil
				})
			}
			proc, err := start(context.Background(), false)
			if err != nil {
				obs.StartErr = err.Error()
				out.Put(obs)
				return
			}
			var mu sync.Mutex
			for i := 0; i < 2; i++ {
				i := i
				proc.whenDone(func(error) { mu.Lock(); obs.Fired[i]++; mu.Unlock() })
			}
			// as runTestCasesForServer does right after writing the request: close the peer's stdin
			// (otherwise the exec layer's stdin copier keeps cmd.Wait from returning)
			writeDone := make(chan error, 1)
			if kind == "selfexit-unread" {
				// ... unless the peer is gone before it has read what the runner still writes (more than the OS
				// pipe holds): Process.tla closes our ends of the pipes when the process is gone, so the write
				// must come back with an error instead of waiting for a reader that no longer exists
				go func() {
					_, werr := proc.stdin.Write(make([]byte, 1<<20))
					writeDone <- werr
				}()
			} else {
				_ = proc.stdin.Close()
			}
			time.Sleep(300 * time.Millisecond) // let the child install its signal handling
			t0 := time.Now()
			if !strings.HasPrefix(kind, "selfexit") {
				proc.abort()
				proc.abort() // idempotent
			}
			resCh := make(chan error, 1)
			go func() { resCh <- proc.result() }()
			var res error
			select {
			case res = <-resCh:
			case <-time.After(25 * time.Second):
				obs.Hang = true
				out.Put(obs)
				return
			}
			obs.Seconds = time.Since(t0).Seconds()
			obs.Result = "exited"
			if !inproc {
				if data, rerr := os.ReadFile(pidLog); rerr == nil {
					var rec struct {
						Pid int `json:"pid"`
					}
					if json.Unmarshal(bytes.SplitN(data, []byte("\n"), 2)[0], &rec) == nil && rec.Pid > 0 {
						obs.Pid = rec.Pid
						obs.AliveAfter = true
						for deadline := time.Now().Add(2 * time.Second); time.Now().Before(deadline); time.Sleep(20 * time.Millisecond) {
							if syscall.Kill(rec.Pid, 0) != nil {
								obs.AliveAfter = false
								break
							}
						}
						if obs.AliveAfter {
							_ = syscall.Kill(rec.Pid, syscall.SIGKILL) // do not leave it behind
						}
					}
				}
			}
			if kind == "selfexit-unread" {
				select {
				case werr := <-writeDone:
					if werr != nil {
						obs.WriteErr = werr.Error()
					}
				case <-time.After(8 * time.Second):
					obs.WriteHang = true
				}
			}
			if res != nil && strings.Contains(res.Error(), "took too long") {
				obs.Result = "took-too-long"
			}
			if inproc && errors.Is(res, context.DeadlineExceeded) {
				obs.Result = "gave-up"
			}
			if inproc && obs.Result == "gave-up" {
				// every call of result() has its own grace period: nothing to compare, and no callback is due
				obs.Stable = true
				time.Sleep(100 * time.Millisecond)
				mu.Lock()
				out.Put(obs)
				mu.Unlock()
				return
			}
			t1 := time.Now()
			res2 := proc.result()
			obs.SecondUs = time.Since(t1).Microseconds()
			obs.Stable = (res == nil) == (res2 == nil) && (res == nil || res.Error() == res2.Error())
			// callbacks run in their own goroutines after done: wait for them (bounded)
			deadline := time.Now().Add(5 * time.Second)
			for time.Now().Before(deadline) {
				mu.Lock()
				ok := obs.Fired[0] >= 1 && obs.Fired[1] >= 1
				mu.Unlock()
				if ok {
					break
				}
				time.Sleep(5 * time.Millisecond)
			}
			time.Sleep(50 * time.Millisecond) // a second firing would show up now
			mu.Lock()
			out.Put(obs)
			mu.Unlock()
		}(kind)
	}
	wg.Wait()
}
