package connectconformance

// C03 harness.
//
// TestVerifC03Replay : TLC-generated (expected, reported) pairs (Gen_Assert) are materialised as
//   real TestCase / ClientResponseResult protos and given to the real testResults.assert on a
//   fresh testResults; the recorded outcome (nil / error text) is parsed into discrepancy tags
//   and compared with the set the specification requires (Disc).
// TestVerifC03Record : expected results of the expanded embedded corpus are projected onto the
//   abstract result of AssertDecl.tla, rewritten by a seeded catalogue of deviations and
//   leniencies at every position, asserted by the real code, and (expected, reported, observed)
//   is recorded for Trace_Assert, which decides acceptance with the same Disc operator.

import (
	"crypto/sha1"
	"encoding/hex"
	"encoding/json"
	"errors"
	"fmt"
	"os"
	"regexp"
	"sort"
	"strconv"
	"strings"
	"sync"
	"sync/atomic"
	"testing"

	"connectrpc.com/conformance/internal/app/connectconformance/testsuites"
	conformancev1 "connectrpc.com/conformance/internal/gen/proto/go/connectrpc/conformance/v1"
	"connectrpc.com/conformance/internal/verifutil"
	"google.golang.org/protobuf/proto"
	"google.golang.org/protobuf/types/known/anypb"
)

// ------------------------------------------------------------------ abstract values (AssertDecl.tla)

type c03Part struct {
	L int    `json:"l"`
	A string `json:"a"`
	R int    `json:"r"`
}
type c03Hdr struct {
	N string      `json:"n"`
	C int         `json:"c"`
	V [][]c03Part `json:"v"`
}
type c03Info struct {
	H  []c03Hdr `json:"h"`
	T  int64    `json:"t"`
	Q  []c03Hdr `json:"q"`
	Rq []string `json:"rq"`
}
type c03Payload struct {
	D string  `json:"d"`
	I c03Info `json:"i"`
}
type c03Detail struct {
	K  string  `json:"k"`
	ID string  `json:"id"`
	I  c03Info `json:"i"`
}
type c03Err struct {
	On   bool        `json:"on"`
	Code int         `json:"code"`
	Ms   bool        `json:"ms"`
	M    string      `json:"m"`
	Det  []c03Detail `json:"det"`
}
type c03Result struct {
	E  c03Err       `json:"e"`
	P  []c03Payload `json:"p"`
	H  []c03Hdr     `json:"h"`
	Tr []c03Hdr     `json:"tr"`
	S  int          `json:"s"`
	U  int          `json:"u"`
}
type c03Case struct {
	St string `json:"st"`
	Oc []int  `json:"oc"`
}
type c03Tag struct {
	C string `json:"c"`
	W string `json:"w"`
	P int    `json:"p"`
	N string `json:"n"`
}

func c03FixHdrs(l []c03Hdr) []c03Hdr {
	if l == nil {
		l = []c03Hdr{}
	}
	for i := range l {
		if l[i].V == nil {
			l[i].V = [][]c03Part{}
		}
		for j := range l[i].V {
			if l[i].V[j] == nil {
				l[i].V[j] = []c03Part{}
			}
		}
	}
	return l
}
func (i *c03Info) fix() {
	i.H = c03FixHdrs(i.H)
	i.Q = c03FixHdrs(i.Q)
	if i.Rq == nil {
		i.Rq = []string{}
	}
}

// fix replaces nil slices by empty ones (JSON [] and not null: TLC reads [] as <<>>).
func (r *c03Result) fix() {
	r.H = c03FixHdrs(r.H)
	r.Tr = c03FixHdrs(r.Tr)
	if r.P == nil {
		r.P = []c03Payload{}
	}
	for k := range r.P {
		r.P[k].I.fix()
	}
	if r.E.Det == nil {
		r.E.Det = []c03Detail{}
	}
	for k := range r.E.Det {
		r.E.Det[k].I.fix()
	}
}

func (r *c03Result) clone() *c03Result {
	b, err := json.Marshal(r)
	if err != nil {
		panic(err)
	}
	var c c03Result
	if err := json.Unmarshal(b, &c); err != nil {
		panic(err)
	}
	c.fix()
	return &c
}

// ------------------------------------------------------------------ abstract -> proto

// c03Table remembers the concrete bytes / messages / spellings behind abstract ids (corpus results).
type c03Table struct {
	data  map[string][]byte
	anys  map[string]*anypb.Any
	names map[string]string // lower-case name -> original spelling (spelling variant 3)
}

func c03NewTable() *c03Table {
	return &c03Table{data: map[string][]byte{}, anys: map[string]*anypb.Any{}, names: map[string]string{}}
}

var c03UnknownField = []byte{0xf8, 0xe1, 0x09, 0x01} // field 19999, varint 1

func (t *c03Table) bytesOf(id string) []byte {
	if b, ok := t.data[id]; ok {
		return b
	}
	if strings.HasSuffix(id, "~") {
		return append(append([]byte{}, t.bytesOf(strings.TrimSuffix(id, "~"))...), '~')
	}
	return []byte(id)
}

func (t *c03Table) anyOf(id string, request bool) *anypb.Any {
	if a, ok := t.anys[id]; ok {
		return proto.Clone(a).(*anypb.Any)
	}
	if strings.HasSuffix(id, "~") {
		a := t.anyOf(strings.TrimSuffix(id, "~"), request)
		a.Value = append(append([]byte{}, a.Value...), c03UnknownField...)
		return a
	}
	if strings.HasSuffix(id, "^") {
		// the same bytes under another message type; n carets give the n-th other type, so that a rewrite
		// applied twice does not lead back to the original (in the specification "x^^" differs from "x")
		base := strings.TrimRight(id, "^")
		k := len(id) - len(base)
		a := t.anyOf(base, request)
		var others []string
		for _, n := range []string{"IdempotentUnaryRequest", "ServerStreamRequest", "ClientStreamRequest", "UnaryRequest"} {
			u := "type.googleapis.com/connectrpc.conformance.v1." + n
			if u != a.TypeUrl {
				others = append(others, u)
			}
		}
		a.TypeUrl = others[(k-1)%len(others)]
		return a
	}
	var msg proto.Message
	if request {
		msg = &conformancev1.UnaryRequest{RequestData: []byte(id)}
	} else {
		msg = &conformancev1.Header{Name: id, Value: []string{"detail"}}
	}
	a, err := anypb.New(msg)
	if err != nil {
		panic(err)
	}
	return a
}

func c03Title(n string) string {
	b := []byte(n)
	up := true
	for i, ch := range b {
		if up && ch >= 'a' && ch <= 'z' {
			b[i] = ch - 32
		}
		up = ch == '-'
	}
	return string(b)
}

func (t *c03Table) nameOf(h *c03Hdr) string {
	switch h.C {
	case 1:
		return c03Title(h.N)
	case 2:
		return strings.ToUpper(h.N)
	case 3:
		if o, ok := t.names[h.N]; ok {
			return o
		}
	}
	return h.N
}

func c03ValueString(v []c03Part) string {
	parts := make([]string, len(v))
	for i, p := range v {
		parts[i] = strings.Repeat(" ", p.L) + p.A + strings.Repeat(" ", p.R)
	}
	return strings.Join(parts, ",")
}

// variant bits choose between representations the abstract value does not distinguish:
// 1: empty request info as nil message; 2: no query parameters as nil connect_get_info;
// 4: empty header list as nil slice.
func (t *c03Table) hdrs(l []c03Hdr, variant int) []*conformancev1.Header {
	if len(l) == 0 {
		if variant&4 != 0 {
			return nil
		}
		return []*conformancev1.Header{}
	}
	res := make([]*conformancev1.Header, len(l))
	for i := range l {
		vals := make([]string, len(l[i].V))
		for j, v := range l[i].V {
			vals[j] = c03ValueString(v)
		}
		res[i] = &conformancev1.Header{Name: t.nameOf(&l[i]), Value: vals}
	}
	return res
}

func (t *c03Table) info(i *c03Info, variant int) *conformancev1.ConformancePayload_RequestInfo {
	if len(i.H) == 0 && i.T < 0 && len(i.Q) == 0 && len(i.Rq) == 0 && variant&1 != 0 {
		return nil
	}
	res := &conformancev1.ConformancePayload_RequestInfo{RequestHeaders: t.hdrs(i.H, variant)}
	if i.T >= 0 {
		res.TimeoutMs = proto.Int64(i.T)
	}
	if len(i.Q) > 0 || variant&2 == 0 {
		res.ConnectGetInfo = &conformancev1.ConformancePayload_ConnectGetInfo{QueryParams: t.hdrs(i.Q, variant)}
	}
	for _, id := range i.Rq {
		res.Requests = append(res.Requests, t.anyOf(id, true))
	}
	return res
}

func (t *c03Table) result(r *c03Result, variant int) *conformancev1.ClientResponseResult {
	return t.resultS(r, variant, 0)
}

// c03Filler: the first n bytes of a fixed pattern.  Payload ids name byte strings; a materialisation may put the
// same filler in front of every payload (the abstract value says nothing about sizes), so that what distinguishes
// two payloads lies far from their beginning.
func c03Filler(n int) []byte {
	b := make([]byte, n)
	for i := range b {
		b[i] = byte('a' + i%23)
	}
	return b
}

func (t *c03Table) resultS(r *c03Result, variant, stretch int) *conformancev1.ClientResponseResult {
	res := t.result0(r, variant)
	if stretch > 0 {
		for _, p := range res.Payloads {
			p.Data = append(c03Filler(stretch), p.Data...)
		}
	}
	return res
}

func (t *c03Table) result0(r *c03Result, variant int) *conformancev1.ClientResponseResult {
	res := &conformancev1.ClientResponseResult{
		ResponseHeaders:   t.hdrs(r.H, variant),
		ResponseTrailers:  t.hdrs(r.Tr, variant),
		NumUnsentRequests: int32(r.U),
	}
	if r.S >= 0 {
		res.HttpStatusCode = proto.Int32(int32(r.S))
	}
	for k := range r.P {
		res.Payloads = append(res.Payloads, &conformancev1.ConformancePayload{
			Data: t.bytesOf(r.P[k].D), RequestInfo: t.info(&r.P[k].I, variant)})
	}
	if r.E.On {
		e := &conformancev1.Error{Code: conformancev1.Code(r.E.Code)}
		if r.E.Ms {
			e.Message = proto.String(r.E.M)
		}
		for k := range r.E.Det {
			d := &r.E.Det[k]
			if d.K == "info" {
				ri := t.info(&d.I, variant&^1)
				a, err := anypb.New(ri)
				if err != nil {
					panic(err)
				}
				e.Details = append(e.Details, a)
			} else {
				e.Details = append(e.Details, t.anyOf(d.ID, false))
			}
		}
		res.Error = e
	}
	return res
}

var c03StreamTypes = map[string]conformancev1.StreamType{
	"unary":         conformancev1.StreamType_STREAM_TYPE_UNARY,
	"client_stream": conformancev1.StreamType_STREAM_TYPE_CLIENT_STREAM,
	"server_stream": conformancev1.StreamType_STREAM_TYPE_SERVER_STREAM,
	"half_duplex":   conformancev1.StreamType_STREAM_TYPE_HALF_DUPLEX_BIDI_STREAM,
	"full_duplex":   conformancev1.StreamType_STREAM_TYPE_FULL_DUPLEX_BIDI_STREAM,
}

func c03StreamName(st conformancev1.StreamType) string {
	for k, v := range c03StreamTypes {
		if v == st {
			return k
		}
	}
	return "unspecified"
}

func c03Definition(name string, tc *c03Case, exp *conformancev1.ClientResponseResult) *conformancev1.TestCase {
	def := &conformancev1.TestCase{
		Request:          &conformancev1.ClientCompatRequest{TestName: name, StreamType: c03StreamTypes[tc.St]},
		ExpectedResponse: exp,
	}
	for _, c := range tc.Oc {
		def.OtherAllowedErrorCodes = append(def.OtherAllowedErrorCodes, conformancev1.Code(c))
	}
	return def
}

// ------------------------------------------------------------------ observation: outcome -> tags

type c03Pat struct {
	re *regexp.Regexp
	f  func(m []string) c03Tag
}

func c03Unq(s string) string {
	if u, err := strconv.Unquote(s); err == nil {
		return u
	}
	return s
}
func c03Atoi(s string) int { n, _ := strconv.Atoi(s); return n }

const c03Lists = `(request headers|response headers|response trailers|request query params|response metadata)`
const c03Quoted = `("(?:[^"\\]|\\.)*")`

var c03Pats = []c03Pat{
	{regexp.MustCompile(`(?s)^received an unexpected error:`), func(m []string) c03Tag { return c03Tag{C: "err.unexpected"} }},
	{regexp.MustCompile(`(?s)^expecting an error but received none$`), func(m []string) c03Tag { return c03Tag{C: "err.missing"} }},
	{regexp.MustCompile(`(?s)^actual error \{code: .*\} does not match expected code \d+ \(`), func(m []string) c03Tag { return c03Tag{C: "err.code"} }},
	{regexp.MustCompile(`(?s)^actual error \{code: .*\} does not match expected message "`), func(m []string) c03Tag { return c03Tag{C: "err.msg"} }},
	{regexp.MustCompile(`(?s)^actual error contain (\d+) details; expecting (\d+)$`), func(m []string) c03Tag {
		return c03Tag{C: "err.details.count", N: m[2] + "/" + m[1]}
	}},
	{regexp.MustCompile(`(?s)^actual error detail #(\d+) does not match expected error detail`), func(m []string) c03Tag {
		return c03Tag{C: "err.detail", P: c03Atoi(m[1])}
	}},
	{regexp.MustCompile(`(?s)^expecting (\d+) response messages but instead got (\d+)$`), func(m []string) c03Tag {
		return c03Tag{C: "payloads.count", N: m[1] + "/" + m[2]}
	}},
	{regexp.MustCompile(`(?s)^response #(\d+): expecting data [0-9a-f]*, got [0-9a-f]*$`), func(m []string) c03Tag {
		return c03Tag{C: "payload.data", P: c03Atoi(m[1])}
	}},
	{regexp.MustCompile(`(?s)^actual ` + c03Lists + ` missing ` + c03Quoted + `$`), func(m []string) c03Tag {
		return c03Tag{C: "missing", W: m[1], N: c03Unq(m[2])}
	}},
	{regexp.MustCompile(`(?s)^` + c03Lists + ` has incorrect values for ` + c03Quoted + `: expected \[`), func(m []string) c03Tag {
		return c03Tag{C: "values", W: m[1], N: c03Unq(m[2])}
	}},
	{regexp.MustCompile(`(?s)^server did not echo back a timeout but one was expected \(\d+ ms\)$`), func(m []string) c03Tag { return c03Tag{C: "timeout.missing"} }},
	{regexp.MustCompile(`(?s)^server echoed back a timeout \(-?\d+ ms\) that did not match expected \(\d+ ms\)$`), func(m []string) c03Tag { return c03Tag{C: "timeout.mismatch"} }},
	{regexp.MustCompile(`(?s)^server echoed back a timeout \(-?\d+ ms\) but none was expected$`), func(m []string) c03Tag { return c03Tag{C: "timeout.unexpected"} }},
	{regexp.MustCompile(`(?s)^expecting (\d+) request messages to be described but instead got (\d+)$`), func(m []string) c03Tag {
		return c03Tag{C: "requests.count", N: m[1] + "/" + m[2]}
	}},
	{regexp.MustCompile(`(?s)^request #(\d+): did not survive round-trip`), func(m []string) c03Tag {
		return c03Tag{C: "request", P: c03Atoi(m[1])}
	}},
	// an echoed request that cannot even be decoded as the type it claims is a deviation of that request too
	{regexp.MustCompile(`(?s)^request #(\d+): failed to unmarshal actual message`), func(m []string) c03Tag {
		return c03Tag{C: "request", P: c03Atoi(m[1])}
	}},
	{regexp.MustCompile(`(?s)^actual HTTP status code does not match: wanted \d+; got \d+$`), func(m []string) c03Tag { return c03Tag{C: "status"} }},
}

func c03Classify(err error) []c03Tag {
	if err == nil {
		return []c03Tag{}
	}
	var list []error
	var multi multiErrors
	if errors.As(err, &multi) {
		list = multi
	} else {
		list = []error{err}
	}
	seen := map[c03Tag]bool{}
	res := []c03Tag{}
	for _, e := range list {
		s := e.Error()
		tag := c03Tag{C: "other", N: s}
		if len(tag.N) > 120 {
			tag.N = tag.N[:120]
		}
		for _, p := range c03Pats {
			if m := p.re.FindStringSubmatch(s); m != nil {
				tag = p.f(m)
				break
			}
		}
		if !seen[tag] {
			seen[tag] = true
			res = append(res, tag)
		}
	}
	return res
}

var c03Counter atomic.Int64

// c03Assert runs the real assert on a fresh testResults and returns (passed, tags, error text).
func c03Assert(def *conformancev1.TestCase, act *conformancev1.ClientResponseResult) (bool, []c03Tag, string) {
	name := fmt.Sprintf("verif/c03/%d", c03Counter.Add(1))
	res := newResults(1, &testTrie{}, &testTrie{}, nil)
	res.assert(name, def, act)
	res.mu.Lock()
	outcome, ok := res.outcomes[name]
	n := len(res.outcomes)
	res.mu.Unlock()
	if !ok || n != 1 {
		return false, []c03Tag{{C: "other", N: "no outcome recorded"}}, "no outcome recorded"
	}
	if outcome.setupError || outcome.knownFailing || outcome.knownFlaky {
		return false, []c03Tag{{C: "other", N: "outcome flags set"}}, "outcome flags set"
	}
	if outcome.actualFailure == nil {
		return true, []c03Tag{}, ""
	}
	return false, c03Classify(outcome.actualFailure), outcome.actualFailure.Error()
}

// c03Verdict compares an observation with the discrepancies the specification requires.
// "" = agree; otherwise the kind of disagreement.
func c03Verdict(disc []c03Tag, ok bool, obs []c03Tag) (string, int) {
	if len(disc) == 0 {
		if ok {
			return "", 0
		}
		return "false-fail", 0
	}
	if ok {
		return "false-pass", 0
	}
	have := map[c03Tag]bool{}
	for _, t := range obs {
		have[t] = true
	}
	want := map[c03Tag]bool{}
	for _, t := range disc {
		want[t] = true
		if !have[t] {
			return "unnamed", 0
		}
	}
	extra := 0
	for _, t := range obs {
		if !want[t] {
			extra++
		}
	}
	return "", extra
}

// ------------------------------------------------------------------ replay of TLC behaviours

type c03Scn struct {
	ID    int       `json:"id"`
	Exp   c03Result `json:"exp"`
	Act   c03Result `json:"act"`
	Tc    c03Case   `json:"tc"`
	Steps []string  `json:"steps"`
	Ndev  int       `json:"ndev"`
	Disc  []c03Tag  `json:"disc"`
}

type c03Mismatch struct {
	Kind    string   `json:"kind"`
	Scn     *c03Scn  `json:"scn"`
	Obs     []c03Tag `json:"obs"`
	Text    string   `json:"text"`
	Variant int      `json:"variant"`
	Repro   int      `json:"repro"`
}

func TestVerifC03Replay(t *testing.T) {
	lines, err := verifutil.ReadLines(verifutil.Env("VERIF_SCN", ""))
	if err != nil {
		t.Fatal(err)
	}
	out, err := verifutil.NewOut(verifutil.Env("VERIF_OUT", ""))
	if err != nil {
		t.Fatal(err)
	}
	defer out.Close()
	var evals, mism, nontrivial, extras, fails, passes atomic.Int64
	tbl := c03NewTable()
	verifutil.ParallelFor(len(lines), 12, func(i int) {
		var s c03Scn
		if err := json.Unmarshal(lines[i], &s); err != nil {
			t.Errorf("line %d: %v", i, err)
			return
		}
		s.Exp.fix()
		s.Act.fix()
		if s.Disc == nil {
			s.Disc = []c03Tag{}
		}
		// two materialisations per scenario: the representation choices the abstract value leaves open
		for vi, variant := range []int{(s.ID * 5) % 8, (s.ID*5 + 3) % 8} {
			stretch := []int{0, 0, 1500, 70000, 0, 1023, 0, 4096}[(s.ID+3*vi)%8]
			run := func() (bool, []c03Tag, string) {
				exp := tbl.resultS(&s.Exp, (variant+s.ID/8)%8, stretch)
				act := tbl.resultS(&s.Act, variant, stretch)
				return c03Assert(c03Definition("t", &s.Tc, exp), act)
			}
			ok, obs, text := run()
			evals.Add(1)
			if ok {
				passes.Add(1)
			} else {
				fails.Add(1)
			}
			kind, extra := c03Verdict(s.Disc, ok, obs)
			extras.Add(int64(extra))
			if kind == "" {
				continue
			}
			repro := 1
			for k := 0; k < 3; k++ {
				ok2, obs2, _ := run()
				if k2, _ := c03Verdict(s.Disc, ok2, obs2); k2 == kind {
					repro++
				}
			}
			mism.Add(1)
			out.Put(c03Mismatch{Kind: kind, Scn: &s, Obs: obs, Text: text, Variant: variant, Repro: repro})
		}
		if len(s.Steps) > 0 {
			nontrivial.Add(1)
		}
	})
	out.Put(map[string]any{"summary": true, "scenarios": len(lines), "evaluations": evals.Load(), "mismatches": mism.Load(),
		"nontrivial": nontrivial.Load(), "extra_tags": extras.Load(), "passes": passes.Load(), "fails": fails.Load()})
}

// ------------------------------------------------------------------ proto -> abstract (corpus)

func c03AbsValue(s string) []c03Part {
	pieces := strings.Split(s, ",")
	res := make([]c03Part, len(pieces))
	for i, p := range pieces {
		l := 0
		for l < len(p) && p[l] == ' ' {
			l++
		}
		if l == len(p) {
			res[i] = c03Part{L: l}
			continue
		}
		r := 0
		for p[len(p)-1-r] == ' ' {
			r++
		}
		res[i] = c03Part{L: l, A: p[l : len(p)-r], R: r}
	}
	return res
}

func (t *c03Table) absHdrs(l []*conformancev1.Header) ([]c03Hdr, bool) {
	res := make([]c03Hdr, 0, len(l))
	seen := map[string]bool{}
	ok := true
	for _, h := range l {
		n := strings.ToLower(h.GetName())
		if seen[n] {
			ok = false // a name in two entries: outside the domain (message Header: one entry, repeated value)
		}
		seen[n] = true
		c := 3
		switch h.GetName() {
		case n:
			c = 0
		case c03Title(n):
			c = 1
		case strings.ToUpper(n):
			c = 2
		default:
			if o, dup := t.names[n]; dup && o != h.GetName() {
				ok = false
			}
			t.names[n] = h.GetName()
		}
		vals := make([][]c03Part, len(h.GetValue()))
		for j, v := range h.GetValue() {
			vals[j] = c03AbsValue(v)
		}
		res = append(res, c03Hdr{N: n, C: c, V: vals})
	}
	return res, ok
}

func c03Hash(prefix string, b []byte) string {
	s := sha1.Sum(b)
	return prefix + hex.EncodeToString(s[:6])
}

func (t *c03Table) absAny(a *anypb.Any) string {
	id := c03Hash("m", append([]byte(a.GetTypeUrl()+"|"), a.GetValue()...))
	t.anys[id] = a
	return id
}

func (t *c03Table) absInfo(i *conformancev1.ConformancePayload_RequestInfo) (c03Info, bool) {
	res := c03Info{T: -1}
	var ok1, ok2 bool
	res.H, ok1 = t.absHdrs(i.GetRequestHeaders())
	res.Q, ok2 = t.absHdrs(i.GetConnectGetInfo().GetQueryParams())
	if i != nil && i.TimeoutMs != nil {
		res.T = i.GetTimeoutMs()
	}
	res.Rq = make([]string, 0, len(i.GetRequests()))
	for _, a := range i.GetRequests() {
		res.Rq = append(res.Rq, t.absAny(a))
	}
	return res, ok1 && ok2 && res.T < 1<<30 && (i == nil || i.TimeoutMs == nil || res.T >= 0)
}

func (t *c03Table) absResult(r *conformancev1.ClientResponseResult) (*c03Result, bool) {
	res := &c03Result{S: -1, U: int(r.GetNumUnsentRequests())}
	ok := true
	var o bool
	res.H, o = t.absHdrs(r.GetResponseHeaders())
	ok = ok && o
	res.Tr, o = t.absHdrs(r.GetResponseTrailers())
	ok = ok && o
	if r.HttpStatusCode != nil {
		res.S = int(r.GetHttpStatusCode())
	}
	for _, p := range r.GetPayloads() {
		id := c03Hash("d", p.GetData())
		t.data[id] = p.GetData()
		inf, o := t.absInfo(p.GetRequestInfo())
		ok = ok && o
		res.P = append(res.P, c03Payload{D: id, I: inf})
	}
	if e := r.GetError(); e != nil {
		res.E = c03Err{On: true, Code: int(e.GetCode()), Ms: e.Message != nil, M: e.GetMessage()}
		for _, d := range e.GetDetails() {
			ri := &conformancev1.ConformancePayload_RequestInfo{}
			if d.MessageIs(ri) {
				if err := d.UnmarshalTo(ri); err != nil {
					ok = false
					continue
				}
				inf, o := t.absInfo(ri)
				ok = ok && o
				res.E.Det = append(res.E.Det, c03Detail{K: "info", I: inf})
			} else {
				res.E.Det = append(res.E.Det, c03Detail{K: "msg", ID: t.absAny(d), I: c03Info{T: -1}})
			}
		}
	}
	res.fix()
	return res, ok
}

// ------------------------------------------------------------------ seeded rewrite catalogue (corpus)

type c03Mut struct {
	lab string
	res *c03Result
}

func c03SeqRemove[T any](s []T, i int) []T {
	res := append([]T{}, s[:i]...)
	return append(res, s[i+1:]...)
}
func c03SeqDup[T any](s []T, i int) []T {
	res := append([]T{}, s[:i+1]...)
	return append(res, s[i:]...)
}

// c03ListMuts enumerates rewrites of one header list; get returns the list inside a fresh clone.
func c03ListMuts(base *c03Result, loc string, get func(r *c03Result) *[]c03Hdr, emit func(lab string, r *c03Result)) {
	l := *get(base)
	with := func(lab string, f func(l *[]c03Hdr)) {
		c := base.clone()
		f(get(c))
		emit(loc+"."+lab, c)
	}
	extra := c03Hdr{N: "x-verif-extra", C: 1, V: [][]c03Part{{{A: "e"}}}}
	with("hdr.extra.append", func(l *[]c03Hdr) { *l = append(*l, extra) })
	with("hdr.extra.prepend", func(l *[]c03Hdr) { *l = append([]c03Hdr{extra}, *l...) })
	if len(l) > 0 {
		with("hdr.clear", func(l *[]c03Hdr) { *l = []c03Hdr{} })
	}
	for h := range l {
		h := h
		at := fmt.Sprintf("@%d", h+1)
		with("hdr.drop"+at, func(l *[]c03Hdr) { *l = c03SeqRemove(*l, h) })
		with("hdr.rename"+at, func(l *[]c03Hdr) { (*l)[h].N += "-z"; (*l)[h].C = 0 })
		for c := 0; c < 3; c++ {
			c := c
			if c != l[h].C {
				with(fmt.Sprintf("name.case%d%s", c, at), func(l *[]c03Hdr) { (*l)[h].C = c })
			}
		}
		with("val.append"+at, func(l *[]c03Hdr) { (*l)[h].V = append((*l)[h].V, []c03Part{{A: "zz"}}) })
		with("val.prepend"+at, func(l *[]c03Hdr) { (*l)[h].V = append([][]c03Part{{{A: "zz"}}}, (*l)[h].V...) })
		for i := range l[h].V {
			i := i
			ati := fmt.Sprintf("%s.%d", at, i+1)
			n := len(l[h].V[i])
			with("val.drop"+ati, func(l *[]c03Hdr) { (*l)[h].V = c03SeqRemove((*l)[h].V, i) })
			with("val.outer.lead.add"+ati, func(l *[]c03Hdr) { (*l)[h].V[i][0].L++ })
			with("val.outer.trail.add"+ati, func(l *[]c03Hdr) {
				p := &(*l)[h].V[i][n-1]
				if p.A == "" {
					p.L++
				} else {
					p.R++
				}
			})
			if i+1 < len(l[h].V) {
				with("val.swap"+ati, func(l *[]c03Hdr) { v := (*l)[h].V; v[i], v[i+1] = v[i+1], v[i] })
				// fold with the next value, unconditionally: the specification decides whether the
				// folded form still means the same
				for sep := 0; sep < 4; sep++ {
					sep := sep
					with(fmt.Sprintf("val.join%d%s", sep, ati), func(l *[]c03Hdr) {
						v := (*l)[h].V
						a := append([]c03Part{}, v[i]...)
						b := append([]c03Part{}, v[i+1]...)
						if sep&1 != 0 {
							p := &a[len(a)-1]
							if p.A == "" {
								p.L++
							} else {
								p.R++
							}
						}
						if sep&2 != 0 {
							b[0].L++
						}
						nv := append([][]c03Part{}, v[:i]...)
						nv = append(nv, append(a, b...))
						nv = append(nv, v[i+2:]...)
						(*l)[h].V = nv
					})
				}
			}
			for k := 0; k < n; k++ {
				k := k
				atk := fmt.Sprintf("%s.%d", ati, k+1)
				with("piece.alter"+atk, func(l *[]c03Hdr) { (*l)[h].V[i][k].A += "~" })
				if n >= 2 {
					with("piece.drop"+atk, func(l *[]c03Hdr) { (*l)[h].V[i] = c03SeqRemove((*l)[h].V[i], k) })
				}
				if k > 0 {
					with("blank.after.add"+atk, func(l *[]c03Hdr) { (*l)[h].V[i][k].L++ })
					if l[h].V[i][k].L > 0 {
						with("blank.after.del"+atk, func(l *[]c03Hdr) { (*l)[h].V[i][k].L-- })
					}
				}
				if k+1 < n {
					with("blank.before.add"+atk, func(l *[]c03Hdr) {
						p := &(*l)[h].V[i][k]
						if p.A == "" {
							p.L++
						} else {
							p.R++
						}
					})
					// cut the value in two at this comma, keeping (raw) or dropping (trim) the folding blanks
					for _, trim := range []bool{false, true} {
						trim := trim
						with(fmt.Sprintf("val.split.%v%s", trim, atk), func(l *[]c03Hdr) {
							v := (*l)[h].V
							a := append([]c03Part{}, v[i][:k+1]...)
							b := append([]c03Part{}, v[i][k+1:]...)
							if trim {
								p := &a[len(a)-1]
								if p.A == "" {
									if p.L > 0 {
										p.L--
									}
								} else if p.R > 0 {
									p.R--
								}
								if b[0].L > 0 {
									b[0].L--
								}
							}
							nv := append([][]c03Part{}, v[:i]...)
							nv = append(nv, a, b)
							nv = append(nv, v[i+1:]...)
							(*l)[h].V = nv
						})
					}
				}
			}
		}
	}
}

func c03InfoMuts(base *c03Result, loc string, first bool, get func(r *c03Result) *c03Info, emit func(lab string, r *c03Result)) {
	inf := *get(base)
	with := func(lab string, f func(i *c03Info)) {
		c := base.clone()
		f(get(c))
		emit(loc+"."+lab, c)
	}
	c03ListMuts(base, loc+".h", func(r *c03Result) *[]c03Hdr { return &get(r).H }, emit)
	c03ListMuts(base, loc+".q", func(r *c03Result) *[]c03Hdr { return &get(r).Q }, emit)
	if inf.T >= 0 {
		for _, d := range []int64{1, 0, -1, -499, -500, -501, -1000} {
			d := d
			if inf.T+d >= 0 {
				with(fmt.Sprintf("t.d%d", d), func(i *c03Info) { i.T += d })
			}
		}
		with("t.zero", func(i *c03Info) { i.T = 0 })
		with("t.unset", func(i *c03Info) { i.T = -1 })
	} else {
		with("t.set", func(i *c03Info) { i.T = 7 })
	}
	_ = first
	for k := range inf.Rq {
		k := k
		at := fmt.Sprintf("@%d", k+1)
		with("rq.alter"+at, func(i *c03Info) { i.Rq[k] += "~" })
		with("rq.retype"+at, func(i *c03Info) { i.Rq[k] += "^" })
		with("rq.drop"+at, func(i *c03Info) { i.Rq = c03SeqRemove(i.Rq, k) })
		with("rq.dup"+at, func(i *c03Info) { i.Rq = c03SeqDup(i.Rq, k) })
		if k+1 < len(inf.Rq) {
			with("rq.swap"+at, func(i *c03Info) { i.Rq[k], i.Rq[k+1] = i.Rq[k+1], i.Rq[k] })
		}
	}
	with("rq.append", func(i *c03Info) { i.Rq = append(i.Rq, "rx") })
}

func c03MergeLists(h, t []c03Hdr) []c03Hdr {
	res := []c03Hdr{}
	idx := map[string]int{}
	for _, l := range [][]c03Hdr{h, t} {
		for _, x := range l {
			if i, ok := idx[x.N]; ok {
				res[i].V = append(append([][]c03Part{}, res[i].V...), x.V...)
			} else {
				idx[x.N] = len(res)
				res = append(res, c03Hdr{N: x.N, C: x.C, V: append([][]c03Part{}, x.V...)})
			}
		}
	}
	return res
}

// c03Muts enumerates the single rewrites of a reported result (deviations and leniencies alike;
// the classification is the specification's business).
func c03Muts(base *c03Result, tc *c03Case, emit func(lab string, r *c03Result)) {
	with := func(lab string, f func(r *c03Result)) {
		c := base.clone()
		f(c)
		emit(lab, c)
	}
	c03ListMuts(base, "rh", func(r *c03Result) *[]c03Hdr { return &r.H }, emit)
	c03ListMuts(base, "rt", func(r *c03Result) *[]c03Hdr { return &r.Tr }, emit)
	if len(base.H) > 0 {
		with("meta.all.trailers", func(r *c03Result) { r.Tr = c03MergeLists(r.H, r.Tr); r.H = []c03Hdr{} })
		for h := range base.H {
			h := h
			with(fmt.Sprintf("meta.move@%d", h+1), func(r *c03Result) {
				r.Tr = c03MergeLists(nil, append(append([]c03Hdr{}, r.Tr...), r.H[h]))
				r.H = c03SeqRemove(r.H, h)
			})
		}
	}
	if len(base.Tr) > 0 {
		with("meta.all.headers", func(r *c03Result) { r.H = c03MergeLists(r.H, r.Tr); r.Tr = []c03Hdr{} })
	}
	if len(base.H) > 0 && len(base.Tr) > 0 {
		with("meta.swap", func(r *c03Result) { r.H, r.Tr = r.Tr, r.H })
	}
	// status, unsent
	if base.S >= 0 {
		with("status.absent", func(r *c03Result) { r.S = -1 })
		with("status.other", func(r *c03Result) { r.S++ })
	} else {
		with("status.any", func(r *c03Result) { r.S = 500 })
	}
	with("unsent", func(r *c03Result) { r.U += 2 })
	// error
	if !base.E.On {
		with("err.add", func(r *c03Result) { r.E = c03Err{On: true, Code: 2, Ms: true, M: "boom", Det: []c03Detail{}} })
	} else {
		with("err.drop", func(r *c03Result) { r.E = c03Err{Det: []c03Detail{}} })
		codes := map[int]bool{5: true, 13: true, base.E.Code%16 + 1: true}
		for _, c := range tc.Oc {
			codes[c] = true
		}
		for c := range codes {
			c := c
			if c != base.E.Code {
				with(fmt.Sprintf("code@%d", c), func(r *c03Result) { r.E.Code = c })
			}
		}
		with("msg.alter", func(r *c03Result) { r.E.Ms = true; r.E.M += "~" })
		if base.E.Ms {
			with("msg.drop", func(r *c03Result) { r.E.Ms = false; r.E.M = "" })
		}
		with("det.append", func(r *c03Result) { r.E.Det = append(r.E.Det, c03Detail{K: "msg", ID: "dx", I: c03Info{T: -1}}) })
		for k := range base.E.Det {
			k := k
			at := fmt.Sprintf("@%d", k+1)
			with("det.drop"+at, func(r *c03Result) { r.E.Det = c03SeqRemove(r.E.Det, k) })
			with("det.dup"+at, func(r *c03Result) { r.E.Det = c03SeqDup(r.E.Det, k) })
			if k+1 < len(base.E.Det) {
				with("det.swap"+at, func(r *c03Result) { r.E.Det[k], r.E.Det[k+1] = r.E.Det[k+1], r.E.Det[k] })
			}
			if base.E.Det[k].K == "msg" {
				with("det.alter"+at, func(r *c03Result) { r.E.Det[k].ID += "~" })
			} else {
				with("det.info2msg"+at, func(r *c03Result) { r.E.Det[k] = c03Detail{K: "msg", ID: "dy", I: c03Info{T: -1}} })
				c03InfoMuts(base, "det"+at, true, func(r *c03Result) *c03Info { return &r.E.Det[k].I }, emit)
			}
		}
	}
	// payloads
	with("p.append", func(r *c03Result) { r.P = append(r.P, c03Payload{D: "DX", I: c03Info{T: -1}}) })
	for k := range base.P {
		k := k
		at := fmt.Sprintf("@%d", k+1)
		with("p.drop"+at, func(r *c03Result) { r.P = c03SeqRemove(r.P, k) })
		with("p.dup"+at, func(r *c03Result) { r.P = c03SeqDup(r.P, k) })
		if k+1 < len(base.P) {
			with("p.swap"+at, func(r *c03Result) { r.P[k], r.P[k+1] = r.P[k+1], r.P[k] })
		}
		with("p.data"+at, func(r *c03Result) { r.P[k].D += "~" })
		c03InfoMuts(base, "p"+at, k == 0, func(r *c03Result) *c03Info { return &r.P[k].I }, emit)
	}
}

type c03Rec struct {
	Exp    *c03Result `json:"exp"`
	Act    *c03Result `json:"act"`
	Tc     *c03Case   `json:"tc"`
	Ok     bool       `json:"ok"`
	Obs    []c03Tag   `json:"obs"`
	Lab    string     `json:"lab"`
	Name   string     `json:"name"`
	Stable bool       `json:"stable"`
}

// TestVerifC03Record: expected results of the expanded corpus x seeded rewrites -> (exp, act, observed).
func TestVerifC03Record(t *testing.T) {
	out, err := verifutil.NewOut(verifutil.Env("VERIF_OUT", ""))
	if err != nil {
		t.Fatal(err)
	}
	defer out.Close()
	maxResults := verifutil.EnvInt("VERIF_N", 150)
	maxPer := verifutil.EnvInt("VERIF_PER", 400)
	doubles := verifutil.EnvInt("VERIF_DOUBLES", 20)
	// the reference configuration (every feature on) when given, the default one otherwise
	var configData []byte
	configName := verifutil.Env("VERIF_CONFIG", "")
	if configName != "" {
		if configData, err = os.ReadFile(configName); err != nil {
			t.Fatal(err)
		}
	}
	configCases, err := parseConfig(configName, configData)
	if err != nil {
		t.Fatal(err)
	}
	data, err := testsuites.LoadTestSuites()
	if err != nil {
		t.Fatal(err)
	}
	allSuites, err := parseTestSuites(data)
	if err != nil {
		t.Fatal(err)
	}
	type item struct {
		name string
		def  *conformancev1.TestCase
		abs  *c03Result
		tc   *c03Case
	}
	tbl := c03NewTable()
	var items []item
	seen := map[string]bool{}
	total, skipped, noExp, large := 0, 0, 0, 0
	for _, mode := range []conformancev1.TestSuite_TestMode{conformancev1.TestSuite_TEST_MODE_CLIENT, conformancev1.TestSuite_TEST_MODE_SERVER} {
		lib, err := newTestCaseLibrary(allSuites, configCases, mode)
		if err != nil {
			t.Fatal(err)
		}
		perms := lib.allPermutations(mode == conformancev1.TestSuite_TEST_MODE_SERVER, mode == conformancev1.TestSuite_TEST_MODE_CLIENT)
		sort.Slice(perms, func(i, j int) bool { return perms[i].Request.TestName < perms[j].Request.TestName })
		for _, tcase := range perms {
			total++
			if tcase.ExpectedResponse == nil {
				noExp++
				continue
			}
			abs, ok := tbl.absResult(tcase.ExpectedResponse)
			if !ok {
				skipped++
				continue
			}
			// echoed requests are compared by the real code with cmp.Diff, which needs seconds for
			// request messages of several hundred kB: such results are left out (counted)
			if c03RequestBytes(tcase.ExpectedResponse) > 8192 {
				large++
				continue
			}
			tc := &c03Case{St: c03StreamName(tcase.Request.StreamType), Oc: []int{}}
			for _, c := range tcase.OtherAllowedErrorCodes {
				tc.Oc = append(tc.Oc, int(c))
			}
			kb, _ := json.Marshal([]any{abs, tc})
			if seen[string(kb)] {
				continue
			}
			seen[string(kb)] = true
			items = append(items, item{tcase.Request.TestName, tcase, abs, tc})
		}
	}
	distinct := len(items)
	// the projection must be faithful: materialising it again must be accepted as identical by the
	// relation's reflexive case (checked below through the recorded "identity" line of every result)
	rng := verifutil.Rand(3)
	rng.Shuffle(len(items), func(i, j int) { items[i], items[j] = items[j], items[i] })
	if len(items) > maxResults {
		items = items[:maxResults]
	}
	var mu sync.Mutex
	labKinds := map[string]int{}
	var recs, unstable atomic.Int64
	verifutil.ParallelFor(len(items), 12, func(ix int) {
		it := items[ix]
		lrng := verifutil.Rand(uint64(1000 + ix))
		var muts []c03Mut
		muts = append(muts, c03Mut{"identity", it.abs.clone()})
		c03Muts(it.abs, it.tc, func(lab string, r *c03Result) { muts = append(muts, c03Mut{lab, r}) })
		if len(muts) > maxPer {
			// keep the identity and a seeded sample (deep corpora: many headers x many positions)
			rest := muts[1:]
			lrng.Shuffle(len(rest), func(i, j int) { rest[i], rest[j] = rest[j], rest[i] })
			muts = muts[:maxPer]
		}
		// seeded doubles: a second rewrite applied to the result of a first one
		n1 := len(muts)
		for d := 0; d < doubles && n1 > 1; d++ {
			first := muts[1+lrng.IntN(n1-1)]
			var second []c03Mut
			c03Muts(first.res, it.tc, func(lab string, r *c03Result) { second = append(second, c03Mut{first.lab + "+" + lab, r}) })
			if len(second) > 0 {
				muts = append(muts, second[lrng.IntN(len(second))])
			}
		}
		for mi, m := range muts {
			m.res.fix()
			variant := (ix + mi) % 8
			act := tbl.result(m.res, variant)
			ok, obs, _ := c03Assert(it.def, act)
			// the observation must be reproducible: assert twice more (fresh testResults each time)
			stable := true
			for k := 0; k < 2; k++ {
				ok2, obs2, _ := c03Assert(it.def, tbl.result(m.res, variant))
				if ok2 != ok || fmt.Sprint(obs2) != fmt.Sprint(obs) {
					stable = false
				}
			}
			if !stable {
				unstable.Add(1)
			}
			out.Put(c03Rec{Exp: it.abs, Act: m.res, Tc: it.tc, Ok: ok, Obs: obs, Lab: m.lab, Name: it.name, Stable: stable})
			recs.Add(1)
			mu.Lock()
			labKinds[c03LabKind(m.lab)]++
			mu.Unlock()
		}
	})
	out.Put(map[string]any{"summary": true, "permutations": total, "no_expected": noExp, "outside_domain": skipped, "large_requests_left_out": large,
		"distinct_expected": distinct, "used": len(items), "records": recs.Load(), "unstable": unstable.Load(), "label_kinds": labKinds})
}

func c03RequestBytes(r *conformancev1.ClientResponseResult) int {
	n := 0
	count := func(i *conformancev1.ConformancePayload_RequestInfo) {
		for _, a := range i.GetRequests() {
			n += len(a.GetValue())
		}
	}
	for _, p := range r.GetPayloads() {
		count(p.GetRequestInfo())
	}
	for _, d := range r.GetError().GetDetails() {
		ri := &conformancev1.ConformancePayload_RequestInfo{}
		if d.MessageIs(ri) && d.UnmarshalTo(ri) == nil {
			count(ri)
		}
	}
	return n
}

var c03AtRe = regexp.MustCompile(`@\d+(\.\d+)*`)

func c03LabKind(lab string) string {
	if strings.Contains(lab, "+") {
		return "double"
	}
	return c03AtRe.ReplaceAllString(lab, "")
}
