package connectconformance

// C06 harness: replays TLC-generated configurations (Gen_ConfigExpand) on the real parseConfig and
// compares with what the declarative specification requires; records executions of parseConfig on
// seeded random configurations (beyond the TLC domain) and on the shipped YAML files for the
// trace acceptor Trace_ConfigExpand.

import (
	"encoding/json"
	"fmt"
	"os"
	"path/filepath"
	"regexp"
	"runtime"
	"sort"
	"strconv"
	"strings"
	"sync/atomic"
	"testing"

	"buf.build/go/protoyaml"
	conformancev1 "connectrpc.com/conformance/internal/gen/proto/go/connectrpc/conformance/v1"
	"connectrpc.com/conformance/internal/verifutil"
	"google.golang.org/protobuf/encoding/protojson"
)

// ---- abstract configuration (the domain of spec/ConfigExpandDecl.tla) ----

type c06Features struct {
	Vs       []int  `json:"vs"`
	Ps       []int  `json:"ps"`
	Cs       []int  `json:"cs"`
	Zs       []int  `json:"zs"`
	Ss       []int  `json:"ss"`
	H2c      string `json:"h2c"`
	TLS      string `json:"tls"`
	Certs    string `json:"certs"`
	Trailers string `json:"trailers"`
	Hdh1     string `json:"hdh1"`
	Get      string `json:"get"`
	Lim      string `json:"lim"`
}

type c06Entry struct {
	V    int    `json:"v"`
	P    int    `json:"p"`
	C    int    `json:"c"`
	Z    int    `json:"z"`
	S    int    `json:"s"`
	TLS  string `json:"tls"`
	Cert string `json:"cert"`
	Lim  string `json:"lim"`
}

type c06Cfg struct {
	F   c06Features `json:"f"`
	Inc []c06Entry  `json:"inc"`
	Exc []c06Entry  `json:"exc"`
}

type c06FP struct {
	N  int `json:"n"`
	H1 int `json:"h1"`
	H2 int `json:"h2"`
	H3 int `json:"h3"`
}

type c06EntExp struct {
	Must []string `json:"must"`
	Gap  bool     `json:"gap"`
}

type c06Exp struct {
	Ferr []string    `json:"ferr"`
	Ent  []c06EntExp `json:"ent"`
	FP   c06FP       `json:"fp"`
}

type c06Scn struct {
	Cfg c06Cfg `json:"cfg"`
	Exp c06Exp `json:"exp"`
}

// observation of one parseConfig call, in the vocabulary of ConfigExpandDecl!Conforms
type c06Obs struct {
	Kind  string `json:"kind"` // feature-error | entry-error | empty-error | cases | unclassified
	Class string `json:"class"`
	Pos   int    `json:"pos"`
	Cases []int  `json:"cases"`
	Dups  int    `json:"dups"`
	Msg   string `json:"msg,omitempty"`
	FP    *c06FP `json:"fp,omitempty"`
}

func c06Tri(t string) *bool {
	switch t {
	case "true":
		v := true
		return &v
	case "false":
		v := false
		return &v
	}
	return nil
}

func c06TriOf(b *bool) string {
	if b == nil {
		return "unset"
	}
	if *b {
		return "true"
	}
	return "false"
}

func c06Proto(cfg *c06Cfg) *conformancev1.Config {
	f := &conformancev1.Features{
		SupportsH2C:                     c06Tri(cfg.F.H2c),
		SupportsTls:                     c06Tri(cfg.F.TLS),
		SupportsTlsClientCerts:          c06Tri(cfg.F.Certs),
		SupportsTrailers:                c06Tri(cfg.F.Trailers),
		SupportsHalfDuplexBidiOverHttp1: c06Tri(cfg.F.Hdh1),
		SupportsConnectGet:              c06Tri(cfg.F.Get),
		SupportsMessageReceiveLimit:     c06Tri(cfg.F.Lim),
	}
	for _, v := range cfg.F.Vs {
		f.Versions = append(f.Versions, conformancev1.HTTPVersion(v))
	}
	for _, v := range cfg.F.Ps {
		f.Protocols = append(f.Protocols, conformancev1.Protocol(v))
	}
	for _, v := range cfg.F.Cs {
		f.Codecs = append(f.Codecs, conformancev1.Codec(v))
	}
	for _, v := range cfg.F.Zs {
		f.Compressions = append(f.Compressions, conformancev1.Compression(v))
	}
	for _, v := range cfg.F.Ss {
		f.StreamTypes = append(f.StreamTypes, conformancev1.StreamType(v))
	}
	ent := func(e c06Entry) *conformancev1.ConfigCase {
		return &conformancev1.ConfigCase{
			Version:                conformancev1.HTTPVersion(e.V),
			Protocol:               conformancev1.Protocol(e.P),
			Codec:                  conformancev1.Codec(e.C),
			Compression:            conformancev1.Compression(e.Z),
			StreamType:             conformancev1.StreamType(e.S),
			UseTls:                 c06Tri(e.TLS),
			UseTlsClientCerts:      c06Tri(e.Cert),
			UseMessageReceiveLimit: c06Tri(e.Lim),
		}
	}
	res := &conformancev1.Config{Features: f}
	for _, e := range cfg.Inc {
		res.IncludeCases = append(res.IncludeCases, ent(e))
	}
	for _, e := range cfg.Exc {
		res.ExcludeCases = append(res.ExcludeCases, ent(e))
	}
	return res
}

func c06Abstract(config *conformancev1.Config) c06Cfg {
	var res c06Cfg
	f := config.GetFeatures()
	res.F = c06Features{Vs: []int{}, Ps: []int{}, Cs: []int{}, Zs: []int{}, Ss: []int{},
		H2c: "unset", TLS: "unset", Certs: "unset", Trailers: "unset", Hdh1: "unset", Get: "unset", Lim: "unset"}
	if f != nil {
		for _, v := range f.Versions {
			res.F.Vs = append(res.F.Vs, int(v))
		}
		for _, v := range f.Protocols {
			res.F.Ps = append(res.F.Ps, int(v))
		}
		for _, v := range f.Codecs {
			res.F.Cs = append(res.F.Cs, int(v))
		}
		for _, v := range f.Compressions {
			res.F.Zs = append(res.F.Zs, int(v))
		}
		for _, v := range f.StreamTypes {
			res.F.Ss = append(res.F.Ss, int(v))
		}
		res.F.H2c, res.F.TLS, res.F.Certs = c06TriOf(f.SupportsH2C), c06TriOf(f.SupportsTls), c06TriOf(f.SupportsTlsClientCerts)
		res.F.Trailers, res.F.Hdh1 = c06TriOf(f.SupportsTrailers), c06TriOf(f.SupportsHalfDuplexBidiOverHttp1)
		res.F.Get, res.F.Lim = c06TriOf(f.SupportsConnectGet), c06TriOf(f.SupportsMessageReceiveLimit)
	}
	ent := func(e *conformancev1.ConfigCase) c06Entry {
		return c06Entry{V: int(e.Version), P: int(e.Protocol), C: int(e.Codec), Z: int(e.Compression), S: int(e.StreamType),
			TLS: c06TriOf(e.UseTls), Cert: c06TriOf(e.UseTlsClientCerts), Lim: c06TriOf(e.UseMessageReceiveLimit)}
	}
	res.Inc, res.Exc = []c06Entry{}, []c06Entry{}
	for _, e := range config.GetIncludeCases() {
		res.Inc = append(res.Inc, ent(e))
	}
	for _, e := range config.GetExcludeCases() {
		res.Exc = append(res.Exc, ent(e))
	}
	return res
}

// ---- YAML text in the style of the documentation (snake_case or camelCase keys, enum names) ----

func c06YAML(cfg *c06Cfg, camel bool) []byte {
	var sb strings.Builder
	key := func(snake, cam string) string {
		if camel {
			return cam
		}
		return snake
	}
	list := func(indent, k string, vals []int, name func(int) string) {
		if len(vals) == 0 {
			return
		}
		names := make([]string, len(vals))
		for i, v := range vals {
			names[i] = name(v)
		}
		if camel { // block style
			fmt.Fprintf(&sb, "%s%s:\n", indent, k)
			for _, n := range names {
				fmt.Fprintf(&sb, "%s  - %s\n", indent, n)
			}
		} else {
			fmt.Fprintf(&sb, "%s%s: [%s]\n", indent, k, strings.Join(names, ", "))
		}
	}
	flag := func(indent, k, t string) {
		if t != "unset" {
			fmt.Fprintf(&sb, "%s%s: %s\n", indent, k, t)
		}
	}
	sb.WriteString("features:\n")
	list("  ", "versions", cfg.F.Vs, func(v int) string { return conformancev1.HTTPVersion(v).String() })
	list("  ", "protocols", cfg.F.Ps, func(v int) string { return conformancev1.Protocol(v).String() })
	list("  ", "codecs", cfg.F.Cs, func(v int) string { return conformancev1.Codec(v).String() })
	list("  ", "compressions", cfg.F.Zs, func(v int) string { return conformancev1.Compression(v).String() })
	list("  ", key("stream_types", "streamTypes"), cfg.F.Ss, func(v int) string { return conformancev1.StreamType(v).String() })
	flag("  ", key("supports_h2c", "supportsH2c"), cfg.F.H2c)
	flag("  ", key("supports_tls", "supportsTls"), cfg.F.TLS)
	flag("  ", key("supports_tls_client_certs", "supportsTlsClientCerts"), cfg.F.Certs)
	flag("  ", key("supports_trailers", "supportsTrailers"), cfg.F.Trailers)
	flag("  ", key("supports_half_duplex_bidi_over_http1", "supportsHalfDuplexBidiOverHttp1"), cfg.F.Hdh1)
	flag("  ", key("supports_connect_get", "supportsConnectGet"), cfg.F.Get)
	flag("  ", key("supports_message_receive_limit", "supportsMessageReceiveLimit"), cfg.F.Lim)
	entries := func(k string, es []c06Entry) {
		if len(es) == 0 {
			return
		}
		fmt.Fprintf(&sb, "%s:\n", k)
		for _, e := range es {
			var fields []string
			if e.V != 0 {
				fields = append(fields, "version: "+conformancev1.HTTPVersion(e.V).String())
			}
			if e.P != 0 {
				fields = append(fields, "protocol: "+conformancev1.Protocol(e.P).String())
			}
			if e.C != 0 {
				fields = append(fields, "codec: "+conformancev1.Codec(e.C).String())
			}
			if e.Z != 0 {
				fields = append(fields, "compression: "+conformancev1.Compression(e.Z).String())
			}
			if e.S != 0 {
				fields = append(fields, key("stream_type", "streamType")+": "+conformancev1.StreamType(e.S).String())
			}
			if e.TLS != "unset" {
				fields = append(fields, key("use_tls", "useTls")+": "+e.TLS)
			}
			if e.Cert != "unset" {
				fields = append(fields, key("use_tls_client_certs", "useTlsClientCerts")+": "+e.Cert)
			}
			if e.Lim != "unset" {
				fields = append(fields, key("use_message_receive_limit", "useMessageReceiveLimit")+": "+e.Lim)
			}
			if len(fields) == 0 {
				sb.WriteString("  - {}\n")
				continue
			}
			for i, f := range fields {
				if i == 0 {
					fmt.Fprintf(&sb, "  - %s\n", f)
				} else {
					fmt.Fprintf(&sb, "    %s\n", f)
				}
			}
		}
	}
	entries(key("include_cases", "includeCases"), cfg.Inc)
	entries(key("exclude_cases", "excludeCases"), cfg.Exc)
	return []byte(sb.String())
}

// ---- observation ----

var c06ReEntry = regexp.MustCompile(`(include|exclude) case #(\d+): (.*)$`)

func c06ClassifyFeature(msg string) string {
	has := func(s string) bool { return strings.Contains(msg, s) }
	switch {
	case has("full-duplex"):
		return "fullduplex-h1-only"
	case has("half-duplex"):
		return "halfduplex-h1-only"
	case has("client certs"):
		return "certs-without-tls"
	case has("H2C is supported"):
		return "h2c-without-h2"
	case has("gRPC") && has("trailers"):
		return "grpc-without-trailers"
	case has("gRPC") && has("HTTP/2"):
		return "grpc-without-h2"
	case has("HTTP/3 is supported"):
		return "h3-without-tls"
	case has("HTTP/2 is supported"):
		return "h2-without-tls-or-h2c"
	}
	return ""
}

func c06ClassifyEntry(msg string) string {
	has := func(s string) bool { return strings.Contains(msg, s) }
	switch {
	case has("half-duplex"):
		return "halfduplex-h1-only"
	case has("full-duplex"):
		return "fullduplex-h1-only"
	case has("client certs") && has("NOT using TLS"):
		return "certs-with-tls-off"
	case has("client certs") && has("not supported"):
		return "certs-without-tls"
	case has("gRPC"):
		return "grpc-without-h2"
	case has("indicates HTTP/3"):
		return "h3-without-tls"
	case has("indicates HTTP/2"):
		return "h2-without-tls-or-h2c"
	}
	return ""
}

func c06B(b bool) int {
	if b {
		return 1
	}
	return 0
}

// c06Code is ConfigExpandDecl!Code; -1 if the case is outside the domain of the specification.
func c06Code(c configCase) int {
	v, p, cd, z, s := int(c.Version), int(c.Protocol), int(c.Codec), int(c.Compression), int(c.StreamType)
	if v < 1 || v > 3 || p < 1 || p > 3 || cd < 1 || cd > 2 || z < 1 || z > 6 || s < 1 || s > 5 || c.ConnectVersionMode != 0 {
		return -1
	}
	core := (((((((v-1)*3+(p-1))*5+(s-1))*2+c06B(c.UseTLS))*2+c06B(c.UseTLSClientCerts))*2+c06B(c.UseConnectGET))*2 + c06B(c.UseMessageReceiveLimit))
	return core*12 + (cd-1)*6 + (z - 1)
}

func c06Fingerprint(codes []int) c06FP {
	fp := c06FP{N: len(codes)}
	for _, k := range codes {
		fp.H1 += k
		fp.H2 += (k * k) % 65521
		fp.H3 += (k*7919 + 13) % 8647
	}
	return fp
}

func c06Observe(data []byte, nInc int) c06Obs {
	cases, err := parseConfig("verif.yaml", data)
	if err != nil {
		msg := err.Error()
		obs := c06Obs{Kind: "unclassified", Msg: msg, Cases: []int{}}
		switch {
		case strings.Contains(msg, "zero cases"):
			obs.Kind = "empty-error"
		case c06ReEntry.MatchString(msg):
			m := c06ReEntry.FindStringSubmatch(msg)
			n, _ := strconv.Atoi(m[2])
			if cl := c06ClassifyEntry(m[3]); cl != "" && strings.Contains(m[3], "config case indicates") {
				obs.Kind, obs.Class, obs.Pos = "entry-error", cl, n
				if m[1] == "exclude" {
					obs.Pos = nInc + n
				}
			}
		case strings.Contains(msg, "config features indicate"):
			if cl := c06ClassifyFeature(msg); cl != "" {
				obs.Kind, obs.Class = "feature-error", cl
			}
		}
		return obs
	}
	obs := c06Obs{Kind: "cases", Cases: make([]int, 0, len(cases))}
	seen := make(map[int]struct{}, len(cases))
	for _, c := range cases {
		k := c06Code(c)
		if k < 0 {
			obs.Kind = "out-of-domain"
			obs.Msg = fmt.Sprintf("%+v", c)
		}
		if _, dup := seen[k]; dup {
			obs.Dups++
			continue
		}
		seen[k] = struct{}{}
		obs.Cases = append(obs.Cases, k)
	}
	sort.Ints(obs.Cases)
	fp := c06Fingerprint(obs.Cases)
	obs.FP = &fp
	return obs
}

func c06In(list []string, s string) bool {
	for _, x := range list {
		if x == s {
			return true
		}
	}
	return false
}

// c06Conforms is ConfigExpandDecl!Conforms over the expectation printed by Gen_ConfigExpand.
func c06Conforms(obs *c06Obs, exp *c06Exp) bool {
	if len(exp.Ferr) > 0 {
		return obs.Kind == "feature-error" && c06In(exp.Ferr, obs.Class)
	}
	anyMust := false
	for _, e := range exp.Ent {
		if len(e.Must) > 0 {
			anyMust = true
		}
	}
	switch obs.Kind {
	case "entry-error":
		if obs.Pos < 1 || obs.Pos > len(exp.Ent) {
			return false
		}
		e := exp.Ent[obs.Pos-1]
		return c06In(e.Must, obs.Class) || e.Gap
	case "empty-error":
		return !anyMust && exp.FP.N == 0
	case "cases":
		return !anyMust && obs.Dups == 0 && len(obs.Cases) > 0 && *obs.FP == exp.FP
	}
	return false
}

type c06Mismatch struct {
	Variant string  `json:"variant"`
	Cfg     *c06Cfg `json:"cfg"`
	Exp     *c06Exp `json:"exp"`
	Obs     c06Obs  `json:"obs"`
	Input   string  `json:"input"`
	Repro   int     `json:"repro"`
}

func c06Encode(cfg *c06Cfg, variant string) ([]byte, error) {
	switch variant {
	case "json":
		return protojson.Marshal(c06Proto(cfg))
	case "yaml":
		return c06YAML(cfg, false), nil
	case "yamlCamel":
		return c06YAML(cfg, true), nil
	}
	return nil, fmt.Errorf("unknown variant %s", variant)
}

func c06Silence() {
	// parseConfig prints a deprecation warning for CODEC_TEXT on os.Stderr
	if devnull, err := os.OpenFile(os.DevNull, os.O_WRONLY, 0); err == nil {
		os.Stderr = devnull
	}
}

// TestVerifC06Replay: every scenario of VERIF_SCN (cfg + expectation) through the real parseConfig.
func TestVerifC06Replay(t *testing.T) {
	lines, err := verifutil.ReadLines(verifutil.Env("VERIF_SCN", "scn.ndjson"))
	if err != nil {
		t.Fatal(err)
	}
	out, err := verifutil.NewOut(verifutil.Env("VERIF_OUT", "out.ndjson"))
	if err != nil {
		t.Fatal(err)
	}
	defer out.Close()
	c06Silence()
	var evals, nontrivial, errs, unclassified int64
	// the default configuration's case set: a scenario is non-trivial if it requires anything else
	defObs := c06Observe(nil, 0)
	verifutil.ParallelFor(len(lines), runtime.NumCPU(), func(i int) {
		var s c06Scn
		if err := json.Unmarshal(lines[i], &s); err != nil {
			out.Put(map[string]any{"variant": "harness", "error": fmt.Sprintf("line %d: %v", i, err), "repro": 0, "machinery": true})
			return
		}
		if len(s.Exp.Ferr) > 0 || s.Exp.FP.N == 0 || (defObs.FP != nil && s.Exp.FP != *defObs.FP) {
			atomic.AddInt64(&nontrivial, 1)
		}
		variants := []string{"json", "yaml"}
		if i%2 == 1 {
			variants[1] = "yamlCamel"
		}
		for _, variant := range variants {
			data, err := c06Encode(&s.Cfg, variant)
			if err != nil {
				out.Put(map[string]any{"variant": variant, "error": err.Error(), "repro": 0, "machinery": true})
				continue
			}
			obs := c06Observe(data, len(s.Cfg.Inc))
			atomic.AddInt64(&evals, 1)
			if obs.Kind != "cases" {
				atomic.AddInt64(&errs, 1)
			}
			if obs.Kind == "unclassified" {
				atomic.AddInt64(&unclassified, 1)
			}
			if c06Conforms(&obs, &s.Exp) {
				continue
			}
			repro := 1
			for r := 0; r < 2; r++ {
				o2 := c06Observe(data, len(s.Cfg.Inc))
				if !c06Conforms(&o2, &s.Exp) && o2.Kind == obs.Kind && o2.Class == obs.Class && o2.Pos == obs.Pos {
					repro++
				}
			}
			out.Put(c06Mismatch{Variant: variant, Cfg: &s.Cfg, Exp: &s.Exp, Obs: obs, Input: string(data), Repro: repro})
		}
	})
	// the empty file and the file with an empty features stanza mean the default configuration
	out.Put(map[string]any{"summary": true, "scenarios": len(lines), "evaluations": evals, "nontrivial": nontrivial,
		"rejections_observed": errs, "unclassified": unclassified, "default_cases": len(defObs.Cases)})
}

// ---- code -> spec: seeded random configurations beyond the TLC domain, shipped YAML files ----

type c06Rec struct {
	Src string `json:"src"`
	Cfg c06Cfg `json:"cfg"`
	Obs c06Obs `json:"obs"`
}

func c06RandList(r interface{ IntN(int) int }, max int, pEmpty int) []int {
	res := []int{}
	if r.IntN(100) < pEmpty {
		return res
	}
	for v := 1; v <= max; v++ {
		if r.IntN(2) == 0 {
			res = append(res, v)
		}
	}
	// shuffle and sometimes repeat an element: repeated fields are read as sets
	for i := len(res) - 1; i > 0; i-- {
		j := r.IntN(i + 1)
		res[i], res[j] = res[j], res[i]
	}
	if len(res) > 0 && r.IntN(5) == 0 {
		res = append(res, res[r.IntN(len(res))])
	}
	return res
}

func c06RandTri(r interface{ IntN(int) int }, pUnset, pTrue int) string {
	x := r.IntN(100)
	switch {
	case x < pUnset:
		return "unset"
	case x < pUnset+pTrue:
		return "true"
	}
	return "false"
}

func c06RandEntry(r interface{ IntN(int) int }) c06Entry {
	pick := func(max int, pSet int) int {
		if r.IntN(100) < pSet {
			return 1 + r.IntN(max)
		}
		return 0
	}
	return c06Entry{V: pick(3, 45), P: pick(3, 45), C: pick(3, 30), Z: pick(6, 30), S: pick(5, 40),
		TLS: c06RandTri(r, 55, 25), Cert: c06RandTri(r, 65, 15), Lim: c06RandTri(r, 60, 20)}
}

func c06RandCfg(i int) c06Cfg {
	r := verifutil.Rand(uint64(600000 + i))
	var cfg c06Cfg
	// three profiles: mostly-default flags (likely consistent), arbitrary, and "everything declared"
	profile := r.IntN(3)
	pUnset := []int{70, 34, 20}[profile]
	pEmpty := []int{50, 25, 10}[profile]
	cfg.F = c06Features{
		Vs: c06RandList(r, 3, pEmpty), Ps: c06RandList(r, 3, pEmpty), Cs: c06RandList(r, 3, pEmpty),
		Zs: c06RandList(r, 6, pEmpty), Ss: c06RandList(r, 5, pEmpty),
		H2c: c06RandTri(r, pUnset, 10), TLS: c06RandTri(r, pUnset, (100-pUnset)/2), Certs: c06RandTri(r, pUnset, (100-pUnset)/2),
		Trailers: c06RandTri(r, pUnset, (100-pUnset)/2), Hdh1: c06RandTri(r, pUnset, (100-pUnset)/2),
		Get: c06RandTri(r, pUnset, (100-pUnset)/2), Lim: c06RandTri(r, pUnset, (100-pUnset)/2),
	}
	cfg.Inc, cfg.Exc = []c06Entry{}, []c06Entry{}
	for n := r.IntN(5); n > 0; n-- {
		cfg.Inc = append(cfg.Inc, c06RandEntry(r))
	}
	for n := r.IntN(5); n > 0; n-- {
		cfg.Exc = append(cfg.Exc, c06RandEntry(r))
	}
	return cfg
}

// TestVerifC06Record: one line per parseConfig execution for Trace_ConfigExpand.
func TestVerifC06Record(t *testing.T) {
	out, err := verifutil.NewOut(verifutil.Env("VERIF_OUT", "trace.ndjson"))
	if err != nil {
		t.Fatal(err)
	}
	defer out.Close()
	c06Silence()
	n := verifutil.EnvInt("VERIF_N", 1000)
	// shipped configuration files and the example of the documentation
	if dir := os.Getenv("VERIF_YAML_DIR"); dir != "" {
		files, _ := filepath.Glob(filepath.Join(dir, "*.yaml"))
		sort.Strings(files)
		for _, fn := range files {
			data, err := os.ReadFile(fn)
			if err != nil {
				t.Fatal(err)
			}
			var config conformancev1.Config
			if err := (protoyaml.UnmarshalOptions{Path: fn}).Unmarshal(data, &config); err != nil {
				continue // not a Config file
			}
			cfg := c06Abstract(&config)
			out.Put(c06Rec{Src: "file:" + filepath.Base(fn), Cfg: cfg, Obs: c06Observe(data, len(cfg.Inc))})
		}
	}
	docExample := []byte("include_cases:\n  - version: HTTP_VERSION_2\n    codec: CODEC_PROTO\n    stream_type: STREAM_TYPE_SERVER_STREAM\n")
	{
		var config conformancev1.Config
		if err := (protoyaml.UnmarshalOptions{}).Unmarshal(docExample, &config); err != nil {
			t.Fatal(err)
		}
		cfg := c06Abstract(&config)
		out.Put(c06Rec{Src: "docs:config-case-example", Cfg: cfg, Obs: c06Observe(docExample, 1)})
		empty := c06Abstract(&conformancev1.Config{})
		out.Put(c06Rec{Src: "empty-file", Cfg: empty, Obs: c06Observe(nil, 0)})
	}
	verifutil.ParallelFor(n, runtime.NumCPU(), func(i int) {
		cfg := c06RandCfg(i)
		variant := []string{"json", "yaml", "yamlCamel"}[i%3]
		data, err := c06Encode(&cfg, variant)
		if err != nil {
			t.Error(err)
			return
		}
		obs := c06Observe(data, len(cfg.Inc))
		obs.FP = nil
		out.Put(c06Rec{Src: "random:" + variant + ":" + strconv.Itoa(i), Cfg: cfg, Obs: obs})
	})
}

// TestVerifC06Explain: re-observe the configurations of VERIF_SCN (one c06Cfg per line) and write
// trace records (with the full observed case list) so that TLC can print the exact difference.
func TestVerifC06Explain(t *testing.T) {
	lines, err := verifutil.ReadLines(verifutil.Env("VERIF_SCN", "explain.ndjson"))
	if err != nil {
		t.Fatal(err)
	}
	out, err := verifutil.NewOut(verifutil.Env("VERIF_OUT", "explain.trace.ndjson"))
	if err != nil {
		t.Fatal(err)
	}
	defer out.Close()
	c06Silence()
	for i, l := range lines {
		var in struct {
			Variant string `json:"variant"`
			Cfg     c06Cfg `json:"cfg"`
		}
		if err := json.Unmarshal(l, &in); err != nil {
			t.Fatalf("line %d: %v", i, err)
		}
		data, err := c06Encode(&in.Cfg, in.Variant)
		if err != nil {
			t.Fatal(err)
		}
		obs := c06Observe(data, len(in.Cfg.Inc))
		obs.FP = nil
		out.Put(c06Rec{Src: "explain:" + in.Variant, Cfg: in.Cfg, Obs: obs})
	}
}
