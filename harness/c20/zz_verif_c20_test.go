package compression

// C20 harness (in-package): replays TLC-generated call histories (Gen_Compress) on the real
// compressor / decompressor instances of all six encodings, and records long seeded histories of
// the real instances for Trace_Compress.  Only the bytes come from here; which calls are made and
// what each call must yield comes from the specification (CompressDecl: DReq / CReq).

import (
	"bytes"
	"compress/gzip"
	"compress/zlib"
	"encoding/json"
	"errors"
	"fmt"
	"hash/fnv"
	"io"
	"math/rand/v2"
	"net/http"
	"os"
	"reflect"
	"runtime"
	"strings"
	"sync"
	"sync/atomic"
	"testing"
	"testing/iotest"
	"time"

	conformancev1 "connectrpc.com/conformance/internal/gen/proto/go/connectrpc/conformance/v1"
	"connectrpc.com/conformance/internal/verifutil"
	"connectrpc.com/connect"
	"github.com/andybalholm/brotli"
	"github.com/golang/snappy"
	"github.com/klauspost/compress/zstd"
)

type c20Op struct {
	O string `json:"o"`
	K string `json:"k"`
	P string `json:"p"`
}

type c20Obl struct {
	Must string   `json:"must"`
	P    string   `json:"p"`
	From int      `json:"from"`
	All  bool     `json:"all"`
	W    []string `json:"w"`
}

type c20Scn struct {
	Side string   `json:"side"`
	Gram string   `json:"gram"`
	Ops  []c20Op  `json:"ops"`
	Obl  []c20Obl `json:"obl"`
}

const c20AtEnd = 99

var c20Encs = []string{"identity", "gzip", "br", "zstd", "deflate", "snappy"}

var c20Enum = map[string]conformancev1.Compression{
	"identity": conformancev1.Compression_COMPRESSION_IDENTITY,
	"gzip":     conformancev1.Compression_COMPRESSION_GZIP,
	"br":       conformancev1.Compression_COMPRESSION_BR,
	"zstd":     conformancev1.Compression_COMPRESSION_ZSTD,
	"deflate":  conformancev1.Compression_COMPRESSION_DEFLATE,
	"snappy":   conformancev1.Compression_COMPRESSION_SNAPPY,
}

// ---------------------------------------------------------------- stock codecs (independent of the wrappers)

func c20StockEncode(enc string, p []byte) []byte {
	var b bytes.Buffer
	var w io.WriteCloser
	switch enc {
	case "identity":
		return append([]byte(nil), p...)
	case "gzip":
		w = gzip.NewWriter(&b)
	case "deflate":
		w = zlib.NewWriter(&b)
	case "br":
		w = brotli.NewWriter(&b)
	case "zstd":
		zw, err := zstd.NewWriter(&b)
		if err != nil {
			panic(err)
		}
		w = zw
	case "snappy":
		w = snappy.NewBufferedWriter(&b)
	}
	if _, err := w.Write(p); err != nil {
		panic(err)
	}
	if err := w.Close(); err != nil {
		panic(err)
	}
	return b.Bytes()
}

func c20StockDecode(enc string, s []byte) (out []byte, err error) {
	defer func() {
		if r := recover(); r != nil {
			err = fmt.Errorf("stock decoder panicked: %v", r)
		}
	}()
	var r io.Reader
	switch enc {
	case "identity":
		return append([]byte(nil), s...), nil
	case "gzip":
		zr, err := gzip.NewReader(bytes.NewReader(s))
		if err != nil {
			return nil, err
		}
		zr.Multistream(false)
		r = zr
	case "deflate":
		zr, err := zlib.NewReader(bytes.NewReader(s))
		if err != nil {
			return nil, err
		}
		r = zr
	case "br":
		r = brotli.NewReader(bytes.NewReader(s))
	case "zstd":
		zr, err := zstd.NewReader(bytes.NewReader(s))
		if err != nil {
			return nil, err
		}
		defer zr.Close()
		r = zr
	case "snappy":
		r = snappy.NewReader(bytes.NewReader(s))
	}
	return io.ReadAll(r)
}

// ---------------------------------------------------------------- payloads and streams

type c20Payloads struct {
	id  int
	tok map[string][]byte
	// valid[enc][token] = stream made by a fresh real compressor of enc
	valid map[string]map[string][]byte
}

func c20Bytes(seed uint64, n int, compressible bool) []byte {
	r := rand.New(rand.NewPCG(seed, 20))
	b := make([]byte, n)
	if compressible {
		words := []string{"connect ", "conformance ", "grpc-web ", "trailer ", "0123456789", "\n", "é", "\x00\x00\x00\x00"}
		i := 0
		for i < n {
			i += copy(b[i:], words[r.IntN(len(words))])
		}
		return b
	}
	for i := range b {
		b[i] = byte(r.Uint32())
	}
	return b
}

func c20MakePayloads(id int, seed uint64) (*c20Payloads, error) {
	p := &c20Payloads{id: id, tok: map[string][]byte{"e": {}}, valid: map[string]map[string][]byte{}}
	switch id {
	case 0:
		p.tok["a"] = []byte{0x61}
		p.tok["b"] = []byte{0x00}
	case 1:
		p.tok["a"] = []byte("the quick brown fox jumps over the lazy dog")
		p.tok["b"] = []byte("{\"code\":\"invalid_argument\",\"message\":\"x\"}")
	case 2:
		p.tok["a"] = c20Bytes(seed, 4096, false)
		p.tok["b"] = c20Bytes(seed+1, 4099, true)
	case 3:
		p.tok["a"] = c20Bytes(seed+2, 1<<20, true)
		p.tok["b"] = c20Bytes(seed+3, 64<<10, false)
	case 4:
		// "for any input": sizes beyond the encoders' block (128 KiB) and window (8 MiB) sizes - a: 9 MiB that
		// shrink to about a kilobyte (decoders have shortcuts for small inputs), b: 200 KiB that do not shrink
		p.tok["a"] = bytes.Repeat([]byte("connect conformance: the quick brown fox "), (9<<20)/41+1)
		p.tok["b"] = c20Bytes(seed+4, 200<<10, false)
	}
	for _, enc := range c20Encs {
		p.valid[enc] = map[string][]byte{}
		for t, data := range p.tok {
			c, err := GetCompressor(c20Enum[enc])
			if err != nil {
				return nil, err
			}
			var b bytes.Buffer
			c.Reset(&b)
			if _, err := c.Write(data); err != nil {
				return nil, fmt.Errorf("precompute %s/%s: write: %w", enc, t, err)
			}
			if err := c.Close(); err != nil {
				return nil, fmt.Errorf("precompute %s/%s: close: %w", enc, t, err)
			}
			p.valid[enc][t] = append([]byte(nil), b.Bytes()...)
		}
	}
	return p, nil
}

// ---------------------------------------------------------------- concretisation of one replay

type c20Conc struct {
	PayloadSet int    `json:"payload_set"`
	Chunk      int    `json:"chunk"`
	SrcPattern int    `json:"src_pattern"` // which io.Reader kind each Reset gets
	Ctor       string `json:"ctor"`        // "get" = GetCompressor/GetDecompressor, "new" = New…() constructors
	Seed       uint64 `json:"seed"`        // drives cut position, flipped bit, garbage, foreign encoding
	CutAt      int    `json:"cut_at"`      // >= 0: forced cut position (all-positions mode)
	FlipBit    int    `json:"flip_bit"`    // >= 0: forced bit
}

type c20Obs struct {
	Ret    string   `json:"ret"` // ok | err | panic | hang
	Err    string   `json:"err,omitempty"`
	Eq     []string `json:"eq"`
	From   int      `json:"from"`
	W      []string `json:"w"`
	Wst    string   `json:"wst,omitempty"`
	OutLen int      `json:"out_len,omitempty"`
	OutSum string   `json:"out_sum,omitempty"`
	Note   string   `json:"note,omitempty"`
}

func c20Sum(b []byte) string {
	h := fnv.New64a()
	h.Write(b)
	return fmt.Sprintf("%016x", h.Sum64())
}

func c20NewDecompressor(enc, ctor string) (connect.Decompressor, error) {
	if ctor == "new" {
		switch enc {
		case "br":
			return NewBrotliDecompressor(), nil
		case "zstd":
			return NewZstdDecompressor(), nil
		case "deflate":
			return NewDeflateDecompressor(), nil
		case "snappy":
			return NewSnappyDecompressor(), nil
		}
	}
	return GetDecompressor(c20Enum[enc])
}

func c20NewCompressor(enc, ctor string) (connect.Compressor, error) {
	if ctor == "new" {
		switch enc {
		case "br":
			return NewBrotliCompressor(), nil
		case "zstd":
			return NewZstdCompressor(), nil
		case "deflate":
			return NewDeflateCompressor(), nil
		case "snappy":
			return NewSnappyCompressor(), nil
		}
	}
	return GetCompressor(c20Enum[enc])
}

// what an in-package observer sees of the wrapper (CompressImpl!DAbs): by reflection, so that a
// refactoring of the wrappers degrades this to "?" instead of breaking the build
func c20Wst(enc string, d connect.Decompressor) string {
	if enc != "zstd" && enc != "deflate" {
		return "live"
	}
	v := reflect.ValueOf(d)
	if v.Kind() != reflect.Pointer || v.IsNil() || v.Elem().Kind() != reflect.Struct {
		return "?"
	}
	name := "decoder"
	if enc == "deflate" {
		name = "reader"
	}
	f := v.Elem().FieldByName(name)
	if !f.IsValid() {
		return "?"
	}
	switch f.Kind() {
	case reflect.Pointer:
		if f.IsNil() {
			return "nil"
		}
		return "live"
	case reflect.Interface:
		if f.IsNil() {
			return "nil"
		}
		if strings.Contains(f.Elem().Type().String(), "errorDecompressor") {
			return "err"
		}
		return "live"
	}
	return "?"
}

type c20ReadCloser struct {
	io.Reader
	closed *int32
}

func (r c20ReadCloser) Close() error { atomic.AddInt32(r.closed, 1); return nil }

func c20Source(kind int, data []byte, srcClosed *int32) io.Reader {
	switch kind % 5 {
	case 4:
		return iotest.DataErrReader(bytes.NewReader(data)) // the last bytes arrive together with io.EOF
	case 0:
		return bytes.NewBuffer(append([]byte(nil), data...)) // what connect's pool and the tracer pass
	case 1:
		return bytes.NewReader(data) // no Bytes(): streaming path of zstd
	case 2:
		return iotest.OneByteReader(bytes.NewReader(data))
	default:
		return c20ReadCloser{Reader: bytes.NewReader(data), closed: srcClosed}
	}
}

func c20Garbage(r *rand.Rand, valid []byte) []byte {
	switch r.IntN(5) {
	case 0:
		return bytes.Repeat([]byte{0xff}, 1+r.IntN(16))
	case 1:
		return make([]byte, 1+r.IntN(16))
	case 2: // a believable header, then noise
		n := min(len(valid), 2+r.IntN(4))
		g := append([]byte(nil), valid[:n]...)
		for i := 0; i < 8+r.IntN(24); i++ {
			g = append(g, byte(r.Uint32()))
		}
		return g
	case 3:
		return []byte("\x00\x00\x00\x00\x05hello")
	default:
		g := make([]byte, 1+r.IntN(64))
		for i := range g {
			g[i] = byte(r.Uint32())
		}
		return g
	}
}

// what a zstd frame header announces (window or content size, whichever is larger): klauspost's
// decoder allocates that much before it looks at the first block, so a 13-byte message can cost
// gigabytes.  The bulk replay avoids such headers (TestVerifC20Hazard measures one as a note).
func c20ZstdAnnounces(b []byte) uint64 {
	if len(b) < 5 || b[0] != 0x28 || b[1] != 0xB5 || b[2] != 0x2F || b[3] != 0xFD {
		return 0
	}
	fhd := b[4]
	single := fhd&0x20 != 0
	pos := 5
	var window uint64
	if !single {
		if len(b) <= pos {
			return 0
		}
		exp, mant := uint64(b[pos]>>3), uint64(b[pos]&7)
		base := uint64(1) << (10 + exp)
		window = base + base/8*mant
		pos++
	}
	pos += []int{0, 1, 2, 4}[fhd&3]
	n := []int{0, 2, 4, 8}[fhd>>6]
	if n == 0 && single {
		n = 1
	}
	if len(b) < pos+n {
		return window
	}
	var fcs uint64
	for i := n - 1; i >= 0; i-- {
		fcs = fcs<<8 | uint64(b[pos+i])
	}
	if n == 2 {
		fcs += 256
	}
	return max(window, fcs)
}

const c20MaxAnnounced = 32 << 20

// bytes of the stream a Reset is pointed at
func c20StreamBytes(enc string, op c20Op, ps *c20Payloads, conc *c20Conc, r *rand.Rand) []byte {
	b := c20StreamBytes1(enc, op, ps, conc, r)
	if enc != "zstd" && op.K != "foreign" {
		return b
	}
	for try := 0; try < 50 && c20ZstdAnnounces(b) > c20MaxAnnounced && op.K != "valid"; try++ {
		c2 := *conc
		if c2.CutAt >= 0 {
			c2.CutAt++
		}
		if c2.FlipBit >= 0 {
			c2.FlipBit += 1 + try
		}
		b = c20StreamBytes1(enc, op, ps, &c2, r)
	}
	return b
}

func c20StreamBytes1(enc string, op c20Op, ps *c20Payloads, conc *c20Conc, r *rand.Rand) []byte {
	switch op.K {
	case "valid":
		return ps.valid[enc][op.P]
	case "nobody":
		return nil
	case "cut":
		s := ps.valid[enc][op.P]
		if len(s) == 0 {
			return nil
		}
		at := r.IntN(len(s))
		if conc.CutAt >= 0 {
			at = conc.CutAt % len(s)
		}
		return s[:at]
	case "flip":
		s := append([]byte(nil), ps.valid[enc][op.P]...)
		if len(s) == 0 {
			return []byte{0x80}
		}
		bit := r.IntN(len(s) * 8)
		if conc.FlipBit >= 0 {
			bit = conc.FlipBit % (len(s) * 8)
		}
		s[bit/8] ^= 1 << (bit % 8)
		return s
	case "trail":
		s := append([]byte(nil), ps.valid[enc][op.P]...)
		for i, n := 0, 1+r.IntN(8); i < n; i++ {
			s = append(s, byte(r.Uint32()))
		}
		return s
	case "foreign":
		other := c20Encs[r.IntN(len(c20Encs))]
		for other == enc || other == "identity" && enc != "identity" && r.IntN(2) == 0 {
			other = c20Encs[r.IntN(len(c20Encs))]
		}
		return ps.valid[other][op.P]
	default: // garbage
		return c20Garbage(r, ps.valid[enc]["a"])
	}
}

func c20Slice(p []byte, from, chunk int, all bool) []byte {
	if from >= c20AtEnd {
		return nil
	}
	lo := min(from*chunk, len(p))
	if all {
		return p[lo:]
	}
	return p[lo:min(lo+chunk, len(p))]
}

func c20ObsOK(obl c20Obl, ob c20Obs) bool {
	if ob.Ret == "panic" || ob.Ret == "hang" {
		return false
	}
	switch obl.Must {
	case "ok":
		return ob.Ret == "ok"
	case "bytes":
		in := false
		for _, t := range ob.Eq {
			in = in || t == obl.P
		}
		return in && ob.From == obl.From && (!obl.All || ob.Ret == "ok")
	case "stream":
		return ob.Ret == "ok" && reflect.DeepEqual(append([]string{}, ob.W...), append([]string{}, obl.W...))
	}
	return true
}

func c20Call(f func() error) (ret string, errText string) {
	defer func() {
		if r := recover(); r != nil {
			ret, errText = "panic", fmt.Sprint(r)+" @"+c20Where()
		}
	}()
	if err := f(); err != nil {
		return "err", err.Error()
	}
	return "ok", ""
}

// the innermost frames of a panic that are not the Go runtime (called from the deferred recover)
func c20Where() string {
	pc := make([]uintptr, 32)
	n := runtime.Callers(3, pc)
	frames := runtime.CallersFrames(pc[:n])
	var res []string
	for {
		f, more := frames.Next()
		if !strings.HasPrefix(f.Function, "runtime.") && f.Function != "" {
			res = append(res, fmt.Sprintf(" %s:%d", f.Function[strings.LastIndex(f.Function, "/")+1:], f.Line))
		}
		if !more || len(res) >= 4 {
			break
		}
	}
	return strings.Join(res, " <-")
}

// one decompressor history on one real instance (every call is made, also Read / Close right
// after a Reset that reported an error)
func c20RunD(enc string, ops []c20Op, ps *c20Payloads, conc *c20Conc) (obs []c20Obs, srcClosed int32) {
	r := rand.New(rand.NewPCG(conc.Seed, 7))
	d, err := c20NewDecompressor(enc, conc.Ctor)
	if err != nil {
		return []c20Obs{{Ret: "err", Err: "constructor: " + err.Error()}}, 0
	}
	defer func() { // cleanup, not observed (zstd decoders hold goroutines)
		defer func() { _ = recover() }()
		_ = d.Close()
	}()
	from := 0
	for i, op := range ops {
		var ob c20Obs
		ob.From = from
		switch op.O {
		case "Reset":
			data := c20StreamBytes(enc, op, ps, conc, r)
			var src io.Reader
			if op.K == "nobody" && (conc.SrcPattern+i)%2 == 0 {
				src = httpNoBody{}
			} else {
				src = c20Source(conc.SrcPattern+i, data, &srcClosed)
			}
			ob.Ret, ob.Err = c20Call(func() error { return d.Reset(src) })
			from = 0
		case "Read1", "ReadAll":
			var out []byte
			all := op.O == "ReadAll"
			if all {
				var b bytes.Buffer
				ob.Ret, ob.Err = c20Call(func() error { _, err := b.ReadFrom(d); return err })
				out = b.Bytes()
			} else {
				buf := make([]byte, conc.Chunk)
				n := 0
				ob.Ret, ob.Err = c20Call(func() error {
					var err error
					n, err = io.ReadFull(d, buf)
					if errors.Is(err, io.EOF) || errors.Is(err, io.ErrUnexpectedEOF) {
						err = nil // short: the stream ended inside this chunk
					}
					return err
				})
				out = buf[:n]
			}
			for _, t := range []string{"e", "a", "b"} {
				if bytes.Equal(out, c20Slice(ps.tok[t], from, conc.Chunk, all)) {
					ob.Eq = append(ob.Eq, t)
				}
			}
			ob.OutLen, ob.OutSum = len(out), c20Sum(out)
			if all || from >= c20AtEnd {
				from = c20AtEnd
			} else {
				from++
			}
		case "Close":
			ob.Ret, ob.Err = c20Call(d.Close)
		}
		ob.Wst = c20Wst(enc, d)
		obs = append(obs, ob)
	}
	return obs, srcClosed
}

type httpNoBody struct{} // http.NoBody without importing net/http: zero bytes, io.ReadCloser, io.WriterTo

func (httpNoBody) Read([]byte) (int, error)         { return 0, io.EOF }
func (httpNoBody) Close() error                     { return nil }
func (httpNoBody) WriteTo(io.Writer) (int64, error) { return 0, nil }

// the one shared sink of a compressor history: appended to, and an io.WriteCloser like *io.PipeWriter
type c20Pipe struct {
	buf    bytes.Buffer
	closed bool
}

func (p *c20Pipe) Write(b []byte) (int, error) {
	if p.closed {
		return 0, io.ErrClosedPipe
	}
	return p.buf.Write(b)
}
func (p *c20Pipe) Close() error { p.closed = true; return nil }

type c20FailSink struct{}

func (c20FailSink) Write([]byte) (int, error) { return 0, errors.New("verif: sink refuses") }

// decode the bytes of one segment back to payload tokens: by a fresh real decompressor AND a stock
// decoder of the same encoding; both must agree on a token sequence
func c20DecodeTokens(enc string, seg []byte, ps *c20Payloads, want []string) ([]string, string) {
	d, err := GetDecompressor(c20Enum[enc])
	if err != nil {
		return []string{"?"}, err.Error()
	}
	var viaReal bytes.Buffer
	ret, et := c20Call(func() error {
		if err := d.Reset(bytes.NewBuffer(append([]byte(nil), seg...))); err != nil {
			return err
		}
		_, err := viaReal.ReadFrom(d)
		return err
	})
	if ret != "ok" {
		return []string{"?"}, "matching decompressor: " + et
	}
	func() {
		defer func() { _ = recover() }()
		_ = d.Close()
	}()
	viaStock, err := c20StockDecode(enc, seg)
	if err != nil {
		return []string{"?"}, "stock decoder: " + err.Error()
	}
	if !bytes.Equal(viaStock, viaReal.Bytes()) {
		return []string{"?"}, "stock decoder and matching decompressor disagree"
	}
	// express the decoded bytes in tokens: the wanted sequence if it matches, else search short ones
	var wantBytes []byte
	for _, t := range want {
		wantBytes = append(wantBytes, ps.tok[t]...)
	}
	if bytes.Equal(viaStock, wantBytes) {
		return append([]string{}, want...), ""
	}
	rest := viaStock
	var toks []string
	for len(rest) > 0 && len(toks) < 16 {
		switch {
		case bytes.HasPrefix(rest, ps.tok["a"]):
			toks, rest = append(toks, "a"), rest[len(ps.tok["a"]):]
		case bytes.HasPrefix(rest, ps.tok["b"]):
			toks, rest = append(toks, "b"), rest[len(ps.tok["b"]):]
		default:
			return []string{"?"}, fmt.Sprintf("decoded %d bytes that are not a token sequence", len(viaStock))
		}
	}
	if len(rest) > 0 {
		return []string{"?"}, "too long"
	}
	return append([]string{}, toks...), ""
}

func c20RunC(enc string, ops []c20Op, obl []c20Obl, ps *c20Payloads, conc *c20Conc) (obs []c20Obs, pipeClosed bool) {
	c, err := c20NewCompressor(enc, conc.Ctor)
	if err != nil {
		return []c20Obs{{Ret: "err", Err: "constructor: " + err.Error()}}, false
	}
	pipe := &c20Pipe{}
	var cur *bytes.Buffer // buffer of the current segment if sink = buf
	segStart := 0         // offset in pipe of the current segment if sink = pipe
	sink := "none"
	for i, op := range ops {
		var ob c20Obs
		switch op.O {
		case "New":
			c, err = c20NewCompressor(enc, conc.Ctor)
			if err != nil {
				ob.Ret, ob.Err = "err", err.Error()
			} else {
				ob.Ret = "ok"
			}
			sink = "none"
		case "Reset":
			sink = op.K
			var w io.Writer
			switch op.K {
			case "buf":
				cur = &bytes.Buffer{}
				w = cur
			case "pipe":
				segStart = pipe.buf.Len()
				w = pipe
			case "fail":
				w = c20FailSink{}
			default:
				w = io.Discard
			}
			ob.Ret, ob.Err = c20Call(func() error { c.Reset(w); return nil })
		case "Write":
			data := ps.tok[op.P]
			ob.Ret, ob.Err = c20Call(func() error {
				n, err := c.Write(data)
				if err == nil && n != len(data) {
					return fmt.Errorf("short write %d of %d", n, len(data))
				}
				return err
			})
		case "Close":
			ob.Ret, ob.Err = c20Call(c.Close)
			if i < len(obl) && obl[i].Must == "stream" {
				var seg []byte
				if sink == "buf" {
					seg = cur.Bytes()
				} else {
					seg = pipe.buf.Bytes()[segStart:]
				}
				ob.W, ob.Note = c20DecodeTokens(enc, seg, ps, obl[i].W)
				ob.OutLen, ob.OutSum = len(seg), c20Sum(seg)
			}
		}
		obs = append(obs, ob)
	}
	return obs, pipe.closed
}

type c20Mismatch struct {
	Kind   string   `json:"kind"` // obligation | hang
	Side   string   `json:"side"`
	Gram   string   `json:"gram"`
	Enc    string   `json:"enc"`
	Scn    *c20Scn  `json:"scn"`
	Conc   c20Conc  `json:"conc"`
	At     int      `json:"at"` // index of the first call that misses its obligation
	Op     c20Op    `json:"op"`
	Obl    c20Obl   `json:"obl"`
	Obs    c20Obs   `json:"obs"`
	AllObs []c20Obs `json:"all_obs"`
	Repro  int      `json:"repro"`
	Cause  string   `json:"cause,omitempty"`
}

func c20Run(enc string, s *c20Scn, ps *c20Payloads, conc *c20Conc) (obs []c20Obs, srcClosed int32, pipeClosed bool, hang bool) {
	type res struct {
		obs        []c20Obs
		srcClosed  int32
		pipeClosed bool
	}
	ch := make(chan res, 1)
	go func() {
		var r res
		if s.Side == "D" {
			r.obs, r.srcClosed = c20RunD(enc, s.Ops, ps, conc)
		} else {
			r.obs, r.pipeClosed = c20RunC(enc, s.Ops, s.Obl, ps, conc)
		}
		ch <- r
	}()
	select {
	case r := <-ch:
		return r.obs, r.srcClosed, r.pipeClosed, false
	case <-time.After(60 * time.Second):
		return nil, 0, false, true
	}
}

func c20FirstBad(s *c20Scn, obs []c20Obs) int {
	for i := range s.Ops {
		if i >= len(obs) {
			return i
		}
		if !c20ObsOK(s.Obl[i], obs[i]) {
			return i
		}
	}
	return -1
}

// cause of a miss where the harness recognises a third-party failure mode by its panic site (goes
// into the candidate key; every other miss has cause "")
func c20Cause(enc string, s *c20Scn, at int, obs []c20Obs) string {
	if s.Side == "D" && enc == "br" && at >= 0 && at < len(obs) && c20IsBrotliOverrun(obs[at]) {
		return "brotli-bytewise-source-internal-buffer-overrun"
	}
	return ""
}

// andybalholm/brotli v1.1.1: decoderDecompressStream copies input byte by byte into an 8-byte
// internal buffer without a bound when a source hands out one byte per Read and bytes follow the
// end of the stream
func c20IsBrotliOverrun(o c20Obs) bool {
	return o.Ret == "panic" && strings.Contains(o.Err, "index out of range [8] with length 8") &&
		strings.Contains(o.Err, "brotli.decoderDecompressStream")
}

func TestVerifC20Replay(t *testing.T) {
	lines, err := verifutil.ReadLines(verifutil.Env("VERIF_SCN", "scn.ndjson"))
	if err != nil {
		t.Fatal(err)
	}
	out, err := verifutil.NewOut(verifutil.Env("VERIF_OUT", "out.ndjson"))
	if err != nil {
		t.Fatal(err)
	}
	defer out.Close()
	variants := verifutil.EnvInt("VERIF_VARIANTS", 2)
	allPos := verifutil.EnvInt("VERIF_ALLPOS", 0)     // >0: every cut position and up to that many flipped bits
	bigEvery := verifutil.EnvInt("VERIF_BIG_EVERY", 0)   // >0: every n-th scenario also with the 1 MiB payload set
	hugeEvery := verifutil.EnvInt("VERIF_HUGE_EVERY", 0) // >0: every n-th scenario also with the 9 MiB payload set
	scns := make([]*c20Scn, len(lines))
	for i, l := range lines {
		var s c20Scn
		if err := json.Unmarshal(l, &s); err != nil {
			t.Fatalf("line %d: %v", i, err)
		}
		if len(s.Obl) != len(s.Ops) {
			t.Fatalf("line %d: %d ops, %d obligations", i, len(s.Ops), len(s.Obl))
		}
		scns[i] = &s
	}
	encs := c20Encs
	if v := verifutil.Env("VERIF_ENCS", ""); v != "" {
		encs = strings.Split(v, ",")
	}
	seed := verifutil.Seed()
	var pss []*c20Payloads
	nsets := 4
	if hugeEvery > 0 {
		nsets = 5
	}
	for id := 0; id < nsets; id++ {
		ps, err := c20MakePayloads(id, seed)
		if err != nil {
			t.Fatalf("payload set %d: %v", id, err)
		}
		pss = append(pss, ps)
	}
	chunks := []int{1, 3, 512, 5000}
	var evals, calls, nontrivial, srcClosedN, pipeClosedN int64
	var byEnc sync.Map
	var maxMu sync.Mutex
	reported := map[string]int{}
	check := func(idx int, enc string, s *c20Scn, conc c20Conc) {
		ps := pss[conc.PayloadSet]
		obs, srcClosed, pipeClosed, hang := c20Run(enc, s, ps, &conc)
		atomic.AddInt64(&evals, 1)
		atomic.AddInt64(&calls, int64(len(obs)))
		if srcClosed > 0 {
			atomic.AddInt64(&srcClosedN, 1)
		}
		if pipeClosed {
			atomic.AddInt64(&pipeClosedN, 1)
		}
		c, _ := byEnc.LoadOrStore(enc, new(int64))
		atomic.AddInt64(c.(*int64), 1)
		at := -1
		if !hang {
			at = c20FirstBad(s, obs)
			if at < 0 {
				return
			}
		}
		// reproduce twice more on fresh instances
		repro := 1
		for k := 0; k < 2; k++ {
			o2, _, _, h2 := c20Run(enc, s, ps, &conc)
			if h2 || c20FirstBad(s, o2) >= 0 {
				repro++
			}
		}
		m := c20Mismatch{Kind: "obligation", Side: s.Side, Gram: s.Gram, Enc: enc, Scn: s, Conc: conc, At: at, AllObs: obs, Repro: repro}
		if hang {
			m.Kind = "hang"
		} else {
			m.Op, m.Obl = s.Ops[at], s.Obl[at]
			if at < len(obs) {
				m.Obs = obs[at]
			}
			m.Cause = c20Cause(enc, s, at, obs)
		}
		// keep the output small: at most 40 reports per (enc, side, op, must, cause)
		key := fmt.Sprintf("%s/%s/%s/%s/%s/%s", enc, s.Side, m.Op.O, m.Obl.Must, m.Cause, m.Obs.Ret)
		maxMu.Lock()
		reported[key]++
		n := reported[key]
		maxMu.Unlock()
		if n <= 40 {
			out.Put(m)
		}
	}
	if ff := verifutil.Env("VERIF_FORCE", ""); ff != "" {
		// --replay: exactly the recorded (encoding, concretisation) on the one scenario given
		var f struct {
			Enc  string  `json:"enc"`
			Conc c20Conc `json:"conc"`
		}
		if err := json.Unmarshal([]byte(ff), &f); err != nil {
			t.Fatal(err)
		}
		for i, s := range scns {
			check(i, f.Enc, s, f.Conc)
		}
		out.Put(map[string]any{"summary": true, "scenarios": len(scns), "evaluations": evals, "calls": calls, "nontrivial": 0, "forced": true})
		return
	}
	verifutil.ParallelFor(len(scns), runtime.NumCPU(), func(i int) {
		s := scns[i]
		nt := false
		for _, o := range s.Obl {
			nt = nt || o.Must != "return"
		}
		if nt && len(s.Ops) > 1 {
			atomic.AddInt64(&nontrivial, 1)
		}
		r := rand.New(rand.NewPCG(seed, uint64(i)+1000))
		for _, enc := range encs {
			for v := 0; v < variants; v++ {
				conc := c20Conc{PayloadSet: r.IntN(3), Chunk: chunks[r.IntN(len(chunks))], SrcPattern: r.IntN(4),
					Ctor: []string{"get", "new"}[r.IntN(2)], Seed: r.Uint64(), CutAt: -1, FlipBit: -1}
				if v == 0 {
					conc.PayloadSet, conc.SrcPattern = 1, 0 // the pools' own source kind first
				}
				check(i, enc, s, conc)
			}
			if bigEvery > 0 && i%bigEvery == 0 {
				check(i, enc, s, c20Conc{PayloadSet: 3, Chunk: 70000, SrcPattern: r.IntN(4), Ctor: "get", Seed: r.Uint64(), CutAt: -1, FlipBit: -1})
			}
			if hugeEvery > 0 && i%hugeEvery == 0 {
				// source kind 0 is the *bytes.Buffer that connect's pools and the tracer pass
				check(i, enc, s, c20Conc{PayloadSet: 4, Chunk: 1 << 20, SrcPattern: 0, Ctor: []string{"get", "new"}[i/hugeEvery%2], Seed: r.Uint64(), CutAt: -1, FlipBit: -1})
			}
			if allPos > 0 {
				hasCut, hasFlip := false, false
				for _, op := range s.Ops {
					hasCut = hasCut || op.K == "cut"
					hasFlip = hasFlip || op.K == "flip"
				}
				n := len(pss[1].valid[enc]["a"])
				if hasCut {
					for at := 0; at < n; at++ {
						check(i, enc, s, c20Conc{PayloadSet: 1, Chunk: 3, SrcPattern: at % 4, Ctor: "get", Seed: r.Uint64(), CutAt: at, FlipBit: -1})
					}
				}
				if hasFlip {
					bits := n * 8
					step := 1
					if bits > allPos {
						step = (bits + allPos - 1) / allPos
					}
					for b := r.IntN(step); b < bits; b += step {
						check(i, enc, s, c20Conc{PayloadSet: 1, Chunk: 3, SrcPattern: b % 4, Ctor: "get", Seed: r.Uint64(), CutAt: -1, FlipBit: b})
					}
				}
			}
		}
	})
	be := map[string]int64{}
	byEnc.Range(func(k, v any) bool { be[k.(string)] = *v.(*int64); return true })
	out.Put(map[string]any{"summary": true, "scenarios": len(scns), "evaluations": evals, "calls": calls,
		"nontrivial": nontrivial, "by_enc": be,
		"runs_where_decompressor_closed_its_source": srcClosedN, "runs_where_compressor_closed_its_sink": pipeClosedN})
}

// TestVerifC20Hazard: fixed crash probes - Close / Read right after a Reset that failed on an
// instance that never had a successful Reset; a stream with 8 bytes after its end delivered one byte
// per Read; and (a note) what a 13-byte zstd header makes the decoder allocate.
func TestVerifC20Hazard(t *testing.T) {
	out, err := verifutil.NewOut(verifutil.Env("VERIF_OUT", "hazard.ndjson"))
	if err != nil {
		t.Fatal(err)
	}
	defer out.Close()
	for _, enc := range c20Encs {
		for _, after := range []string{"Close", "ReadAll"} {
			d, err := GetDecompressor(c20Enum[enc])
			if err != nil {
				t.Fatal(err)
			}
			r1, _ := c20Call(func() error { return d.Reset(bytes.NewBuffer([]byte("\xff\xfe not a stream"))) })
			var r2, e2 string
			if after == "Close" {
				r2, e2 = c20Call(d.Close)
			} else {
				r2, e2 = c20Call(func() error { _, err := io.Copy(io.Discard, d); return err })
			}
			out.Put(map[string]any{"enc": enc, "reset_garbage": r1, "then": after, "ret": r2, "err": e2})
		}
	}
	// brotli, valid stream of a 1 MiB payload + 8 bytes, delivered one byte per Read (never done by the
	// repository's own call sites, which pass in-memory buffers)
	{
		payload := c20Bytes(80, 1<<20, true)
		c, err := GetCompressor(c20Enum["br"])
		if err != nil {
			t.Fatal(err)
		}
		var b bytes.Buffer
		c.Reset(&b)
		_, _ = c.Write(payload)
		_ = c.Close()
		stream := append(append([]byte(nil), b.Bytes()...), 0xb1, 0x45, 0x23, 0xf7, 0x5c, 0x2a, 0x76, 0x8f)
		for _, kind := range []string{"buffer", "bytewise"} {
			d, err := GetDecompressor(c20Enum["br"])
			if err != nil {
				t.Fatal(err)
			}
			var src io.Reader = bytes.NewBuffer(append([]byte(nil), stream...))
			if kind == "bytewise" {
				src = iotest.OneByteReader(bytes.NewReader(stream))
			}
			r1, e1 := c20Call(func() error {
				if err := d.Reset(src); err != nil {
					return err
				}
				_, err := io.Copy(io.Discard, d)
				return err
			})
			out.Put(map[string]any{"enc": "br", "then": "trailing8-" + kind, "ret": r1, "err": e1, "stream_bytes": len(stream),
				"overrun": c20IsBrotliOverrun(c20Obs{Ret: r1, Err: e1})})
		}
	}
	// memory announced by a 13-byte zstd message (window 512 MiB, content size 400 MiB, one empty block)
	msg := []byte{0x28, 0xB5, 0x2F, 0xFD, 0x80, 0x98, 0x00, 0x00, 0x00, 0x19, 0x01, 0x00, 0x00}
	d, err := GetDecompressor(c20Enum["zstd"])
	if err != nil {
		t.Fatal(err)
	}
	var m0, m1 runtime.MemStats
	runtime.ReadMemStats(&m0)
	r1, e1 := c20Call(func() error {
		if err := d.Reset(bytes.NewBuffer(msg)); err != nil {
			return err
		}
		_, err := io.Copy(io.Discard, d)
		return err
	})
	runtime.ReadMemStats(&m1)
	_ = d.Close()
	out.Put(map[string]any{"enc": "zstd", "then": "alloc", "ret": r1, "err": e1, "message_bytes": len(msg),
		"allocated_mib": (m1.TotalAlloc - m0.TotalAlloc) >> 20})
}

// TestVerifC20Volume: one compressor and one decompressor per encoding, reused the way the RPC
// library's pools reuse them (Reset, use, Close, Reset on an empty source) for VERIF_MIB MiB of
// messages - a large one and a small one in turn.  Compress.tla puts no bound on how much has gone
// through an instance: message k must come back exactly, whatever k.
func TestVerifC20Volume(t *testing.T) {
	out, err := verifutil.NewOut(verifutil.Env("VERIF_OUT", "volume.ndjson"))
	if err != nil {
		t.Fatal(err)
	}
	defer out.Close()
	mib := verifutil.EnvInt("VERIF_MIB", 160)
	big := c20Bytes(81, 1<<20, true)
	small := []byte("a small valid message")
	for _, enc := range c20Encs {
		c, err := GetCompressor(c20Enum[enc])
		if err != nil {
			t.Fatal(err)
		}
		d, err := GetDecompressor(c20Enum[enc])
		if err != nil {
			t.Fatal(err)
		}
		rec := map[string]any{"enc": enc, "volume": true, "rounds": 0, "mib": 0, "ret": "ok", "err": "", "at": ""}
		total := 0
		for round := 0; total < mib<<20; round++ {
			payload := big
			if round%2 == 1 {
				payload = small
			}
			var wire bytes.Buffer
			ret, errText := c20Call(func() error {
				c.Reset(&wire)
				if _, err := c.Write(payload); err != nil {
					return err
				}
				return c.Close()
			})
			at := "compress"
			if ret == "ok" {
				at = "decompress"
				ret, errText = c20Call(func() error {
					if err := d.Reset(bytes.NewBuffer(wire.Bytes())); err != nil {
						return err
					}
					var got bytes.Buffer
					if _, err := got.ReadFrom(d); err != nil {
						return err
					}
					if !bytes.Equal(got.Bytes(), payload) {
						return fmt.Errorf("verif: %d bytes came back for a message of %d bytes (or other content)", got.Len(), len(payload))
					}
					if err := d.Close(); err != nil {
						return err
					}
					_ = d.Reset(http.NoBody) // the pool ignores what this reports (gzip: EOF, there is no header to read)
					return nil
				})
			}
			total += len(payload)
			rec["rounds"], rec["mib"] = round+1, total>>20
			if ret != "ok" {
				rec["ret"], rec["err"], rec["at"] = ret, errText, fmt.Sprintf("%s of message #%d (%d bytes)", at, round+1, len(payload))
				break
			}
		}
		out.Put(rec)
	}
}

// ---------------------------------------------------------------- code -> spec

type c20Rec struct {
	I    int      `json:"i"`
	Side string   `json:"side"`
	Enc  string   `json:"enc"`
	Ops  []c20Op  `json:"ops"`
	Obs  []c20Rob `json:"obs"`
	Conc c20Conc  `json:"conc"`
}

// observation as Trace_Compress reads it (all fields always present)
type c20Rob struct {
	Ret  string   `json:"ret"`
	Eq   []string `json:"eq"`
	From int      `json:"from"`
	W    []string `json:"w"`
	Wst  string   `json:"wst"`
	Err  string   `json:"err"`
}

// TestVerifC20Record: long seeded histories (beyond the TLC domain: up to 40 calls, 1 MiB payloads,
// every source kind) on the real instances; one line per history for Trace_Compress.
func TestVerifC20Record(t *testing.T) {
	out, err := verifutil.NewOut(verifutil.Env("VERIF_OUT", "trace.ndjson"))
	if err != nil {
		t.Fatal(err)
	}
	defer out.Close()
	n := verifutil.EnvInt("VERIF_N", 2000)
	maxLen := verifutil.EnvInt("VERIF_MAXLEN", 40)
	seed := verifutil.Seed()
	var pss []*c20Payloads
	for id := 0; id < 4; id++ {
		ps, err := c20MakePayloads(id, seed+77)
		if err != nil {
			t.Fatalf("payload set %d: %v", id, err)
		}
		pss = append(pss, ps)
	}
	streams := []c20Op{{"Reset", "valid", "e"}, {"Reset", "valid", "a"}, {"Reset", "valid", "b"}, {"Reset", "cut", "a"}, {"Reset", "cut", "b"},
		{"Reset", "flip", "a"}, {"Reset", "flip", "b"}, {"Reset", "foreign", "a"}, {"Reset", "trail", "a"}, {"Reset", "trail", "b"}, {"Reset", "trail", "e"}, {"Reset", "garbage", "-"}, {"Reset", "nobody", "-"}}
	only := map[int]bool{}
	for _, f := range strings.Split(verifutil.Env("VERIF_ONLY", ""), ",") {
		var x int
		if _, err := fmt.Sscanf(f, "%d", &x); err == nil {
			only[x] = true
		}
	}
	verifutil.ParallelFor(n, runtime.NumCPU(), func(i int) {
		if len(only) > 0 && !only[i] {
			return
		}
		r := rand.New(rand.NewPCG(seed, uint64(i)+500000))
		enc := c20Encs[i%len(c20Encs)]
		psid := r.IntN(3)
		if i%97 == 0 {
			psid = 3
		}
		conc := c20Conc{PayloadSet: psid, Chunk: []int{1, 3, 512, 5000, 70000}[r.IntN(5)], SrcPattern: r.IntN(4),
			Ctor: []string{"get", "new"}[r.IntN(2)], Seed: r.Uint64(), CutAt: -1, FlipBit: -1}
		l := 2 + r.IntN(maxLen-1)
		if (i/len(c20Encs))%3 != 0 {
			// decompressor: any call order after a first Reset
			rec := c20Rec{I: i, Side: "D", Enc: enc, Conc: conc}
			ps := pss[psid]
			rr := rand.New(rand.NewPCG(conc.Seed, 7))
			d, err := c20NewDecompressor(enc, conc.Ctor)
			if err != nil {
				return
			}
			var srcClosed int32
			from := 0
			for j := 0; j < l; j++ {
				var op c20Op
				if j == 0 || r.IntN(3) == 0 {
					op = streams[r.IntN(len(streams))]
					if r.IntN(2) == 0 {
						op = streams[r.IntN(3)] // bias towards valid streams
					}
				} else {
					op = []c20Op{{"Read1", "-", "-"}, {"ReadAll", "-", "-"}, {"ReadAll", "-", "-"}, {"Close", "-", "-"}}[r.IntN(4)]
				}
				ob := c20Rob{Eq: []string{}, W: []string{}, From: from}
				switch op.O {
				case "Reset":
					data := c20StreamBytes(enc, op, ps, &conc, rr)
					if dir := verifutil.Env("VERIF_DUMP_DIR", ""); dir != "" && len(only) > 0 {
						// for debugging a single recorded history: the bytes each Reset was pointed at
						_ = os.WriteFile(fmt.Sprintf("%s/c20-%d-%02d-%s-src%d.bin", dir, i, j, op.K, (conc.SrcPattern+j)%4), data, 0o644)
					}
					ob.Ret, ob.Err = c20Call(func() error { return d.Reset(c20Source(conc.SrcPattern+j, data, &srcClosed)) })
					from = 0
				case "Read1", "ReadAll":
					all := op.O == "ReadAll"
					var outb []byte
					if all {
						var b bytes.Buffer
						ob.Ret, ob.Err = c20Call(func() error { _, err := b.ReadFrom(d); return err })
						outb = b.Bytes()
					} else {
						buf := make([]byte, conc.Chunk)
						k := 0
						ob.Ret, ob.Err = c20Call(func() error {
							var err error
							k, err = io.ReadFull(d, buf)
							if errors.Is(err, io.EOF) || errors.Is(err, io.ErrUnexpectedEOF) {
								err = nil
							}
							return err
						})
						outb = buf[:k]
					}
					for _, t := range []string{"e", "a", "b"} {
						if bytes.Equal(outb, c20Slice(ps.tok[t], from, conc.Chunk, all)) {
							ob.Eq = append(ob.Eq, t)
						}
					}
					if all || from >= c20AtEnd {
						from = c20AtEnd
					} else {
						from++
					}
				case "Close":
					ob.Ret, ob.Err = c20Call(d.Close)
				}
				ob.Wst = c20Wst(enc, d)
				rec.Ops = append(rec.Ops, op)
				rec.Obs = append(rec.Obs, ob)
				if ob.Ret == "panic" {
					break
				}
			}
			func() {
				defer func() { _ = recover() }()
				_ = d.Close()
			}()
			out.Put(rec)
			return
		}
		// compressor
		rec := c20Rec{I: i, Side: "C", Enc: enc, Conc: conc}
		ps := pss[psid]
		var ops []c20Op
		bound := false
		for j := 0; j < l; j++ {
			switch {
			case !bound || r.IntN(4) == 0:
				ops = append(ops, c20Op{"Reset", []string{"buf", "buf", "pipe", "pipe", "fail", "discard"}[r.IntN(6)], "-"})
				bound = true
			case r.IntN(3) == 0:
				ops = append(ops, c20Op{"Close", "-", "-"})
			case r.IntN(25) == 0:
				ops = append(ops, c20Op{"New", "-", "-"})
				bound = false
			default:
				ops = append(ops, c20Op{"Write", "-", []string{"a", "b", "e"}[r.IntN(3)]})
			}
		}
		// the driver needs to know where a stream is owed to decode it: same fold as CompressDecl!CReq
		obl := make([]c20Obl, len(ops))
		k, closed := "none", false
		var w []string
		for j, op := range ops {
			switch op.O {
			case "Reset":
				k, closed, w = op.K, false, nil
			case "New":
				k, closed, w = "none", false, nil
			case "Write":
				if (k == "buf" || k == "pipe" || k == "discard") && !closed && op.P != "e" {
					w = append(w, op.P)
				}
			case "Close":
				if !closed && (k == "buf" || k == "pipe") {
					obl[j] = c20Obl{Must: "stream", W: append([]string{}, w...)}
				}
				closed = true
			}
		}
		obs, _ := c20RunC(enc, ops, obl, ps, &conc)
		rec.Ops = ops
		for _, o := range obs {
			ro := c20Rob{Ret: o.Ret, Eq: []string{}, W: o.W, Wst: "live", Err: o.Err + o.Note}
			if ro.W == nil {
				ro.W = []string{}
			}
			rec.Obs = append(rec.Obs, ro)
		}
		out.Put(rec)
	})
}
