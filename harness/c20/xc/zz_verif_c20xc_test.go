package referenceclient

// C20 harness, cross-component part (in-package with the reference client; the reference server
// runs in-process through its public entry point, in reference mode):
//   TestVerifC20Names  executes the name-table obligations enumerated by Gen_CompressNames on the
//                      real components (compression factories, raw-payload encoder, wire tracer,
//                      reference server options and checks, reference client options)
//   TestVerifC20Seq    sends TLC-generated message sequences (pool grammar of Compress.tla) to the
//                      real reference server, so that the RPC library's own pools recycle the
//                      wrappers between a malformed and a valid message

import (
	"bytes"
	"compress/flate"
	"compress/gzip"
	"compress/zlib"
	"context"
	"encoding/json"
	"fmt"
	"io"
	"math/rand/v2"
	"net"
	"net/http"
	"net/http/httptest"
	"runtime"
	"strconv"
	"strings"
	"sync"
	"testing"
	"time"

	"connectrpc.com/conformance/internal"
	"connectrpc.com/conformance/internal/app/referenceserver"
	"connectrpc.com/conformance/internal/compression"
	conformancev1 "connectrpc.com/conformance/internal/gen/proto/go/connectrpc/conformance/v1"
	"connectrpc.com/conformance/internal/tracer"
	"connectrpc.com/conformance/internal/verifutil"
	"connectrpc.com/connect"
	"github.com/andybalholm/brotli"
	"github.com/golang/snappy"
	"github.com/klauspost/compress/zstd"
	"google.golang.org/protobuf/proto"
	"google.golang.org/protobuf/types/known/anypb"
)

const (
	xcService   = "connectrpc.conformance.v1.ConformanceService"
	xcUnaryPath = "/" + xcService + "/Unary"
)

var xcFormats = []string{"none", "rfc1952-gzip", "rfc7932-brotli", "rfc8878-zstd", "rfc1950-zlib", "snappy-framed", "rfc1951-rawflate", "snappy-block"}

// ---------------------------------------------------------------- stock codecs by wire format

func xcStockEncode(format string, p []byte) []byte {
	var b bytes.Buffer
	var w io.WriteCloser
	switch format {
	case "none":
		return append([]byte(nil), p...)
	case "rfc1952-gzip":
		w = gzip.NewWriter(&b)
	case "rfc1950-zlib":
		w = zlib.NewWriter(&b)
	case "rfc1951-rawflate":
		fw, _ := flate.NewWriter(&b, flate.DefaultCompression)
		w = fw
	case "rfc7932-brotli":
		w = brotli.NewWriter(&b)
	case "rfc8878-zstd":
		zw, err := zstd.NewWriter(&b)
		if err != nil {
			panic(err)
		}
		w = zw
	case "snappy-framed":
		w = snappy.NewBufferedWriter(&b)
	case "snappy-block":
		return snappy.Encode(nil, p)
	default:
		panic("format " + format)
	}
	if _, err := w.Write(p); err != nil {
		panic(err)
	}
	if err := w.Close(); err != nil {
		panic(err)
	}
	return b.Bytes()
}

func xcStockDecode(format string, s []byte) (out []byte, err error) {
	defer func() {
		if r := recover(); r != nil {
			err = fmt.Errorf("stock decoder panicked: %v", r)
		}
	}()
	var r io.Reader
	switch format {
	case "none":
		return append([]byte(nil), s...), nil
	case "rfc1952-gzip":
		zr, err := gzip.NewReader(bytes.NewReader(s))
		if err != nil {
			return nil, err
		}
		zr.Multistream(false)
		r = zr
	case "rfc1950-zlib":
		zr, err := zlib.NewReader(bytes.NewReader(s))
		if err != nil {
			return nil, err
		}
		r = zr
	case "rfc1951-rawflate":
		r = flate.NewReader(bytes.NewReader(s))
	case "rfc7932-brotli":
		r = brotli.NewReader(bytes.NewReader(s))
	case "rfc8878-zstd":
		zr, err := zstd.NewReader(bytes.NewReader(s))
		if err != nil {
			return nil, err
		}
		defer zr.Close()
		r = zr
	case "snappy-framed":
		r = snappy.NewReader(bytes.NewReader(s))
	case "snappy-block":
		return snappy.Decode(nil, s)
	default:
		return nil, fmt.Errorf("format %s", format)
	}
	return io.ReadAll(r)
}

// the wire formats whose stock decoder turns s into something ok() accepts
func xcIdentify(s []byte, ok func([]byte) bool) []string {
	res := []string{}
	for _, f := range xcFormats {
		if out, err := xcStockDecode(f, s); err == nil && ok(out) {
			res = append(res, f)
		}
	}
	return res
}

// ---------------------------------------------------------------- messages

func xcRequestMsg(data []byte) *conformancev1.UnaryRequest {
	return &conformancev1.UnaryRequest{ResponseDefinition: &conformancev1.UnaryResponseDefinition{
		Response: &conformancev1.UnaryResponseDefinition_ResponseData{ResponseData: data}}}
}

func xcIsRequest(data []byte) func([]byte) bool {
	return func(b []byte) bool {
		var m conformancev1.UnaryRequest
		return proto.Unmarshal(b, &m) == nil && m.GetResponseDefinition() != nil && bytes.Equal(m.GetResponseDefinition().GetResponseData(), data)
	}
}

func xcIsResponse(data []byte) func([]byte) bool {
	return func(b []byte) bool {
		var m conformancev1.UnaryResponse
		return proto.Unmarshal(b, &m) == nil && m.GetPayload() != nil && bytes.Equal(m.GetPayload().GetData(), data)
	}
}

func xcMust(b []byte, err error) []byte {
	if err != nil {
		panic(err)
	}
	return b
}

// ---------------------------------------------------------------- the real reference server, in-process

type xcErrSink struct {
	mu  sync.Mutex
	buf bytes.Buffer
}

func (s *xcErrSink) Write(p []byte) (int, error) {
	s.mu.Lock()
	defer s.mu.Unlock()
	return s.buf.Write(p)
}
func (s *xcErrSink) Close() error { return nil }
func (s *xcErrSink) Has(sub string) bool {
	s.mu.Lock()
	defer s.mu.Unlock()
	return strings.Contains(s.buf.String(), sub)
}
func (s *xcErrSink) Lines(sub string) []string {
	s.mu.Lock()
	defer s.mu.Unlock()
	var res []string
	for _, l := range strings.Split(s.buf.String(), "\n") {
		if strings.Contains(l, sub) {
			res = append(res, l)
		}
	}
	return res
}

type xcServer struct {
	host   string
	port   uint32
	stderr *xcErrSink
	cancel context.CancelFunc
	done   chan error
	client *http.Client
}

func xcStartServer(t *testing.T) *xcServer {
	ctx, cancel := context.WithCancel(context.Background())
	inR, inW := io.Pipe()
	outR, outW := io.Pipe()
	s := &xcServer{stderr: &xcErrSink{}, cancel: cancel, done: make(chan error, 1)}
	go func() {
		s.done <- referenceserver.RunInReferenceMode(ctx, []string{"referenceserver", "-bind", "127.0.0.1", "-port", "0"}, inR, outW, s.stderr, nil)
		outW.Close()
	}()
	codec := internal.NewCodec(false)
	go func() {
		_ = codec.NewEncoder(inW).Encode(&conformancev1.ServerCompatRequest{
			Protocol: conformancev1.Protocol_PROTOCOL_CONNECT, HttpVersion: conformancev1.HTTPVersion_HTTP_VERSION_1})
	}()
	var resp conformancev1.ServerCompatResponse
	got := make(chan error, 1)
	go func() { got <- codec.NewDecoder(outR).DecodeNext(&resp) }()
	select {
	case err := <-got:
		if err != nil {
			t.Fatalf("reference server did not start: %v", err)
		}
	case err := <-s.done:
		t.Fatalf("reference server exited: %v", err)
	case <-time.After(60 * time.Second):
		t.Fatal("reference server did not report its address within 60 s")
	}
	s.host, s.port = resp.Host, resp.Port
	s.client = &http.Client{Timeout: 60 * time.Second, Transport: &http.Transport{DisableCompression: true, MaxIdleConnsPerHost: 4}}
	return s
}

type xcReply struct {
	Status   int
	Encoding string
	Body     []byte
	Err      string
}

// one Connect unary call over plain net/http: body as given, encoding headers as given
func (s *xcServer) post(testName, contentEncoding, acceptEncoding string, expectEnum int, body []byte) xcReply {
	req, err := http.NewRequest(http.MethodPost, "http://"+net.JoinHostPort(s.host, strconv.Itoa(int(s.port)))+xcUnaryPath, bytes.NewReader(body))
	if err != nil {
		return xcReply{Err: err.Error()}
	}
	req.Header.Set("Content-Type", "application/proto")
	req.Header.Set("Connect-Protocol-Version", "1")
	req.Header.Set("X-Test-Case-Name", testName)
	if contentEncoding != "" {
		req.Header.Set("Content-Encoding", contentEncoding)
	}
	if acceptEncoding != "" {
		req.Header.Set("Accept-Encoding", acceptEncoding)
	}
	if expectEnum >= 0 {
		req.Header.Set("X-Expect-Compression", strconv.Itoa(expectEnum))
	}
	resp, err := s.client.Do(req)
	if err != nil {
		return xcReply{Err: err.Error()}
	}
	defer resp.Body.Close()
	b, err := io.ReadAll(resp.Body)
	r := xcReply{Status: resp.StatusCode, Encoding: resp.Header.Get("Content-Encoding"), Body: b}
	if err != nil {
		r.Err = err.Error()
	}
	return r
}

// ---------------------------------------------------------------- a plain peer for the real reference client

type xcPeerPlan struct {
	label  string // Content-Encoding of the reply
	format string // how the reply body is really encoded
	data   []byte
	raw    []byte // if set: the reply body, verbatim
}

type xcPeerSeen struct {
	ContentEncoding string
	AcceptEncoding  string
	Body            []byte
}

type xcPeer struct {
	srv  *httptest.Server
	mu   sync.Mutex
	plan map[string]xcPeerPlan
	seen map[string]xcPeerSeen
}

func xcStartPeer() *xcPeer {
	p := &xcPeer{plan: map[string]xcPeerPlan{}, seen: map[string]xcPeerSeen{}}
	p.srv = httptest.NewServer(http.HandlerFunc(func(w http.ResponseWriter, r *http.Request) {
		name := r.Header.Get("X-Test-Case-Name")
		body, _ := io.ReadAll(r.Body)
		p.mu.Lock()
		p.seen[name] = xcPeerSeen{ContentEncoding: r.Header.Get("Content-Encoding"), AcceptEncoding: r.Header.Get("Accept-Encoding"), Body: body}
		plan := p.plan[name]
		p.mu.Unlock()
		msg := xcMust(proto.Marshal(&conformancev1.UnaryResponse{Payload: &conformancev1.ConformancePayload{Data: plan.data}}))
		w.Header().Set("Content-Type", "application/proto")
		if plan.label != "" {
			w.Header().Set("Content-Encoding", plan.label)
		}
		w.WriteHeader(200)
		if plan.raw != nil {
			_, _ = w.Write(plan.raw)
			return
		}
		_, _ = w.Write(xcStockEncode(plan.format, msg))
	}))
	return p
}

func (p *xcPeer) hostPort() (string, uint32) {
	h, ps, _ := net.SplitHostPort(strings.TrimPrefix(p.srv.URL, "http://"))
	n, _ := strconv.Atoi(ps)
	return h, uint32(n)
}

// the real reference client (invoke) makes one unary call
func xcInvoke(testName string, host string, port uint32, comp conformancev1.Compression, data []byte) (*conformancev1.ClientResponseResult, error) {
	a, err := anypb.New(xcRequestMsg(data))
	if err != nil {
		return nil, err
	}
	svc, method := xcService, "Unary"
	ctx, cancel := context.WithTimeout(context.Background(), 60*time.Second)
	defer cancel()
	return invoke(ctx, &conformancev1.ClientCompatRequest{
		TestName: testName, HttpVersion: conformancev1.HTTPVersion_HTTP_VERSION_1, Protocol: conformancev1.Protocol_PROTOCOL_CONNECT,
		Codec: conformancev1.Codec_CODEC_PROTO, Compression: comp, Host: host, Port: port, Service: &svc, Method: &method,
		StreamType:      conformancev1.StreamType_STREAM_TYPE_UNARY,
		RequestMessages: []*anypb.Any{a},
		RequestHeaders:  []*conformancev1.Header{{Name: "X-Test-Case-Name", Value: []string{testName}}},
	}, true, nil)
}

func xcClientOK(res *conformancev1.ClientResponseResult, err error, data []byte) (bool, string) {
	if err != nil {
		return false, "invoke: " + err.Error()
	}
	if res.Error != nil {
		return false, fmt.Sprintf("rpc error %v: %s", res.Error.Code, res.Error.GetMessage())
	}
	if len(res.Payloads) != 1 || !bytes.Equal(res.Payloads[0].GetData(), data) {
		return false, "payload differs"
	}
	return true, ""
}

// ---------------------------------------------------------------- instance-level components

func xcDecompressWith(d connect.Decompressor, s []byte) (out []byte, err error) {
	defer func() {
		if r := recover(); r != nil {
			err = fmt.Errorf("panic: %v", r)
		}
	}()
	if err := d.Reset(bytes.NewBuffer(append([]byte(nil), s...))); err != nil {
		return nil, err
	}
	var b bytes.Buffer
	_, err = b.ReadFrom(d)
	return b.Bytes(), err
}

type xcObl struct {
	Kind   string `json:"kind"`
	Comp   string `json:"comp"`
	Comp2  string `json:"comp2"`
	N      string `json:"n"`
	E      int    `json:"e"`
	F      string `json:"f"`
	Hdr    string `json:"hdr"`
	Expect bool   `json:"expect"`
}

type xcResult struct {
	Obl     xcObl    `json:"obl"`
	Label   string   `json:"label,omitempty"`
	Formats []string `json:"formats,omitempty"`
	Decoded *bool    `json:"decoded,omitempty"`
	Note    string   `json:"note,omitempty"`
	OK      bool     `json:"ok"`
	Repro   int      `json:"repro"`
	// consume obligations of the formats that are defined as a series of members / frames (RFC 1952 gzip, RFC 8878
	// zstd, framed snappy): did the consumer decode the payload from a stream of TWO members?  Every consumer of one
	// encoding name must give the same answer ("the same name denotes the same algorithm").
	Members *bool `json:"members,omitempty"`
}

type xcEnv struct {
	srv  *xcServer
	peer *xcPeer
	n    int
	mu   sync.Mutex
}

func (e *xcEnv) name(o xcObl) string {
	e.mu.Lock()
	defer e.mu.Unlock()
	e.n++
	return fmt.Sprintf("c20/%s/%s/%s/%d/%s/%d", o.Kind, o.Comp, o.N, o.E, o.F, e.n)
}

var xcData = []byte("C20 payload: the quick brown fox jumps over the lazy dog; the quick brown fox jumps over the lazy dog")

// what producer comp emits for encoding (n, e) carrying a request or response message with xcData:
// label as put on the wire, raw bytes, and the predicate that recognises the decoded payload
func (e *xcEnv) produce(o xcObl, carry string) (label string, stream []byte, isPayload func([]byte) bool, note string) {
	var payload []byte
	switch carry {
	case "response":
		payload = xcMust(proto.Marshal(&conformancev1.UnaryResponse{Payload: &conformancev1.ConformancePayload{Data: xcData}}))
		isPayload = xcIsResponse(xcData)
	default:
		payload = xcMust(proto.Marshal(xcRequestMsg(xcData)))
		isPayload = xcIsRequest(xcData)
	}
	switch o.Comp {
	case "compression.GetCompressor":
		c, err := compression.GetCompressor(conformancev1.Compression(o.E))
		if err != nil {
			return "", nil, isPayload, err.Error()
		}
		var b bytes.Buffer
		c.Reset(&b)
		if _, err := c.Write(payload); err != nil {
			return "", nil, isPayload, err.Error()
		}
		if err := c.Close(); err != nil {
			return "", nil, isPayload, err.Error()
		}
		return o.N, b.Bytes(), isPayload, "" // a factory has no label of its own
	case "internal.WriteRawMessageContents":
		var b bytes.Buffer
		err := internal.WriteRawMessageContents(&conformancev1.MessageContents{
			Data: &conformancev1.MessageContents_Binary{Binary: payload}, Compression: conformancev1.Compression(o.E)}, &b)
		if err != nil {
			return "", nil, isPayload, err.Error()
		}
		return o.N, b.Bytes(), isPayload, ""
	case "referenceserver.response":
		name := e.name(o)
		r := e.srv.post(name, "", o.N, -1, xcMust(proto.Marshal(xcRequestMsg(xcData))))
		if r.Err != "" || r.Status != 200 {
			return "", nil, xcIsResponse(xcData), fmt.Sprintf("status %d %s", r.Status, r.Err)
		}
		label := r.Encoding
		if label == "" {
			label = "identity"
		}
		return label, r.Body, xcIsResponse(xcData), ""
	case "referenceclient.request":
		name := e.name(o)
		h, p := e.peer.hostPort()
		e.peer.mu.Lock()
		e.peer.plan[name] = xcPeerPlan{label: "", format: "none", data: xcData}
		e.peer.mu.Unlock()
		res, err := xcInvoke(name, h, p, conformancev1.Compression(o.E), xcData)
		if ok, why := xcClientOK(res, err, xcData); !ok {
			note = "client call failed: " + why
		}
		e.peer.mu.Lock()
		seen, was := e.peer.seen[name]
		e.peer.mu.Unlock()
		if !was {
			return "", nil, xcIsRequest(xcData), "no request reached the peer; " + note
		}
		label := seen.ContentEncoding
		if label == "" {
			label = "identity"
		}
		return label, seen.Body, xcIsRequest(xcData), note
	}
	return "", nil, isPayload, "unknown producer"
}

// does consumer comp, told "this is n", turn stream into the payload?
func (e *xcEnv) consume(o xcObl, comp string, stream []byte, carry string, isPayload func([]byte) bool) (bool, string) {
	switch comp {
	case "compression.GetDecompressor":
		d, err := compression.GetDecompressor(conformancev1.Compression(o.E))
		if err != nil {
			return false, err.Error()
		}
		out, err := xcDecompressWith(d, stream)
		if err != nil {
			return false, err.Error()
		}
		return isPayload(out), ""
	case "tracer.GetDecompressor":
		out, err := xcDecompressWith(tracer.GetDecompressor(o.N), stream)
		if err != nil {
			return false, err.Error()
		}
		return isPayload(out), ""
	case "referenceserver.request":
		r := e.srv.post(e.name(o), o.N, "", -1, stream)
		if r.Err != "" {
			return false, "no reply: " + r.Err
		}
		if r.Status != 200 {
			return false, fmt.Sprintf("status %d %.120s", r.Status, r.Body)
		}
		// (without Accept-Encoding the handler answers in the request's encoding)
		label := r.Encoding
		if label == "" {
			label = "identity"
		}
		dec, err := xcStockDecode(xcFormatOf[label], r.Body)
		if err != nil {
			return false, fmt.Sprintf("reply labelled %q: %v", r.Encoding, err)
		}
		return xcIsResponse(xcData)(dec), ""
	case "referenceclient.response":
		name := e.name(o)
		h, p := e.peer.hostPort()
		e.peer.mu.Lock()
		e.peer.plan[name] = xcPeerPlan{label: o.N, raw: append([]byte{}, stream...)}
		e.peer.mu.Unlock()
		res, err := xcInvoke(name, h, p, conformancev1.Compression(o.E), xcData)
		ok, why := xcClientOK(res, err, xcData)
		return ok, why
	}
	return false, "unknown consumer"
}

func carries(c string) string {
	switch c {
	case "referenceclient.request", "referenceserver.request":
		return "request"
	case "referenceserver.response", "referenceclient.response":
		return "response"
	}
	return "any"
}

func (e *xcEnv) run(o xcObl) xcResult {
	res := xcResult{Obl: o}
	tr, fa := true, false
	switch o.Kind {
	case "produce":
		label, stream, isPayload, note := e.produce(o, carries(o.Comp))
		res.Label, res.Note = label, note
		res.Formats = xcIdentify(stream, isPayload)
		res.OK = label == o.Hdr && len(res.Formats) == 1 && res.Formats[0] == o.F
	case "consume":
		carry := carries(o.Comp)
		var payload []byte
		isPayload := xcIsRequest(xcData)
		if carry == "response" {
			payload = xcMust(proto.Marshal(&conformancev1.UnaryResponse{Payload: &conformancev1.ConformancePayload{Data: xcData}}))
			isPayload = xcIsResponse(xcData)
		} else {
			payload = xcMust(proto.Marshal(xcRequestMsg(xcData)))
		}
		dec, note := e.consume(o, o.Comp, xcStockEncode(o.F, payload), carry, isPayload)
		res.Decoded, res.Note = &fa, note
		if dec {
			res.Decoded = &tr
		}
		res.OK = dec == o.Expect
		if o.Expect && (o.F == "rfc1952-gzip" || o.F == "rfc8878-zstd" || o.F == "snappy-framed") {
			k := len(payload) / 2
			two := append(append([]byte{}, xcStockEncode(o.F, payload[:k])...), xcStockEncode(o.F, payload[k:])...)
			o2 := o
			o2.N += ""
			dec2, _ := e.consume(o2, o.Comp, two, carry, isPayload)
			res.Members = &fa
			if dec2 {
				res.Members = &tr
			}
		}
	case "check":
		name := e.name(o)
		body := xcMust(proto.Marshal(xcRequestMsg(xcData)))
		hdr := o.Hdr
		if hdr == "-" {
			hdr = ""
			e.srv.post(name, "", "", o.E, body)
		} else {
			c, err := compression.GetCompressor(conformancev1.Compression(map[string]int{"identity": 1, "gzip": 2, "br": 3, "zstd": 4, "deflate": 5, "snappy": 6}[hdr]))
			if err == nil {
				var b bytes.Buffer
				c.Reset(&b)
				_, _ = c.Write(body)
				_ = c.Close()
				body = b.Bytes()
			}
			e.srv.post(name, hdr, "", o.E, body)
		}
		lines := e.srv.stderr.Lines(name + ": expected compression")
		complained := len(lines) > 0
		res.Decoded = &fa
		if complained {
			res.Decoded = &tr
			res.Note = strings.Join(lines, " | ")
		}
		res.OK = complained == o.Expect
	case "pair":
		carry := carries(o.Comp)
		if carry == "any" {
			carry = carries(o.Comp2)
		}
		label, stream, isPayload, note := e.produce(o, carry)
		res.Label = label
		if stream == nil && note != "" {
			res.Note = "producer: " + note
			break
		}
		o2 := o
		o2.N = label // the consumer is told what the producer put on the wire
		if en, ok := map[string]int{"identity": 1, "gzip": 2, "br": 3, "zstd": 4, "deflate": 5, "snappy": 6}[label]; ok {
			o2.E = en
		}
		dec, note2 := e.consume(o2, o.Comp2, stream, carry, isPayload)
		res.Decoded = &fa
		if dec {
			res.Decoded = &tr
		}
		res.Note = strings.TrimSpace(note + " " + note2)
		res.OK = dec && label == o.N
	}
	return res
}

func TestVerifC20Names(t *testing.T) {
	lines, err := verifutil.ReadLines(verifutil.Env("VERIF_SCN", "names.ndjson"))
	if err != nil {
		t.Fatal(err)
	}
	out, err := verifutil.NewOut(verifutil.Env("VERIF_OUT", "names.out.ndjson"))
	if err != nil {
		t.Fatal(err)
	}
	defer out.Close()
	env := &xcEnv{srv: xcStartServer(t), peer: xcStartPeer()}
	defer env.srv.cancel()
	defer env.peer.srv.Close()
	byKind := map[string]int{}
	bad := 0
	for i, l := range lines {
		var o xcObl
		if err := json.Unmarshal(l, &o); err != nil {
			t.Fatalf("line %d: %v", i, err)
		}
		r := env.run(o)
		byKind[o.Kind]++
		r.Repro = 0
		if !r.OK {
			r.Repro = 1
			for k := 0; k < 2; k++ {
				if r2 := env.run(o); !r2.OK {
					r.Repro++
				}
			}
			bad++
		}
		if !r.OK || i%40 == 0 || r.Members != nil {
			if r.OK && r.Members != nil {
				r.Repro = 3 // (deterministic decoders; the verdict on the two-member stream is compared across consumers)
			}
			out.Put(r)
		}
	}
	// leniencies of the tracer's name lookup, recorded (not judged): case-insensitive, "" = identity
	lenient := map[string]bool{}
	payload := xcMust(proto.Marshal(xcRequestMsg(xcData)))
	for _, n := range []string{"GZIP", "Br", ""} {
		f := map[string]string{"GZIP": "rfc1952-gzip", "Br": "rfc7932-brotli", "": "none"}[n]
		o, err := xcDecompressWith(tracer.GetDecompressor(n), xcStockEncode(f, payload))
		lenient[n] = err == nil && bytes.Equal(o, payload)
	}
	out.Put(map[string]any{"summary": true, "obligations": len(lines), "by_kind": byKind, "bad": bad, "tracer_lenient_names": lenient})
}

// ---------------------------------------------------------------- message sequences through the RPC library's pools

type xcMsg struct {
	K string `json:"k"`
	P string `json:"p"`
}

type xcSeq struct {
	Msgs []xcMsg `json:"msgs"`
}

var xcEncNames = []string{"identity", "gzip", "br", "zstd", "deflate", "snappy"}
var xcEnumOf = map[string]int{"identity": 1, "gzip": 2, "br": 3, "zstd": 4, "deflate": 5, "snappy": 6}
var xcFormatOf = map[string]string{"identity": "none", "gzip": "rfc1952-gzip", "br": "rfc7932-brotli", "zstd": "rfc8878-zstd", "deflate": "rfc1950-zlib", "snappy": "snappy-framed"}

func xcCompress(enc string, p []byte) []byte {
	c, err := compression.GetCompressor(conformancev1.Compression(xcEnumOf[enc]))
	if err != nil {
		panic(err)
	}
	var b bytes.Buffer
	c.Reset(&b)
	if _, err := c.Write(p); err != nil {
		panic(err)
	}
	if err := c.Close(); err != nil {
		panic(err)
	}
	return b.Bytes()
}

// TestVerifC20Raw: the "raw" grammar of Compress.tla on its real call site - WriteRawStreamContents
// writes every item (explicit length, so straight to the writer) through a fresh compressor onto
// ONE *io.PipeWriter, exactly as rawRequestSender does.  Every item must arrive and decode.
func TestVerifC20Raw(t *testing.T) {
	lines, err := verifutil.ReadLines(verifutil.Env("VERIF_SCN", "raw.ndjson"))
	if err != nil {
		t.Fatal(err)
	}
	out, err := verifutil.NewOut(verifutil.Env("VERIF_OUT", "raw.out.ndjson"))
	if err != nil {
		t.Fatal(err)
	}
	defer out.Close()
	tok := map[string][]byte{"e": {}, "a": []byte("a: the quick brown fox"), "b": bytes.Repeat([]byte("b0123456789"), 60)}
	evals, bad := 0, 0
	for i, l := range lines {
		var sq struct {
			Items []string `json:"items"`
		}
		if err := json.Unmarshal(l, &sq); err != nil {
			t.Fatalf("line %d: %v", i, err)
		}
		for _, enc := range xcEncNames {
			run := func() (string, string) {
				sc := &conformancev1.StreamContents{}
				for _, it := range sq.Items {
					n := uint32(len(xcCompress(enc, tok[it])))
					sc.Items = append(sc.Items, &conformancev1.StreamContents_StreamItem{Flags: 0, Length: &n,
						Payload: &conformancev1.MessageContents{Data: &conformancev1.MessageContents_Binary{Binary: tok[it]},
							Compression: conformancev1.Compression(xcEnumOf[enc])}})
				}
				pr, pw := io.Pipe()
				werr := make(chan error, 1)
				go func() {
					err := internal.WriteRawStreamContents(sc, pw)
					_ = pw.Close()
					werr <- err
				}()
				wire, _ := io.ReadAll(pr)
				if err := <-werr; err != nil {
					return "encoder-error", err.Error()
				}
				for j, it := range sq.Items {
					if len(wire) < 5 {
						return "item-missing", fmt.Sprintf("item %d of %d: %d bytes left on the wire", j+1, len(sq.Items), len(wire))
					}
					n := int(wire[1])<<24 | int(wire[2])<<16 | int(wire[3])<<8 | int(wire[4])
					if len(wire) < 5+n {
						return "item-short", fmt.Sprintf("item %d announces %d bytes, %d left", j+1, n, len(wire)-5)
					}
					body := wire[5 : 5+n]
					wire = wire[5+n:]
					viaTracer, err := xcDecompressWith(tracer.GetDecompressor(enc), body)
					if err != nil || !bytes.Equal(viaTracer, tok[it]) {
						return "item-differs", fmt.Sprintf("item %d: tracer decompressor: %v", j+1, err)
					}
					viaStock, err := xcStockDecode(xcFormatOf[enc], body)
					if err != nil || !bytes.Equal(viaStock, tok[it]) {
						return "item-differs", fmt.Sprintf("item %d: stock decoder: %v", j+1, err)
					}
				}
				if len(wire) != 0 {
					return "trailing-bytes", fmt.Sprintf("%d bytes after the last item", len(wire))
				}
				return "", ""
			}
			evals++
			if what, note := run(); what != "" {
				repro := 1
				for k := 0; k < 2; k++ {
					if w2, _ := run(); w2 != "" {
						repro++
					}
				}
				bad++
				out.Put(map[string]any{"enc": enc, "items": sq.Items, "what": what, "note": note, "repro": repro})
			}
		}
	}
	out.Put(map[string]any{"summary": true, "sequences": len(lines), "evaluations": evals, "bad": bad})
}

func TestVerifC20Seq(t *testing.T) {
	lines, err := verifutil.ReadLines(verifutil.Env("VERIF_SCN", "seq.ndjson"))
	if err != nil {
		t.Fatal(err)
	}
	out, err := verifutil.NewOut(verifutil.Env("VERIF_OUT", "seq.out.ndjson"))
	if err != nil {
		t.Fatal(err)
	}
	defer out.Close()
	// one P: the library's sync.Pools hand the instance just returned to the next request
	defer runtime.GOMAXPROCS(runtime.GOMAXPROCS(1))
	srv := xcStartServer(t)
	defer srv.cancel()
	seed := verifutil.Seed()
	tok := map[string][]byte{"e": {}, "a": []byte("a: the quick brown fox jumps over the lazy dog"), "b": bytes.Repeat([]byte("b0123456789"), 400)}
	var msgs, validMsgs, bad int
	type miss struct {
		Enc      string   `json:"enc"`
		Seq      []xcMsg  `json:"seq"`
		At       int      `json:"at"`
		Msg      xcMsg    `json:"msg"`
		Status   int      `json:"status"`
		Note     string   `json:"note"`
		Earlier  []string `json:"earlier"` // stream kinds sent before on this connection sequence
		Statuses []int    `json:"statuses"`
		Repro    int      `json:"repro"`
		Seed     uint64   `json:"seed"`
	}
	runSeq := func(enc string, sq *xcSeq, sseed uint64, counting bool) *miss {
		r := rand.New(rand.NewPCG(sseed, 31))
		var earlier []string
		var statuses []int
		// isolate the sequence from what earlier sequences left in the server's pools: two valid
		// messages whose outcome is not judged
		for k := 0; k < 2; k++ {
			srv.post(fmt.Sprintf("c20seq/%s/%d/pre%d", enc, sseed, k), enc, enc, -1, xcCompress(enc, xcMust(proto.Marshal(xcRequestMsg(tok["a"])))))
		}
		for i, m := range sq.Msgs {
			data := tok[m.P]
			if m.P == "-" {
				data = tok["a"]
			}
			valid := xcCompress(enc, xcMust(proto.Marshal(xcRequestMsg(data))))
			body := valid
			switch m.K {
			case "cut":
				body = valid[:r.IntN(len(valid))]
			case "flip":
				body = append([]byte(nil), valid...)
				bit := r.IntN(len(body) * 8)
				body[bit/8] ^= 1 << (bit % 8)
			case "trail":
				body = append(append([]byte(nil), valid...), byte(r.Uint32()), byte(r.Uint32()), byte(r.Uint32()))
			case "garbage":
				body = make([]byte, 1+r.IntN(40))
				for j := range body {
					body[j] = byte(r.Uint32())
				}
			case "foreign":
				other := xcEncNames[1+r.IntN(5)]
				if other == enc {
					other = xcEncNames[1+(xcEnumOf[enc])%5]
				}
				body = xcCompress(other, xcMust(proto.Marshal(xcRequestMsg(data))))
			case "nobody":
				body = nil
			}
			rep := srv.post(fmt.Sprintf("c20seq/%s/%d/%d", enc, sseed, i), enc, enc, -1, body)
			statuses = append(statuses, rep.Status)
			if counting {
				msgs++
			}
			if m.K == "valid" {
				if counting {
					validMsgs++
				}
				note := ""
				switch {
				case rep.Err != "":
					note = "no reply: " + rep.Err
				case rep.Status != 200:
					note = fmt.Sprintf("status %d: %.160s", rep.Status, rep.Body)
				default:
					label := rep.Encoding
					if label == "" {
						label = "identity"
					}
					dec, err := xcStockDecode(xcFormatOf[label], rep.Body)
					if err != nil || !xcIsResponse(data)(dec) {
						note = fmt.Sprintf("reply (Content-Encoding %q) does not decode to the payload: %v", rep.Encoding, err)
					}
				}
				if note != "" {
					return &miss{Enc: enc, Seq: sq.Msgs, At: i, Msg: m, Status: rep.Status, Note: note, Earlier: earlier, Statuses: statuses, Seed: sseed}
				}
			} else if rep.Err != "" {
				return &miss{Enc: enc, Seq: sq.Msgs, At: i, Msg: m, Status: 0, Note: "no reply to a malformed message: " + rep.Err, Earlier: earlier, Statuses: statuses, Seed: sseed}
			}
			earlier = append(earlier, m.K)
		}
		return nil
	}
	reported := map[string]int{}
	for i, l := range lines {
		var sq xcSeq
		if err := json.Unmarshal(l, &sq); err != nil {
			t.Fatalf("line %d: %v", i, err)
		}
		for _, enc := range xcEncNames {
			sseed := seed*1000003 + uint64(i)*7 + uint64(xcEnumOf[enc])
			if fe := verifutil.Env("VERIF_FORCE_ENC", ""); fe != "" {
				if fe != enc {
					continue
				}
				fmt.Sscanf(verifutil.Env("VERIF_FORCE_SEED", "0"), "%d", &sseed)
			}
			if m := runSeq(enc, &sq, sseed, true); m != nil {
				m.Repro = 1
				for k := 0; k < 2; k++ {
					if m2 := runSeq(enc, &sq, sseed, false); m2 != nil {
						m.Repro++
					}
				}
				bad++
				key := enc + "/" + m.Msg.K + "/" + strconv.Itoa(m.Status)
				reported[key]++
				if reported[key] <= 25 {
					out.Put(m)
				}
			}
		}
	}
	out.Put(map[string]any{"summary": true, "sequences": len(lines), "messages": msgs, "valid_messages": validMsgs, "bad": bad})
}
