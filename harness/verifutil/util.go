// Package verifutil is shared by the verification harness files that are overlaid into
// connectrpc/conformance packages at build time (see /verif/DESIGN.md, section 3.4).
package verifutil

import (
	"bufio"
	"encoding/json"
	"fmt"
	"math/rand/v2"
	"os"
	"strconv"
	"sync"
)

// Env returns the value of the named environment variable or def.
func Env(name, def string) string {
	if v := os.Getenv(name); v != "" {
		return v
	}
	return def
}

// EnvInt returns the integer value of the named environment variable or def.
func EnvInt(name string, def int) int {
	if v := os.Getenv(name); v != "" {
		if n, err := strconv.Atoi(v); err == nil {
			return n
		}
	}
	return def
}

// Seed is VERIF_SEED (default 1).
func Seed() uint64 { return uint64(EnvInt("VERIF_SEED", 1)) }

// Rand returns a deterministic generator derived from VERIF_SEED and a stream id.
func Rand(stream uint64) *rand.Rand { return rand.New(rand.NewPCG(Seed(), stream)) }

// Thorough reports whether VERIF_TIER=thorough.
func Thorough() bool { return os.Getenv("VERIF_TIER") == "thorough" }

// ReadLines reads an ndjson file and returns one raw JSON value per non-empty line.
func ReadLines(path string) ([]json.RawMessage, error) {
	fh, err := os.Open(path)
	if err != nil {
		return nil, err
	}
	defer fh.Close()
	var res []json.RawMessage
	sc := bufio.NewScanner(fh)
	sc.Buffer(make([]byte, 1<<20), 1<<28)
	for sc.Scan() {
		b := sc.Bytes()
		if len(b) == 0 {
			continue
		}
		res = append(res, append(json.RawMessage(nil), b...))
	}
	return res, sc.Err()
}

// Out is a concurrency-safe ndjson writer.
type Out struct {
	mu sync.Mutex
	fh *os.File
	w  *bufio.Writer
	N  int
}

// NewOut creates (truncates) the file at path.
func NewOut(path string) (*Out, error) {
	fh, err := os.Create(path)
	if err != nil {
		return nil, err
	}
	return &Out{fh: fh, w: bufio.NewWriterSize(fh, 1<<20)}, nil
}

// Put writes v as one JSON line.
func (o *Out) Put(v any) {
	b, err := json.Marshal(v)
	if err != nil {
		b, _ = json.Marshal(map[string]string{"marshal_error": err.Error(), "value": fmt.Sprintf("%v", v)})
	}
	o.mu.Lock()
	defer o.mu.Unlock()
	o.w.Write(b)
	o.w.WriteByte('\n')
	o.N++
}

// Close flushes and closes the file.
func (o *Out) Close() error {
	o.mu.Lock()
	defer o.mu.Unlock()
	if err := o.w.Flush(); err != nil {
		return err
	}
	return o.fh.Close()
}

// ParallelFor runs f(i) for i in [0,n) on up to workers goroutines.
func ParallelFor(n, workers int, f func(i int)) {
	if workers < 1 {
		workers = 1
	}
	var wg sync.WaitGroup
	ch := make(chan int, workers)
	for w := 0; w < workers; w++ {
		wg.Add(1)
		go func() {
			defer wg.Done()
			for i := range ch {
				f(i)
			}
		}()
	}
	for i := 0; i < n; i++ {
		ch <- i
	}
	close(ch)
	wg.Wait()
}
