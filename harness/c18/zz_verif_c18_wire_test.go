package grpcutil

// C18 harness, end-to-end leg: a header list is attached to a real gRPC call with
// AppendToOutgoingContext, travels over a real grpc-go HTTP/2 connection (in-memory listener),
// is read on the server with metadata.FromIncomingContext and converted back with
// ConvertMetadataToProtoHeader.  The specification says what header list must come out
// (MDToHdr(Outgoing(pre, h)): keys lower-case, values in order, -bin encoded exactly once).
// This also turns the assumption "grpc-go encodes/decodes -bin values itself" into an observation.

import (
	"context"
	"encoding/json"
	"net"
	"strings"
	"sync"
	"testing"
	"time"

	"connectrpc.com/conformance/internal/verifutil"
	"google.golang.org/grpc"
	"google.golang.org/grpc/credentials/insecure"
	"google.golang.org/grpc/metadata"
	"google.golang.org/grpc/test/bufconn"
	"google.golang.org/protobuf/types/known/emptypb"
)

type c18WireScn struct {
	Op   string     `json:"op"`
	H    []c18Entry `json:"h"`
	Pre  []c18Entry `json:"pre"`
	Wire []c18Entry `json:"wire"`
}

func TestVerifC18Wire(t *testing.T) {
	lines, err := verifutil.ReadLines(verifutil.Env("VERIF_SCN", "scn.ndjson"))
	if err != nil {
		t.Fatal(err)
	}
	out, err := verifutil.NewOut(verifutil.Env("VERIF_OUT", "out.ndjson"))
	if err != nil {
		t.Fatal(err)
	}
	defer out.Close()

	var mu sync.Mutex
	var lastMD metadata.MD
	lis := bufconn.Listen(1 << 20)
	srv := grpc.NewServer(grpc.UnknownServiceHandler(func(_ any, stream grpc.ServerStream) error {
		md, _ := metadata.FromIncomingContext(stream.Context())
		mu.Lock()
		lastMD = md
		mu.Unlock()
		var req emptypb.Empty
		if err := stream.RecvMsg(&req); err != nil {
			return err
		}
		return stream.SendMsg(&emptypb.Empty{})
	}))
	go func() { _ = srv.Serve(lis) }()
	defer srv.Stop()
	conn, err := grpc.NewClient("passthrough:///c18", grpc.WithTransportCredentials(insecure.NewCredentials()),
		grpc.WithContextDialer(func(ctx context.Context, _ string) (net.Conn, error) { return lis.DialContext(ctx) }))
	if err != nil {
		t.Fatalf("machinery: %v", err)
	}
	defer conn.Close()

	call := func(s *c18WireScn) (map[string][]string, error) {
		ctx, cancel := context.WithTimeout(context.Background(), 60*time.Second)
		defer cancel()
		if len(s.Pre) > 0 {
			ctx = metadata.NewOutgoingContext(ctx, metadata.MD(c18Map(s.Pre, "", false)))
		}
		ctx = AppendToOutgoingContext(ctx, c18Headers(s.H))
		if err := conn.Invoke(ctx, "/verif.C18/Echo", &emptypb.Empty{}, &emptypb.Empty{}); err != nil {
			return nil, err
		}
		mu.Lock()
		md := lastMD
		mu.Unlock()
		res, _ := c18HdrListMap(ConvertMetadataToProtoHeader(md))
		mine := map[string][]string{}
		for k, v := range res {
			if strings.HasPrefix(k, "x-") {
				mine[k] = v
			}
		}
		return c18Prune(mine), nil
	}

	n, mism := 0, 0
	for i, ln := range lines {
		var s c18WireScn
		if err := json.Unmarshal(ln, &s); err != nil {
			t.Fatalf("machinery: line %d: %v", i, err)
		}
		if s.Op != "out" {
			continue
		}
		n++
		want := c18Map(s.Wire, "", true)
		got, err := call(&s)
		if err != nil {
			// the transport refused the metadata: with raw (decoded) -bin values that cannot happen;
			// report it as an observation of its own class
			out.Put(c18Mismatch{Area: "hdr", Op: "wire", Fn: "AppendToOutgoingContext", Class: "rpc-failed", Obs: err.Error(), Exp: c18Show(want), Scn: ln, Repro: 3})
			mism++
			continue
		}
		if c18MapEq(got, want) {
			continue
		}
		m := c18Mismatch{Area: "hdr", Op: "wire", Fn: "AppendToOutgoingContext", Class: "result", Obs: c18Show(got), Exp: c18Show(want),
			Note: "header list -> AppendToOutgoingContext -> grpc-go wire -> FromIncomingContext -> ConvertMetadataToProtoHeader", Scn: ln, Repro: 1}
		for k := 0; k < 2; k++ {
			if g2, err := call(&s); err == nil && !c18MapEq(g2, want) {
				m.Repro++
			}
		}
		out.Put(m)
		mism++
	}
	out.Put(map[string]any{"summary": true, "scenarios": n, "evaluations": n, "mismatches": mism})
}
