package grpcutil

// C18 harness: replays the TLC-generated scenarios of Gen_ConvertHdr / Gen_ConvertErr /
// Gen_ConvertPct / Gen_ConvertCodec on the real conversion functions (this package and
// connectrpc.com/conformance/internal) and compares with the value the specification requires.
// The abstract vocabulary of spec/ConvertDecl.tla is rendered to concrete strings/bytes here.

import (
	"bytes"
	"context"
	"encoding/base64"
	"encoding/json"
	"errors"
	"fmt"
	"net/http"
	"net/url"
	"strings"
	"sync/atomic"
	"testing"

	"connectrpc.com/conformance/internal"
	conformancev1 "connectrpc.com/conformance/internal/gen/proto/go/connectrpc/conformance/v1"
	"connectrpc.com/conformance/internal/verifutil"
	"connectrpc.com/connect"
	"google.golang.org/grpc/codes"
	"google.golang.org/grpc/metadata"
	"google.golang.org/grpc/status"
	"google.golang.org/protobuf/encoding/protojson"
	"google.golang.org/protobuf/encoding/protowire"
	"google.golang.org/protobuf/proto"
	"google.golang.org/protobuf/reflect/protoreflect"
	"google.golang.org/protobuf/types/known/anypb"
	"google.golang.org/protobuf/types/known/durationpb"
	"google.golang.org/protobuf/types/known/wrapperspb"
)

// ---------------------------------------------------------------- abstract vocabulary

type c18Name struct {
	Base  string `json:"base"`
	Style string `json:"style"`
	Bin   bool   `json:"bin"`
}

type c18Val struct {
	K   string
	I   int
	Of  *c18Val
	Pad bool
}

func (v c18Val) MarshalJSON() ([]byte, error) {
	if v.K == "b64" {
		return json.Marshal(map[string]any{"k": v.K, "of": v.Of, "pad": v.Pad})
	}
	return json.Marshal(map[string]any{"k": v.K, "i": v.I})
}

func (v *c18Val) UnmarshalJSON(b []byte) error {
	var raw struct {
		K   string  `json:"k"`
		I   int     `json:"i"`
		Of  *c18Val `json:"of"`
		Pad bool    `json:"pad"`
	}
	if err := json.Unmarshal(b, &raw); err != nil {
		return err
	}
	*v = c18Val{K: raw.K, I: raw.I, Of: raw.Of, Pad: raw.Pad}
	return nil
}

type c18Entry struct {
	Name c18Name  `json:"name"`
	Vals []c18Val `json:"vals"`
}

func c18Words(n c18Name) []string {
	w := []string{"x", n.Base}
	if n.Bin {
		w = append(w, "bin")
	}
	return w
}

// c18RenderName: style l = lower case, u = http canonical, m = first word lower, rest upper.
func c18RenderName(n c18Name) string {
	w := c18Words(n)
	for i := range w {
		switch n.Style {
		case "u":
			w[i] = strings.ToUpper(w[i][:1]) + w[i][1:]
		case "m":
			if i > 0 {
				w[i] = strings.ToUpper(w[i])
			}
		}
	}
	return strings.Join(w, "-")
}

func c18RenderVal(v *c18Val) string {
	seed := int(verifutil.Seed())
	switch v.K {
	case "txt":
		return fmt.Sprintf("t%d! v,%c", v.I, 'a'+rune((v.I+seed)%26))
	case "bytes":
		n := 2 + (v.I*5+seed)%5
		b := make([]byte, n)
		b[0] = 0xff // never valid base64, never ASCII
		b[1] = byte(v.I)
		x := uint32(v.I*2654435761) ^ uint32(seed*40503)
		for i := 2; i < n; i++ {
			x = x*1664525 + 1013904223
			b[i] = byte(x >> 24)
		}
		return string(b)
	case "b64":
		inner := c18RenderVal(v.Of)
		if v.Pad {
			return base64.StdEncoding.EncodeToString([]byte(inner))
		}
		return base64.RawStdEncoding.EncodeToString([]byte(inner))
	}
	panic("c18: unknown value kind " + v.K)
}

func c18Headers(h []c18Entry) []*conformancev1.Header {
	res := make([]*conformancev1.Header, 0, len(h))
	for i := range h {
		hdr := &conformancev1.Header{Name: c18RenderName(h[i].Name)}
		for j := range h[i].Vals {
			hdr.Value = append(hdr.Value, c18RenderVal(&h[i].Vals[j]))
		}
		res = append(res, hdr)
	}
	return res
}

// c18Map renders a set of entries as a map; keys without values are dropped (not observable).
func c18Map(es []c18Entry, prefix string, prune bool) map[string][]string {
	m := map[string][]string{}
	for i := range es {
		if prune && len(es[i].Vals) == 0 {
			continue
		}
		k := prefix + c18RenderName(es[i].Name)
		vals := []string{}
		for j := range es[i].Vals {
			vals = append(vals, c18RenderVal(&es[i].Vals[j]))
		}
		m[k] = append(m[k], vals...)
	}
	return m
}

func c18Prune(m map[string][]string) map[string][]string {
	res := map[string][]string{}
	for k, v := range m {
		if len(v) > 0 {
			res[k] = append([]string{}, v...)
		}
	}
	return res
}

func c18MapEq(a, b map[string][]string) bool {
	if len(a) != len(b) {
		return false
	}
	for k, va := range a {
		vb, ok := b[k]
		if !ok || len(va) != len(vb) {
			return false
		}
		for i := range va {
			if va[i] != vb[i] {
				return false
			}
		}
	}
	return true
}

// c18HdrListMap turns a header list result into a map; dup reports a key that occurs twice.
func c18HdrListMap(hs []*conformancev1.Header) (m map[string][]string, dup bool) {
	m = map[string][]string{}
	for _, h := range hs {
		if _, ok := m[h.Name]; ok {
			dup = true
		}
		m[h.Name] = append(m[h.Name], h.Value...)
	}
	return m, dup
}

func c18Show(m map[string][]string) map[string][]string {
	res := map[string][]string{}
	for k, v := range m {
		q := make([]string, len(v))
		for i := range v {
			q[i] = fmt.Sprintf("%q", v[i])
		}
		res[k] = q
	}
	return res
}

type c18Mismatch struct {
	Area  string          `json:"area"`
	Op    string          `json:"op"`
	Fn    string          `json:"fn"`
	Class string          `json:"class"`
	Obs   any             `json:"obs"`
	Exp   any             `json:"exp"`
	Note  string          `json:"note,omitempty"`
	Scn   json.RawMessage `json:"scn"`
	Repro int             `json:"repro"`
}

// ---------------------------------------------------------------- headers / metadata

type c18HdrScn struct {
	Op  string     `json:"op"`
	H   []c18Entry `json:"h"`
	Pre []c18Entry `json:"pre"`
	Exp []c18Entry `json:"exp"`
	Rt  []c18Entry `json:"rt"`
}

type c18HdrObs struct {
	Main  map[string][]string // result of the function under test
	Dup   bool
	Rt    map[string][]string // round trip through the inverse real function
	RtDup bool
}

func c18RunHdr(s *c18HdrScn) c18HdrObs {
	var o c18HdrObs
	switch s.Op {
	case "h2md":
		md := ConvertProtoHeaderToMetadata(c18Headers(s.H))
		o.Main = c18Prune(md)
		back, dup := c18HdrListMap(ConvertMetadataToProtoHeader(md))
		o.Rt, o.RtDup = c18Prune(back), dup
	case "out":
		src := c18Headers(s.H)
		ctx := context.Background()
		if len(s.Pre) > 0 {
			ctx = metadata.NewOutgoingContext(ctx, metadata.MD(c18Map(s.Pre, "", false)))
		}
		ctx = AppendToOutgoingContext(ctx, src)
		md, _ := metadata.FromOutgoingContext(ctx)
		o.Main = c18Prune(md)
	case "md2h":
		// (every metadata value is converted exactly once: what the conversion does to its
		// source is not part of the property)
		res, dup := c18HdrListMap(ConvertMetadataToProtoHeader(metadata.MD(c18Map(s.H, "", false))))
		o.Main, o.Dup = res, dup
		// back through the inverse, from a fresh rendering of the same metadata
		o.Rt = c18Prune(ConvertProtoHeaderToMetadata(ConvertMetadataToProtoHeader(metadata.MD(c18Map(s.H, "", false)))))
	case "addh", "addt":
		src := c18Headers(s.H)
		dest := http.Header(c18Map(s.Pre, "", false))
		if s.Op == "addh" {
			internal.AddHeaders(src, dest)
		} else {
			internal.AddTrailers(src, dest)
		}
		o.Main = c18Prune(dest)
		if s.Op == "addh" {
			back, dup := c18HdrListMap(internal.ConvertToProtoHeader(dest))
			o.Rt, o.RtDup = c18Prune(back), dup
		}
	case "map2h":
		res, dup := c18HdrListMap(internal.ConvertToProtoHeader(c18Map(s.H, "", false)))
		o.Main, o.Dup = res, dup
	default:
		panic("c18: unknown header op " + s.Op)
	}
	return o
}

var c18HdrFn = map[string]string{"h2md": "ConvertProtoHeaderToMetadata", "out": "AppendToOutgoingContext",
	"md2h": "ConvertMetadataToProtoHeader", "addh": "AddHeaders", "addt": "AddTrailers", "map2h": "ConvertToProtoHeader"}

// c18CheckHdr returns the mismatches of one header scenario (nil = agrees with the specification).
func c18CheckHdr(s *c18HdrScn, raw json.RawMessage) []c18Mismatch {
	var res []c18Mismatch
	prefix := ""
	if s.Op == "addt" {
		prefix = http.TrailerPrefix
	}
	fromMap := s.Op == "md2h" || s.Op == "map2h"
	exp := c18Map(s.Exp, prefix, !fromMap)
	o := c18RunHdr(s)
	add := func(fn, class string, obs, want map[string][]string, note string) {
		res = append(res, c18Mismatch{Area: "hdr", Op: s.Op, Fn: fn, Class: class, Obs: c18Show(obs), Exp: c18Show(want), Note: note, Scn: raw, Repro: 1})
	}
	if !c18MapEq(o.Main, exp) || o.Dup {
		class := "result"
		note := ""
		if o.Dup {
			note = "a key occurs in more than one entry"
		}
		add(c18HdrFn[s.Op], class, o.Main, exp, note)
	}
	if o.Rt != nil {
		want := c18Map(s.Rt, "", true)
		if !c18MapEq(o.Rt, want) || o.RtDup {
			// a round-trip failure that is only the echo of a failure reported above is not reported twice
			if len(res) == 0 {
				add(c18HdrFn[s.Op]+"+inverse", "round-trip", o.Rt, want, "")
			}
		}
	}
	// reproduce
	for i := range res {
		for k := 0; k < 2; k++ {
			o2 := c18RunHdr(s)
			if !c18MapEq(o2.Main, exp) || o2.Dup || (o2.Rt != nil && !c18MapEq(o2.Rt, c18Map(s.Rt, "", true))) {
				res[i].Repro++
			}
		}
	}
	return res
}

// c18NameAssumption checks that Lower / Canon of the specification are strings.ToLower /
// http.CanonicalHeaderKey on the rendered names (a failure is a machinery problem).
func c18NameAssumption(n c18Name) error {
	r := c18RenderName(n)
	lo, ca := n, n
	lo.Style, ca.Style = "l", "u"
	if strings.ToLower(r) != c18RenderName(lo) {
		return fmt.Errorf("Lower(%q): spec %q, strings.ToLower %q", r, c18RenderName(lo), strings.ToLower(r))
	}
	if http.CanonicalHeaderKey(r) != c18RenderName(ca) {
		return fmt.Errorf("Canon(%q): spec %q, http.CanonicalHeaderKey %q", r, c18RenderName(ca), http.CanonicalHeaderKey(r))
	}
	if strings.HasSuffix(strings.ToLower(r), "-bin") != n.Bin {
		return fmt.Errorf("bin(%q) disagrees with the -bin suffix", r)
	}
	return nil
}

// ---------------------------------------------------------------- errors

type c18Detail struct {
	Pfx  string `json:"pfx,omitempty"`
	Type string `json:"type"`
	Val  int    `json:"val"`
}

type c18Err struct {
	Code    int         `json:"code"`
	Msg     string      `json:"msg"`
	Details []c18Detail `json:"details"`
}

type c18ErrScn struct {
	E     c18Err `json:"e"`
	C     c18Err `json:"c"`
	PC    c18Err `json:"p_c"`
	S     c18Err `json:"s"`
	PS    c18Err `json:"p_s"`
	Plain c18Err `json:"plain"`
}

var c18Pfx = map[string]string{"std": "type.googleapis.com/", "other": "example.com/some/registry/", "none": ""}

var c18Types = map[string]string{
	"t1": "connectrpc.conformance.v1.Header",
	"t2": "google.protobuf.StringValue",
	"t3": "connectrpc.conformance.v1.Error",
	"t4": "google.protobuf.Duration",
	"t5": "connectrpc.conformance.v1.ConformancePayload.RequestInfo",
}

func c18MsgText(class string) string {
	seed := verifutil.Seed()
	switch class {
	case "absent", "empty":
		return ""
	case "ascii":
		return fmt.Sprintf("something failed: attempt %d of 3", seed)
	case "utf8":
		return fmt.Sprintf("défaillance ☃ \U0001D11E 世界 #%d", seed)
	case "pct":
		return fmt.Sprintf("100%% sure\t%%2F\n\x7f +%d%%", seed)
	}
	return class // the trace driver uses literal texts
}

func c18Payload(typ string, val int) []byte {
	if val == 0 {
		return nil
	}
	seed := int(verifutil.Seed())
	tag := fmt.Sprintf("%s/%d/%d", typ, val, seed)
	var m proto.Message
	switch typ {
	case "t1":
		m = &conformancev1.Header{Name: "x-" + tag, Value: []string{"v1", tag}}
	case "t2":
		m = wrapperspb.String("detail " + tag)
	case "t3":
		m = &conformancev1.Error{Code: conformancev1.Code(1 + (val+seed)%16), Message: proto.String(tag)}
	case "t4":
		m = &durationpb.Duration{Seconds: int64(val*1000 + seed), Nanos: 5}
	default:
		m = &conformancev1.ConformancePayload_RequestInfo{TimeoutMs: proto.Int64(int64(val*100 + seed)),
			RequestHeaders: []*conformancev1.Header{{Name: tag}}}
	}
	b, err := proto.MarshalOptions{Deterministic: true}.Marshal(m)
	if err != nil {
		panic(err)
	}
	if val == 3 {
		// "every detail (type and bytes)": a peer written in another language may encode the same
		// message differently - fields in another order, a field given twice.  Value 3 of every type
		// is such a valid but non-canonical encoding: an empty occurrence of field 1 first, then the
		// fields in reverse order.
		var fields [][]byte
		rest := b
		for len(rest) > 0 {
			_, _, n := protowire.ConsumeField(rest)
			if n < 0 {
				panic("verif: cannot split payload")
			}
			fields = append(fields, rest[:n])
			rest = rest[n:]
		}
		nc := []byte{0x0a, 0x00}
		if typ == "t4" {
			nc = []byte{0x08, 0x00} // Duration.seconds is a varint
		}
		for i := len(fields) - 1; i >= 0; i-- {
			nc = append(nc, fields[i]...)
		}
		return nc
	}
	return b
}

func c18ProtoErr(e *c18Err) *conformancev1.Error {
	pe := &conformancev1.Error{Code: conformancev1.Code(e.Code)}
	if e.Msg != "absent" {
		pe.Message = proto.String(c18MsgText(e.Msg))
	}
	for _, d := range e.Details {
		pe.Details = append(pe.Details, &anypb.Any{TypeUrl: c18Pfx[d.Pfx] + c18Types[d.Type], Value: c18Payload(d.Type, d.Val)})
	}
	return pe
}

// concrete observation of any of the three forms: code, message (nil = absent), details
type c18Conc struct {
	Code    int         `json:"code"`
	Msg     *string     `json:"msg"`
	Details [][2]string `json:"details"` // type (name or URL), payload hex
	Nil     bool        `json:"nil,omitempty"`
}

func c18ConcOfProto(pe *conformancev1.Error) c18Conc {
	if pe == nil {
		return c18Conc{Nil: true}
	}
	c := c18Conc{Code: int(pe.Code), Msg: pe.Message, Details: [][2]string{}}
	for _, d := range pe.Details {
		c.Details = append(c.Details, [2]string{d.GetTypeUrl(), fmt.Sprintf("%x", d.GetValue())})
	}
	return c
}

func c18ConcOfConnect(ce *connect.Error) c18Conc {
	if ce == nil {
		return c18Conc{Nil: true}
	}
	msg := ce.Message()
	c := c18Conc{Code: int(ce.Code()), Msg: &msg, Details: [][2]string{}}
	for _, d := range ce.Details() {
		c.Details = append(c.Details, [2]string{d.Type(), fmt.Sprintf("%x", d.Bytes())})
	}
	return c
}

func c18ConcOfGrpc(err error) c18Conc {
	if err == nil {
		return c18Conc{Nil: true}
	}
	st, ok := status.FromError(err)
	if !ok {
		return c18Conc{Code: -1, Details: [][2]string{}}
	}
	sp := st.Proto()
	msg := sp.GetMessage()
	c := c18Conc{Code: int(sp.GetCode()), Msg: &msg, Details: [][2]string{}}
	if int(st.Code()) != c.Code || st.Message() != msg {
		c.Code = -2
	}
	for _, d := range sp.GetDetails() {
		c.Details = append(c.Details, [2]string{d.GetTypeUrl(), fmt.Sprintf("%x", d.GetValue())})
	}
	return c
}

// rendering of what the specification requires, in the same concrete form
func c18ConcOfSpec(e *c18Err, withPfx bool) c18Conc {
	c := c18Conc{Code: e.Code, Details: [][2]string{}}
	if e.Msg != "absent" {
		m := c18MsgText(e.Msg)
		c.Msg = &m
	}
	for _, d := range e.Details {
		name := c18Types[d.Type]
		if withPfx {
			name = c18Pfx[d.Pfx] + name
		}
		c.Details = append(c.Details, [2]string{name, fmt.Sprintf("%x", c18Payload(d.Type, d.Val))})
	}
	return c
}

func c18ErrClass(obs, exp c18Conc) string {
	switch {
	case obs.Nil != exp.Nil:
		return "nil"
	case obs.Code != exp.Code:
		return "code"
	case (obs.Msg == nil) != (exp.Msg == nil):
		return "message-presence"
	case obs.Msg != nil && *obs.Msg != *exp.Msg:
		return "message"
	case len(obs.Details) != len(exp.Details):
		return "detail-count"
	}
	for i := range obs.Details {
		if obs.Details[i][0] != exp.Details[i][0] {
			return "detail-type"
		}
		if obs.Details[i][1] != exp.Details[i][1] {
			return "detail-bytes"
		}
	}
	return ""
}

type c18ErrObs struct {
	fn       string
	obs, exp c18Conc
}

func c18RunErr(s *c18ErrScn) []c18ErrObs {
	var res []c18ErrObs
	pe := c18ProtoErr(&s.E)
	// proto -> connect -> proto
	ce := internal.ConvertProtoToConnectError(pe)
	res = append(res, c18ErrObs{"ConvertProtoToConnectError", c18ConcOfConnect(ce), c18ConcOfSpec(&s.C, false)})
	if ce != nil {
		res = append(res, c18ErrObs{"ConvertConnectToProtoError", c18ConcOfProto(internal.ConvertConnectToProtoError(ce)), c18ConcOfSpec(&s.PC, true)})
		res = append(res, c18ErrObs{"ConvertErrorToProtoError(connect)", c18ConcOfProto(internal.ConvertErrorToProtoError(ce)), c18ConcOfSpec(&s.PC, true)})
		wrapped := fmt.Errorf("while reading the response: %w", ce)
		res = append(res, c18ErrObs{"ConvertErrorToProtoError(wrapped)", c18ConcOfProto(internal.ConvertErrorToProtoError(wrapped)), c18ConcOfSpec(&s.PC, true)})
		res = append(res, c18ErrObs{"ConvertErrorToConnectError(wrapped)", c18ConcOfConnect(internal.ConvertErrorToConnectError(wrapped)), c18ConcOfSpec(&s.C, false)})
	}
	// a connect error that never was a proto error (built with the connect API from a message)
	text := c18MsgText(s.C.Msg)
	res = append(res, c18ErrObs{"ConvertErrorToProtoError(plain)", c18ConcOfProto(internal.ConvertErrorToProtoError(errors.New(text))), c18ConcOfSpec(&s.Plain, true)})
	plainC := c18Err{Code: 2, Msg: s.Plain.Msg}
	res = append(res, c18ErrObs{"ConvertErrorToConnectError(plain)", c18ConcOfConnect(internal.ConvertErrorToConnectError(errors.New(text))), c18ConcOfSpec(&plainC, false)})
	// proto -> grpc status -> proto
	ge := ConvertProtoToGrpcError(pe)
	res = append(res, c18ErrObs{"ConvertProtoToGrpcError", c18ConcOfGrpc(ge), c18ConcOfSpec(&s.S, true)})
	if ge != nil {
		res = append(res, c18ErrObs{"ConvertGrpcToProtoError", c18ConcOfProto(ConvertGrpcToProtoError(ge)), c18ConcOfSpec(&s.PS, true)})
	}
	res = append(res, c18ErrObs{"ConvertGrpcToProtoError(plain)", c18ConcOfProto(ConvertGrpcToProtoError(errors.New(text))), c18ConcOfSpec(&s.Plain, true)})
	// a status built with the grpc API, not by the function under test
	if ge != nil {
		native := status.New(codes.Code(s.S.Code), text)
		if len(pe.Details) > 0 {
			sp := native.Proto()
			for _, d := range pe.Details {
				sp.Details = append(sp.Details, proto.Clone(d).(*anypb.Any))
			}
			native = status.FromProto(sp)
		}
		res = append(res, c18ErrObs{"ConvertGrpcToProtoError(native)", c18ConcOfProto(ConvertGrpcToProtoError(native.Err())), c18ConcOfSpec(&s.PS, true)})
	}
	return res
}

func c18CheckErr(s *c18ErrScn, raw json.RawMessage) ([]c18Mismatch, int) {
	var res []c18Mismatch
	obs := c18RunErr(s)
	for _, o := range obs {
		if cl := c18ErrClass(o.obs, o.exp); cl != "" {
			m := c18Mismatch{Area: "err", Op: "err", Fn: o.fn, Class: cl, Obs: o.obs, Exp: o.exp, Scn: raw, Repro: 1}
			for k := 0; k < 2; k++ {
				for _, o2 := range c18RunErr(s) {
					if o2.fn == o.fn && c18ErrClass(o2.obs, o2.exp) == cl {
						m.Repro++
					}
				}
			}
			res = append(res, m)
		}
	}
	return res, len(obs)
}

// ---------------------------------------------------------------- percent-encoding

type c18PctScn struct {
	B   []int `json:"b"`
	Exp []int `json:"exp"`
	Esc []int `json:"esc"`
}

func c18Bytes(a []int) []byte {
	b := make([]byte, len(a))
	for i, x := range a {
		b[i] = byte(x)
	}
	return b
}

func c18Ints(b []byte) []int {
	a := make([]int, len(b))
	for i, x := range b {
		a[i] = int(x)
	}
	return a
}

func c18CheckPct(s *c18PctScn, raw json.RawMessage) []c18Mismatch {
	in := string(c18Bytes(s.B))
	want := string(c18Bytes(s.Exp))
	got := PercentEncodeMessage(in)
	if got != want {
		class := "encoding"
		if strings.EqualFold(got, want) {
			class = "hex-case"
		}
		return []c18Mismatch{{Area: "pct", Op: "pct", Fn: "PercentEncodeMessage", Class: class, Obs: c18Ints([]byte(got)), Exp: s.Exp, Scn: raw, Repro: 3}}
	}
	dec, err := url.PathUnescape(got)
	if err != nil || dec != in {
		return []c18Mismatch{{Area: "pct", Op: "pct", Fn: "PercentEncodeMessage", Class: "not-invertible", Obs: fmt.Sprintf("%q / %v", dec, err), Exp: s.B, Scn: raw, Repro: 3}}
	}
	return nil
}

func c18CheckEsc(s *c18PctScn, raw json.RawMessage) []c18Mismatch {
	want := map[int]bool{}
	for _, b := range s.Esc {
		want[b] = true
	}
	var bad []int
	for b := 0; b < 256; b++ {
		if ShouldEscapeByteInMessage(byte(b)) != want[b] {
			bad = append(bad, b)
		}
	}
	if len(bad) > 0 {
		return []c18Mismatch{{Area: "pct", Op: "esc", Fn: "ShouldEscapeByteInMessage", Class: "escape-set", Obs: bad, Exp: "bytes on which the predicate differs from the specification", Scn: raw, Repro: 3}}
	}
	return nil
}

// ---------------------------------------------------------------- strict codecs

type c18Node struct {
	T    string `json:"t"`
	Ents []struct {
		F   string  `json:"f"`
		Kid c18Node `json:"kid"`
	} `json:"ents"`
}

type c18CodecScn struct {
	Codec string `json:"codec"`
	Inj   struct {
		On   bool   `json:"on"`
		P    []int  `json:"p"`
		Pos  int    `json:"pos"`
		Kind string `json:"kind"`
	} `json:"inj"`
	Wire c18Node `json:"wire"`
	Exp  string  `json:"exp"`
}

var c18TopType = map[string]func() proto.Message{
	"UREQ": func() proto.Message { return &conformancev1.UnaryRequest{} },
}

func c18ScalarSeed(fd protoreflect.FieldDescriptor, path string) uint32 {
	h := uint32(2166136261)
	for _, c := range []byte(string(fd.FullName()) + "@" + path) {
		h = (h ^ uint32(c)) * 16777619
	}
	return h ^ uint32(verifutil.Seed()*2654435761)
}

// c18ScalarValue is the (non-default) value a present scalar field carries at a tree position.
func c18ScalarValue(fd protoreflect.FieldDescriptor, path string) protoreflect.Value {
	h := c18ScalarSeed(fd, path)
	switch fd.Kind() {
	case protoreflect.StringKind:
		return protoreflect.ValueOfString(fmt.Sprintf("%s é %d", fd.Name(), h%1000))
	case protoreflect.BytesKind:
		return protoreflect.ValueOfBytes([]byte(fmt.Sprintf("\x00\xff%s-%d", fd.Name(), h%1000)))
	case protoreflect.Uint32Kind:
		return protoreflect.ValueOfUint32(1 + h%70000)
	case protoreflect.EnumKind:
		return protoreflect.ValueOfEnum(protoreflect.EnumNumber(1 + h%16))
	}
	panic("c18: scalar kind not handled: " + fd.Kind().String())
}

// c18Build constructs the real message of a tree (unknown entries skipped).
func c18Build(n *c18Node, msg protoreflect.Message, path string) {
	fields := msg.Descriptor().Fields()
	for i, e := range n.Ents {
		if e.F == "?" {
			continue
		}
		fd := fields.ByName(protoreflect.Name(e.F))
		if fd == nil {
			panic("c18: no field " + e.F + " in " + string(msg.Descriptor().FullName()))
		}
		p := fmt.Sprintf("%s/%s", path, e.F)
		switch {
		case fd.Message() == nil && fd.IsList():
			msg.Mutable(fd).List().Append(c18ScalarValue(fd, p))
		case fd.Message() == nil:
			msg.Set(fd, c18ScalarValue(fd, p))
		case fd.IsList():
			lst := msg.Mutable(fd).List()
			el := lst.NewElement()
			kid := e.Kid
			c18Build(&kid, el.Message(), fmt.Sprintf("%s[%d]", p, i))
			lst.Append(el)
		default:
			kid := e.Kid
			c18Build(&kid, msg.Mutable(fd).Message(), p)
		}
	}
}

const c18UnknownNum = 1000

func c18UnknownWire(kind string) []byte {
	var b []byte
	switch kind {
	case "varint":
		b = protowire.AppendTag(b, c18UnknownNum, protowire.VarintType)
		b = protowire.AppendVarint(b, 300)
	case "fixed32":
		b = protowire.AppendTag(b, c18UnknownNum, protowire.Fixed32Type)
		b = protowire.AppendFixed32(b, 0xdeadbeef)
	case "fixed64":
		b = protowire.AppendTag(b, c18UnknownNum, protowire.Fixed64Type)
		b = protowire.AppendFixed64(b, 0xdeadbeefcafe)
	case "bytes":
		b = protowire.AppendTag(b, c18UnknownNum, protowire.BytesType)
		b = protowire.AppendBytes(b, []byte("who knows"))
	case "group":
		b = protowire.AppendTag(b, c18UnknownNum, protowire.StartGroupType)
		b = protowire.AppendTag(b, 1, protowire.VarintType)
		b = protowire.AppendVarint(b, 1)
		b = protowire.AppendTag(b, c18UnknownNum, protowire.EndGroupType)
	default:
		panic("c18: unknown wire kind " + kind)
	}
	return b
}

// c18EncodeProto is the harness's own binary encoder of a tree (incl. unknown entries).
func c18EncodeProto(n *c18Node, md protoreflect.MessageDescriptor, path string) []byte {
	var b []byte
	for i, e := range n.Ents {
		if e.F == "?" {
			b = append(b, c18UnknownWire(e.Kid.T)...)
			continue
		}
		fd := md.Fields().ByName(protoreflect.Name(e.F))
		p := fmt.Sprintf("%s/%s", path, e.F)
		if fd.Message() != nil {
			kp := p
			if fd.IsList() {
				kp = fmt.Sprintf("%s[%d]", p, i)
			}
			kid := e.Kid
			b = protowire.AppendTag(b, fd.Number(), protowire.BytesType)
			b = protowire.AppendBytes(b, c18EncodeProto(&kid, fd.Message(), kp))
			continue
		}
		v := c18ScalarValue(fd, p)
		switch fd.Kind() {
		case protoreflect.StringKind:
			b = protowire.AppendTag(b, fd.Number(), protowire.BytesType)
			b = protowire.AppendString(b, v.String())
		case protoreflect.BytesKind:
			b = protowire.AppendTag(b, fd.Number(), protowire.BytesType)
			b = protowire.AppendBytes(b, v.Bytes())
		case protoreflect.Uint32Kind:
			b = protowire.AppendTag(b, fd.Number(), protowire.VarintType)
			b = protowire.AppendVarint(b, v.Uint())
		case protoreflect.EnumKind:
			b = protowire.AppendTag(b, fd.Number(), protowire.VarintType)
			b = protowire.AppendVarint(b, uint64(v.Enum()))
		}
	}
	return b
}

func c18UnknownJSON(kind string) string {
	switch kind {
	case "scalar":
		return `"zzNotAField": 17`
	case "object":
		return `"zzNotAField": {"a": [1, "b"]}`
	case "null":
		return `"zzNotAField": null`
	}
	panic("c18: unknown json kind " + kind)
}

// c18EncodeJSON is the harness's own JSON encoder of a tree (incl. unknown keys).
func c18EncodeJSON(n *c18Node, md protoreflect.MessageDescriptor, path string) string {
	var parts []string
	for i := 0; i < len(n.Ents); i++ {
		e := n.Ents[i]
		if e.F == "?" {
			parts = append(parts, c18UnknownJSON(e.Kid.T))
			continue
		}
		fd := md.Fields().ByName(protoreflect.Name(e.F))
		p := fmt.Sprintf("%s/%s", path, e.F)
		key, _ := json.Marshal(fd.JSONName())
		if fd.Message() != nil && fd.IsList() {
			var els []string
			j := i
			for ; j < len(n.Ents) && n.Ents[j].F == e.F; j++ {
				kid := n.Ents[j].Kid
				els = append(els, c18EncodeJSON(&kid, fd.Message(), fmt.Sprintf("%s[%d]", p, j)))
			}
			i = j - 1
			parts = append(parts, string(key)+": ["+strings.Join(els, ", ")+"]")
			continue
		}
		if fd.Message() != nil {
			kid := e.Kid
			parts = append(parts, string(key)+": "+c18EncodeJSON(&kid, fd.Message(), p))
			continue
		}
		v := c18ScalarValue(fd, p)
		var js []byte
		switch fd.Kind() {
		case protoreflect.StringKind:
			js, _ = json.Marshal(v.String())
		case protoreflect.BytesKind:
			js, _ = json.Marshal(base64.StdEncoding.EncodeToString(v.Bytes()))
		case protoreflect.Uint32Kind:
			js = []byte(fmt.Sprint(v.Uint()))
		case protoreflect.EnumKind:
			js = []byte(fmt.Sprint(int32(v.Enum())))
		}
		if fd.IsList() {
			js = []byte("[" + string(js) + "]")
		}
		parts = append(parts, string(key)+": "+string(js))
	}
	return "{" + strings.Join(parts, ", ") + "}"
}

type c18StableCodec interface {
	connect.Codec
	MarshalStable(any) ([]byte, error)
	MarshalAppend([]byte, any) ([]byte, error)
	IsBinary() bool
}

func c18Codec(name string) c18StableCodec {
	if name == "proto" {
		return internal.StrictProtoCodec{}
	}
	return internal.StrictJSONCodec{}
}

// c18Format tells which stock decoder reads data back to a message equal to want.
func c18Format(data []byte, want proto.Message) string {
	fresh := want.ProtoReflect().New().Interface()
	okP := proto.Unmarshal(data, fresh) == nil && proto.Equal(fresh, want)
	fresh = want.ProtoReflect().New().Interface()
	okJ := protojson.Unmarshal(data, fresh) == nil && proto.Equal(fresh, want)
	switch {
	case okP && !okJ:
		return "proto"
	case okJ && !okP:
		return "json"
	case okP && okJ:
		return "both"
	}
	return "neither"
}

type c18CodecRes struct {
	fn, class string
	obs, exp  any
}

func c18RunCodec(s *c18CodecScn) (res []c18CodecRes, machinery error, evals int) {
	top := c18TopType[s.Wire.T]
	if top == nil {
		return nil, fmt.Errorf("no top type %q", s.Wire.T), 0
	}
	want := top()
	c18Build(&s.Wire, want.ProtoReflect(), "")
	codec := c18Codec(s.Codec)
	var input []byte
	if s.Codec == "proto" {
		input = c18EncodeProto(&s.Wire, want.ProtoReflect().Descriptor(), "")
	} else {
		input = []byte(c18EncodeJSON(&s.Wire, want.ProtoReflect().Descriptor(), ""))
	}
	// the harness's own encoding must be what the stock LENIENT decoder reads as `want`
	{
		fresh := top()
		var err error
		if s.Codec == "proto" {
			err = proto.Unmarshal(input, fresh)
			c18ClearUnknown(fresh.ProtoReflect())
		} else {
			err = protojson.UnmarshalOptions{DiscardUnknown: true}.Unmarshal(input, fresh)
		}
		if err != nil || !proto.Equal(fresh, want) {
			return nil, fmt.Errorf("harness encoding of %s is not read back by the stock decoder: %v\ninput=%q", s.Codec, err, input), 0
		}
	}
	add := func(fn, class string, obs, exp any) { res = append(res, c18CodecRes{fn, class, obs, exp}) }
	got := top()
	err := codec.Unmarshal(input, got)
	evals++
	if s.Exp == "reject" {
		if err == nil {
			class := "unknown-field-accepted"
			if len(s.Inj.P) > 0 {
				class = "nested-unknown-field-accepted"
			}
			fate := "dropped"
			if s.Codec == "proto" && c18HasUnknown(got.ProtoReflect()) {
				fate = "kept"
			}
			add("Unmarshal", class, "accepted, unknown field "+fate, "error")
		}
		return res, nil, evals
	}
	if err != nil {
		add("Unmarshal", "valid-input-rejected", err.Error(), "ok")
	} else if !proto.Equal(got, want) {
		add("Unmarshal", "decoded-message-differs", prototextish(got), prototextish(want))
	}
	// Marshal -> own format -> Unmarshal -> equal
	data, err := codec.Marshal(want)
	evals++
	if err != nil {
		add("Marshal", "marshal-error", err.Error(), "ok")
	} else {
		back := top()
		if f := c18Format(data, want); f != s.Codec {
			// (that the codec then cannot read its own output is the echo of this, not reported twice)
			add("Marshal", "marshal-wrong-format:"+f, fmt.Sprintf("%q", c18Trunc(data)), "format "+s.Codec)
		} else if err := codec.Unmarshal(data, back); err != nil {
			add("Marshal+Unmarshal", "own-output-rejected", err.Error(), "ok")
		} else if !proto.Equal(back, want) {
			add("Marshal+Unmarshal", "round-trip-differs", prototextish(back), prototextish(want))
		}
	}
	// MarshalStable: own format, deterministic, decodes to an equal message
	st1, err1 := codec.MarshalStable(want)
	st2, err2 := codec.MarshalStable(proto.Clone(want))
	evals++
	if err1 != nil || err2 != nil {
		add("MarshalStable", "marshal-error", fmt.Sprint(err1, err2), "ok")
	} else {
		if !bytes.Equal(st1, st2) {
			add("MarshalStable", "not-deterministic", fmt.Sprintf("%q vs %q", c18Trunc(st1), c18Trunc(st2)), "equal bytes")
		}
		back := top()
		if f := c18Format(st1, want); f != s.Codec {
			add("MarshalStable", "marshal-wrong-format:"+f, fmt.Sprintf("%q", c18Trunc(st1)), "format "+s.Codec)
		} else if err := codec.Unmarshal(st1, back); err != nil {
			add("MarshalStable+Unmarshal", "own-output-rejected", err.Error(), "ok")
		} else if !proto.Equal(back, want) {
			add("MarshalStable+Unmarshal", "round-trip-differs", prototextish(back), prototextish(want))
		}
	}
	// MarshalAppend keeps the prefix and appends an encoding
	prefix := []byte("\x01prefix")
	app, err := codec.MarshalAppend(append([]byte{}, prefix...), want)
	evals++
	if err != nil {
		add("MarshalAppend", "marshal-error", err.Error(), "ok")
	} else if !bytes.HasPrefix(app, prefix) {
		add("MarshalAppend", "prefix-lost", fmt.Sprintf("%q", c18Trunc(app)), "prefix kept")
	} else if f := c18Format(app[len(prefix):], want); f != s.Codec {
		add("MarshalAppend", "marshal-wrong-format:"+f, fmt.Sprintf("%q", c18Trunc(app[len(prefix):])), "format "+s.Codec)
	}
	if codec.Name() != s.Codec || codec.IsBinary() != (s.Codec == "proto") {
		add("Name/IsBinary", "identity", fmt.Sprint(codec.Name(), codec.IsBinary()), s.Codec)
	}
	return res, nil, evals
}

func c18Trunc(b []byte) []byte {
	if len(b) > 120 {
		return b[:120]
	}
	return b
}

func prototextish(m proto.Message) string {
	b, err := protojson.MarshalOptions{}.Marshal(m)
	if err != nil {
		return err.Error()
	}
	var buf bytes.Buffer
	if json.Compact(&buf, b) == nil {
		b = buf.Bytes()
	}
	if len(b) > 300 {
		b = b[:300]
	}
	return string(b)
}

func c18HasUnknown(m protoreflect.Message) bool {
	if len(m.GetUnknown()) > 0 {
		return true
	}
	found := false
	m.Range(func(fd protoreflect.FieldDescriptor, v protoreflect.Value) bool {
		switch {
		case fd.IsMap():
			if fd.MapValue().Message() != nil {
				v.Map().Range(func(_ protoreflect.MapKey, mv protoreflect.Value) bool {
					found = found || c18HasUnknown(mv.Message())
					return !found
				})
			}
		case fd.Message() != nil && fd.IsList():
			for i := 0; i < v.List().Len(); i++ {
				found = found || c18HasUnknown(v.List().Get(i).Message())
			}
		case fd.Message() != nil:
			found = found || c18HasUnknown(v.Message())
		}
		return !found
	})
	return found
}

func c18ClearUnknown(m protoreflect.Message) {
	m.SetUnknown(nil)
	m.Range(func(fd protoreflect.FieldDescriptor, v protoreflect.Value) bool {
		switch {
		case fd.IsMap():
			if fd.MapValue().Message() != nil {
				v.Map().Range(func(_ protoreflect.MapKey, mv protoreflect.Value) bool {
					c18ClearUnknown(mv.Message())
					return true
				})
			}
		case fd.Message() != nil && fd.IsList():
			for i := 0; i < v.List().Len(); i++ {
				c18ClearUnknown(v.List().Get(i).Message())
			}
		case fd.Message() != nil:
			c18ClearUnknown(v.Message())
		}
		return true
	})
}

func c18CheckCodec(s *c18CodecScn, raw json.RawMessage) ([]c18Mismatch, error, int) {
	rs, mach, evals := c18RunCodec(s)
	if mach != nil {
		return nil, mach, evals
	}
	var res []c18Mismatch
	for _, r := range rs {
		m := c18Mismatch{Area: "codec", Op: s.Codec, Fn: "Strict" + map[string]string{"proto": "Proto", "json": "JSON"}[s.Codec] + "Codec." + r.fn,
			Class: r.class, Obs: r.obs, Exp: r.exp, Scn: raw, Repro: 1}
		for k := 0; k < 2; k++ {
			r2, _, _ := c18RunCodec(s)
			for _, x := range r2 {
				if x.fn == r.fn && x.class == r.class {
					m.Repro++
				}
			}
		}
		res = append(res, m)
	}
	return res, nil, evals
}

// ---------------------------------------------------------------- replay driver

func TestVerifC18Replay(t *testing.T) {
	lines, err := verifutil.ReadLines(verifutil.Env("VERIF_SCN", "scn.ndjson"))
	if err != nil {
		t.Fatal(err)
	}
	out, err := verifutil.NewOut(verifutil.Env("VERIF_OUT", "out.ndjson"))
	if err != nil {
		t.Fatal(err)
	}
	defer out.Close()
	var evals, nontrivial, mism int64
	var byArea [5]int64 // hdr err pct esc codec
	var machErr atomic.Value
	verifutil.ParallelFor(len(lines), 16, func(i int) {
		var head struct {
			Area string `json:"area"`
		}
		if err := json.Unmarshal(lines[i], &head); err != nil {
			machErr.Store(fmt.Errorf("line %d: %v", i, err))
			return
		}
		var ms []c18Mismatch
		switch head.Area {
		case "hdr":
			var s c18HdrScn
			if err := json.Unmarshal(lines[i], &s); err != nil {
				machErr.Store(fmt.Errorf("line %d: %v", i, err))
				return
			}
			for _, e := range append(append([]c18Entry{}, s.H...), s.Exp...) {
				if err := c18NameAssumption(e.Name); err != nil {
					machErr.Store(err)
					return
				}
			}
			ms = c18CheckHdr(&s, lines[i])
			atomic.AddInt64(&evals, 1)
			atomic.AddInt64(&byArea[0], 1)
			if c18HdrNontrivial(&s) {
				atomic.AddInt64(&nontrivial, 1)
			}
		case "err":
			var s c18ErrScn
			if err := json.Unmarshal(lines[i], &s); err != nil {
				machErr.Store(fmt.Errorf("line %d: %v", i, err))
				return
			}
			var n int
			ms, n = c18CheckErr(&s, lines[i])
			atomic.AddInt64(&evals, int64(n))
			atomic.AddInt64(&byArea[1], 1)
			if len(s.E.Details) > 0 {
				atomic.AddInt64(&nontrivial, 1)
			}
		case "pct":
			var s c18PctScn
			if err := json.Unmarshal(lines[i], &s); err != nil {
				machErr.Store(fmt.Errorf("line %d: %v", i, err))
				return
			}
			ms = c18CheckPct(&s, lines[i])
			atomic.AddInt64(&evals, 1)
			atomic.AddInt64(&byArea[2], 1)
			if len(s.Exp) != len(s.B) {
				atomic.AddInt64(&nontrivial, 1)
			}
		case "esc":
			var s c18PctScn
			if err := json.Unmarshal(lines[i], &s); err != nil {
				machErr.Store(fmt.Errorf("line %d: %v", i, err))
				return
			}
			ms = c18CheckEsc(&s, lines[i])
			atomic.AddInt64(&evals, 256)
			atomic.AddInt64(&byArea[3], 1)
		case "codec":
			var s c18CodecScn
			if err := json.Unmarshal(lines[i], &s); err != nil {
				machErr.Store(fmt.Errorf("line %d: %v", i, err))
				return
			}
			var mach error
			var n int
			ms, mach, n = c18CheckCodec(&s, lines[i])
			if mach != nil {
				machErr.Store(mach)
				return
			}
			atomic.AddInt64(&evals, int64(n))
			atomic.AddInt64(&byArea[4], 1)
			if len(s.Wire.Ents) > 0 {
				atomic.AddInt64(&nontrivial, 1)
			}
		default:
			machErr.Store(fmt.Errorf("line %d: unknown area %q", i, head.Area))
			return
		}
		for _, m := range ms {
			atomic.AddInt64(&mism, 1)
			out.Put(m)
		}
	})
	if e := machErr.Load(); e != nil {
		t.Fatalf("machinery: %v", e)
	}
	// nil in, nil out (once)
	if internal.ConvertProtoToConnectError(nil) != nil || internal.ConvertConnectToProtoError(nil) != nil ||
		internal.ConvertErrorToProtoError(nil) != nil || internal.ConvertErrorToConnectError(nil) != nil ||
		ConvertProtoToGrpcError(nil) != nil || ConvertGrpcToProtoError(nil) != nil {
		out.Put(c18Mismatch{Area: "err", Op: "err", Fn: "nil handling", Class: "nil", Obs: "non-nil", Exp: "nil", Scn: json.RawMessage(`{}`), Repro: 3})
	}
	evals += 6
	out.Put(map[string]any{"summary": true, "scenarios": len(lines), "evaluations": evals, "nontrivial": nontrivial, "mismatches": mism,
		"by_area": map[string]int64{"hdr": byArea[0], "err": byArea[1], "pct": byArea[2], "esc": byArea[3], "codec": byArea[4]}})
}

// a header scenario is non-trivial when it has a repeated key (up to case), a -bin key with a
// value, or a pre-existing destination
func c18HdrNontrivial(s *c18HdrScn) bool {
	seen := map[string]bool{}
	for _, e := range s.H {
		k := strings.ToLower(c18RenderName(e.Name))
		if seen[k] || (e.Name.Bin && len(e.Vals) > 0) {
			return true
		}
		seen[k] = true
	}
	return len(s.Pre) > 0
}
