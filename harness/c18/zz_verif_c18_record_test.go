package grpcutil

// C18 harness, code -> spec direction: a seeded driver draws inputs from outside the domain TLC
// enumerates, runs the real conversion functions, abstracts the observation back into the
// vocabulary of spec/ConvertDecl.tla and records one JSON line per execution for Trace_Convert.

import (
	"context"
	"encoding/json"
	"fmt"
	"math/rand/v2"
	"net/http"
	"net/url"
	"sort"
	"strings"
	"testing"

	"connectrpc.com/conformance/internal"
	conformancev1 "connectrpc.com/conformance/internal/gen/proto/go/connectrpc/conformance/v1"
	"connectrpc.com/conformance/internal/verifutil"
	"google.golang.org/grpc/metadata"
	"google.golang.org/protobuf/encoding/protojson"
	"google.golang.org/protobuf/encoding/protowire"
	"google.golang.org/protobuf/proto"
	"google.golang.org/protobuf/reflect/protoreflect"
	"google.golang.org/protobuf/types/known/anypb"
)

// ---------------------------------------------------------------- headers

func c18RandVal(r *rand.Rand, depth int) c18Val {
	switch k := r.IntN(4); {
	case k == 0 || depth == 0 && k == 3:
		return c18Val{K: "txt", I: 1 + r.IntN(4)}
	case k == 1:
		return c18Val{K: "bytes", I: 1 + r.IntN(4)}
	default:
		of := c18RandVal(r, depth-1)
		v := c18Val{K: "b64", Of: &of}
		// the padded form is a different string only when the length is not a multiple of 3
		if r.IntN(3) == 0 && len(c18RenderVal(&of))%3 != 0 {
			v.Pad = true
		}
		return v
	}
}

func c18RandName(r *rand.Rand, styles string) c18Name {
	bases := []string{"a", "b", "c", "abin", "key"}
	return c18Name{Base: bases[r.IntN(len(bases))], Style: string(styles[r.IntN(len(styles))]), Bin: r.IntN(2) == 0}
}

func c18RandList(r *rand.Rand, styles string, distinct bool, maxEntries int) []c18Entry {
	n := r.IntN(maxEntries + 1)
	var res []c18Entry
	used := map[c18Name]bool{}
	for len(res) < n {
		nm := c18RandName(r, styles)
		if distinct && used[nm] {
			n--
			continue
		}
		used[nm] = true
		e := c18Entry{Name: nm, Vals: []c18Val{}}
		for k := r.IntN(5); k > 0; k-- {
			e.Vals = append(e.Vals, c18RandVal(r, 3))
		}
		res = append(res, e)
	}
	if res == nil {
		res = []c18Entry{}
	}
	return res
}

type c18Rev struct {
	vals  map[string]c18Val
	names map[string]c18Name
}

func (rv *c18Rev) addVal(v c18Val) {
	put := func(x c18Val) {
		s := c18RenderVal(&x)
		if _, ok := rv.vals[s]; !ok {
			rv.vals[s] = x
		}
	}
	put(v)
	cur := v
	for i := 0; i < 2 && cur.K == "b64"; i++ { // Dec1, Dec1(Dec1)
		cur = *cur.Of
		put(cur)
	}
	cur = v
	for i := 0; i < 2; i++ { // Enc1, Enc1(Enc1)
		inner := cur
		cur = c18Val{K: "b64", Of: &inner}
		put(cur)
	}
}

func (rv *c18Rev) addName(n c18Name) {
	for _, st := range []string{n.Style, "l", "u"} {
		x := n
		x.Style = st
		s := c18RenderName(x)
		if _, ok := rv.names[s]; !ok {
			rv.names[s] = x
		}
	}
}

func c18NewRev(lists ...[]c18Entry) *c18Rev {
	rv := &c18Rev{vals: map[string]c18Val{}, names: map[string]c18Name{}}
	for _, l := range lists {
		for _, e := range l {
			rv.addName(e.Name)
			for _, v := range e.Vals {
				rv.addVal(v)
			}
		}
	}
	return rv
}

// abstract maps a concrete result back; what is not recognised becomes a value the
// specification never produces, so the line is rejected.
func (rv *c18Rev) abstract(m map[string][]string, prefix string, prune bool) []c18Entry {
	keys := make([]string, 0, len(m))
	for k := range m {
		keys = append(keys, k)
	}
	sort.Strings(keys)
	res := []c18Entry{}
	for _, k := range keys {
		if prune && len(m[k]) == 0 {
			continue
		}
		nm, ok := rv.names[strings.TrimPrefix(k, prefix)]
		if !ok || !strings.HasPrefix(k, prefix) {
			nm = c18Name{Base: "?" + k, Style: "l"}
		}
		e := c18Entry{Name: nm, Vals: []c18Val{}}
		for _, s := range m[k] {
			v, ok := rv.vals[s]
			if !ok {
				v = c18Val{K: "txt", I: -1}
			}
			e.Vals = append(e.Vals, v)
		}
		res = append(res, e)
	}
	return res
}

type c18RecHdr struct {
	T   string     `json:"t"`
	Op  string     `json:"op"`
	H   []c18Entry `json:"h"`
	Pre []c18Entry `json:"pre"`
	Obs []c18Entry `json:"obs"`
}

func c18RecordHdr(r *rand.Rand) c18RecHdr {
	ops := []string{"h2md", "out", "md2h", "addh", "addt", "map2h", "rt"}
	op := ops[r.IntN(len(ops))]
	rec := c18RecHdr{T: "hdr", Op: op, Pre: []c18Entry{}}
	switch op {
	case "h2md":
		rec.H = c18RandList(r, "lum", false, 8)
		rv := c18NewRev(rec.H)
		rec.Obs = rv.abstract(ConvertProtoHeaderToMetadata(c18Headers(rec.H)), "", true)
	case "rt":
		rec.H = c18RandList(r, "lum", false, 8)
		rv := c18NewRev(rec.H)
		md := ConvertProtoHeaderToMetadata(c18Headers(rec.H))
		rec.Obs = rv.abstract(ConvertProtoHeaderToMetadata(ConvertMetadataToProtoHeader(md)), "", true)
	case "out":
		rec.H = c18RandList(r, "lum", false, 8)
		rec.Pre = c18RandList(r, "l", true, 3)
		rv := c18NewRev(rec.H, rec.Pre)
		ctx := metadata.NewOutgoingContext(context.Background(), metadata.MD(c18Map(rec.Pre, "", false)))
		ctx = AppendToOutgoingContext(ctx, c18Headers(rec.H))
		md, _ := metadata.FromOutgoingContext(ctx)
		rec.Obs = rv.abstract(md, "", true)
	case "md2h":
		rec.H = c18RandList(r, "l", true, 8)
		rv := c18NewRev(rec.H)
		res, _ := c18HdrListMap(ConvertMetadataToProtoHeader(metadata.MD(c18Map(rec.H, "", false))))
		rec.Obs = rv.abstract(res, "", false)
	case "addh", "addt":
		rec.H = c18RandList(r, "lum", false, 8)
		prefix := ""
		if op == "addh" {
			rec.Pre = c18RandList(r, "u", true, 3)
		} else {
			prefix = http.TrailerPrefix
		}
		rv := c18NewRev(rec.H, rec.Pre)
		dest := http.Header(c18Map(rec.Pre, "", false))
		if op == "addh" {
			internal.AddHeaders(c18Headers(rec.H), dest)
		} else {
			internal.AddTrailers(c18Headers(rec.H), dest)
		}
		rec.Obs = rv.abstract(dest, prefix, true)
	case "map2h":
		rec.H = c18RandList(r, "u", true, 8)
		rv := c18NewRev(rec.H)
		res, _ := c18HdrListMap(internal.ConvertToProtoHeader(c18Map(rec.H, "", false)))
		rec.Obs = rv.abstract(res, "", false)
	}
	return rec
}

// ---------------------------------------------------------------- errors

type c18RecErr struct {
	T  string `json:"t"`
	E  c18Err `json:"e"`
	C  c18Err `json:"c"`
	PC c18Err `json:"p_c"`
	PW c18Err `json:"p_w"`
	S  c18Err `json:"s"`
	PS c18Err `json:"p_s"`
}

func c18AbstractErr(c c18Conc, e *c18Err, withPfx bool) c18Err {
	res := c18Err{Code: c.Code, Details: []c18Detail{}}
	switch {
	case c.Nil:
		res.Msg = "<nil error>"
	case c.Msg == nil:
		res.Msg = "absent"
	case *c.Msg == "":
		res.Msg = "empty"
	case *c.Msg == c18MsgText(e.Msg):
		res.Msg = e.Msg
	default:
		res.Msg = "other:" + *c.Msg
	}
	for _, d := range c.Details {
		ad := c18Detail{Type: "?" + d[0], Val: -1}
		name := d[0]
		if withPfx {
			i := strings.LastIndexByte(name, '/')
			pfx := name[:i+1]
			name = name[i+1:]
			ad.Pfx = "?" + pfx
			for k, v := range c18Pfx {
				if v == pfx {
					ad.Pfx = k
				}
			}
		}
		for k, v := range c18Types {
			if v == name {
				ad.Type = k
				for val := 0; val <= 3; val++ {
					if fmt.Sprintf("%x", c18Payload(k, val)) == d[1] {
						ad.Val = val
					}
				}
			}
		}
		res.Details = append(res.Details, ad)
	}
	return res
}

func c18RecordErr(r *rand.Rand) c18RecErr {
	msgs := []string{"absent", "empty", "ascii", "utf8", "pct", "literal text with spaces", "x", "ünï ☃ code"}
	e := c18Err{Code: 1 + r.IntN(16), Msg: msgs[r.IntN(len(msgs))], Details: []c18Detail{}}
	pfx := []string{"std", "other", "none"}
	types := []string{"t1", "t2", "t3", "t4", "t5"}
	for k := r.IntN(7); k > 0; k-- {
		e.Details = append(e.Details, c18Detail{Pfx: pfx[r.IntN(3)], Type: types[r.IntN(5)], Val: r.IntN(4)})
	}
	rec := c18RecErr{T: "err", E: e}
	pe := c18ProtoErr(&e)
	ce := internal.ConvertProtoToConnectError(pe)
	rec.C = c18AbstractErr(c18ConcOfConnect(ce), &e, false)
	rec.PC = c18AbstractErr(c18ConcOfProto(internal.ConvertConnectToProtoError(ce)), &e, true)
	rec.PW = c18AbstractErr(c18ConcOfProto(internal.ConvertErrorToProtoError(fmt.Errorf("wrapped twice: %w", fmt.Errorf("wrapped: %w", ce)))), &e, true)
	ge := ConvertProtoToGrpcError(pe)
	rec.S = c18AbstractErr(c18ConcOfGrpc(ge), &e, true)
	rec.PS = c18AbstractErr(c18ConcOfProto(ConvertGrpcToProtoError(ge)), &e, true)
	return rec
}

// ---------------------------------------------------------------- percent-encoding

type c18RecPct struct {
	T     string `json:"t"`
	B     []int  `json:"b"`
	Enc   []int  `json:"enc"`
	Stock []int  `json:"stock"`
}

func c18RecordPct(r *rand.Rand) c18RecPct {
	n := r.IntN(41)
	b := make([]byte, n)
	mode := r.IntN(4)
	for i := range b {
		switch mode {
		case 0: // any byte
			b[i] = byte(r.IntN(256))
		case 1: // text that looks percent-encoded already
			b[i] = "%0123456789abcdefABCDEF %~"[r.IntN(26)]
		case 2: // boundaries of the classes
			b[i] = []byte{0, 0x1f, 0x20, 0x21, 0x24, 0x25, 0x26, 0x7d, 0x7e, 0x7f, 0x80, 0xff}[r.IntN(12)]
		default: // UTF-8 text
			b[i] = []byte("grpc: naïve café ☃ 世界 100%")[r.IntN(34)]
		}
	}
	enc := PercentEncodeMessage(string(b))
	stock := []int{-1}
	if dec, err := url.PathUnescape(enc); err == nil {
		stock = c18Ints([]byte(dec))
	}
	return c18RecPct{T: "pct", B: c18Ints(b), Enc: c18Ints([]byte(enc)), Stock: stock}
}

// ---------------------------------------------------------------- strict codecs, arbitrary messages

var c18MsgTypes = []func() proto.Message{
	func() proto.Message { return &conformancev1.UnaryRequest{} },
	func() proto.Message { return &conformancev1.ServerStreamRequest{} },
	func() proto.Message { return &conformancev1.ClientStreamRequest{} },
	func() proto.Message { return &conformancev1.BidiStreamRequest{} },
	func() proto.Message { return &conformancev1.UnaryResponse{} },
	func() proto.Message { return &conformancev1.ConformancePayload{} },
	func() proto.Message { return &conformancev1.ClientCompatRequest{} },
	func() proto.Message { return &conformancev1.ClientCompatResponse{} },
	func() proto.Message { return &conformancev1.RawHTTPRequest{} },
	func() proto.Message { return &conformancev1.Error{} },
}

func c18RandString(r *rand.Rand) string {
	alphabet := []rune("abcXYZ019 -_/%\"\\\n\tüé☃世")
	n := r.IntN(12)
	out := make([]rune, n)
	for i := range out {
		out[i] = alphabet[r.IntN(len(alphabet))]
	}
	return string(out)
}

func c18RandScalar(r *rand.Rand, fd protoreflect.FieldDescriptor) protoreflect.Value {
	switch fd.Kind() {
	case protoreflect.BoolKind:
		return protoreflect.ValueOfBool(true)
	case protoreflect.StringKind:
		return protoreflect.ValueOfString(c18RandString(r) + "s")
	case protoreflect.BytesKind:
		b := make([]byte, 1+r.IntN(9))
		for i := range b {
			b[i] = byte(r.IntN(256))
		}
		return protoreflect.ValueOfBytes(b)
	case protoreflect.Int32Kind, protoreflect.Sint32Kind, protoreflect.Sfixed32Kind:
		return protoreflect.ValueOfInt32(int32(r.Uint32()) | 1)
	case protoreflect.Int64Kind, protoreflect.Sint64Kind, protoreflect.Sfixed64Kind:
		return protoreflect.ValueOfInt64(int64(r.Uint64()) | 1)
	case protoreflect.Uint32Kind, protoreflect.Fixed32Kind:
		return protoreflect.ValueOfUint32(r.Uint32() | 1)
	case protoreflect.Uint64Kind, protoreflect.Fixed64Kind:
		return protoreflect.ValueOfUint64(r.Uint64() | 1)
	case protoreflect.FloatKind:
		return protoreflect.ValueOfFloat32(float32(r.IntN(1000)) + 0.5)
	case protoreflect.DoubleKind:
		return protoreflect.ValueOfFloat64(float64(r.IntN(1000000)) + 0.25)
	case protoreflect.EnumKind:
		vals := fd.Enum().Values()
		return protoreflect.ValueOfEnum(vals.Get(r.IntN(vals.Len())).Number())
	}
	panic("c18: kind " + fd.Kind().String())
}

// c18Populate fills msg randomly; nested collects the plain (non well-known) sub-messages.
func c18Populate(r *rand.Rand, msg protoreflect.Message, depth int, nested *[]protoreflect.Message) {
	fields := msg.Descriptor().Fields()
	doneOneof := map[string]bool{}
	for i := 0; i < fields.Len(); i++ {
		fd := fields.Get(i)
		if r.IntN(3) == 0 {
			continue
		}
		if oo := fd.ContainingOneof(); oo != nil {
			if doneOneof[string(oo.FullName())] {
				continue
			}
			doneOneof[string(oo.FullName())] = true
		}
		if fd.IsMap() {
			continue
		}
		if fd.Message() == nil {
			if fd.IsList() {
				for k := 1 + r.IntN(3); k > 0; k-- {
					msg.Mutable(fd).List().Append(c18RandScalar(r, fd))
				}
			} else {
				msg.Set(fd, c18RandScalar(r, fd))
			}
			continue
		}
		fill := func(m protoreflect.Message) bool {
			switch m.Descriptor().FullName() {
			case "google.protobuf.Any":
				inner := &conformancev1.Header{Name: c18RandString(r) + "n", Value: []string{c18RandString(r)}}
				a, err := anypb.New(inner)
				if err != nil {
					panic(err)
				}
				proto.Merge(m.Interface(), a)
				return true
			case "google.protobuf.Empty":
				return true
			case "google.protobuf.Struct":
				return false
			}
			if depth <= 0 {
				return true
			}
			c18Populate(r, m, depth-1, nested)
			*nested = append(*nested, m)
			return true
		}
		if fd.IsList() {
			lst := msg.Mutable(fd).List()
			for k := 1 + r.IntN(2); k > 0; k-- {
				el := lst.NewElement()
				if fill(el.Message()) {
					lst.Append(el)
				}
			}
		} else {
			m := msg.NewField(fd).Message()
			if fill(m) {
				msg.Set(fd, protoreflect.ValueOfMessage(m))
			}
		}
	}
}

type c18RecCodec struct {
	T       string `json:"t"`
	Codec   string `json:"codec"`
	Type    string `json:"type"`
	Where   string `json:"where"`
	Wrote   string `json:"wrote"`
	Stable  string `json:"stable"`
	Verdict string `json:"verdict"`
	Same    bool   `json:"same"`
	Note    string `json:"note"`
}

func c18UnknownField(r *rand.Rand) []byte {
	kinds := []string{"varint", "fixed32", "fixed64", "bytes", "group"}
	return c18UnknownWire(kinds[r.IntN(len(kinds))])
}

// c18InjectJSON adds an unknown key to the top-level object or to a random nested object.
func c18InjectJSON(r *rand.Rand, data []byte, nested bool) ([]byte, bool) {
	var tree any
	if err := json.Unmarshal(data, &tree); err != nil {
		return nil, false
	}
	top, ok := tree.(map[string]any)
	if !ok {
		return nil, false
	}
	target := top
	if nested {
		var objs []map[string]any
		var walk func(v any, isTop bool)
		walk = func(v any, isTop bool) {
			switch x := v.(type) {
			case map[string]any:
				if !isTop {
					objs = append(objs, x)
				}
				for _, c := range x {
					walk(c, false)
				}
			case []any:
				for _, c := range x {
					walk(c, false)
				}
			}
		}
		walk(top, true)
		if len(objs) == 0 {
			return nil, false
		}
		target = objs[r.IntN(len(objs))]
	}
	target["zzNotAField"] = []any{1, "two", nil}[r.IntN(3)]
	out, err := json.Marshal(tree)
	return out, err == nil
}

func c18RecordCodec(r *rand.Rand) (c18RecCodec, bool) {
	mk := c18MsgTypes[r.IntN(len(c18MsgTypes))]
	msg := mk()
	var nested []protoreflect.Message
	c18Populate(r, msg.ProtoReflect(), 3, &nested)
	name := []string{"proto", "json"}[r.IntN(2)]
	codec := c18Codec(name)
	rec := c18RecCodec{T: "codec", Codec: name, Type: string(msg.ProtoReflect().Descriptor().FullName()),
		Where: []string{"none", "top", "nested"}[r.IntN(3)]}
	data, err := codec.Marshal(msg)
	if err != nil {
		rec.Wrote = "error: " + err.Error()
	} else {
		rec.Wrote = c18Format(data, msg)
	}
	st, err := codec.MarshalStable(msg)
	if err != nil {
		rec.Stable = "error: " + err.Error()
	} else {
		rec.Stable = c18Format(st, msg)
	}
	// the input for Unmarshal is produced by the STOCK encoders, not by the codec under test
	var input []byte
	if name == "proto" {
		withUnk := proto.Clone(msg)
		switch rec.Where {
		case "top":
			withUnk.ProtoReflect().SetUnknown(c18UnknownField(r))
		case "nested":
			var n2 []protoreflect.Message
			c18Collect(withUnk.ProtoReflect(), &n2, true)
			if len(n2) == 0 {
				return rec, false
			}
			var wkt []protoreflect.Message
			for _, m := range n2 {
				if strings.HasPrefix(string(m.Descriptor().FullName()), "google.protobuf.") {
					wkt = append(wkt, m)
				}
			}
			if len(wkt) > 0 && r.IntN(3) == 0 {
				n2 = wkt
			}
			n2[r.IntN(len(n2))].SetUnknown(c18UnknownField(r))
		}
		input, err = proto.Marshal(withUnk)
		if err != nil {
			return rec, false
		}
		if rec.Where != "none" && !c18ContainsUnknownTag(input) {
			return rec, false
		}
	} else {
		input, err = protojson.Marshal(msg)
		if err != nil {
			return rec, false
		}
		if rec.Where != "none" {
			var ok bool
			input, ok = c18InjectJSON(r, input, rec.Where == "nested")
			if !ok {
				return rec, false
			}
		}
	}
	got := mk()
	if err := codec.Unmarshal(input, got); err != nil {
		rec.Verdict = "reject"
		rec.Note = err.Error()
	} else {
		rec.Verdict = "ok"
		rec.Same = proto.Equal(got, msg)
	}
	return rec, true
}

// c18Collect gathers the plain sub-messages (not inside Any, which is opaque bytes).
func c18Collect(m protoreflect.Message, acc *[]protoreflect.Message, top bool) {
	if !top {
		*acc = append(*acc, m)
	}
	m.Range(func(fd protoreflect.FieldDescriptor, v protoreflect.Value) bool {
		// well-known types included: an Any, an Empty or a Struct is a message like any other to the strict codec
		if fd.Message() == nil || fd.IsMap() {
			return true
		}
		if fd.IsList() {
			for i := 0; i < v.List().Len(); i++ {
				c18Collect(v.List().Get(i).Message(), acc, false)
			}
		} else {
			c18Collect(v.Message(), acc, false)
		}
		return true
	})
}

func c18ContainsUnknownTag(b []byte) bool {
	// field number c18UnknownNum with any wire type occurs somewhere in the bytes
	for wt := 0; wt < 6; wt++ {
		tag := protowire.AppendVarint(nil, uint64(c18UnknownNum)<<3|uint64(wt))
		if strings.Contains(string(b), string(tag)) {
			return true
		}
	}
	return false
}

// ---------------------------------------------------------------- driver

func TestVerifC18Record(t *testing.T) {
	out, err := verifutil.NewOut(verifutil.Env("VERIF_OUT", "trace.ndjson"))
	if err != nil {
		t.Fatal(err)
	}
	defer out.Close()
	n := verifutil.EnvInt("VERIF_N", 2000)
	for i := 0; i < n; i++ {
		r := verifutil.Rand(uint64(18000 + i))
		switch i % 4 {
		case 0:
			out.Put(c18RecordHdr(r))
		case 1:
			out.Put(c18RecordErr(r))
		case 2:
			out.Put(c18RecordPct(r))
		case 3:
			for try := 0; try < 20; try++ {
				if rec, ok := c18RecordCodec(r); ok {
					out.Put(rec)
					break
				}
			}
		}
	}
}
