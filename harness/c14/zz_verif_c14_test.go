package tracer

// C14 harness: replays TLC-generated body behaviours (Gen_BodyTrace: envelopes, truncation point,
// way of ending, split into calls, other-side interleaving, required events) on the real
// dataTracer through its real carriers - tracingReader (newReader / newRequestReader),
// tracingResponseWriter + request reader inside TracingHandler, and TracingRoundTripper /
// TracingHandler over loopback HTTP/1.1 and HTTP/2 - and records executions over long random
// bodies for the TLC acceptor Trace_BodyTrace.
//
// The specification works on CELLS: a prefix cell is one byte, a payload cell stands for a
// non-empty block of bytes chosen here (refinement mapping cellOff); lengths in required events
// are translated with the same mapping before they are compared with what the tracer reported.

import (
	"bufio"
	"bytes"
	"context"
	"crypto/sha1"
	"encoding/binary"
	"encoding/json"
	"errors"
	"fmt"
	"io"
	"log"
	"math/rand/v2"
	"net/http"
	"net/http/httptest"
	"os"
	"os/exec"
	"reflect"
	"regexp"
	"runtime"
	"runtime/debug"
	"sort"
	"strconv"
	"strings"
	"sync"
	"sync/atomic"
	"syscall"
	"testing"
	"time"

	"connectrpc.com/conformance/internal/compression"
	conformancev1 "connectrpc.com/conformance/internal/gen/proto/go/connectrpc/conformance/v1"
	"connectrpc.com/conformance/internal/verifutil"
)

var (
	errC14Inner = errors.New("verif: inner failure")
	errC14Close = errors.New("verif: close failure")
)

var c14RealEncs = []string{"gzip", "br", "zstd", "deflate", "snappy"}

type c14Env struct {
	Flags int    `json:"flags"`
	Len   int    `json:"len"`
	Pc    string `json:"pc"`
}

type c14Hdr struct {
	Ct  string `json:"ct"`
	Ce  string `json:"ce"`
	Cce string `json:"cce"`
	Ge  string `json:"ge"`
}

type c14Call struct {
	Op string `json:"op"`
	K  int    `json:"k"`
	E  string `json:"e"`
}

type c14Ev struct {
	K        string `json:"k"`
	I        int    `json:"i"`
	Env      int    `json:"env"`
	Flags    int    `json:"flags"`
	Declared int    `json:"declared"`
	Len      int    `json:"len"`
	C        string `json:"c"`
}

type c14Scn struct {
	Body     []c14Env  `json:"body"`
	Avail    int       `json:"avail"`
	End      string    `json:"end"`
	Side     string    `json:"side"`
	Hdr      c14Hdr    `json:"hdr"`
	Calls    []c14Call `json:"calls"`
	Exp      []c14Ev   `json:"exp"`
	ExpNoBit []c14Ev   `json:"expNoBit"`
}

func (h c14Hdr) isStream() bool {
	return (h.Ct == "connect" || h.Ct == "grpc" || h.Ct == "grpcweb") && h.Ce == "none"
}

func (h c14Hdr) encClass() string {
	if h.Ct == "connect" {
		return h.Cce
	}
	return h.Ge
}

func c14IsEndStream(flags int) bool { return flags&0x82 != 0 }

/* ------------------------------------------------------------------ concrete bytes */

func c14CompressionOf(enc string) conformancev1.Compression {
	switch enc {
	case "gzip":
		return conformancev1.Compression_COMPRESSION_GZIP
	case "br":
		return conformancev1.Compression_COMPRESSION_BR
	case "zstd":
		return conformancev1.Compression_COMPRESSION_ZSTD
	case "deflate":
		return conformancev1.Compression_COMPRESSION_DEFLATE
	case "snappy":
		return conformancev1.Compression_COMPRESSION_SNAPPY
	}
	return conformancev1.Compression_COMPRESSION_IDENTITY
}

var c14CompCache, c14DecCache sync.Map

type c14Decoded struct {
	s   string
	err error
}

// c14Compress / c14Decode are memoized: the same few texts are compressed for every behaviour.
func c14Compress(enc string, data []byte) ([]byte, error) {
	key := enc + "\x00" + string(data)
	if v, ok := c14CompCache.Load(key); ok {
		return v.([]byte), nil
	}
	res, err := c14CompressRaw(enc, data)
	if err == nil && len(data) <= 8192 {
		c14CompCache.Store(key, res)
	}
	return res, err
}

func c14Decode(enc string, data []byte) (string, error) {
	if len(data) > 16384 {
		return c14DecodeRaw(enc, data)
	}
	key := enc + "\x00" + string(data)
	if v, ok := c14DecCache.Load(key); ok {
		d := v.(c14Decoded)
		return d.s, d.err
	}
	res, err := c14DecodeRaw(enc, data)
	c14DecCache.Store(key, c14Decoded{res, err})
	return res, err
}

func c14CompressRaw(enc string, data []byte) ([]byte, error) {
	comp, err := compression.GetCompressor(c14CompressionOf(enc))
	if err != nil {
		return nil, err
	}
	var buf bytes.Buffer
	comp.Reset(&buf)
	if _, err := comp.Write(data); err != nil {
		return nil, err
	}
	if err := comp.Close(); err != nil {
		return nil, err
	}
	return buf.Bytes(), nil
}

// c14DecodeRaw runs a fresh decompressor of the compression package (not the tracer) over data.
func c14DecodeRaw(enc string, data []byte) (string, error) {
	dec, err := compression.GetDecompressor(c14CompressionOf(enc))
	if err != nil {
		return "", err
	}
	if err := dec.Reset(bytes.NewReader(data)); err != nil {
		return "", err
	}
	var out bytes.Buffer
	if _, err := out.ReadFrom(dec); err != nil {
		return "", err
	}
	return out.String(), nil
}

const c14Text = `{"error":{"code":"resource_exhausted","message":"verif é"},"metadata":{"x-trailer":["a","b"]}}` + "\r\n"

func c14PlainBytes(n int, salt int) []byte {
	res := make([]byte, n)
	for i := range res {
		res[i] = c14Text[(i+salt)%len(c14Text)]
	}
	if n > 0 && salt%2 == 0 {
		res[0] = '{'
	}
	return res
}

type c14Body struct {
	stream   []byte
	cellOff  []int // byte offset of cell boundary c, c in 0..#cells
	payloads [][]byte
	origs    []string
	skip     string
}

var c14BlockSizes = []int{1, 1, 1, 2, 3, 9, 130, 4000}

// c14Render chooses concrete bytes for a scenario. encName is the concrete encoding used wherever
// the scenario says "real".
func c14Render(s *c14Scn, encName string, rnd *rand.Rand) *c14Body {
	res := &c14Body{cellOff: []int{0}}
	realEnc := s.Side == "resp" && s.Hdr.isStream() && s.Hdr.encClass() == "real"
	compEnc := "gzip"
	if realEnc {
		compEnc = encName
	}
	for j, e := range s.Body {
		var payload []byte
		orig := ""
		var cuts []int // byte offsets of cell boundaries 1..Len within the payload
		if e.Len > 0 {
			looked := s.Side == "resp" && s.Hdr.isStream() && c14IsEndStream(e.Flags)
			ok := false
			for try := 0; try < 12 && !ok; try++ {
				switch e.Pc {
				case "comp":
					n := []int{1, 20, 300, 5000}[rnd.IntN(4)]
					if looked && rnd.IntN(25) == 0 {
						// end-of-stream content that is small on the wire and large once decompressed: the
						// statement puts no bound on it ("decompressed exactly when the compressed flag is set")
						n = []int{1<<20 + 25, 3 << 20}[rnd.IntN(2)]
					}
					orig = string(c14PlainBytes(n, rnd.IntN(97)))
					var err error
					payload, err = c14Compress(compEnc, []byte(orig))
					if err != nil {
						res.skip = "compress: " + err.Error()
						return res
					}
				case "compEmpty":
					var err error
					payload, err = c14Compress(compEnc, nil)
					if err != nil {
						res.skip = "compress: " + err.Error()
						return res
					}
				case "garbage":
					n := 0
					for c := 0; c < e.Len; c++ {
						n += c14BlockSizes[rnd.IntN(len(c14BlockSizes))]
					}
					payload = make([]byte, n)
					for i := range payload {
						payload[i] = byte(rnd.IntN(256))
					}
					if looked && realEnc && rnd.IntN(3) == 0 {
						// another way of being undecodable: a valid stream of a long text whose tail is missing - the
						// decoder hands out a good part of the text before it fails (nothing of it may show up later)
						if full, err := c14Compress(compEnc, c14PlainBytes(150000, rnd.IntN(97))); err == nil && len(full) > 16+e.Len {
							payload = append([]byte(nil), full[:len(full)-7]...)
						}
					}
				default: // plain
					n := 0
					for c := 0; c < e.Len; c++ {
						n += c14BlockSizes[rnd.IntN(len(c14BlockSizes))]
					}
					payload = c14PlainBytes(n, rnd.IntN(97))
				}
				if len(payload) < e.Len {
					if e.Pc == "compEmpty" {
						res.skip = "empty stream shorter than the cell count"
						return res
					}
					continue
				}
				ok = true
				if realEnc && looked {
					// the concrete payload must really be of its class for this encoding
					got, err := c14Decode(encName, payload)
					switch e.Pc {
					case "comp":
						ok = err == nil && got == orig
					case "compEmpty":
						ok = err == nil && got == ""
					default:
						ok = err != nil
					}
					if !ok && (e.Pc == "comp" || e.Pc == "compEmpty") {
						res.skip = fmt.Sprintf("%s does not round-trip a %s payload (err=%v)", encName, e.Pc, err)
						return res
					}
				}
			}
			if !ok {
				res.skip = "no payload of class " + e.Pc + " found for " + encName
				return res
			}
			// split the payload into Len non-empty blocks
			seen := map[int]bool{}
			for len(cuts) < e.Len-1 {
				c := 1 + rnd.IntN(len(payload)-1)
				if !seen[c] {
					seen[c] = true
					cuts = append(cuts, c)
				}
			}
			sort.Ints(cuts)
			cuts = append(cuts, len(payload))
		}
		base := len(res.stream)
		var pre [5]byte
		pre[0] = byte(e.Flags)
		binary.BigEndian.PutUint32(pre[1:], uint32(len(payload)))
		res.stream = append(res.stream, pre[:]...)
		res.stream = append(res.stream, payload...)
		for c := 1; c <= 5; c++ {
			res.cellOff = append(res.cellOff, base+c)
		}
		for _, c := range cuts {
			res.cellOff = append(res.cellOff, base+5+c)
		}
		res.payloads = append(res.payloads, payload)
		res.origs = append(res.origs, orig)
		_ = j
	}
	return res
}

// c14Concrete translates required events from cells to bytes / concrete contents.
func c14Concrete(exp []c14Ev, s *c14Scn, b *c14Body) []c14Ev {
	res := make([]c14Ev, 0, len(exp))
	stream := s.Hdr.isStream()
	// payload offsets of cell boundaries per envelope
	for _, e := range exp {
		c := e
		switch e.K {
		case "Data":
			if e.Env == 1 {
				j := e.I
				c.Declared = len(b.payloads[j])
				start := 0
				for q := 0; q < j; q++ {
					start += 5 + s.Body[q].Len
				}
				c.Len = b.cellOff[start+5+e.Len] - b.cellOff[start+5]
			} else if !stream {
				c.Len = b.cellOff[e.Len]
			}
		case "EndStream":
			if e.C == "raw" {
				c.C = string(b.payloads[e.I])
			} else {
				c.C = b.origs[e.I]
			}
		}
		res = append(res, c)
	}
	return res
}

var (
	c14CtValues = map[string][]string{
		"connect": {"application/connect+proto", "application/connect+json", "Application/Connect+Proto"},
		"grpc":    {"application/grpc", "application/grpc+proto", "APPLICATION/GRPC+json"},
		"grpcweb": {"application/grpc-web+proto", "application/grpc-web", "application/grpc-web-text"},
		"unary":   {"application/proto", "application/json", "", "text/plain; charset=utf-8"},
	}
)

func c14EncValue(class, encName string, rnd *rand.Rand) string {
	switch class {
	case "identity":
		return []string{"identity", "Identity"}[rnd.IntN(2)]
	case "real":
		if rnd.IntN(4) == 0 {
			return strings.ToUpper(encName)
		}
		return encName
	case "unknown":
		return []string{"lz4", "x-verif", "gzip2"}[rnd.IntN(3)]
	}
	return ""
}

func c14Headers(h c14Hdr, encName string, rnd *rand.Rand) http.Header {
	res := http.Header{}
	cts := c14CtValues[h.Ct]
	if ct := cts[rnd.IntN(len(cts))]; ct != "" {
		res.Set("Content-Type", ct)
	}
	if h.Ce == "set" {
		res.Set("Content-Encoding", []string{"gzip", "br", "identity"}[rnd.IntN(3)])
	}
	if v := c14EncValue(h.Cce, encName, rnd); v != "" {
		res.Set("Connect-Content-Encoding", v)
	}
	if v := c14EncValue(h.Ge, encName, rnd); v != "" {
		res.Set("Grpc-Encoding", v)
	}
	return res
}

/* ------------------------------------------------------------------ observation */

type c14Collector struct {
	mu     sync.Mutex
	traces []Trace
}

func (c *c14Collector) Complete(t Trace) {
	c.mu.Lock()
	defer c.mu.Unlock()
	c.traces = append(c.traces, t)
}

func (c *c14Collector) get() []Trace {
	c.mu.Lock()
	defer c.mu.Unlock()
	return append([]Trace(nil), c.traces...)
}

func c14ErrClass(err error) string {
	switch {
	case err == nil:
		return "nil"
	case err == errC14Inner: //nolint:errorlint
		return "inner"
	case err.Error() == "closed before fully consumed":
		return "closedEarly"
	case errors.Is(err, errC14Close) && err.Error() == "close: "+errC14Close.Error():
		return "closeInner"
	}
	return "other:" + err.Error()
}

func c14EnvFields(env *Envelope) (int, int, int) {
	if env == nil {
		return 0, 0, 0
	}
	return 1, int(env.Flags), int(env.Len)
}

// c14Observed extracts the body events of one side. End-of-stream events exist for responses
// only; they are attributed to whatever side is observed (the other side never produces one here).
func c14Observed(tr *Trace, side string) []c14Ev { return c14ObservedX(tr, side, false) }

// c14ObservedX: with bothSides (a trace that legitimately carries both bodies) end-of-stream
// events count for the response side only.
func c14ObservedX(tr *Trace, side string, bothSides bool) []c14Ev {
	res := []c14Ev{}
	last := -1
	for _, ev := range tr.Events {
		switch ev := ev.(type) {
		case *RequestBodyData:
			if side == "req" {
				e, f, l := c14EnvFields(ev.Envelope)
				res = append(res, c14Ev{K: "Data", I: ev.MessageIndex, Env: e, Flags: f, Declared: l, Len: int(ev.Len)})
				last = ev.MessageIndex
			}
		case *ResponseBodyData:
			if side == "resp" {
				e, f, l := c14EnvFields(ev.Envelope)
				res = append(res, c14Ev{K: "Data", I: ev.MessageIndex, Env: e, Flags: f, Declared: l, Len: int(ev.Len)})
				last = ev.MessageIndex
			}
		case *ResponseBodyEndStream:
			if !bothSides || side == "resp" {
				res = append(res, c14Ev{K: "EndStream", I: last, C: ev.Content})
			}
		case *RequestBodyEnd:
			if side == "req" {
				res = append(res, c14Ev{K: "BodyEnd", C: c14ErrClass(ev.Err)})
			}
		case *ResponseBodyEnd:
			if side == "resp" {
				res = append(res, c14Ev{K: "BodyEnd", C: c14ErrClass(ev.Err)})
			}
		}
	}
	return res
}

func c14Abbrev(evs []c14Ev) []c14Ev {
	res := make([]c14Ev, len(evs))
	for i, e := range evs {
		if len(e.C) > 80 {
			e.C = fmt.Sprintf("%s...(%d bytes, sha1 %x)", e.C[:40], len(e.C), sha1.Sum([]byte(e.C)))
		}
		res[i] = e
	}
	return res
}

func c14Diff(exp, obs []c14Ev) string {
	for i := 0; i < len(exp) || i < len(obs); i++ {
		switch {
		case i >= len(obs):
			return fmt.Sprintf("missing %s at %d", exp[i].K, i)
		case i >= len(exp):
			return fmt.Sprintf("extra %s at %d", obs[i].K, i)
		case exp[i] != obs[i]:
			if exp[i].K != obs[i].K {
				return fmt.Sprintf("%s instead of %s at %d", obs[i].K, exp[i].K, i)
			}
			var fields []string
			if exp[i].I != obs[i].I {
				fields = append(fields, "index")
			}
			if exp[i].Env != obs[i].Env {
				fields = append(fields, "envelope")
			}
			if exp[i].Flags != obs[i].Flags {
				fields = append(fields, "flags")
			}
			if exp[i].Declared != obs[i].Declared {
				fields = append(fields, "declared")
			}
			if exp[i].Len != obs[i].Len {
				fields = append(fields, "len")
			}
			if exp[i].C != obs[i].C {
				fields = append(fields, "content")
			}
			return fmt.Sprintf("%s at %d differs in %s", exp[i].K, i, strings.Join(fields, ","))
		}
	}
	return ""
}

/* ------------------------------------------------------------------ scripted inner objects */

type c14Step struct {
	n   int
	err error
}

// c14Inner is the wrapped reader: each Read follows the next step set by the driver.
type c14Inner struct {
	data     []byte
	pos      int
	next     *c14Step
	closeErr error
	closes   int
	reads    int
	bad      []string
}

func (r *c14Inner) Read(p []byte) (int, error) {
	r.reads++
	st := r.next
	r.next = nil
	if st == nil {
		r.bad = append(r.bad, "unscripted inner Read")
		return 0, io.EOF
	}
	if st.n > len(p) || r.pos+st.n > len(r.data) {
		r.bad = append(r.bad, fmt.Sprintf("inner Read cannot deliver %d bytes (buffer %d, left %d)", st.n, len(p), len(r.data)-r.pos))
		return 0, io.ErrNoProgress
	}
	copy(p, r.data[r.pos:r.pos+st.n])
	r.pos += st.n
	return st.n, st.err
}

func (r *c14Inner) Close() error {
	r.closes++
	return r.closeErr
}

// c14Zeros delivers empty envelopes (five zero bytes) for ever: the other side's traffic.
type c14Zeros struct{}

func (c14Zeros) Read(p []byte) (int, error) {
	n := min(len(p), 5)
	for i := 0; i < n; i++ {
		p[i] = 0
	}
	return n, nil
}
func (c14Zeros) Close() error { return nil }

func c14StreamHeaders() http.Header {
	return http.Header{"Content-Type": []string{"application/connect+proto"}}
}

type c14Result struct {
	Obs      []c14Ev
	Problems []string
	NA       bool
}

func c14CallErr(e string) error {
	switch e {
	case "eof":
		return io.EOF
	case "err":
		return errC14Inner
	}
	return nil
}

// c14DriveReader plays the calls of the scenario against rd (a tracing reader over inner).
// other() produces one event of the other side.
func c14DriveReader(s *c14Scn, b *c14Body, rd io.ReadCloser, inner *c14Inner, other func() error, rnd *rand.Rand, problems *[]string) {
	pos := 0
	var shared []byte
	if rnd.IntN(2) == 0 && len(b.stream) <= 1<<16 {
		shared = make([]byte, len(b.stream)+72)
	}
	for ci, c := range s.Calls {
		switch c.Op {
		case "r":
			kb := b.cellOff[pos+c.K] - b.cellOff[pos]
			want := c14CallErr(c.E)
			inner.next = &c14Step{n: kb, err: want}
			buf := make([]byte, kb+rnd.IntN(4))
			if len(buf) == 0 {
				buf = make([]byte, 1)
			}
			if shared != nil {
				// the way io.Copy, bufio and proxies read: one buffer, refilled from its start, with room to spare
				buf = shared[:min(len(shared), kb+1+rnd.IntN(64))]
			}
			from := inner.pos
			n, err := rd.Read(buf)
			if n != kb || err != want { //nolint:errorlint
				*problems = append(*problems, fmt.Sprintf("call %d: Read returned (%d, %v), wrapped reader returned (%d, %v)", ci, n, err, kb, want))
			} else if !bytes.Equal(buf[:n], b.stream[from:from+kb]) {
				*problems = append(*problems, fmt.Sprintf("call %d: Read delivered other bytes than the wrapped reader", ci))
			}
			if shared != nil {
				// after Read has returned the buffer is the caller's again
				for i := range shared {
					shared[i] = 0xEE
				}
			}
			pos += c.K
		case "c":
			inner.closeErr = nil
			if c.E == "closeerr" {
				inner.closeErr = errC14Close
			}
			before := inner.closes
			err := rd.Close()
			if err != inner.closeErr { //nolint:errorlint
				*problems = append(*problems, fmt.Sprintf("call %d: Close returned %v, wrapped reader returned %v", ci, err, inner.closeErr))
			}
			if inner.closes != before+1 {
				*problems = append(*problems, fmt.Sprintf("call %d: Close reached the wrapped reader %d times", ci, inner.closes-before))
			}
		case "o":
			if err := other(); err != nil {
				*problems = append(*problems, fmt.Sprintf("call %d: other side: %v", ci, err))
			}
		}
	}
	*problems = append(*problems, inner.bad...)
}

func c14CheckDelivery(col *c14Collector, name, side string, exp []c14Ev, res *c14Result) {
	traces := col.get()
	if len(traces) != 1 {
		res.Problems = append(res.Problems, fmt.Sprintf("collector received %d traces", len(traces)))
		if len(traces) == 0 {
			return
		}
	}
	tr := traces[0]
	if tr.TestName != name {
		res.Problems = append(res.Problems, "trace has test name "+tr.TestName)
	}
	res.Obs = c14Observed(&tr, side)
	if _, ok := tr.Events[0].(*RequestStart); !ok {
		res.Problems = append(res.Problems, "first event is not RequestStart")
	}
}

/* ------------------------------------------------------------------ carrier 1: tracingReader */

func c14RunReader(s *c14Scn, b *c14Body, hv http.Header, name string, rnd *rand.Rand) c14Result {
	var res c14Result
	col := &c14Collector{}
	req, _ := http.NewRequest(http.MethodPost, "http://verif.test/svc/Method", nil) //nolint:noctx
	req.Header.Set(testCaseNameHeader, name)
	bld, _ := newBuilder(req, true, col)
	inner := &c14Inner{data: b.stream}
	var done atomic.Int32
	var rd, otherRd io.ReadCloser
	if s.Side == "req" {
		rd = newRequestReader(hv, inner, true, bld)
		otherRd = newReader(c14StreamHeaders(), c14Zeros{}, false, bld, func() {})
	} else {
		rd = newReader(hv, inner, false, bld, func() { done.Add(1) })
		otherRd = newRequestReader(c14StreamHeaders(), c14Zeros{}, true, bld)
	}
	other := func() error {
		var buf [5]byte
		_, err := io.ReadFull(otherRd, buf[:])
		return err
	}
	c14DriveReader(s, b, rd, inner, other, rnd, &res.Problems)
	bld.build()
	c14CheckDelivery(col, name, s.Side, s.Exp, &res)
	if s.Side == "resp" && done.Load() != 1 {
		res.Problems = append(res.Problems, fmt.Sprintf("whenDone ran %d times", done.Load()))
	}
	if tr := col.get(); len(tr) > 0 {
		want := s.Exp[len(s.Exp)-1].C
		if got := c14ErrClass(tr[0].Err); got != want {
			res.Problems = append(res.Problems, fmt.Sprintf("Trace.Err is %s, body ended with %s", got, want))
		}
	}
	return res
}

/* ------------------------------------------------------------------ carrier 2: TracingHandler */

type c14WriteRec struct {
	Len int    `json:"len"`
	N   int    `json:"n"`
	Err string `json:"err"`
}

// c14FakeWriter is the wrapped http.ResponseWriter: accepts what the script says.
type c14FakeWriter struct {
	hdr      http.Header
	status   int
	snapshot http.Header
	body     bytes.Buffer
	writes   []c14WriteRec
	flushes  int
	next     *c14Step
	sticky   error
}

func (w *c14FakeWriter) Header() http.Header { return w.hdr }
func (w *c14FakeWriter) WriteHeader(code int) {
	if w.status != 0 {
		return
	}
	w.status = code
	w.snapshot = w.hdr.Clone()
}
func (w *c14FakeWriter) Write(p []byte) (int, error) {
	if w.status == 0 {
		w.WriteHeader(http.StatusOK)
	}
	n, err := len(p), error(nil)
	if st := w.next; st != nil {
		w.next = nil
		n, err = st.n, st.err
		if err != nil {
			w.sticky = err
		}
	} else if w.sticky != nil {
		n, err = 0, w.sticky
	}
	if n > len(p) {
		n = len(p)
	}
	w.body.Write(p[:n])
	rec := c14WriteRec{Len: len(p), N: n}
	if err != nil {
		rec.Err = err.Error()
	}
	w.writes = append(w.writes, rec)
	return n, err
}
func (w *c14FakeWriter) Flush() { w.flushes++ }

type c14AppLog struct {
	Writes  []c14WriteRec `json:"writes"`
	Flusher bool          `json:"flusher"`
}

func c14RunHandler(s *c14Scn, b *c14Body, hv http.Header, name string, seed uint64) c14Result {
	var res c14Result
	if s.Side == "resp" && (s.End == "close" || s.End == "closeerr") {
		res.NA = true // a response writer has no Close
		return res
	}
	type outcome struct {
		fw       *c14FakeWriter
		app      c14AppLog
		problems []string
	}
	run := func(traced bool, col *c14Collector) outcome {
		var out outcome
		rnd := rand.New(rand.NewPCG(seed, 77))
		fw := &c14FakeWriter{hdr: http.Header{}}
		out.fw = fw
		inner := &c14Inner{data: b.stream}
		var reqBody io.ReadCloser = c14Zeros{}
		reqHdr := c14StreamHeaders()
		if s.Side == "req" {
			reqBody = inner
			reqHdr = hv.Clone()
		}
		req := httptest.NewRequest(http.MethodPost, "/svc/Method", reqBody)
		for k, v := range reqHdr {
			req.Header[k] = v
		}
		req.Header.Set(testCaseNameHeader, name)
		explicit := []int{0, 0, 200, 404, 503}[rnd.IntN(5)]
		handler := http.HandlerFunc(func(w http.ResponseWriter, r *http.Request) {
			_, out.app.Flusher = w.(http.Flusher)
			if s.Side == "req" {
				for k, v := range c14StreamHeaders() {
					w.Header()[k] = v
				}
				other := func() error {
					n, err := w.Write(make([]byte, 5))
					if n != 5 || err != nil {
						return fmt.Errorf("other-side write returned (%d, %v)", n, err)
					}
					return nil
				}
				c14DriveReader(s, b, r.Body, inner, other, rnd, &out.problems)
				return
			}
			for k, v := range hv {
				w.Header()[k] = v
			}
			w.Header().Set("X-Verif", "1")
			w.Header().Add("Trailer", "X-Declared-Trailer")
			if explicit != 0 {
				w.WriteHeader(explicit)
			}
			pos := 0
			ended := false
			var wshared []byte
			if rnd.IntN(2) == 0 && len(b.stream) <= 1<<16 {
				wshared = make([]byte, 0, len(b.stream)+72)
			}
			for ci, c := range s.Calls {
				switch c.Op {
				case "r":
					if ended {
						if s.End != "err" {
							continue // the handler has returned: nothing can follow
						}
						n, err := w.Write([]byte("late"))
						out.app.Writes = append(out.app.Writes, c14WriteRec{Len: 4, N: n, Err: fmt.Sprint(err)})
						if n != 0 || err != errC14Inner { //nolint:errorlint
							out.problems = append(out.problems, fmt.Sprintf("call %d: Write after failure returned (%d, %v)", ci, n, err))
						}
						continue
					}
					kb := b.cellOff[pos+c.K] - b.cellOff[pos]
					from := b.cellOff[pos]
					pos += c.K
					data := b.stream[from : from+kb]
					var want error
					if c.E == "err" {
						ended = true
						want = errC14Inner
						extra := rnd.IntN(3)
						data = append(append([]byte(nil), data...), make([]byte, extra)...)
						fw.next = &c14Step{n: kb, err: errC14Inner}
					} else if c.E == "eof" {
						ended = true
					}
					if len(data) == 0 && c.E != "err" {
						continue
					}
					if wshared != nil {
						// a writer that fills one scratch buffer again and again (bufio, io.Copy)
						data = append(wshared[:0], data...)
					}
					n, err := w.Write(data)
					if wshared != nil {
						for i := range wshared[:cap(wshared)] {
							wshared[:cap(wshared)][i] = 0xEE // after Write has returned the buffer is the caller's again
						}
					}
					out.app.Writes = append(out.app.Writes, c14WriteRec{Len: len(data), N: n, Err: fmt.Sprint(err)})
					if n != kb || err != want { //nolint:errorlint
						out.problems = append(out.problems, fmt.Sprintf("call %d: Write returned (%d, %v), wrapped writer returned (%d, %v)", ci, n, err, kb, want))
					}
					if fl, ok := w.(http.Flusher); ok && rnd.IntN(3) == 0 {
						fl.Flush()
					}
				case "o":
					var buf [5]byte
					if _, err := io.ReadFull(r.Body, buf[:]); err != nil {
						out.problems = append(out.problems, fmt.Sprintf("call %d: other side: %v", ci, err))
					}
				}
			}
			w.Header().Set(http.TrailerPrefix+"X-Late-Trailer", "t1")
			w.Header().Set("X-Declared-Trailer", "t2")
		})
		if traced {
			TracingHandler(handler, col).ServeHTTP(fw, req)
		} else {
			handler.ServeHTTP(fw, req)
		}
		if fw.status == 0 {
			fw.WriteHeader(http.StatusOK) // what net/http does when a handler returns without writing
		}
		return out
	}
	col := &c14Collector{}
	traced := run(true, col)
	plain := run(false, nil)
	res.Problems = append(res.Problems, traced.problems...)
	for _, p := range plain.problems {
		res.Problems = append(res.Problems, "harness (untraced run): "+p)
	}
	c14CheckDelivery(col, name, s.Side, s.Exp, &res)
	// what reached the wrapped writer / the application must not depend on tracing
	switch {
	case traced.fw.status != plain.fw.status:
		res.Problems = append(res.Problems, fmt.Sprintf("status %d with tracing, %d without", traced.fw.status, plain.fw.status))
	case !reflect.DeepEqual(traced.fw.snapshot, plain.fw.snapshot):
		res.Problems = append(res.Problems, fmt.Sprintf("headers at WriteHeader differ: %v with tracing, %v without", traced.fw.snapshot, plain.fw.snapshot))
	case !reflect.DeepEqual(traced.fw.hdr, plain.fw.hdr):
		res.Problems = append(res.Problems, fmt.Sprintf("final headers/trailers differ: %v with tracing, %v without", traced.fw.hdr, plain.fw.hdr))
	case !bytes.Equal(traced.fw.body.Bytes(), plain.fw.body.Bytes()):
		res.Problems = append(res.Problems, "bytes that reached the wrapped writer differ")
	case !reflect.DeepEqual(traced.fw.writes, plain.fw.writes):
		res.Problems = append(res.Problems, fmt.Sprintf("writes differ: %v with tracing, %v without", traced.fw.writes, plain.fw.writes))
	case traced.fw.flushes != plain.fw.flushes:
		res.Problems = append(res.Problems, fmt.Sprintf("%d flushes with tracing, %d without", traced.fw.flushes, plain.fw.flushes))
	case !reflect.DeepEqual(traced.app, plain.app):
		res.Problems = append(res.Problems, fmt.Sprintf("application saw %v with tracing, %v without", traced.app, plain.app))
	}
	if s.Side == "resp" {
		if tr := col.get(); len(tr) > 0 {
			resp := tr[0].Response
			switch {
			case resp == nil:
				res.Problems = append(res.Problems, "trace has no response")
			case resp.StatusCode != traced.fw.status:
				res.Problems = append(res.Problems, fmt.Sprintf("trace shows status %d, writer got %d", resp.StatusCode, traced.fw.status))
			case resp.Header.Get("X-Verif") != "1" || resp.Header.Get("Content-Type") != hv.Get("Content-Type"):
				res.Problems = append(res.Problems, fmt.Sprintf("trace shows response headers %v", resp.Header))
			case s.End == "eof" && (resp.Trailer.Get("X-Late-Trailer") != "t1" || resp.Trailer.Get("X-Declared-Trailer") != "t2"):
				res.Problems = append(res.Problems, fmt.Sprintf("trace shows trailers %v", resp.Trailer))
			}
		}
	}
	return res
}

/* ------------------------------------------------------------------ process isolation */

// The code under test sizes a buffer from the four length bytes of an envelope prefix. A tracer
// that loses track of the framing therefore asks for gigabytes, and a tracer that panics takes the
// whole test binary with it. Every test function of this file runs its work in child processes
// (this binary re-executed with VERIF_RANGE=lo:hi) under an address-space limit; a child that dies
// is bisected down to the single behaviours that kill it, each is re-run twice more, and what
// then still dies is reported like any other disagreement (cause "crash").

func TestMain(m *testing.M) {
	limit := uint64(verifutil.EnvInt("VERIF_AS_LIMIT_MB", 4096)) << 20
	_ = syscall.Setrlimit(syscall.RLIMIT_AS, &syscall.Rlimit{Cur: limit, Max: limit})
	os.Exit(m.Run())
}

// c14Range returns the index range this process is responsible for; ok = false in the supervisor.
func c14Range() (lo, hi int, ok bool) {
	v := os.Getenv("VERIF_RANGE")
	if v == "" {
		return 0, 0, false
	}
	a, b, _ := strings.Cut(v, ":")
	lo, _ = strconv.Atoi(a)
	hi, _ = strconv.Atoi(b)
	return lo, hi, true
}

func c14Workers() int {
	if _, _, child := c14Range(); child {
		return 4
	}
	return runtime.NumCPU()
}

var c14TracerFiles = []string{"/internal/tracer/reader.go", "/internal/tracer/middleware.go", "/internal/tracer/builder.go",
	"/internal/tracer/tracer.go", "/internal/compression/"}

// c14Blame says whether a crash report (panic text + stack) points into the code under test.
func c14Blame(report string) (string, bool) {
	first := ""
	for _, ln := range strings.Split(report, "\n") {
		if strings.HasPrefix(ln, "fatal error:") || strings.HasPrefix(ln, "panic:") || strings.HasPrefix(ln, "runtime: out of memory") {
			first = ln
			break
		}
	}
	if strings.Contains(first, "cannot allocate memory") || strings.Contains(first, "out of memory") {
		return first, true // nothing in this harness allocates more than a few megabytes
	}
	for _, f := range c14TracerFiles {
		if strings.Contains(report, f) {
			if first == "" {
				first = "died"
			}
			return first, true
		}
	}
	return first, false
}

type c14Sup struct {
	test    string
	out     *verifutil.Out
	mu      sync.Mutex
	sums    map[string]float64
	maps    map[string]map[string]float64
	crashes int
	skipped int
	scnOf   func(i int) any
}

func (s *c14Sup) child(lo, hi, attempt int) (ok bool, report string) {
	outp := fmt.Sprintf("%s.child-%d-%d-%d", verifutil.Env("VERIF_OUT", "out.ndjson"), lo, hi, attempt)
	defer os.Remove(outp)
	cmd := exec.Command(os.Args[0], "-test.run", "^"+s.test+"$", "-test.count=1", "-test.timeout", "3000s")
	cmd.Env = append(os.Environ(), fmt.Sprintf("VERIF_RANGE=%d:%d", lo, hi), "VERIF_OUT="+outp, "GOMAXPROCS=4")
	b, err := cmd.CombinedOutput()
	if err != nil {
		tail := string(b)
		if len(tail) > 6000 {
			// keep the head: the fatal line and the first stack come first
			tail = tail[:6000]
		}
		return false, err.Error() + "\n" + tail
	}
	lines, err := verifutil.ReadLines(outp)
	if err != nil {
		return false, "harness: child wrote no output: " + err.Error()
	}
	s.mu.Lock()
	defer s.mu.Unlock()
	for _, ln := range lines {
		if !bytes.Contains(ln, []byte(`"summary":true`)) {
			s.out.Put(ln)
			continue
		}
		var m map[string]any
		if json.Unmarshal(ln, &m) != nil {
			continue
		}
		for k, v := range m {
			switch v := v.(type) {
			case float64:
				s.sums[k] += v
			case map[string]any:
				if s.maps[k] == nil {
					s.maps[k] = map[string]float64{}
				}
				for k2, v2 := range v {
					if f, ok := v2.(float64); ok {
						s.maps[k][k2] += f
					}
				}
			}
		}
	}
	return true, ""
}

func (s *c14Sup) run(t *testing.T, lo, hi int) {
	ok, report := s.child(lo, hi, 0)
	if ok {
		return
	}
	what, blame := c14Blame(report)
	if !blame {
		s.out.Put(map[string]any{"cause": "harness", "diff": fmt.Sprintf("child %d:%d failed: %s", lo, hi, report), "repro": 3})
		return
	}
	s.mu.Lock()
	tooMany := s.crashes >= 12
	if tooMany {
		s.skipped += hi - lo
	}
	s.mu.Unlock()
	if tooMany {
		return
	}
	if hi-lo > 1 {
		mid := (lo + hi) / 2
		s.run(t, lo, mid)
		s.run(t, mid, hi)
		return
	}
	repro := 1
	for a := 1; a <= 2; a++ {
		if ok2, _ := s.child(lo, hi, a); !ok2 {
			repro++
		}
	}
	s.mu.Lock()
	s.crashes++
	s.mu.Unlock()
	rec := map[string]any{"carrier": "process", "enc": "", "idx": lo, "cause": "crash", "crash": true, "rec": lo,
		"diff": "the process running this behaviour died: " + what, "problems": []string{report[:min(len(report), 1500)]},
		"repro": repro}
	if s.scnOf != nil {
		rec["scn"] = s.scnOf(lo)
	}
	s.out.Put(rec)
}

// c14Supervise runs indices [0,n) of the named test function in child processes.
func c14Supervise(t *testing.T, test string, n int, scnOf func(i int) any, summary bool) {
	out, err := verifutil.NewOut(verifutil.Env("VERIF_OUT", "out.ndjson"))
	if err != nil {
		t.Fatal(err)
	}
	defer out.Close()
	s := &c14Sup{test: test, out: out, sums: map[string]float64{}, maps: map[string]map[string]float64{}, scnOf: scnOf}
	par := max(2, runtime.NumCPU()/3)
	size := max(1, min((n+2*par-1)/(2*par), 25000))
	type job struct{ lo, hi int }
	var jobs []job
	for lo := 0; lo < n; lo += size {
		jobs = append(jobs, job{lo, min(n, lo+size)})
	}
	verifutil.ParallelFor(len(jobs), par, func(j int) { s.run(t, jobs[j].lo, jobs[j].hi) })
	if summary {
		m := map[string]any{"summary": true, "crashed": s.crashes, "not_examined_after_crashes": s.skipped}
		for k, v := range s.sums {
			m[k] = int64(v)
		}
		for k, v := range s.maps {
			m[k] = v
		}
		for _, k := range []string{"scenarios", "evaluations", "skipped", "not_applicable", "nontrivial", "mismatches", "inconclusive"} {
			if _, ok := m[k]; !ok {
				m[k] = 0
			}
		}
		for _, k := range []string{"by_carrier", "skip_reasons"} {
			if _, ok := m[k]; !ok {
				m[k] = map[string]float64{}
			}
		}
		out.Put(m)
	}
}

// c14Guard turns a panic of the code under test into a disagreement; a panic of this harness stays fatal.
func c14Guard(f func() (*c14Mismatch, string, bool), s *c14Scn, idx int, carrier, enc string) (mm *c14Mismatch, skipped string, na bool) {
	defer func() {
		if r := recover(); r != nil {
			stack := string(debug.Stack())
			if _, blame := c14Blame("panic: " + fmt.Sprint(r) + "\n" + stack); !blame {
				panic(r)
			}
			mm = &c14Mismatch{Carrier: carrier, Enc: enc, Idx: idx, Cause: "panic", Diff: fmt.Sprintf("the tracer panicked: %v", r),
				Problems: []string{stack[:min(len(stack), 1500)]}, Scn: s}
		}
	}()
	return f()
}

/* ------------------------------------------------------------------ replay of generated behaviours */

type c14Mismatch struct {
	Carrier  string   `json:"carrier"`
	Enc      string   `json:"enc"`
	Idx      int      `json:"idx"`
	Cause    string   `json:"cause"`
	Diff     string   `json:"diff,omitempty"`
	Problems []string `json:"problems,omitempty"`
	Scn      *c14Scn  `json:"scn"`
	Exp      []c14Ev  `json:"exp"`
	Obs      []c14Ev  `json:"obs"`
	Repro    int      `json:"repro"`
}

func c14EncsFor(s *c14Scn, idx int, all bool) []string {
	pick := c14RealEncs[(idx+int(verifutil.Seed()))%len(c14RealEncs)]
	if s.Side != "resp" || !s.Hdr.isStream() || s.Hdr.encClass() != "real" {
		return []string{pick}
	}
	looked := false
	for _, e := range s.Body {
		if e.Len > 0 && c14IsEndStream(e.Flags) {
			looked = true
		}
	}
	if !looked || !all {
		return []string{pick}
	}
	return c14RealEncs
}

// c14Judge runs one (scenario, carrier, encoding) and classifies the outcome.
func c14Judge(s *c14Scn, idx int, carrier, enc string) (mm *c14Mismatch, skipped string, na bool) {
	return c14Guard(func() (*c14Mismatch, string, bool) { return c14JudgeUnguarded(s, idx, carrier, enc) }, s, idx, carrier, enc)
}

func c14JudgeUnguarded(s *c14Scn, idx int, carrier, enc string) (mm *c14Mismatch, skipped string, na bool) {
	seed := verifutil.Seed()*1000003 + uint64(idx)*31 + uint64(len(enc))
	rnd := rand.New(rand.NewPCG(seed, uint64(len(carrier))))
	b := c14Render(s, enc, rnd)
	if b.skip != "" {
		return nil, b.skip, false
	}
	hv := c14Headers(s.Hdr, enc, rnd)
	name := fmt.Sprintf("verif/c14/%s/%d/%s", carrier, idx, enc)
	var r c14Result
	switch carrier {
	case "reader":
		r = c14RunReader(s, b, hv, name, rnd)
	case "handler":
		r = c14RunHandler(s, b, hv, name, seed)
	}
	if r.NA {
		return nil, "", true
	}
	exp := c14Concrete(s.Exp, s, b)
	cause, diff := "", ""
	if !reflect.DeepEqual(exp, r.Obs) {
		diff = c14Diff(exp, r.Obs)
		cause = "events"
		if reflect.DeepEqual(c14Concrete(s.ExpNoBit, s, b), r.Obs) {
			cause = "endstream-compressed-bit-ignored"
		}
	} else if len(r.Problems) > 0 {
		cause = "transparency"
	}
	if cause == "" {
		return nil, "", false
	}
	return &c14Mismatch{Carrier: carrier, Enc: enc, Idx: idx, Cause: cause, Diff: diff, Problems: r.Problems, Scn: s,
		Exp: c14Abbrev(exp), Obs: c14Abbrev(r.Obs)}, "", false
}

// c14ReadRange returns lines [lo,hi) of an ndjson file (hi < 0: none, just count) and the line count.
func c14ReadRange(path string, lo, hi int) ([]json.RawMessage, int, error) {
	fh, err := os.Open(path)
	if err != nil {
		return nil, 0, err
	}
	defer fh.Close()
	var res []json.RawMessage
	sc := bufio.NewScanner(fh)
	sc.Buffer(make([]byte, 1<<20), 1<<28)
	n := 0
	for sc.Scan() {
		b := sc.Bytes()
		if len(b) == 0 {
			continue
		}
		if n >= lo && n < hi {
			res = append(res, append(json.RawMessage(nil), b...))
		}
		n++
	}
	return res, n, sc.Err()
}

func TestVerifC14Replay(t *testing.T) {
	path := verifutil.Env("VERIF_SCN", "scn.ndjson")
	lo, hi, child := c14Range()
	if !child {
		_, n, err := c14ReadRange(path, 0, -1)
		if err != nil {
			t.Fatal(err)
		}
		c14Supervise(t, "TestVerifC14Replay", n, func(i int) any {
			if l, _, err := c14ReadRange(path, i, i+1); err == nil && len(l) == 1 {
				return l[0]
			}
			return nil
		}, true)
		return
	}
	lines, _, err := c14ReadRange(path, lo, hi)
	if err != nil || len(lines) != hi-lo {
		t.Fatalf("cannot read scenarios %d:%d: %v", lo, hi, err)
	}
	out, err := verifutil.NewOut(verifutil.Env("VERIF_OUT", "out.ndjson"))
	if err != nil {
		t.Fatal(err)
	}
	defer out.Close()
	allEncs := verifutil.EnvInt("VERIF_ALL_ENCS", 1) == 1
	base := verifutil.EnvInt("VERIF_IDX_BASE", 0) // index of the first line (replay of a single scenario)
	scns := make([]*c14Scn, hi-lo)
	for i, l := range lines {
		var s c14Scn
		if err := json.Unmarshal(l, &s); err != nil {
			t.Fatalf("line %d: %v", lo+i, err)
		}
		scns[i] = &s
	}
	lines = nil
	var evals, skipped, nontrivial, na int64
	var byCarrier sync.Map
	var skipMu sync.Mutex
	skipWhy := map[string]int{}
	verifutil.ParallelFor(len(scns), c14Workers(), func(li int) {
		s := scns[li]
		i := li + lo + base
		if len(s.Calls) > 2 || len(s.Exp) > 1 {
			atomic.AddInt64(&nontrivial, 1)
		}
		for _, carrier := range []string{"reader", "handler"} {
			for _, enc := range c14EncsFor(s, i, allEncs) {
				mm, skip, notApplicable := c14Judge(s, i, carrier, enc)
				switch {
				case notApplicable:
					atomic.AddInt64(&na, 1)
					continue
				case skip != "":
					atomic.AddInt64(&skipped, 1)
					skipMu.Lock()
					skipWhy[skip]++
					skipMu.Unlock()
					continue
				}
				atomic.AddInt64(&evals, 1)
				c, _ := byCarrier.LoadOrStore(carrier, new(int64))
				atomic.AddInt64(c.(*int64), 1)
				if mm == nil {
					continue
				}
				mm.Repro = 1
				for k := 0; k < 2; k++ {
					m2, _, _ := c14Judge(s, i, carrier, enc)
					if m2 != nil && m2.Cause == mm.Cause && m2.Diff == mm.Diff {
						mm.Repro++
					}
				}
				out.Put(mm)
			}
		}
	})
	bc := map[string]int64{}
	byCarrier.Range(func(k, v any) bool { bc[k.(string)] = *v.(*int64); return true })
	out.Put(map[string]any{"summary": true, "scenarios": len(scns), "evaluations": evals, "skipped": skipped,
		"skip_reasons": skipWhy, "not_applicable": na, "nontrivial": nontrivial, "by_carrier": bc})
}

/* ------------------------------------------------------------------ carrier 3: loopback */

// c14Chunked delivers data in the given pieces (smaller if the caller's buffer is smaller), then EOF.
type c14Chunked struct {
	data   []byte
	pieces []int
	pos    int
}

func (r *c14Chunked) Read(p []byte) (int, error) {
	if r.pos >= len(r.data) {
		return 0, io.EOF
	}
	n := len(r.data) - r.pos
	if len(r.pieces) > 0 {
		n = min(n, r.pieces[0])
	}
	if n > len(p) {
		n = len(p)
	}
	if len(r.pieces) > 0 {
		r.pieces[0] -= n
		if r.pieces[0] <= 0 {
			r.pieces = r.pieces[1:]
		}
	}
	copy(p, r.data[r.pos:r.pos+n])
	r.pos += n
	return n, nil
}
func (r *c14Chunked) Close() error { return nil }

func c14Pieces(s *c14Scn, b *c14Body) (pieces []int, availBytes int) {
	pos := 0
	for _, c := range s.Calls {
		if c.Op == "r" && c.K > 0 {
			pieces = append(pieces, b.cellOff[pos+c.K]-b.cellOff[pos])
			pos += c.K
		}
	}
	return pieces, b.cellOff[s.Avail]
}

type c14Exchange struct {
	reqScn, respScn   *c14Scn
	reqBody, respBody *c14Body
	reqHdr, respHdr   http.Header
}

type c14NamedCollector struct {
	mu sync.Mutex
	m  map[string]chan Trace
}

func (c *c14NamedCollector) ch(name string) chan Trace {
	c.mu.Lock()
	defer c.mu.Unlock()
	if c.m == nil {
		c.m = map[string]chan Trace{}
	}
	if c.m[name] == nil {
		c.m[name] = make(chan Trace, 4)
	}
	return c.m[name]
}
func (c *c14NamedCollector) Complete(t Trace) { c.ch(t.TestName) <- t }
func (c *c14NamedCollector) await(name string) (*Trace, int) {
	select {
	case t := <-c.ch(name):
		extra := 0
		select {
		case <-c.ch(name):
			extra++
		case <-time.After(5 * time.Millisecond):
		}
		return &t, 1 + extra
	case <-time.After(20 * time.Second):
		return nil, 0
	}
}

var c14StreamID = regexp.MustCompile(`stream ID \d+`)

type c14AppView struct {
	Status  int         `json:"status"`
	Header  http.Header `json:"header"`
	Body    string      `json:"body_sha"`
	N       int         `json:"n"`
	Trailer http.Header `json:"trailer"`
	Err     string      `json:"err"`
	DoErr   string      `json:"do_err"`
}

func TestVerifC14Loopback(t *testing.T) {
	lines, err := verifutil.ReadLines(verifutil.Env("VERIF_SCN", "scn.ndjson"))
	if err != nil {
		t.Fatal(err)
	}
	n := verifutil.EnvInt("VERIF_N", 200)
	lo, hi, child := c14Range()
	if !child {
		c14Supervise(t, "TestVerifC14Loopback", n, nil, true)
		return
	}
	out, err := verifutil.NewOut(verifutil.Env("VERIF_OUT", "out.ndjson"))
	if err != nil {
		t.Fatal(err)
	}
	defer out.Close()
	var reqs, resps []*c14Scn
	for i, l := range lines {
		var s c14Scn
		if err := json.Unmarshal(l, &s); err != nil {
			t.Fatalf("line %d: %v", i, err)
		}
		if s.Side == "req" {
			if s.End == "eof" {
				reqs = append(reqs, &s)
			}
		} else if s.End != "closeerr" {
			resps = append(resps, &s)
		}
	}
	if len(reqs) == 0 || len(resps) == 0 {
		t.Fatal("need request-side and response-side scenarios")
	}
	var exchanges sync.Map // test name -> *c14Exchange
	var srvSaw sync.Map    // test name -> request trailers as the handler saw them
	handler := http.HandlerFunc(func(w http.ResponseWriter, r *http.Request) {
		v, ok := exchanges.Load(r.Header.Get(testCaseNameHeader))
		if !ok {
			http.Error(w, "unknown exchange", http.StatusTeapot)
			return
		}
		ex := v.(*c14Exchange)
		_, _ = io.Copy(io.Discard, r.Body)
		// what the application on the server side has received of the request once the body is read: its trailers
		srvSaw.Store(r.Header.Get(testCaseNameHeader), fmt.Sprint(r.Trailer))
		for k, vals := range ex.respHdr {
			w.Header()[k] = vals
		}
		w.Header().Add("Trailer", "X-Declared-Trailer")
		pieces, availBytes := c14Pieces(ex.respScn, ex.respBody)
		fl, _ := w.(http.Flusher)
		pos := 0
		for _, p := range pieces {
			if _, err := w.Write(ex.respBody.stream[pos : pos+p]); err != nil {
				return
			}
			pos += p
			if fl != nil {
				fl.Flush()
			}
		}
		if pos != availBytes {
			panic(fmt.Sprintf("verif: pieces cover %d of %d bytes", pos, availBytes))
		}
		if fl != nil {
			fl.Flush()
		}
		switch ex.respScn.End {
		case "close":
			select {
			case <-r.Context().Done():
			case <-time.After(20 * time.Second):
			}
		case "err":
			panic(http.ErrAbortHandler)
		default:
			w.Header().Set("X-Declared-Trailer", "t2")
			w.Header().Set(http.TrailerPrefix+"X-Late-Trailer", "t1")
		}
	})
	srvCol, cliCol := &c14NamedCollector{}, &c14NamedCollector{}
	type endpoint struct {
		proto           string
		traced, plain   *httptest.Server
		tracedC, plainC *http.Client
	}
	mk := func(h2 bool) endpoint {
		var ep endpoint
		ep.proto = "h1"
		start := func(h http.Handler) *httptest.Server {
			srv := httptest.NewUnstartedServer(h)
			srv.Config.ErrorLog = log.New(io.Discard, "", 0)
			if h2 {
				srv.EnableHTTP2 = true
				srv.StartTLS()
			} else {
				srv.Start()
			}
			return srv
		}
		if h2 {
			ep.proto = "h2"
		}
		ep.traced = start(TracingHandler(handler, srvCol))
		ep.plain = start(handler)
		ep.tracedC = &http.Client{Transport: TracingRoundTripper(ep.traced.Client().Transport, cliCol)}
		ep.plainC = ep.plain.Client()
		return ep
	}
	eps := []endpoint{mk(false), mk(true)}
	defer func() {
		for _, ep := range eps {
			ep.traced.Close()
			ep.plain.Close()
		}
	}()
	var evals, bad, inconclusive int64
	doExchange := func(client *http.Client, base, name string, ex *c14Exchange) (view c14AppView, readErr error) {
		pieces, availBytes := c14Pieces(ex.reqScn, ex.reqBody)
		body := &c14Chunked{data: ex.reqBody.stream[:availBytes], pieces: pieces}
		req, _ := http.NewRequestWithContext(context.Background(), http.MethodPost, base+"/svc/Method", body)
		for k, v := range ex.reqHdr {
			req.Header[k] = v
		}
		req.Header.Set(testCaseNameHeader, name)
		req.Trailer = http.Header{"X-Req-Trailer": {"rt1", "rt2"}}
		resp, err := client.Do(req)
		if err != nil {
			view.DoErr = err.Error()
			return view, nil
		}
		view.Status = resp.StatusCode
		view.Header = resp.Header.Clone()
		view.Header.Del("Date")
		var data []byte
		_, respAvail := c14Pieces(ex.respScn, ex.respBody)
		if ex.respScn.End == "close" {
			data = make([]byte, respAvail)
			_, readErr = io.ReadFull(resp.Body, data)
		} else {
			data, readErr = io.ReadAll(resp.Body)
		}
		if readErr != nil {
			view.Err = c14StreamID.ReplaceAllString(readErr.Error(), "stream ID n")
		}
		_ = resp.Body.Close()
		view.N = len(data)
		view.Body = fmt.Sprintf("%x", sha1.Sum(data))
		if !bytes.Equal(data, ex.respBody.stream[:min(respAvail, len(ex.respBody.stream))]) {
			view.Body += " (not the bytes the handler wrote)"
		}
		view.Trailer = resp.Trailer.Clone()
		return view, readErr
	}
	only := verifutil.EnvInt("VERIF_ONLY", -1)
	verifutil.ParallelFor(n, 8, func(i int) {
		if (only >= 0 && i != only) || i < lo || i >= hi {
			return
		}
		rnd := verifutil.Rand(uint64(5000 + i))
		ex := &c14Exchange{reqScn: reqs[rnd.IntN(len(reqs))], respScn: resps[rnd.IntN(len(resps))]}
		enc := c14RealEncs[rnd.IntN(len(c14RealEncs))]
		ex.reqBody = c14Render(ex.reqScn, enc, rnd)
		ex.respBody = c14Render(ex.respScn, enc, rnd)
		if ex.reqBody.skip != "" || ex.respBody.skip != "" {
			return
		}
		ex.reqHdr = c14Headers(ex.reqScn.Hdr, enc, rnd)
		ex.respHdr = c14Headers(ex.respScn.Hdr, enc, rnd)
		// net/http clients would try to decode a known Content-Encoding; stay with one they pass through
		if ex.respHdr.Get("Content-Encoding") != "" {
			ex.respHdr.Set("Content-Encoding", "x-verif")
		}
		if ex.reqHdr.Get("Content-Encoding") != "" {
			ex.reqHdr.Set("Content-Encoding", "x-verif")
		}
		ep := eps[i%2]
		name := fmt.Sprintf("verif/c14/loop/%d/%s", i, ep.proto)
		exchanges.Store(name, ex)
		exchanges.Store(name+"/plain", ex)
		defer exchanges.Delete(name)
		defer exchanges.Delete(name + "/plain")
		var problems []string
		view, appErr := doExchange(ep.tracedC, ep.traced.URL, name, ex)
		plain, _ := doExchange(ep.plainC, ep.plain.URL, name+"/plain", ex)
		atomic.AddInt64(&evals, 1)
		if !reflect.DeepEqual(view, plain) {
			a, _ := json.Marshal(view)
			p, _ := json.Marshal(plain)
			problems = append(problems, fmt.Sprintf("application saw %s with tracing, %s without", a, p))
		}
		st, _ := srvSaw.Load(name)
		sp, _ := srvSaw.Load(name + "/plain")
		if st != sp {
			problems = append(problems, fmt.Sprintf("the server handler saw request trailers %v with tracing, %v without", st, sp))
		}
		report := func(where, side, cause, diff string, exp, obs []c14Ev, scn *c14Scn) {
			atomic.AddInt64(&bad, 1)
			out.Put(c14Mismatch{Carrier: "loopback-" + ep.proto + "-" + where, Enc: enc, Idx: i, Cause: cause, Diff: diff,
				Problems: problems, Scn: scn, Exp: c14Abbrev(exp), Obs: c14Abbrev(obs), Repro: 3})
		}
		if view.DoErr != "" {
			report("client", "resp", "harness", "client.Do failed: "+view.DoErr, nil, nil, ex.respScn)
			return
		}
		check := func(where string, tr *Trace, scn *c14Scn, body *c14Body, adjust func(exp []c14Ev) []c14Ev) {
			exp, alt := c14Concrete(scn.Exp, scn, body), c14Concrete(scn.ExpNoBit, scn, body)
			if adjust != nil {
				exp, alt = adjust(exp), adjust(alt)
			}
			obs := c14ObservedX(tr, scn.Side, true)
			if adjust != nil {
				obs = adjust(obs)
			}
			if reflect.DeepEqual(exp, obs) {
				return
			}
			cause := "events"
			if reflect.DeepEqual(alt, obs) {
				cause = "endstream-compressed-bit-ignored"
			}
			report(where, scn.Side, cause, c14Diff(exp, obs), exp, obs, scn)
		}
		ctr, cn := cliCol.await(name)
		str, sn := srvCol.await(name)
		if ctr == nil || str == nil {
			report("both", "resp", "harness", fmt.Sprintf("trace not delivered within 20 s (client %v, server %v)", ctr != nil, str != nil), nil, nil, ex.respScn)
			return
		}
		if cn != 1 || sn != 1 {
			problems = append(problems, fmt.Sprintf("client collector got %d traces, server collector %d", cn, sn))
		}
		// the body end of a response that broke off carries the very error the application got
		endAs := func(class string, ok func(c string) bool) func([]c14Ev) []c14Ev {
			return func(evs []c14Ev) []c14Ev {
				res := append([]c14Ev(nil), evs...)
				if k := len(res) - 1; k >= 0 && res[k].K == "BodyEnd" && (res[k].C == "inner" || ok(res[k].C)) {
					res[k].C = class
				}
				return res
			}
		}
		check("client", ctr, ex.reqScn, ex.reqBody, nil)
		var adjClient, adjServer func([]c14Ev) []c14Ev
		switch ex.respScn.End {
		case "err":
			adjClient = endAs("the application's error", func(c string) bool { return appErr != nil && c == "other:"+appErr.Error() })
			adjServer = endAs("the handler's panic", func(c string) bool { return strings.HasPrefix(c, "other:panic: ") })
		case "close":
			adjServer = func(evs []c14Ev) []c14Ev { return nil } // ends by cancellation on the server: not this property
		}
		if _, respAvail := c14Pieces(ex.respScn, ex.respBody); view.N == respAvail {
			check("client", ctr, ex.respScn, ex.respBody, adjClient)
		} else {
			atomic.AddInt64(&inconclusive, 1) // the transport lost bytes when the stream broke: nothing to compare with
		}
		check("server", str, ex.reqScn, ex.reqBody, nil)
		check("server", str, ex.respScn, ex.respBody, adjServer)
		if len(problems) > 0 {
			report("app", "resp", "transparency", "", nil, nil, ex.respScn)
		}
	})
	out.Put(map[string]any{"summary": true, "scenarios": hi - lo, "evaluations": evals, "mismatches": bad, "inconclusive": inconclusive})
}

/* ------------------------------------------------------------------ recorded executions */

type c14Record struct {
	Body     []c14Env `json:"body"`
	Avail    int      `json:"avail"`
	End      string   `json:"end"`
	Side     string   `json:"side"`
	Hdr      c14Hdr   `json:"hdr"`
	Carrier  string   `json:"carrier"`
	Enc      string   `json:"enc"`
	NCalls   int      `json:"ncalls"`
	I        int      `json:"rec"`
	Obs      []c14Ev  `json:"obs"`
	Problems []string `json:"problems"`
	Stable   bool     `json:"stable"`
}

// TestVerifC14Record: long random bodies (cells = bytes), random splittings (incl. byte by byte),
// random cuts; the tracer's report is written in the specification's vocabulary, one execution
// per line, for Trace_BodyTrace.
func TestVerifC14Record(t *testing.T) {
	n := verifutil.EnvInt("VERIF_N", 1000)
	lo, hi, child := c14Range()
	if !child {
		c14Supervise(t, "TestVerifC14Record", n, nil, false)
		return
	}
	out, err := verifutil.NewOut(verifutil.Env("VERIF_OUT", "trace.ndjson"))
	if err != nil {
		t.Fatal(err)
	}
	defer out.Close()
	maxLen := verifutil.EnvInt("VERIF_MAXLEN", 65536)
	flagsPool := []int{0, 0, 0, 1, 2, 3, 0x80, 0x81, 0x82, 0x04, 0xff}
	encClasses := []string{"none", "identity", "real", "real", "real", "unknown"}
	only := verifutil.EnvInt("VERIF_ONLY", -1)
	verifutil.ParallelFor(n, c14Workers(), func(i int) {
		if (only >= 0 && i != only) || i < lo || i >= hi {
			return
		}
		rnd := verifutil.Rand(uint64(9000 + i))
		s := &c14Scn{Side: []string{"req", "resp", "resp"}[rnd.IntN(3)], Body: []c14Env{}}
		encClass := encClasses[rnd.IntN(len(encClasses))]
		switch rnd.IntN(8) {
		case 0:
			s.Hdr = c14Hdr{Ct: "unary", Ce: "none", Cce: "none", Ge: "none"}
		case 1:
			s.Hdr = c14Hdr{Ct: "connect", Ce: "set", Cce: encClass, Ge: "none"}
		case 2:
			s.Hdr = c14Hdr{Ct: "grpc", Ce: "none", Cce: "real", Ge: encClass}
		case 3, 4:
			s.Hdr = c14Hdr{Ct: "grpcweb", Ce: "none", Cce: "none", Ge: encClass}
		default:
			s.Hdr = c14Hdr{Ct: "connect", Ce: "none", Cce: encClass, Ge: "none"}
		}
		enc := c14RealEncs[rnd.IntN(len(c14RealEncs))]
		nenv := rnd.IntN(9)
		realEnc := s.Side == "resp" && s.Hdr.isStream() && s.Hdr.encClass() == "real"
		compEnc := "gzip"
		if realEnc {
			compEnc = enc
		}
		// cells = bytes: render every payload first, then describe it with its real length
		b := &c14Body{cellOff: []int{0}}
		for j := 0; j < nenv; j++ {
			e := c14Env{Flags: flagsPool[rnd.IntN(len(flagsPool))], Pc: "plain"}
			var payload []byte
			orig := ""
			switch rnd.IntN(6) {
			case 0:
			case 1, 2:
				payload = c14PlainBytes(1+rnd.IntN(12), rnd.IntN(97))
			case 3, 4:
				payload = c14PlainBytes(1+rnd.IntN(3000), rnd.IntN(97))
			default:
				payload = c14PlainBytes(1+rnd.IntN(maxLen), rnd.IntN(97))
			}
			looked := s.Side == "resp" && s.Hdr.isStream() && c14IsEndStream(e.Flags) && len(payload) > 0
			if looked {
				switch rnd.IntN(4) {
				case 0:
					e.Pc, orig = "comp", string(payload)
					payload, _ = c14Compress(compEnc, payload)
				case 1:
					e.Pc = "compEmpty"
					payload, _ = c14Compress(compEnc, nil)
				case 2:
					e.Pc = "garbage"
					for q := range payload {
						payload[q] = byte(rnd.IntN(256))
					}
				}
				if realEnc {
					got, err := c14Decode(enc, payload)
					ok := err != nil
					switch e.Pc {
					case "comp":
						ok = err == nil && got == orig
					case "compEmpty":
						ok = err == nil && got == ""
					}
					if !ok {
						e.Pc, orig = "comp", "verif"
						payload, _ = c14Compress(compEnc, []byte(orig))
					}
				}
			}
			e.Len = len(payload)
			s.Body = append(s.Body, e)
			var pre [5]byte
			pre[0] = byte(e.Flags)
			binary.BigEndian.PutUint32(pre[1:], uint32(len(payload)))
			b.stream = append(append(b.stream, pre[:]...), payload...)
			b.payloads = append(b.payloads, payload)
			b.origs = append(b.origs, orig)
		}
		for c := 1; c <= len(b.stream); c++ {
			b.cellOff = append(b.cellOff, c)
		}
		total := len(b.stream)
		s.Avail = total
		if total > 0 && rnd.IntN(3) > 0 {
			if rnd.IntN(2) == 0 {
				s.Avail = rnd.IntN(total + 1)
			} else {
				// near the joints
				pos := 0
				cands := []int{0}
				for _, e := range s.Body {
					cands = append(cands, pos+1, pos+4, pos+5, pos+6, pos+5+e.Len/2, pos+5+e.Len-1, pos+5+e.Len)
					pos += 5 + e.Len
				}
				s.Avail = cands[rnd.IntN(len(cands))]
				if s.Avail < 0 || s.Avail > total {
					s.Avail = total
				}
			}
		}
		s.End = []string{"eof", "eof", "err", "close", "closeerr"}[rnd.IntN(5)]
		carrier := []string{"reader", "handler"}[rnd.IntN(2)]
		if carrier == "handler" && s.Side == "resp" && (s.End == "close" || s.End == "closeerr") {
			carrier = "reader"
		}
		// the splitting
		mode := rnd.IntN(4)
		if mode == 0 && s.Avail > 6000 {
			mode = 1
		}
		left := s.Avail
		for left > 0 {
			var k int
			switch mode {
			case 0:
				k = 1
			case 1:
				k = 1 + rnd.IntN(7)
			case 2:
				k = 1 + rnd.IntN(2000)
			default:
				k = []int{1, 4, 5, 6, 1 + rnd.IntN(left)}[rnd.IntN(5)]
			}
			k = min(k, left)
			left -= k
			c := c14Call{Op: "r", K: k, E: "nil"}
			if left == 0 && (s.End == "eof" || s.End == "err") && rnd.IntN(2) == 0 {
				c.E = s.End
			}
			s.Calls = append(s.Calls, c)
			if rnd.IntN(40) == 0 {
				s.Calls = append(s.Calls, c14Call{Op: "o", E: "nil"})
			}
		}
		switch {
		case s.End == "close" || s.End == "closeerr":
			s.Calls = append(s.Calls, c14Call{Op: "c", E: s.End})
		case len(s.Calls) == 0 || s.Calls[len(s.Calls)-1].E != s.End:
			s.Calls = append(s.Calls, c14Call{Op: "r", K: 0, E: s.End})
		}
		for p := rnd.IntN(3); p > 0; p-- {
			if rnd.IntN(2) == 0 {
				sticky := "err"
				if s.End == "eof" {
					sticky = "eof"
				}
				s.Calls = append(s.Calls, c14Call{Op: "r", K: 0, E: sticky})
			} else {
				s.Calls = append(s.Calls, c14Call{Op: "c", E: "close"})
			}
		}
		s.Exp = []c14Ev{{K: "BodyEnd", C: map[string]string{"eof": "nil", "err": "inner", "close": "closedEarly", "closeerr": "closeInner"}[s.End]}}
		seed := verifutil.Seed()*7919 + uint64(i)
		runOnce := func() c14Result {
			r2 := rand.New(rand.NewPCG(seed, 3))
			hv := c14Headers(s.Hdr, enc, r2)
			name := fmt.Sprintf("verif/c14/rec/%d", i)
			if carrier == "handler" {
				return c14RunHandler(s, b, hv, name, seed)
			}
			return c14RunReader(s, b, hv, name, r2)
		}
		abstract := func(r c14Result) []c14Ev {
			res := make([]c14Ev, len(r.Obs))
			for q, e := range r.Obs {
				if e.K == "EndStream" {
					switch {
					case e.I >= 0 && e.I < len(b.payloads) && e.C == string(b.payloads[e.I]):
						e.C = "raw"
					case e.I >= 0 && e.I < len(b.payloads) && b.origs[e.I] != "" && e.C == b.origs[e.I]:
						e.C = "orig"
					default:
						e.C = "corrupt"
					}
				}
				res[q] = e
			}
			return res
		}
		r := runOnce()
		obs := abstract(r)
		stable := true
		for k := 0; k < 2; k++ {
			if !reflect.DeepEqual(abstract(runOnce()), obs) {
				stable = false
			}
		}
		if r.Problems == nil {
			r.Problems = []string{}
		}
		out.Put(c14Record{Body: s.Body, Avail: s.Avail, End: s.End, Side: s.Side, Hdr: s.Hdr, Carrier: carrier, Enc: enc,
			NCalls: len(s.Calls), I: i, Obs: obs, Problems: r.Problems, Stable: stable})
	})
}
