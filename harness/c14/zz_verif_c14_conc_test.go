package tracer

// C14, concurrent bodies: BodyTrace.tla describes one body; the events of a body are a function of that body's bytes
// alone.  Many bodies are traced at once here (the reference client runs its RPCs in parallel), each with a
// compressed end-of-stream message of its own, and every trace must carry its own content.

import (
	"bytes"
	"encoding/binary"
	"fmt"
	"io"
	"net/http"
	"runtime"
	"strings"
	"sync"
	"sync/atomic"
	"testing"
	"testing/iotest"

	"connectrpc.com/conformance/internal/verifutil"
)

type c14ConcTransport struct{}

func (c14ConcTransport) RoundTrip(req *http.Request) (*http.Response, error) {
	enc := req.Header.Get("X-Verif-Enc")
	content := req.Header.Get("X-Verif-Salt")
	content = fmt.Sprintf(`{"metadata":{"x-salt":["%s"],"x-fill":["%s"]}}`, content, strings.Repeat(content+"/", 2000+len(content)*97%3000))
	comp, err := c14CompressRaw(enc, []byte(content))
	if err != nil {
		return nil, err
	}
	var body bytes.Buffer
	body.Write([]byte{0, 0, 0, 0, 3, 'a', 'b', 'c'}) // one ordinary message
	var pfx [5]byte
	pfx[0] = 0x03 // end of stream, compressed
	binary.BigEndian.PutUint32(pfx[1:], uint32(len(comp)))
	body.Write(pfx[:])
	body.Write(comp)
	var rd io.Reader = bytes.NewReader(body.Bytes())
	if len(content)%2 == 0 {
		rd = iotest.HalfReader(rd)
	}
	hdr := http.Header{"Content-Type": {"application/connect+proto"}, "Connect-Content-Encoding": {enc}}
	return &http.Response{StatusCode: 200, Status: "200 OK", Proto: "HTTP/1.1", ProtoMajor: 1, ProtoMinor: 1, Header: hdr,
		Body: io.NopCloser(rd), Request: req, ContentLength: -1}, nil
}

func TestVerifC14Concurrent(t *testing.T) {
	out, err := verifutil.NewOut(verifutil.Env("VERIF_OUT", "conc.ndjson"))
	if err != nil {
		t.Fatal(err)
	}
	defer out.Close()
	rounds := verifutil.EnvInt("VERIF_ROUNDS", 40)
	workers := 4 * runtime.NumCPU()
	encs := []string{"zstd", "gzip", "br", "deflate", "snappy"}
	var evals, bad int64
	var wg sync.WaitGroup
	for w := 0; w < workers; w++ {
		wg.Add(1)
		go func(w int) {
			defer wg.Done()
			for r := 0; r < rounds; r++ {
				enc := encs[(w/2+r)%len(encs)]
				salt := fmt.Sprintf("w%dr%d%s", w, r, strings.Repeat("s", (w*7+r)%11))
				col := &c14Collector{}
				rt := TracingRoundTripper(c14ConcTransport{}, col)
				req, _ := http.NewRequest(http.MethodPost, "http://verif.test/svc/Method", http.NoBody) //nolint:noctx
				req.Header.Set(testCaseNameHeader, salt)
				req.Header.Set("X-Verif-Enc", enc)
				req.Header.Set("X-Verif-Salt", salt)
				resp, err := rt.RoundTrip(req)
				if err != nil {
					out.Put(map[string]any{"kind": "conc", "enc": enc, "salt": salt, "why": "round trip: " + err.Error()})
					continue
				}
				_, _ = io.Copy(io.Discard, resp.Body)
				_ = resp.Body.Close()
				atomic.AddInt64(&evals, 1)
				want := fmt.Sprintf(`{"metadata":{"x-salt":["%s"],"x-fill":["%s"]}}`, salt, strings.Repeat(salt+"/", 2000+len(salt)*97%3000))
				why := ""
				trs := col.get()
				if len(trs) != 1 {
					why = fmt.Sprintf("%d traces delivered", len(trs))
				} else {
					found := false
					for _, ev := range trs[0].Events {
						if es, ok := ev.(*ResponseBodyEndStream); ok {
							found = true
							if es.Content != want {
								got := es.Content
								if len(got) > 80 {
									got = got[:80]
								}
								why = fmt.Sprintf("end-of-stream content is not this body's own (%d bytes, begins %q; own content has %d bytes, begins %q)", len(es.Content), got, len(want), want[:40])
							}
						}
					}
					if !found {
						why = "no end-of-stream event in the trace"
					}
				}
				if why != "" {
					atomic.AddInt64(&bad, 1)
					if atomic.LoadInt64(&bad) <= 20 {
						out.Put(map[string]any{"kind": "conc", "enc": enc, "salt": salt, "why": why})
					}
				}
			}
		}(w)
	}
	wg.Wait()
	out.Put(map[string]any{"summary": true, "evaluations": evals, "bad": bad, "workers": workers, "rounds": rounds})
}
