package tracer

// Requests without a body (Body == nil, as http.NewRequest(GET, url, nil) builds them; http.NoBody; an empty reader)
// through the traced transport: BodyTrace.tla's empty envelope sequence.  The application must receive what it would
// have received without tracing - status, headers of the exchange, response bytes, error - and a named request must
// complete exactly one trace.

import (
	"fmt"
	"io"
	"net/http"
	"net/http/httptest"
	"strings"
	"sync"
	"testing"

	"connectrpc.com/conformance/internal/verifutil"
)

type c14NoBodyObs struct {
	Status int    `json:"status"`
	Body   string `json:"body"`
	Err    string `json:"err"`
}

func TestVerifC14NoBody(t *testing.T) {
	out, err := verifutil.NewOut(verifutil.Env("VERIF_OUT", "nobody.ndjson"))
	if err != nil {
		t.Fatal(err)
	}
	defer out.Close()
	srv := httptest.NewServer(http.HandlerFunc(func(w http.ResponseWriter, req *http.Request) {
		n, _ := io.Copy(io.Discard, req.Body)
		w.Header().Set("Content-Type", "application/proto")
		_, _ = fmt.Fprintf(w, "%s got %d bytes, content-length %d", req.Method, n, req.ContentLength)
	}))
	defer srv.Close()
	var mu sync.Mutex
	completed := map[string]int{}
	collector := c14CollectorFunc(func(tr Trace) {
		mu.Lock()
		defer mu.Unlock()
		completed[tr.TestName]++
	})
	plain := &http.Client{Transport: &http.Transport{}}
	traced := &http.Client{Transport: TracingRoundTripper(&http.Transport{}, collector)}
	do := func(c *http.Client, method, body, name string) c14NoBodyObs {
		var rd io.Reader
		switch body {
		case "nil":
		case "nobody":
			rd = http.NoBody
		case "empty":
			rd = strings.NewReader("")
		}
		req, err := http.NewRequest(method, srv.URL+"/svc/Method?x=1", rd)
		if err != nil {
			return c14NoBodyObs{Err: "harness: " + err.Error()}
		}
		req.Header.Set("Content-Type", "application/proto")
		if name != "" {
			req.Header.Set("X-Test-Case-Name", name)
		}
		resp, err := c.Do(req)
		if err != nil {
			return c14NoBodyObs{Err: err.Error()}
		}
		defer resp.Body.Close()
		b, err := io.ReadAll(resp.Body)
		o := c14NoBodyObs{Status: resp.StatusCode, Body: string(b)}
		if err != nil {
			o.Err = err.Error()
		}
		return o
	}
	evals := 0
	for _, method := range []string{http.MethodGet, http.MethodPost, http.MethodDelete} {
		for _, body := range []string{"nil", "nobody", "empty"} {
			for _, named := range []bool{true, false} {
				name := ""
				if named {
					name = fmt.Sprintf("nobody/%s/%s", method, body)
				}
				want := do(plain, method, body, "")
				got := do(traced, method, body, name)
				evals++
				mu.Lock()
				n := completed[name]
				mu.Unlock()
				var what []string
				if got != want {
					what = append(what, fmt.Sprintf("with tracing the caller got %+v, without %+v", got, want))
				}
				if named && n != 1 {
					what = append(what, fmt.Sprintf("%d traces completed for the request, want 1", n))
				}
				if len(what) > 0 {
					out.Put(map[string]any{"method": method, "body": body, "named": named, "what": strings.Join(what, "; ")})
				}
			}
		}
	}
	out.Put(map[string]any{"summary": true, "evaluations": evals})
}

type c14CollectorFunc func(Trace)

func (f c14CollectorFunc) Complete(t Trace) { f(t) }
