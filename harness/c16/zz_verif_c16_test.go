package tracer

// C16 harness: replays TLC-generated operation orders on a real Tracer (slots) and a real
// builder, and records concurrent executions for the TLC acceptors.

import (
	"context"
	"encoding/json"
	"errors"
	"fmt"
	"io"
	"net/http"
	"net/http/httptest"
	"runtime"
	"strings"
	"sync"
	"sync/atomic"
	"testing"
	"time"

	"connectrpc.com/conformance/internal"
	"connectrpc.com/conformance/internal/verifutil"
)

/* ------------------------------------------------------------------ slots */

type c16Obs struct {
	St  string `json:"st"`
	Val int    `json:"val"`
}

type c16Step struct {
	Op  string            `json:"op"`
	N   string            `json:"n"`
	I   string            `json:"i"`
	T   int               `json:"t"`
	Obs map[string]c16Obs `json:"obs"`
}

type c16Waiter struct {
	last    c16Obs
	running bool
	cancel  context.CancelFunc
	res     chan c16Obs
}

var c16Entered sync.Map // name prefix "<scn>/" -> chan struct{}

func c16Hook(point, name string) {
	if point != "tracer.await.entered" {
		return
	}
	if i := strings.IndexByte(name, '/'); i > 0 {
		if ch, ok := c16Entered.Load(name[:i+1]); ok {
			ch.(chan struct{}) <- struct{}{}
		}
	}
}

const c16Watchdog = 20 * time.Second

// returns "" if the real tracer agrees with every step, else a description; hang=true if a
// watchdog expired
func c16RunSlots(id int, steps []c16Step, burst bool) (string, []map[string]c16Obs, bool) {
	prefix := fmt.Sprintf("%d/", id)
	entered := make(chan struct{}, 4)
	c16Entered.Store(prefix, entered)
	defer c16Entered.Delete(prefix)
	tr := &Tracer{}
	ws := map[string]*c16Waiter{}
	var observed []map[string]c16Obs
	defer func() {
		for _, w := range ws {
			if w.running {
				w.cancel()
			}
		}
	}()
	for si, st := range steps {
		name := prefix + st.N
		switch st.Op {
		case "Init":
			tr.Init(name)
		case "Complete":
			tr.Complete(Trace{TestName: name, Err: fmt.Errorf("id%d", st.T)})
		case "Clear":
			tr.Clear(name)
		case "Await":
			w := ws[st.I]
			if w == nil {
				w = &c16Waiter{last: c16Obs{St: "idle"}}
				ws[st.I] = w
			}
			if w.running {
				return fmt.Sprintf("step %d: harness: waiter %s still running", si, st.I), observed, false
			}
			ctx, cancel := context.WithCancel(context.Background())
			w.cancel = cancel
			w.running = true
			w.res = make(chan c16Obs, 1)
			w.last = c16Obs{St: "blocked"}
			go func(res chan c16Obs) {
				t, err := tr.Await(ctx, name)
				switch {
				case err == nil && t != nil && t.Err != nil && strings.HasPrefix(t.Err.Error(), "id"):
					var v int
					fmt.Sscanf(t.Err.Error(), "id%d", &v)
					if t.TestName != name {
						res <- c16Obs{St: "got-wrong-name", Val: v}
					} else {
						res <- c16Obs{St: "got", Val: v}
					}
				case err == nil:
					res <- c16Obs{St: "got-empty"}
				case errors.Is(err, context.Canceled):
					res <- c16Obs{St: "ctx"}
				case strings.Contains(err.Error(), "already cleared"):
					res <- c16Obs{St: "failed"}
				default:
					res <- c16Obs{St: "error:" + err.Error()}
				}
			}(w.res)
			select {
			case <-entered:
			case <-time.After(c16Watchdog):
				return fmt.Sprintf("step %d: Await never left its critical section", si), observed, true
			}
		case "Ctx":
			w := ws[st.I]
			if w == nil || !w.running {
				return fmt.Sprintf("step %d: harness: Ctx on idle waiter", si), observed, false
			}
			w.cancel()
		}
		// burst mode: consecutive Init/Complete/Clear operations are issued back to back without
		// letting woken waiters run in between (the specification says a waiter's outcome is fixed
		// when its generation is completed, whatever happens before it is scheduled), so observe
		// only before an Await, after a Ctx and at the end
		if burst && st.Op != "Ctx" && si+1 < len(steps) && steps[si+1].Op != "Await" {
			observed = append(observed, nil)
			continue
		}
		// observe: every waiter the specification says has returned must have returned with that
		// result; the others must not have
		obs := map[string]c16Obs{}
		for wi, exp := range st.Obs {
			w := ws[wi]
			if w == nil {
				obs[wi] = c16Obs{St: "idle"}
				continue
			}
			if w.running {
				if exp.St != "blocked" {
					select {
					case r := <-w.res:
						w.last, w.running = r, false
					case <-time.After(c16Watchdog):
						return fmt.Sprintf("step %d: waiter %s did not return (spec: %v)", si, wi, exp), observed, true
					}
				} else {
					select {
					case r := <-w.res:
						w.last, w.running = r, false
					default:
					}
				}
			}
			obs[wi] = w.last
		}
		observed = append(observed, obs)
		for wi, exp := range st.Obs {
			if obs[wi] != exp {
				return fmt.Sprintf("step %d (%s %s %s): waiter %s observed %v, spec requires %v", si, st.Op, st.N, st.I, wi, obs[wi], exp), observed, false
			}
		}
	}
	// waiters the spec says are still blocked must really be blocked: cancel them, they must
	// report their context's error (a waiter that had wrongly returned has its result queued)
	for wi, w := range ws {
		if w.running {
			w.cancel()
			select {
			case r := <-w.res:
				if r.St != "ctx" {
					return fmt.Sprintf("end: waiter %s was supposed to be blocked but had returned %v", wi, r), observed, false
				}
				w.running = false
			case <-time.After(c16Watchdog):
				return fmt.Sprintf("end: waiter %s outlived its context", wi), observed, true
			}
		}
	}
	return "", observed, false
}

func TestVerifC16Slots(t *testing.T) {
	hook := c16Hook
	VerifHook.Store(&hook)
	defer VerifHook.Store(nil)
	lines, err := verifutil.ReadLines(verifutil.Env("VERIF_SCN", "scn.ndjson"))
	if err != nil {
		t.Fatal(err)
	}
	out, err := verifutil.NewOut(verifutil.Env("VERIF_OUT", "out.ndjson"))
	if err != nil {
		t.Fatal(err)
	}
	defer out.Close()
	var evals, nontrivial, hangs, skipped int64
	burst := verifutil.Env("VERIF_BURST", "") == "1"
	workers := runtime.NumCPU() * 2
	if burst {
		workers = 1
	}
	verifutil.ParallelFor(len(lines), workers, func(i int) {
		var steps []c16Step
		if err := json.Unmarshal(lines[i], &steps); err != nil {
			out.Put(map[string]any{"harness_error": err.Error(), "line": i})
			return
		}
		if atomic.LoadInt64(&hangs) >= 6 {
			// every hang costs several watchdog periods; six reproduced ones are reported, the
			// rest of the scenarios is skipped (counted) so that the check ends in bounded time
			atomic.AddInt64(&skipped, 1)
			return
		}
		atomic.AddInt64(&evals, 1)
		for _, s := range steps {
			nt := false
			for _, o := range s.Obs {
				if o.St == "got" || o.St == "ctx" || o.St == "blocked" {
					nt = true
				}
			}
			if nt {
				atomic.AddInt64(&nontrivial, 1)
				break
			}
		}
		msg, obs, hang := c16RunSlots(i, steps, burst)
		if msg == "" {
			return
		}
		repro := 1
		reruns := 4
		if hang {
			reruns = 2
		}
		for k := 0; k < reruns; k++ {
			m2, _, _ := c16RunSlots(1000000*(k+1)+i, steps, burst)
			if m2 != "" {
				repro++
			}
		}
		if hang && repro >= 3 {
			atomic.AddInt64(&hangs, 1)
		}
		if burst && repro >= 2 {
			repro = 3 // schedule-dependent: reproduced at least twice out of five
		}
		out.Put(map[string]any{"kind": "slots", "burst": burst, "scn": steps, "what": msg, "observed": obs, "repro": repro, "hang": hang})
	})
	out.Put(map[string]any{"summary": true, "scenarios": len(lines), "evaluations": evals, "nontrivial": nontrivial, "hangs": hangs, "skipped_after_hangs": skipped})
}

/* ---------------------------------------------------------------- builder */

type c16Ev struct {
	K   string `json:"k"`
	Idx int    `json:"idx"`
}

type c16Delivered struct {
	Completes int     `json:"completes"`
	Events    []c16Ev `json:"events"`
	Err       string  `json:"err"`
}

type c16BScn struct {
	Ops   []string       `json:"ops"`
	Named bool           `json:"named"`
	Exp   []c16Delivered `json:"exp"`
}

var (
	c16ErrReq     = errors.New("verif req error")
	c16ErrResp    = errors.New("verif resp error")
	c16ErrRespEnd = errors.New("verif resp end error")
)

type c16Collector struct {
	mu     sync.Mutex
	traces []Trace
}

func (c *c16Collector) Complete(t Trace) {
	c.mu.Lock()
	defer c.mu.Unlock()
	c.traces = append(c.traces, t)
}

func (c *c16Collector) snapshot() []Trace {
	c.mu.Lock()
	defer c.mu.Unlock()
	return append([]Trace(nil), c.traces...)
}

func c16MakeEvent(k string) Event {
	switch k {
	case "ReqData":
		return &RequestBodyData{Len: 3}
	case "ReqEndOK":
		return &RequestBodyEnd{}
	case "ReqEndErr":
		return &RequestBodyEnd{Err: c16ErrReq}
	case "RespStart":
		return &ResponseStart{Response: &http.Response{Status: "200 OK", StatusCode: 200, Proto: "HTTP/1.1", ProtoMajor: 1, ProtoMinor: 1, Header: http.Header{}}}
	case "RespErr":
		return &ResponseError{Err: c16ErrResp}
	case "RespData":
		return &ResponseBodyData{Len: 4}
	case "EndStream":
		return &ResponseBodyEndStream{Content: "{}"}
	case "RespEndOK":
		return &ResponseBodyEnd{}
	case "RespEndErr":
		return &ResponseBodyEnd{Err: c16ErrRespEnd}
	case "Cancel":
		return &RequestCanceled{}
	}
	panic("unknown event kind " + k)
}

func c16Project(tr Trace) c16Delivered {
	d := c16Delivered{Completes: 1, Events: []c16Ev{}}
	for _, e := range tr.Events {
		switch e := e.(type) {
		case *RequestStart:
			d.Events = append(d.Events, c16Ev{K: "RequestStart"})
		case *RequestBodyData:
			d.Events = append(d.Events, c16Ev{K: "ReqData", Idx: e.MessageIndex})
		case *RequestBodyEnd:
			if e.Err != nil {
				d.Events = append(d.Events, c16Ev{K: "ReqEndErr"})
			} else {
				d.Events = append(d.Events, c16Ev{K: "ReqEndOK"})
			}
		case *ResponseStart:
			d.Events = append(d.Events, c16Ev{K: "RespStart"})
		case *ResponseError:
			d.Events = append(d.Events, c16Ev{K: "RespErr"})
		case *ResponseBodyData:
			d.Events = append(d.Events, c16Ev{K: "RespData", Idx: e.MessageIndex})
		case *ResponseBodyEndStream:
			d.Events = append(d.Events, c16Ev{K: "EndStream"})
		case *ResponseBodyEnd:
			if e.Err != nil {
				d.Events = append(d.Events, c16Ev{K: "RespEndErr"})
			} else {
				d.Events = append(d.Events, c16Ev{K: "RespEndOK"})
			}
		case *RequestCanceled:
			d.Events = append(d.Events, c16Ev{K: "Cancel"})
		default:
			d.Events = append(d.Events, c16Ev{K: fmt.Sprintf("%T", e)})
		}
	}
	switch {
	case tr.Err == nil:
		d.Err = "none"
	case errors.Is(tr.Err, c16ErrReq):
		d.Err = "req"
	case errors.Is(tr.Err, c16ErrResp):
		d.Err = "resp"
	case errors.Is(tr.Err, c16ErrRespEnd):
		d.Err = "respEnd"
	case errors.Is(tr.Err, context.Canceled):
		d.Err = "canceled"
	default:
		d.Err = "other:" + tr.Err.Error()
	}
	return d
}

func c16NewReq(named bool, name string) *http.Request {
	req, _ := http.NewRequest(http.MethodPost, "http://localhost/svc/Method", strings.NewReader(""))
	if named {
		req.Header.Set("X-Test-Case-Name", name)
	}
	return req
}

func c16SameDelivered(a, b c16Delivered) bool {
	if a.Completes != b.Completes {
		return false
	}
	if a.Completes == 0 {
		return true
	}
	if a.Err != b.Err || len(a.Events) != len(b.Events) {
		return false
	}
	for i := range a.Events {
		if a.Events[i] != b.Events[i] {
			return false
		}
	}
	return true
}

func c16RunBuilder(s *c16BScn, client bool) (string, []c16Delivered) {
	col := &c16Collector{}
	b, _ := newBuilder(c16NewReq(s.Named, "t/x"), client, col)
	var seen []c16Delivered
	for j, op := range s.Ops {
		if op == "Build" {
			b.build()
		} else {
			b.add(c16MakeEvent(op))
		}
		trs := col.snapshot()
		got := c16Delivered{Completes: len(trs)}
		if len(trs) >= 1 {
			got = c16Project(trs[0])
			got.Completes = len(trs)
			if trs[0].TestName != "t/x" {
				got.Err = "wrong-test-name:" + trs[0].TestName
			}
		}
		seen = append(seen, got)
		if !c16SameDelivered(got, s.Exp[j]) {
			return fmt.Sprintf("after op %d (%s), client=%v: collector has %+v, spec requires %+v", j+1, op, client, got, s.Exp[j]), seen
		}
	}
	return "", seen
}

func TestVerifC16Builder(t *testing.T) {
	lines, err := verifutil.ReadLines(verifutil.Env("VERIF_SCN", "scn.ndjson"))
	if err != nil {
		t.Fatal(err)
	}
	out, err := verifutil.NewOut(verifutil.Env("VERIF_OUT", "out.ndjson"))
	if err != nil {
		t.Fatal(err)
	}
	defer out.Close()
	var evals, nontrivial int64
	verifutil.ParallelFor(len(lines), runtime.NumCPU(), func(i int) {
		var s c16BScn
		if err := json.Unmarshal(lines[i], &s); err != nil {
			out.Put(map[string]any{"harness_error": err.Error(), "line": i})
			return
		}
		if s.Exp[len(s.Exp)-1].Completes == 1 {
			atomic.AddInt64(&nontrivial, 1)
		}
		for _, client := range []bool{false, true} {
			atomic.AddInt64(&evals, 1)
			msg, seen := c16RunBuilder(&s, client)
			if msg != "" {
				m2, _ := c16RunBuilder(&s, client)
				m3, _ := c16RunBuilder(&s, client)
				repro := 1
				if m2 != "" {
					repro++
				}
				if m3 != "" {
					repro++
				}
				out.Put(map[string]any{"kind": "builder", "scn": s, "client": client, "what": msg, "observed": seen, "repro": repro})
			}
		}
	})
	out.Put(map[string]any{"summary": true, "scenarios": len(lines), "evaluations": evals, "nontrivial": nontrivial})
}

/* ------------------------------------------------- concurrent executions */

type c16RacyRec struct {
	Kind      string         `json:"kind"`
	Named     bool           `json:"named"`
	Finishing bool           `json:"finishing"` // some finishing op was issued
	Issued    map[string]int `json:"issued"`
	Completes int            `json:"completes"`
	Events    []c16Ev        `json:"events"`
}

var c16Finishing = map[string]bool{"ReqEndErr": true, "RespErr": true, "RespEndOK": true, "RespEndErr": true, "Cancel": true, "Build": true}
var c16Kinds = []string{"ReqData", "ReqEndOK", "ReqEndErr", "RespStart", "RespErr", "RespData", "EndStream", "RespEndOK", "RespEndErr", "Cancel", "Build"}

func c16Issued() map[string]int {
	m := map[string]int{}
	for _, k := range c16Kinds {
		m[k] = 0
	}
	return m
}

// TestVerifC16Racy: several goroutines call add/build on one builder concurrently (run with -race).
func TestVerifC16Racy(t *testing.T) {
	out, err := verifutil.NewOut(verifutil.Env("VERIF_OUT", "trace.ndjson"))
	if err != nil {
		t.Fatal(err)
	}
	defer out.Close()
	n := verifutil.EnvInt("VERIF_N", 500)
	verifutil.ParallelFor(n, runtime.NumCPU(), func(i int) {
		r := verifutil.Rand(uint64(5000 + i))
		named := r.IntN(8) != 0
		col := &c16Collector{}
		b, _ := newBuilder(c16NewReq(named, "t/x"), r.IntN(2) == 0, col)
		g := 2 + r.IntN(3)
		plans := make([][]string, g)
		issued := c16Issued()
		fin := false
		for gi := range plans {
			for j := 0; j < 1+r.IntN(5); j++ {
				var k string
				if r.IntN(3) == 0 {
					k = c16Kinds[r.IntN(len(c16Kinds))]
				} else {
					k = []string{"ReqData", "RespData", "ReqEndOK", "RespStart", "EndStream"}[r.IntN(5)]
				}
				plans[gi] = append(plans[gi], k)
				issued[k]++
				if c16Finishing[k] {
					fin = true
				}
			}
		}
		var wg sync.WaitGroup
		start := make(chan struct{})
		for gi := range plans {
			wg.Add(1)
			go func(plan []string) {
				defer wg.Done()
				<-start
				for _, k := range plan {
					if k == "Build" {
						b.build()
					} else {
						b.add(c16MakeEvent(k))
					}
				}
			}(plans[gi])
		}
		close(start)
		wg.Wait()
		trs := col.snapshot()
		rec := c16RacyRec{Kind: "racy", Named: named, Finishing: fin, Issued: issued, Completes: len(trs), Events: []c16Ev{}}
		if len(trs) > 0 {
			rec.Events = c16Project(trs[0]).Events
		}
		out.Put(rec)
	})
}

// TestVerifC16HTTP: real TracingRoundTripper / TracingHandler around a loopback server, random
// bodies, cancellation and early close from other goroutines (run with -race).
func TestVerifC16HTTP(t *testing.T) {
	out, err := verifutil.NewOut(verifutil.Env("VERIF_OUT", "trace.ndjson"))
	if err != nil {
		t.Fatal(err)
	}
	defer out.Close()
	n := verifutil.EnvInt("VERIF_N", 300)
	type perName struct {
		mu     sync.Mutex
		traces map[string][]Trace
		snaps  map[string][]string // the trace as it prints at the moment it is handed over
	}
	newPN := func() *perName { return &perName{traces: map[string][]Trace{}, snaps: map[string][]string{}} }
	collect := func(p *perName) Collector {
		return collectorFunc(func(tr Trace) {
			p.mu.Lock()
			defer p.mu.Unlock()
			p.traces[tr.TestName] = append(p.traces[tr.TestName], tr)
			p.snaps[tr.TestName] = append(p.snaps[tr.TestName], c16Printed(&tr))
		})
	}
	srvSide, cliSide := newPN(), newPN()
	handler := http.HandlerFunc(func(w http.ResponseWriter, req *http.Request) {
		mode := req.Header.Get("X-Mode")
		if mode != "noread" {
			_, _ = io.Copy(io.Discard, req.Body)
		}
		w.Header().Set("Content-Type", "application/connect+proto")
		size := 10
		fmt.Sscanf(req.Header.Get("X-Size"), "%d", &size)
		if mode == "panic" {
			panic(http.ErrAbortHandler)
		}
		if mode == "nowrite" {
			return
		}
		trailers := size%3 != 0
		if trailers {
			w.Header().Set("Trailer", "X-T1")
		}
		w.WriteHeader(200)
		if trailers {
			defer func() {
				w.Header().Set("X-T1", "announced")
				w.Header().Set(http.TrailerPrefix+"X-T2", "unannounced")
			}()
		}
		buf := make([]byte, 0, size+5)
		buf = append(buf, 0, 0, 0, 0, byte(size%200))
		buf = append(buf, make([]byte, size%200)...)
		for sent := 0; sent < size; sent += len(buf) {
			if _, err := w.Write(buf); err != nil {
				return
			}
			if f, ok := w.(http.Flusher); ok && mode == "flush" {
				f.Flush()
			}
		}
	})
	srv := httptest.NewServer(TracingHandler(handler, collect(srvSide)))
	transport := &http.Transport{MaxIdleConnsPerHost: 64}
	client := &http.Client{Transport: TracingRoundTripper(transport, collect(cliSide))}
	var cliDone sync.Map
	verifutil.ParallelFor(n, 32, func(i int) {
		r := verifutil.Rand(uint64(9000 + i))
		name := fmt.Sprintf("op/%d", i)
		ctx, cancel := context.WithCancel(context.Background())
		defer cancel()
		body := make([]byte, 5+r.IntN(3000))
		body[4] = byte(len(body) - 5) // one envelope (possibly with wrong length)
		req, _ := http.NewRequestWithContext(ctx, http.MethodPost, srv.URL+"/x.Svc/M", strings.NewReader(string(body)))
		req.Header.Set("X-Test-Case-Name", name)
		req.Header.Set("Content-Type", "application/connect+proto")
		req.Header.Set("X-Size", fmt.Sprint(r.IntN(6000)))
		req.Header.Set("X-Mode", []string{"", "flush", "noread", "nowrite", "panic", "flush"}[r.IntN(6)])
		how := r.IntN(5)
		if how == 0 {
			go func() {
				for k := 0; k < r.IntN(2000); k++ {
					runtime.Gosched()
				}
				cancel()
			}()
		}
		resp, err := client.Do(req)
		if err != nil {
			cliDone.Store(name, "error")
			return
		}
		switch how {
		case 1:
			_ = resp.Body.Close() // early close
		case 2:
			_, _ = io.CopyN(io.Discard, resp.Body, int64(r.IntN(1000)))
			cancel()
			_, _ = io.Copy(io.Discard, resp.Body)
			_ = resp.Body.Close()
		default:
			_, _ = io.Copy(io.Discard, resp.Body)
			_ = resp.Body.Close()
		}
		cliDone.Store(name, "done")
	})
	srv.Close() // waits for handlers
	transport.CloseIdleConnections()
	emit := func(side string, p *perName) {
		p.mu.Lock()
		defer p.mu.Unlock()
		for i := 0; i < n; i++ {
			name := fmt.Sprintf("op/%d", i)
			trs := p.traces[name]
			rec := map[string]any{"kind": "http", "side": side, "name": name, "completes": len(trs), "events": []c16Ev{}}
			if len(trs) > 0 {
				rec["events"] = c16Project(trs[0]).Events
				// "records no event after completion": what the collector was handed must not change afterwards
				if side == "server" {
					if now := c16Printed(&trs[0]); now != p.snaps[name][0] {
						rec["changed_after_completion"] = map[string]string{"at_completion": p.snaps[name][0], "afterwards": now}
					}
				}
			}
			if side == "server" && len(trs) == 0 {
				// the request may never have reached the server (cancelled before being sent)
				rec["maybe_absent"] = true
			} else {
				rec["maybe_absent"] = false
			}
			out.Put(rec)
		}
	}
	emit("client", cliSide)
	emit("server", srvSide)
}

// the trace as Trace.Print renders it (events, then the response trailers)
func c16Printed(tr *Trace) string {
	var p internal.SimplePrinter
	tr.Print(&p)
	return strings.Join(p.Messages, "")
}

type collectorFunc func(Trace)

func (f collectorFunc) Complete(t Trace) { f(t) }

// TestVerifC16SlotsRacy: the slot operations from real goroutines at the same time (the replay above
// issues them one after the other).  TraceHandoff.tla makes every operation atomic, so whatever the
// overlap, a round must look like SOME order of its operations: a parked waiter gets the trace of one of
// the Complete calls - the first in that order -, the trace it holds never changes afterwards, a later
// Await returns the same trace, no call panics.  Run under the race detector.
func TestVerifC16SlotsRacy(t *testing.T) {
	out, err := verifutil.NewOut(verifutil.Env("VERIF_OUT", "slotsracy.ndjson"))
	if err != nil {
		t.Fatal(err)
	}
	defer out.Close()
	n := verifutil.EnvInt("VERIF_N", 3000)
	tr := &Tracer{}
	bad := 0
	for round := 0; round < n && bad < 5; round++ {
		name := fmt.Sprintf("racy/%d", round)
		other := fmt.Sprintf("racy-other/%d", round)
		tr.Init(name)
		completers := 2 + round%2
		type got struct {
			id    int
			err   string
			trace *Trace
		}
		waiterRes := make(chan got, 1)
		ctx, cancel := context.WithTimeout(context.Background(), 20*time.Second)
		parked := round%3 != 0 // sometimes the waiter arrives together with the completers instead
		startWaiter := func() {
			go func() {
				t, err := tr.Await(ctx, name)
				g := got{id: -1, trace: t}
				if err != nil {
					g.err = err.Error()
				} else if t != nil && t.Err != nil {
					fmt.Sscanf(t.Err.Error(), "id%d", &g.id)
				}
				waiterRes <- g
			}()
		}
		if parked {
			startWaiter()
			time.Sleep(50 * time.Microsecond)
		}
		var wg sync.WaitGroup
		gate := make(chan struct{})
		var panics atomic.Int64
		var firstPanic atomic.Value
		for k := 1; k <= completers; k++ {
			wg.Add(1)
			go func(k int) {
				defer wg.Done()
				defer func() {
					if r := recover(); r != nil {
						panics.Add(1)
						firstPanic.CompareAndSwap(nil, fmt.Sprint(r))
					}
				}()
				<-gate
				tr.Complete(Trace{TestName: name, Err: fmt.Errorf("id%d", k)})
			}(k)
		}
		wg.Add(1)
		go func() { // traffic on another name at the same time
			defer wg.Done()
			<-gate
			tr.Init(other)
			tr.Complete(Trace{TestName: other, Err: errors.New("id9")})
			tr.Clear(other)
		}()
		if !parked {
			startWaiter()
		}
		close(gate)
		wg.Wait()
		g := <-waiterRes
		cancel()
		what := ""
		switch {
		case panics.Load() > 0:
			what = fmt.Sprintf("%d Complete call(s) panicked: %v", panics.Load(), firstPanic.Load())
		case g.err != "":
			what = "the waiter got an error: " + g.err
		case g.id < 1 || g.id > completers:
			what = fmt.Sprintf("the waiter got a trace that no Complete call delivered (id %d)", g.id)
		default:
			// first wins: the delivered trace does not change, and a second Await sees the same one
			time.Sleep(20 * time.Microsecond)
			id2 := -1
			if g.trace != nil && g.trace.Err != nil {
				fmt.Sscanf(g.trace.Err.Error(), "id%d", &id2)
			}
			ctx2, cancel2 := context.WithTimeout(context.Background(), 5*time.Second)
			t2, err2 := tr.Await(ctx2, name)
			cancel2()
			id3 := -1
			if err2 == nil && t2 != nil && t2.Err != nil {
				fmt.Sscanf(t2.Err.Error(), "id%d", &id3)
			}
			if id2 != g.id {
				what = fmt.Sprintf("the trace handed to the waiter changed after delivery: id %d became id %d", g.id, id2)
			} else if id3 != g.id {
				what = fmt.Sprintf("a second Await returned another trace (id %d, err %v) than the first (id %d)", id3, err2, g.id)
			}
		}
		tr.Clear(name)
		if what != "" {
			bad++
			out.Put(map[string]any{"kind": "slots-racy", "round": round, "completers": completers, "parked": parked, "what": what})
		}
	}
	out.Put(map[string]any{"summary": true, "rounds": n})
}
