package connectconformance

// G3 (Sideband.tla), binding 2: the byte stream that the specification's writers produced is fed, in the chunks TLC
// chose, to the stderr of a scripted server process; the real runTestCasesForServer reads it.  Reported: what was
// attributed to which test case (results.serverSideband, the outcomes after processSidebandInfoLocked), what was
// passed on to errPrinter, and how much of it had happened when the function returned.

import (
	"bytes"
	"context"
	"encoding/json"
	"fmt"
	"io"
	"runtime"
	"sync"
	"testing"
	"time"

	"connectrpc.com/conformance/internal"
	conformancev1 "connectrpc.com/conformance/internal/gen/proto/go/connectrpc/conformance/v1"
	"connectrpc.com/conformance/internal/verifutil"
)

type sbrScn struct {
	Names  []string `json:"names"`
	Chunks []string `json:"chunks"`
	Path   string   `json:"path"` // normal | early (the server closes stdout without answering)
	HoldAt int      `json:"hold_at"` // the k-th pass-through (0: none) blocks until the function has returned (or 150 ms)
	NFwd   int      `json:"nfwd"` // number of pass-through lines the specification expects
}

type sbrObs struct {
	I            int               `json:"i"`
	Sideband     map[string]string `json:"sideband"`
	Outcome      map[string]string `json:"outcome"` // error text per test case after the side band has been merged
	Forwarded    [][2]string       `json:"forwarded"`
	FwdAtReturn  int               `json:"fwd_at_return"`
	SideAtReturn map[string]string `json:"side_at_return"`
	HeldReturn   bool              `json:"held_return"` // the function returned while a pass-through was in progress
	Hang         string            `json:"hang,omitempty"`
	Panic        string            `json:"panic,omitempty"`
}

type sbrProc struct {
	mu        sync.Mutex
	done      chan struct{}
	isDone    bool
	callbacks []func(error)
	stderrW   *io.PipeWriter
	fed       chan struct{}
}

func (p *sbrProc) result() error { <-p.done; return nil }
func (p *sbrProc) abort()        { p.end() }
func (p *sbrProc) end() {
	p.mu.Lock()
	if p.isDone {
		p.mu.Unlock()
		return
	}
	p.isDone = true
	cbs := p.callbacks
	p.callbacks = nil
	p.mu.Unlock()
	// a server that is told to stop finishes what it is printing, then its stderr ends
	<-p.fed
	_ = p.stderrW.Close()
	close(p.done)
	for _, cb := range cbs {
		cb(nil)
	}
}
func (p *sbrProc) whenDone(f func(error)) {
	p.mu.Lock()
	if p.isDone {
		p.mu.Unlock()
		go func() { <-p.done; f(nil) }()
		return
	}
	p.callbacks = append(p.callbacks, f)
	p.mu.Unlock()
}

type sbrStdin struct{ buf bytes.Buffer }

func (s *sbrStdin) Write(b []byte) (int, error) { return s.buf.Write(b) }
func (s *sbrStdin) Close() error                { return nil }

type sbrGated struct {
	r    io.Reader
	gate chan struct{}
}

func (g *sbrGated) Read(p []byte) (int, error) {
	<-g.gate
	return g.r.Read(p)
}

// the client answers every request with the expected response, once the server has printed everything
type sbrClient struct {
	fed chan struct{}
	wg  sync.WaitGroup
}

func (c *sbrClient) sendRequest(req *conformancev1.ClientCompatRequest, whenDone func(string, *conformancev1.ClientCompatResponse, error)) error {
	c.wg.Add(1)
	go func() {
		defer c.wg.Done()
		<-c.fed
		whenDone(req.TestName, &conformancev1.ClientCompatResponse{TestName: req.TestName, Result: &conformancev1.ClientCompatResponse_Response{
			Response: &conformancev1.ClientResponseResult{Payloads: []*conformancev1.ConformancePayload{{Data: []byte("data")}}}}}, nil)
	}()
	return nil
}
func (c *sbrClient) closeSend()              {}
func (c *sbrClient) waitForResponses() error { return nil }
func (c *sbrClient) isRunning() bool         { return true }
func (c *sbrClient) stop()                   {}

type sbrPrinter struct {
	mu       sync.Mutex
	lines    [][2]string
	holdAt   int
	calls    int
	returned chan struct{}
	heldRet  bool
}

func (p *sbrPrinter) Printf(string, ...any) {}
func (p *sbrPrinter) PrefixPrintf(prefix, format string, args ...any) {
	p.mu.Lock()
	p.calls++
	hold := p.holdAt != 0 && p.calls == p.holdAt
	p.mu.Unlock()
	if hold {
		// one-sided attestation: if the function returns while this call is in progress, it did not wait for the
		// reader; if it does not within the period, nothing is concluded
		select {
		case <-p.returned:
			p.mu.Lock()
			p.heldRet = true
			p.mu.Unlock()
		case <-time.After(150 * time.Millisecond):
		}
	}
	p.mu.Lock()
	defer p.mu.Unlock()
	p.lines = append(p.lines, [2]string{prefix, fmt.Sprintf(format, args...)})
}

func sbrRun(scn *sbrScn) (obs sbrObs) {
	n := len(scn.Names)
	cases := make([]*conformancev1.TestCase, n)
	for i := range cases {
		cases[i] = &conformancev1.TestCase{
			Request:          &conformancev1.ClientCompatRequest{TestName: scn.Names[i]},
			ExpectedResponse: &conformancev1.ClientResponseResult{Payloads: []*conformancev1.ConformancePayload{{Data: []byte("data")}}},
		}
	}
	var respBuf bytes.Buffer
	_ = internal.WriteDelimitedMessage(&respBuf, &conformancev1.ServerCompatResponse{Host: "10.1.2.3", Port: 4321})
	fed := make(chan struct{})
	var stdout io.Reader = bytes.NewReader(respBuf.Bytes())
	if scn.Path == "early" {
		// the server prints its diagnostics and gives up without answering
		stdout = &sbrGated{r: bytes.NewReader(nil), gate: fed}
	}
	pr, pw := io.Pipe()
	proc := &sbrProc{done: make(chan struct{}), stderrW: pw, fed: fed}
	go func() {
		defer close(fed)
		for _, c := range scn.Chunks {
			if _, err := pw.Write([]byte(c)); err != nil {
				return
			}
		}
	}()
	starter := func(_ context.Context, _ bool) (*process, error) {
		return &process{processController: proc, stdin: &sbrStdin{}, stdout: stdout, stderr: pr}, nil
	}
	client := &sbrClient{fed: fed}
	results := newResults(n, &testTrie{}, &testTrie{}, nil)
	returned := make(chan struct{})
	errPrinter := &sbrPrinter{holdAt: scn.HoldAt, returned: returned}
	meta := serverInstance{protocol: conformancev1.Protocol_PROTOCOL_CONNECT, httpVersion: conformancev1.HTTPVersion_HTTP_VERSION_1}
	var pan string
	go func() {
		defer close(returned)
		defer func() {
			if r := recover(); r != nil {
				pan = fmt.Sprintf("%v", r)
			}
		}()
		runTestCasesForServer(context.Background(), false, true, meta, cases, nil, nil, starter,
			&sbrPrinter{}, errPrinter, results, client, nil, false)
	}()
	select {
	case <-returned:
	case <-time.After(30 * time.Second):
		obs.Hang = "runTestCasesForServer did not return"
		return obs
	}
	obs.Panic = pan
	side := func() map[string]string {
		results.mu.Lock()
		defer results.mu.Unlock()
		m := map[string]string{}
		for k, v := range results.serverSideband {
			m[k] = v
		}
		return m
	}
	obs.SideAtReturn = side()
	errPrinter.mu.Lock()
	obs.FwdAtReturn = len(errPrinter.lines)
	errPrinter.mu.Unlock()
	client.wg.Wait()
	if scn.Path == "early" {
		// nothing tells when the reader has finished on this path: give it time until it has passed on what the
		// specification expects (bounded)
		deadline := time.Now().Add(10 * time.Second)
		for time.Now().Before(deadline) {
			errPrinter.mu.Lock()
			k := len(errPrinter.lines)
			errPrinter.mu.Unlock()
			if k >= scn.NFwd {
				break
			}
			time.Sleep(time.Millisecond)
		}
		time.Sleep(20 * time.Millisecond) // a surplus line would show up now
	}
	obs.Sideband = side()
	errPrinter.mu.Lock()
	obs.Forwarded = append([][2]string{}, errPrinter.lines...)
	obs.HeldReturn = errPrinter.heldRet
	errPrinter.mu.Unlock()
	results.mu.Lock()
	results.processSidebandInfoLocked()
	obs.Outcome = map[string]string{}
	for name, o := range results.outcomes {
		if o.actualFailure != nil {
			obs.Outcome[name] = o.actualFailure.Error()
		} else {
			obs.Outcome[name] = ""
		}
	}
	results.mu.Unlock()
	return obs
}

func TestVerifSidebandReader(t *testing.T) {
	lines, err := verifutil.ReadLines(verifutil.Env("VERIF_SCN", "scn.ndjson"))
	if err != nil {
		t.Fatal(err)
	}
	out, err := verifutil.NewOut(verifutil.Env("VERIF_OUT", "out.ndjson"))
	if err != nil {
		t.Fatal(err)
	}
	defer out.Close()
	res := make([]sbrObs, len(lines))
	verifutil.ParallelFor(len(lines), runtime.NumCPU(), func(i int) {
		var scn sbrScn
		if err := json.Unmarshal(lines[i], &scn); err != nil {
			res[i] = sbrObs{Hang: "harness: " + err.Error()}
			return
		}
		res[i] = sbrRun(&scn)
		res[i].I = i
	})
	for i := range res {
		out.Put(res[i])
	}
}
