package connectconformance

// C19, streams from a client that is not the reference client: the receive limit is per message, whatever the
// framing of the HTTP body.  A plain HTTP/1.1 client posts Connect client-stream bodies with several enveloped
// messages, once with a declared Content-Length (clients that buffer the stream) and once chunked, to the real
// reference server.  The records have the format of the other sharpness RPCs and are judged by the same rule.

import (
	"bytes"
	"context"
	"encoding/binary"
	"encoding/json"
	"fmt"
	"io"
	"net/http"
	"time"

	"connectrpc.com/conformance/internal"
	"connectrpc.com/conformance/internal/app/referenceserver"
	conformancev1 "connectrpc.com/conformance/internal/gen/proto/go/connectrpc/conformance/v1"
	"connectrpc.com/conformance/internal/verifutil"
	"google.golang.org/protobuf/proto"
)

func c19SizedClientStreamMsg(first bool, target int) ([]byte, error) {
	msg := &conformancev1.ClientStreamRequest{}
	if first {
		msg.ResponseDefinition = &conformancev1.UnaryResponseDefinition{
			Response: &conformancev1.UnaryResponseDefinition_ResponseData{ResponseData: []byte("r")}}
	}
	for n := target; n >= 0; n-- {
		msg.RequestData = make([]byte, n)
		if proto.Size(msg) == target {
			return proto.Marshal(msg)
		}
		if proto.Size(msg) < target {
			break
		}
	}
	return nil, fmt.Errorf("no request data length gives a message of %d bytes", target)
}

func c19RawStreams(out *verifutil.Out) (int, error) {
	ctx, cancel := context.WithCancel(context.Background())
	defer cancel()
	inR, inW := io.Pipe()
	outR, outW := io.Pipe()
	done := make(chan error, 1)
	go func() {
		done <- referenceserver.Run(ctx, []string{"reference-server", "-port", "0", "-bind", "127.0.0.1"}, inR, outW, c19Discard{})
	}()
	go func() {
		_ = internal.WriteDelimitedMessage(inW, &conformancev1.ServerCompatRequest{Protocol: conformancev1.Protocol_PROTOCOL_CONNECT,
			HttpVersion: conformancev1.HTTPVersion_HTTP_VERSION_1, MessageReceiveLimit: serverReceiveLimit})
		_ = inW.Close()
	}()
	var resp conformancev1.ServerCompatResponse
	if err := internal.ReadDelimitedMessage(outR, &resp, "server", 20*time.Second, 1<<20); err != nil {
		return 0, fmt.Errorf("reference server did not start: %w", err)
	}
	defer func() {
		cancel()
		select {
		case <-done:
		case <-time.After(10 * time.Second):
		}
	}()
	url := fmt.Sprintf("http://%s:%d/connectrpc.conformance.v1.ConformanceService/ClientStream", resp.Host, resp.Port)
	lim := serverReceiveLimit
	n := 0
	for _, offs := range [][]int{{0, 0}, {-lim + 100, 0}, {0, -lim + 100}, {0, 0, 0}, {-1, 1}, {1}, {0}, {-lim + 100, -lim + 200, 1}} {
		var body bytes.Buffer
		var sizes []int
		for i, off := range offs {
			m, err := c19SizedClientStreamMsg(i == 0, lim+off)
			if err != nil {
				return n, err
			}
			var p [5]byte
			binary.BigEndian.PutUint32(p[1:], uint32(len(m)))
			body.Write(p[:])
			body.Write(m)
			sizes = append(sizes, len(m))
		}
		for _, declared := range []bool{true, false} {
			var rd io.Reader = bytes.NewReader(body.Bytes())
			if !declared {
				rd = struct{ io.Reader }{rd} // unknown length: chunked
			}
			req, err := http.NewRequest(http.MethodPost, url, rd) //nolint:noctx
			if err != nil {
				return n, err
			}
			req.Header.Set("Content-Type", "application/connect+proto")
			outcome, detail := "client_error", ""
			hresp, err := (&http.Client{Timeout: 60 * time.Second}).Do(req)
			if err != nil {
				detail = err.Error()
			} else {
				data, _ := io.ReadAll(hresp.Body)
				hresp.Body.Close()
				outcome, detail = "malformed", fmt.Sprintf("status %d, %d body bytes", hresp.StatusCode, len(data))
				for len(data) >= 5 {
					l := int(binary.BigEndian.Uint32(data[1:5]))
					if len(data) < 5+l {
						break
					}
					if data[0]&2 != 0 {
						var es struct {
							Error *struct {
								Code    string `json:"code"`
								Message string `json:"message"`
							} `json:"error"`
						}
						if json.Unmarshal(data[5:5+l], &es) == nil {
							outcome, detail = "ok", ""
							if es.Error != nil {
								outcome, detail = es.Error.Code, es.Error.Message
							}
						}
					}
					data = data[5+l:]
				}
			}
			name := fmt.Sprintf("raw/cstream/%v/declared=%v", offs, declared)
			out.Put(c19Rpc{Kind: "rpc", Side: "server", Name: name, Lim: lim, Sizes: sizes, Offs: offs, Z: 1, P: 1, V: 1, St: 2,
				Outcome: outcome, Detail: detail})
			n++
		}
	}
	return n, nil
}

type c19Discard struct{}

func (c19Discard) Write(p []byte) (int, error) { return len(p), nil }
func (c19Discard) Close() error                { return nil }
