package connectconformance

// C19 harness, part 2: sharpness of the receive limits, end to end and in process.
// Suites are generated here, go through the real parseTestSuites (expandRequestData) and
// newTestCaseLibrary, and are run by the real runTestCasesForServer between the real reference
// client and the real reference server.
//   server side: requests of limit-1 / limit / limit+1 bytes (expand directives -1, 0, +1)
//   client side: the receive limit of the reference client is set to size-1 / size / size+1 of the
//                largest response of a calibration run of the same RPC
// Every RPC is written as one line for Trace_Padding.

import (
	"context"
	"errors"
	"fmt"
	"io"
	"sort"
	"strconv"
	"strings"
	"sync"
	"testing"

	"connectrpc.com/conformance/internal"
	"connectrpc.com/conformance/internal/app/referenceclient"
	"connectrpc.com/conformance/internal/app/referenceserver"
	conformancev1 "connectrpc.com/conformance/internal/gen/proto/go/connectrpc/conformance/v1"
	"connectrpc.com/conformance/internal/verifutil"
	"google.golang.org/protobuf/encoding/protojson"
	"google.golang.org/protobuf/proto"
	"google.golang.org/protobuf/types/known/anypb"
)

type c19Rpc struct {
	Kind    string `json:"kind"` // "rpc"
	Side    string `json:"side"` // whose limit is probed: "server" | "client"
	Name    string `json:"name"`
	Lim     int    `json:"lim"`
	Sizes   []int  `json:"sizes"`
	Offs    []int  `json:"offs"` // server side: the expand directives of the request messages
	Z       int    `json:"z"`
	P       int    `json:"p"`
	V       int    `json:"v"`
	St      int    `json:"st"`
	TLS     bool   `json:"tls"`
	Outcome string `json:"outcome"`
	Detail  string `json:"detail,omitempty"`
	Group   string `json:"group,omitempty"` // RPCs of one group are repetitions of the same RPC
}

// c19Client forwards to the real client runner and keeps every response.
type c19Client struct {
	inner clientRunner
	mu    sync.Mutex
	resp  map[string]*conformancev1.ClientCompatResponse
	errs  map[string]error
}

func (c *c19Client) sendRequest(req *conformancev1.ClientCompatRequest, whenDone func(string, *conformancev1.ClientCompatResponse, error)) error {
	return c.inner.sendRequest(req, func(name string, resp *conformancev1.ClientCompatResponse, err error) {
		c.mu.Lock()
		c.resp[name] = resp
		c.errs[name] = err
		c.mu.Unlock()
		// The observation is complete. The runner's own comparison of the response with the expected
		// one (results.assert: a go-cmp diff over 200 KB byte fields, ~0.3 s each) is not what C19 is
		// about, so the runner is only told that the request is finished.
		if err == nil {
			err = errC19Observed
		}
		whenDone(name, nil, err)
	})
}
func (c *c19Client) closeSend()              { c.inner.closeSend() }
func (c *c19Client) waitForResponses() error { return c.inner.waitForResponses() }
func (c *c19Client) isRunning() bool         { return c.inner.isRunning() }
func (c *c19Client) stop()                   { c.inner.stop() }

var errC19Observed = errors.New("c19: response recorded by the harness") //nolint:gochecknoglobals

type c19Quiet struct{}

func (c19Quiet) Printf(string, ...any)               {}
func (c19Quiet) PrefixPrintf(string, string, ...any) {}

func c19Ints(name, def string) []int {
	var res []int
	for _, f := range strings.Split(verifutil.Env(name, def), ",") {
		if n, err := strconv.Atoi(strings.TrimSpace(f)); err == nil {
			res = append(res, n)
		}
	}
	return res
}

func c19Any(t *testing.T, m proto.Message) *anypb.Any {
	a, err := anypb.New(m)
	if err != nil {
		t.Fatal(err)
	}
	return a
}

type c19SrvCase struct {
	name string
	st   conformancev1.StreamType
	offs []int32
}

func c19ServerSuite(t *testing.T) (*conformancev1.TestSuite, map[string]c19SrvCase) {
	unary := conformancev1.StreamType_STREAM_TYPE_UNARY
	cstream := conformancev1.StreamType_STREAM_TYPE_CLIENT_STREAM
	sstream := conformancev1.StreamType_STREAM_TYPE_SERVER_STREAM
	half := conformancev1.StreamType_STREAM_TYPE_HALF_DUPLEX_BIDI_STREAM
	full := conformancev1.StreamType_STREAM_TYPE_FULL_DUPLEX_BIDI_STREAM
	cases := []c19SrvCase{
		{"srv/unary/below", unary, []int32{-1}}, {"srv/unary/at", unary, []int32{0}}, {"srv/unary/above", unary, []int32{1}},
		{"srv/sstream/below", sstream, []int32{-1}}, {"srv/sstream/at", sstream, []int32{0}}, {"srv/sstream/above", sstream, []int32{1}},
		{"srv/cstream/at-at", cstream, []int32{0, 0}}, {"srv/cstream/below-above", cstream, []int32{-1, 1}},
		{"srv/cstream/above-below", cstream, []int32{1, -1}}, {"srv/cstream/at-below-at", cstream, []int32{0, -1, 0}},
		{"srv/half/at-at", half, []int32{0, 0}}, {"srv/half/at-above", half, []int32{0, 1}},
		{"srv/full/at-below", full, []int32{0, -1}}, {"srv/full/above-at", full, []int32{1, 0}},
	}
	suite := &conformancev1.TestSuite{
		Name:                        "C19 Server Sharp",
		ReliesOnMessageReceiveLimit: true,
		RelevantCodecs:              []conformancev1.Codec{conformancev1.Codec_CODEC_PROTO},
	}
	byName := map[string]c19SrvCase{}
	unaryDef := &conformancev1.UnaryResponseDefinition{Response: &conformancev1.UnaryResponseDefinition_ResponseData{ResponseData: []byte("test response")}}
	streamDef := &conformancev1.StreamResponseDefinition{ResponseData: [][]byte{[]byte("r1"), []byte("r2")}}
	for _, c := range cases {
		byName[c.name] = c
		tc := &conformancev1.TestCase{Request: &conformancev1.ClientCompatRequest{TestName: c.name, StreamType: c.st}}
		for i, off := range c.offs {
			var m proto.Message
			switch c.st {
			case unary:
				m = &conformancev1.UnaryRequest{ResponseDefinition: unaryDef}
			case sstream:
				m = &conformancev1.ServerStreamRequest{ResponseDefinition: streamDef}
			case cstream:
				if i == 0 {
					m = &conformancev1.ClientStreamRequest{ResponseDefinition: unaryDef}
				} else {
					m = &conformancev1.ClientStreamRequest{RequestData: []byte("more")}
				}
			default:
				if i == 0 {
					m = &conformancev1.BidiStreamRequest{ResponseDefinition: streamDef, FullDuplex: c.st == full}
				} else {
					m = &conformancev1.BidiStreamRequest{RequestData: []byte("more")}
				}
			}
			tc.Request.RequestMessages = append(tc.Request.RequestMessages, c19Any(t, m))
			tc.ExpandRequests = append(tc.ExpandRequests, &conformancev1.TestCase_ExpandedSize{SizeRelativeToLimit: proto.Int32(off)})
		}
		suite.TestCases = append(suite.TestCases, tc)
	}
	return suite, byName
}

// the same sharpness over Connect GET: the message travels in the URL (IdempotentUnary), so it also
// passes through whatever limits the HTTP server puts on request lines and header blocks
func c19ServerGetSuite(t *testing.T, byName map[string]c19SrvCase) *conformancev1.TestSuite {
	unary := conformancev1.StreamType_STREAM_TYPE_UNARY
	suite := &conformancev1.TestSuite{
		Name:                        "C19 Server Sharp GET",
		ReliesOnMessageReceiveLimit: true,
		ReliesOnConnectGet:          true,
		RelevantProtocols:           []conformancev1.Protocol{conformancev1.Protocol_PROTOCOL_CONNECT},
		RelevantCodecs:              []conformancev1.Codec{conformancev1.Codec_CODEC_PROTO},
	}
	unaryDef := &conformancev1.UnaryResponseDefinition{Response: &conformancev1.UnaryResponseDefinition_ResponseData{ResponseData: []byte("test response")}}
	for _, c := range []c19SrvCase{{"srvget/idem/below", unary, []int32{-1}}, {"srvget/idem/at", unary, []int32{0}}, {"srvget/idem/above", unary, []int32{1}}} {
		byName[c.name] = c
		tc := &conformancev1.TestCase{Request: &conformancev1.ClientCompatRequest{
			TestName: c.name, StreamType: c.st, UseGetHttpMethod: true,
			Service: proto.String("connectrpc.conformance.v1.ConformanceService"), Method: proto.String("IdempotentUnary"),
		}}
		tc.Request.RequestMessages = append(tc.Request.RequestMessages, c19Any(t, &conformancev1.IdempotentUnaryRequest{ResponseDefinition: unaryDef}))
		tc.ExpandRequests = append(tc.ExpandRequests, &conformancev1.TestCase_ExpandedSize{SizeRelativeToLimit: proto.Int32(c.offs[0])})
		suite.TestCases = append(suite.TestCases, tc)
	}
	return suite
}

func c19ClientSuite(t *testing.T) *conformancev1.TestSuite {
	zeros := func(n int) []byte { return make([]byte, n) }
	unaryDef := func(n int) *conformancev1.UnaryResponseDefinition {
		return &conformancev1.UnaryResponseDefinition{Response: &conformancev1.UnaryResponseDefinition_ResponseData{ResponseData: zeros(n)}}
	}
	suite := &conformancev1.TestSuite{
		Name:                        "C19 Client Sharp",
		ReliesOnMessageReceiveLimit: true,
		RelevantCodecs:              []conformancev1.Codec{conformancev1.Codec_CODEC_PROTO},
	}
	add := func(name string, st conformancev1.StreamType, msgs ...proto.Message) {
		tc := &conformancev1.TestCase{Request: &conformancev1.ClientCompatRequest{TestName: name, StreamType: st}}
		for _, m := range msgs {
			tc.Request.RequestMessages = append(tc.Request.RequestMessages, c19Any(t, m))
		}
		suite.TestCases = append(suite.TestCases, tc)
	}
	// the trailing L0 is replaced by L- / L= / L+ (same length: the name is echoed in a header)
	add("cli/unary-small/L0", conformancev1.StreamType_STREAM_TYPE_UNARY, &conformancev1.UnaryRequest{ResponseDefinition: unaryDef(300)})
	add("cli/unary-large/L0", conformancev1.StreamType_STREAM_TYPE_UNARY, &conformancev1.UnaryRequest{ResponseDefinition: unaryDef(70000)})
	add("cli/sstream/L0", conformancev1.StreamType_STREAM_TYPE_SERVER_STREAM, &conformancev1.ServerStreamRequest{
		ResponseDefinition: &conformancev1.StreamResponseDefinition{ResponseData: [][]byte{zeros(20000), zeros(300), zeros(60000)}}})
	add("cli/cstream/L0", conformancev1.StreamType_STREAM_TYPE_CLIENT_STREAM,
		&conformancev1.ClientStreamRequest{ResponseDefinition: unaryDef(5000)}, &conformancev1.ClientStreamRequest{RequestData: zeros(100)})
	add("cli/half/L0", conformancev1.StreamType_STREAM_TYPE_HALF_DUPLEX_BIDI_STREAM,
		&conformancev1.BidiStreamRequest{ResponseDefinition: &conformancev1.StreamResponseDefinition{ResponseData: [][]byte{zeros(300), zeros(40000)}}},
		&conformancev1.BidiStreamRequest{RequestData: zeros(10)})
	add("cli/full/L0", conformancev1.StreamType_STREAM_TYPE_FULL_DUPLEX_BIDI_STREAM,
		&conformancev1.BidiStreamRequest{FullDuplex: true, ResponseDefinition: &conformancev1.StreamResponseDefinition{ResponseData: [][]byte{zeros(300), zeros(3000)}}},
		&conformancev1.BidiStreamRequest{RequestData: zeros(10)})
	return suite
}

func c19RpcOutcome(resp *conformancev1.ClientCompatResponse, err error) (string, string) {
	switch {
	case err != nil:
		return "runner_error", err.Error()
	case resp.GetError() != nil:
		return "client_error", resp.GetError().GetMessage()
	case resp.GetResponse() == nil:
		return "no_result", ""
	case resp.GetResponse().GetError() != nil:
		e := resp.GetResponse().GetError()
		return strings.ToLower(strings.TrimPrefix(e.GetCode().String(), "CODE_")), e.GetMessage()
	}
	return "ok", ""
}

func TestVerifC19Sharp(t *testing.T) {
	out, err := verifutil.NewOut(verifutil.Env("VERIF_OUT", ""))
	if err != nil {
		t.Fatal(err)
	}
	defer out.Close()
	zs := c19Ints("VERIF_Z", "1,2")
	sts := c19Ints("VERIF_ST", "1,2,3,4,5")
	narrowZ, narrowPV := map[int]bool{}, map[string]bool{}
	if v := verifutil.Env("VERIF_Z_NARROW", ""); v != "" {
		for _, z := range c19Ints("VERIF_Z_NARROW", "") {
			narrowZ[z] = true
		}
		for _, pv := range strings.Split(verifutil.Env("VERIF_PV_NARROW", "1:2:0"), ",") {
			narrowPV[pv] = true
		}
	}
	// protocol:version:tls
	var cfgCases []configCase
	for _, pv := range strings.Split(verifutil.Env("VERIF_PV", "1:1:0,1:2:0,2:2:0,3:1:0,3:2:0"), ",") {
		f := strings.Split(pv, ":")
		if len(f) != 3 {
			t.Fatalf("bad VERIF_PV entry %q", pv)
		}
		p, _ := strconv.Atoi(f[0])
		v, _ := strconv.Atoi(f[1])
		for _, z := range zs {
			if narrowZ[z] && !narrowPV[pv] {
				continue // (quick tier: the compressions of VERIF_Z_NARROW only on the instances of VERIF_PV_NARROW)
			}
			for _, st := range sts {
				if v == 1 && conformancev1.StreamType(st) == conformancev1.StreamType_STREAM_TYPE_FULL_DUPLEX_BIDI_STREAM {
					continue
				}
				cfgCases = append(cfgCases, configCase{
					Version: conformancev1.HTTPVersion(v), Protocol: conformancev1.Protocol(p), Codec: conformancev1.Codec_CODEC_PROTO,
					Compression: conformancev1.Compression(z), StreamType: conformancev1.StreamType(st), UseTLS: f[2] == "1",
					UseMessageReceiveLimit: true,
				})
				if conformancev1.Protocol(p) == conformancev1.Protocol_PROTOCOL_CONNECT && conformancev1.StreamType(st) == conformancev1.StreamType_STREAM_TYPE_UNARY {
					cfgCases = append(cfgCases, configCase{
						Version: conformancev1.HTTPVersion(v), Protocol: conformancev1.Protocol(p), Codec: conformancev1.Codec_CODEC_PROTO,
						Compression: conformancev1.Compression(z), StreamType: conformancev1.StreamType(st), UseTLS: f[2] == "1",
						UseMessageReceiveLimit: true, UseConnectGET: true,
					})
				}
			}
		}
	}
	srvSuite, srvCases := c19ServerSuite(t)
	files := map[string][]byte{}
	for name, s := range map[string]*conformancev1.TestSuite{"c19_server.yaml": srvSuite, "c19_server_get.yaml": c19ServerGetSuite(t, srvCases), "c19_client.yaml": c19ClientSuite(t)} {
		data, err := protojson.Marshal(s)
		if err != nil {
			t.Fatal(err)
		}
		files[name] = data
	}
	suites, err := parseTestSuites(files)
	if err != nil {
		// the statement requires offsets -1, 0, +1 to be reachable for these requests
		out.Put(map[string]any{"summary": true, "limit": serverReceiveLimit, "setup_error": "parseTestSuites: " + err.Error()})
		return
	}
	lib, err := newTestCaseLibrary(suites, cfgCases, conformancev1.TestSuite_TEST_MODE_UNSPECIFIED)
	if err != nil {
		t.Fatalf("newTestCaseLibrary: %v", err)
	}

	if only := verifutil.Env("VERIF_ONLY", ""); only != "" {
		// replay of single RPCs: keep the named cases (L-/L=/L+ variants need their calibration case)
		keep := map[string]bool{}
		for _, n := range strings.Split(only, "|") {
			keep[n] = true
			if strings.HasSuffix(n, "/L-") || strings.HasSuffix(n, "/L=") || strings.HasSuffix(n, "/L+") || strings.HasSuffix(n, "/L_") || strings.HasSuffix(n, "/L~") {
				keep[n[:len(n)-2]+"L0"] = true
			}
		}
		for name := range lib.testCases {
			if !keep[name] {
				delete(lib.testCases, name)
			}
		}
		lib.groupTestCases()
	}

	ctx, cancel := context.WithCancel(context.Background())
	defer cancel()
	clientProc, err := runClient(ctx, runInProcess([]string{"reference-client", "-p", "64"},
		func(ctx context.Context, args []string, in io.ReadCloser, o, e io.WriteCloser) error {
			return referenceclient.RunInReferenceMode(ctx, args, in, o, e, nil)
		}))
	if err != nil {
		t.Fatalf("cannot start reference client: %v", err)
	}
	defer clientProc.stop()
	client := &c19Client{inner: clientProc, resp: map[string]*conformancev1.ClientCompatResponse{}, errs: map[string]error{}}
	startServer := runInProcess([]string{"reference-server", "-port", "0", "-bind", "127.0.0.1", "-cert", "", "-key", ""},
		func(ctx context.Context, args []string, in io.ReadCloser, o, e io.WriteCloser) error {
			return referenceserver.RunInReferenceMode(ctx, args, in, o, e, nil)
		})
	var serverCreds *conformancev1.TLSCreds
	for inst := range lib.casesByServer {
		if inst.useTLS && serverCreds == nil {
			cert, key, err := internal.NewServerCert()
			if err != nil {
				t.Fatal(err)
			}
			serverCreds = &conformancev1.TLSCreds{Cert: cert, Key: key}
		}
	}
	total := 4 * len(lib.testCases)
	results := newResults(total, &testTrie{}, &testTrie{}, nil)
	runAll := func(byInst map[serverInstance][]*conformancev1.TestCase) {
		var wg sync.WaitGroup
		sema := make(chan struct{}, 4)
		for inst, cases := range byInst {
			if len(cases) == 0 {
				continue
			}
			wg.Add(1)
			go func(inst serverInstance, cases []*conformancev1.TestCase) {
				defer wg.Done()
				sema <- struct{}{}
				defer func() { <-sema }()
				sort.Slice(cases, func(i, j int) bool { return cases[i].Request.TestName < cases[j].Request.TestName })
				runTestCasesForServer(ctx, true, true, inst, cases, serverCreds, nil, startServer,
					c19Quiet{}, c19Quiet{}, results, client, nil, false)
			}(inst, cases)
		}
		wg.Wait()
	}

	// ---- phase 1: server-side cases and calibration of the client-side cases
	runAll(lib.casesByServer)
	get := func(name string) (*conformancev1.ClientCompatResponse, error) {
		client.mu.Lock()
		defer client.mu.Unlock()
		resp, ok := client.resp[name]
		if !ok {
			return nil, fmt.Errorf("no response recorded (setup failure?)")
		}
		return resp, client.errs[name]
	}
	payloadSizes := func(resp *conformancev1.ClientCompatResponse) []int {
		var res []int
		for _, p := range resp.GetResponse().GetPayloads() {
			res = append(res, proto.Size(&conformancev1.UnaryResponse{Payload: p}))
		}
		return res
	}
	meta := func(tc *conformancev1.TestCase, r *c19Rpc) {
		r.Kind = "rpc"
		r.Name = tc.Request.TestName
		r.Z, r.P, r.V, r.St = int(tc.Request.Compression), int(tc.Request.Protocol), int(tc.Request.HttpVersion), int(tc.Request.StreamType)
		r.TLS = len(tc.Request.ServerTlsCert) > 0
	}
	var nServer, nClient, inconclusive, nearLimit int
	phase2 := map[serverInstance][]*conformancev1.TestCase{}
	// RPCs in which the client is expected to reject a response while the server still waits for
	// requests (full duplex): run last and apart, so that a client that never answers cannot
	// disturb the others (the runner gives up on the whole client after its response timeout)
	phase3 := map[serverInstance][]*conformancev1.TestCase{}
	type calib struct {
		sizes []int
		tc    *conformancev1.TestCase
		lim   int
		group string
	}
	calibs := map[string]calib{}
	var names []string
	for name := range lib.testCases {
		names = append(names, name)
	}
	sort.Strings(names)
	for _, name := range names {
		tc := lib.testCases[name]
		simple := lib.testCaseNames[name]
		resp, rerr := get(name)
		if sc, ok := srvCases[simple]; ok {
			rec := c19Rpc{Side: "server", Lim: serverReceiveLimit, Offs: []int{}}
			for _, o := range sc.offs {
				rec.Offs = append(rec.Offs, int(o))
			}
			meta(tc, &rec)
			for i, a := range tc.Request.RequestMessages {
				m, err := a.UnmarshalNew()
				if err != nil {
					t.Fatal(err)
				}
				rec.Sizes = append(rec.Sizes, proto.Size(m))
				if i < len(sc.offs) && rec.Sizes[i] != serverReceiveLimit+int(sc.offs[i]) {
					rec.Detail = fmt.Sprintf("message %d has %d bytes, directive asked for %d; ", i+1, rec.Sizes[i], serverReceiveLimit+int(sc.offs[i]))
				}
			}
			rec.Outcome, _ = c19RpcOutcome(resp, rerr)
			_, d := c19RpcOutcome(resp, rerr)
			rec.Detail += d
			out.Put(rec)
			nServer++
			nearLimit++
			continue
		}
		// calibration run of a client-side case (limit 1 MB)
		o, d := c19RpcOutcome(resp, rerr)
		sizes := payloadSizes(resp)
		if o != "ok" || len(sizes) == 0 {
			inconclusive++
			out.Put(map[string]any{"note": "calibration failed", "name": name, "outcome": o, "detail": d})
			continue
		}
		rec := c19Rpc{Side: "client", Lim: int(tc.Request.MessageReceiveLimit), Sizes: sizes, Offs: []int{}, Outcome: o}
		meta(tc, &rec)
		out.Put(rec)
		nClient++
		biggest := 0
		for _, s := range sizes {
			biggest = max(biggest, s)
		}
		for _, v := range []struct {
			suffix string
			d      int
		}{{"L-", -1}, {"L=", 0}, {"L+", 1}} {
			tc2 := proto.Clone(tc).(*conformancev1.TestCase) //nolint:errcheck,forcetypeassert
			tc2.Request.TestName = strings.TrimSuffix(name, "L0") + v.suffix
			tc2.Request.MessageReceiveLimit = uint32(biggest + v.d)
			inst := serverInstanceForCase(tc2)
			if v.d < 0 && tc2.Request.StreamType == conformancev1.StreamType_STREAM_TYPE_FULL_DUPLEX_BIDI_STREAM {
				// three repetitions at once (names of equal length): a client that never answers costs
				// one response timeout of the runner instead of three
				for _, suffix := range []string{"L-", "L_", "L~"} {
					tc3 := proto.Clone(tc2).(*conformancev1.TestCase) //nolint:errcheck,forcetypeassert
					tc3.Request.TestName = strings.TrimSuffix(name, "L0") + suffix
					phase3[inst] = append(phase3[inst], tc3)
					calibs[tc3.Request.TestName] = calib{sizes: sizes, tc: tc3, lim: biggest + v.d, group: tc2.Request.TestName}
				}
				continue
			} else {
				phase2[inst] = append(phase2[inst], tc2)
			}
			calibs[tc2.Request.TestName] = calib{sizes: sizes, tc: tc2, lim: biggest + v.d}
		}
	}

	// ---- phase 2: the same RPCs with the client's limit at size-1, size, size+1
	runAll(phase2)
	runAll(phase3)
	var names2 []string
	for name := range calibs {
		names2 = append(names2, name)
	}
	sort.Strings(names2)
	for _, name := range names2 {
		c := calibs[name]
		resp, rerr := get(name)
		rec := c19Rpc{Side: "client", Lim: c.lim, Sizes: c.sizes, Offs: []int{}, Group: c.group}
		meta(c.tc, &rec)
		rec.Outcome, rec.Detail = c19RpcOutcome(resp, rerr)
		if rec.Outcome == "ok" {
			// the sizes are those of the calibration run: they must be reproduced
			if got := payloadSizes(resp); fmt.Sprint(got) != fmt.Sprint(c.sizes) {
				inconclusive++
				out.Put(map[string]any{"note": "response sizes not stable", "name": name, "calibrated": c.sizes, "got": got})
				continue
			}
		}
		out.Put(rec)
		nClient++
		nearLimit++
	}
	clientProc.closeSend()
	if err := clientProc.waitForResponses(); err != nil {
		out.Put(map[string]any{"note": "client process", "error": err.Error()})
	}
	if only := verifutil.Env("VERIF_ONLY", ""); only == "" || strings.Contains(only, "raw/cstream") {
		nRaw, err := c19RawStreams(out)
		if err != nil {
			t.Fatalf("raw streams: %v", err)
		}
		nServer += nRaw
	}
	out.Put(map[string]any{"summary": true, "limit": serverReceiveLimit, "server_rpcs": nServer, "client_rpcs": nClient,
		"inconclusive": inconclusive, "near_limit": nearLimit, "instances": len(lib.casesByServer), "config_cases": len(cfgCases)})
}
