package connectconformance

// C19 harness, part 1: expandRequestData.
//   TestVerifC19Replay : TLC-generated single-directive scenarios (Gen_Padding) rendered into real
//                        requests of every message type and run through the real expandRequestData
//                        (and a sample through parseTestSuites)
//   TestVerifC19Case   : TLC-generated whole test cases (Gen_PaddingCase)
//   TestVerifC19Record : seeded random requests beyond the TLC grid, recorded for Trace_Padding

import (
	"bytes"
	"encoding/json"
	"fmt"
	"os"
	"regexp"
	"strconv"
	"strings"
	"sync"
	"sync/atomic"
	"testing"

	conformancev1 "connectrpc.com/conformance/internal/gen/proto/go/connectrpc/conformance/v1"
	"connectrpc.com/conformance/internal/verifutil"
	"google.golang.org/protobuf/encoding/protojson"
	"google.golang.org/protobuf/encoding/protowire"
	"google.golang.org/protobuf/proto"
	"google.golang.org/protobuf/reflect/protoreflect"
	"google.golang.org/protobuf/types/known/anypb"
)

type c19Outcome struct {
	K   string `json:"k"`
	N   int    `json:"n"`
	Why string `json:"why"`
}

type c19Scn struct {
	Has   bool       `json:"has"`
	Base  int        `json:"base"`
	N0    int        `json:"n0"`
	Off   int64      `json:"off"`
	Exp   c19Outcome `json:"exp"`
	Model c19Outcome `json:"model"`
}

// what the real code did with one message
type c19Obs struct {
	K      string `json:"k"` // padded | rejected | crashed
	N      int    `json:"n"` // data length afterwards (-1 unless padded)
	Why    string `json:"why"`
	Size   int    `json:"size"`   // proto.Size afterwards (-1 unless padded)
	Rest   bool   `json:"rest"`   // everything but request_data unchanged (incl. type URL)
	Prefix bool   `json:"prefix"` // informational: old data kept as prefix
	Text   string `json:"text,omitempty"`
}

type c19Kind struct {
	name string
	make func() proto.Message
	has  bool
}

//nolint:gochecknoglobals
var c19Kinds = []c19Kind{
	{"unary", func() proto.Message { return &conformancev1.UnaryRequest{} }, true},
	{"idempotent", func() proto.Message { return &conformancev1.IdempotentUnaryRequest{} }, true},
	{"server_stream", func() proto.Message { return &conformancev1.ServerStreamRequest{} }, true},
	{"client_stream", func() proto.Message { return &conformancev1.ClientStreamRequest{} }, true},
	{"bidi", func() proto.Message { return &conformancev1.BidiStreamRequest{} }, true},
	{"unimplemented", func() proto.Message { return &conformancev1.UnimplementedRequest{} }, false},
}

func c19Filler(n int, seed byte) []byte {
	b := make([]byte, n)
	for i := range b {
		b[i] = 0xA0 | ((seed + byte(i)) & 0x0F) // never zero: distinguishable from padding
	}
	return b
}

// c19Build makes a message of the given kind whose non-padding content is governed by variant
// ("data": response_definition.response_data of k bytes; "unk": an unknown length-delimited field
// of k bytes, plus response headers when rich) and extra (0..2: a few more bytes so that every size
// can be hit).
func c19Build(kind c19Kind, variant string, k, extra int, rich bool) proto.Message {
	msg := kind.make()
	ref := msg.ProtoReflect()
	fields := ref.Descriptor().Fields()
	respDef := fields.ByName("response_definition")
	setDef := func(f func(def protoreflect.Message)) {
		if respDef != nil {
			f(ref.Mutable(respDef).Message())
		}
	}
	if variant == "data" && respDef != nil {
		setDef(func(def protoreflect.Message) {
			dfs := def.Descriptor().Fields()
			data := dfs.ByName("response_data")
			if data.IsList() {
				def.Mutable(data).List().Append(protoreflect.ValueOfBytes(c19Filler(k, 3)))
			} else if k > 0 {
				def.Set(data, protoreflect.ValueOfBytes(c19Filler(k, 3)))
			}
			switch extra {
			case 1:
				def.Set(dfs.ByName("response_delay_ms"), protoreflect.ValueOfUint32(1))
			case 2:
				def.Set(dfs.ByName("response_delay_ms"), protoreflect.ValueOfUint32(300))
			}
		})
		if fd := fields.ByName("full_duplex"); fd != nil {
			ref.Set(fd, protoreflect.ValueOfBool(true))
		}
		return msg
	}
	// unknown-field variant (the only one for types without response_definition)
	unk := protowire.AppendTag(nil, 15, protowire.BytesType)
	unk = protowire.AppendBytes(unk, c19Filler(k, 7))
	switch extra {
	case 1:
		unk = protowire.AppendTag(unk, 14, protowire.VarintType)
		unk = protowire.AppendVarint(unk, 1)
	case 2:
		unk = protowire.AppendTag(unk, 14, protowire.VarintType)
		unk = protowire.AppendVarint(unk, 300)
	}
	ref.SetUnknown(unk)
	if variant == "unk" && rich {
		setDef(func(def protoreflect.Message) {
			hdrs := def.Descriptor().Fields().ByName("response_headers")
			def.Mutable(hdrs).List().Append(protoreflect.ValueOfMessage(
				(&conformancev1.Header{Name: "x-c19", Value: []string{"v1", "v2"}}).ProtoReflect()))
		})
	}
	return msg
}

// c19Fill returns a message of exactly base bytes (without request_data), or nil.
func c19Fill(kind c19Kind, variant string, base int) proto.Message {
	if base == 0 {
		return kind.make()
	}
	for extra := 0; extra <= 2; extra++ {
		s0 := proto.Size(c19Build(kind, variant, 0, extra, base >= 64))
		if base < s0 {
			continue
		}
		lo := base - s0 - 12
		if lo < 0 {
			lo = 0
		}
		for k := lo; k <= base-s0; k++ {
			if m := c19Build(kind, variant, k, extra, base >= 64); proto.Size(m) == base {
				return m
			}
		}
	}
	return nil
}

type c19TmplKey struct {
	kind    int
	variant string
	base    int
}

type c19Templates struct {
	mu sync.Mutex
	m  map[c19TmplKey]proto.Message
}

func (t *c19Templates) get(kind int, variant string, base int) proto.Message {
	key := c19TmplKey{kind, variant, base}
	t.mu.Lock()
	defer t.mu.Unlock()
	if m, ok := t.m[key]; ok {
		return m
	}
	if t.m == nil {
		t.m = map[c19TmplKey]proto.Message{}
	}
	m := c19Fill(c19Kinds[kind], variant, base)
	t.m[key] = m
	return m
}

func c19DataField(m proto.Message) protoreflect.FieldDescriptor {
	return m.ProtoReflect().Descriptor().Fields().ByName("request_data")
}

func c19WithData(tmpl proto.Message, n0 int) proto.Message {
	msg := proto.Clone(tmpl)
	if fd := c19DataField(msg); fd != nil && n0 > 0 {
		msg.ProtoReflect().Set(fd, protoreflect.ValueOfBytes(c19Filler(n0, 11)))
	}
	return msg
}

var c19ReAt = regexp.MustCompile(`(?:directive|message) #(\d+)`)

func c19ClassifyErr(err error) (why string, at int) {
	s := err.Error()
	switch {
	case strings.Contains(s, "results in an invalid request size"):
		why = "invalid"
	case strings.Contains(s, "has no request_data field"), strings.Contains(s, "has invalid request_data field"):
		why = "nofield"
	case strings.Contains(s, "can't pad to exactly"):
		why = "unreachable"
	case strings.Contains(s, "expand directives indicate"):
		why = "count"
	default:
		why = "other"
	}
	if m := c19ReAt.FindStringSubmatch(s); m != nil {
		at, _ = strconv.Atoi(m[1])
	}
	return why, at
}

// c19Call runs the real expandRequestData; a panic is an observation, not a harness failure.
func c19Call(tc *conformancev1.TestCase) (err error, panicText string) {
	defer func() {
		if r := recover(); r != nil {
			panicText = fmt.Sprint(r)
		}
	}()
	return expandRequestData(tc), ""
}

func c19TestCase(msgs []proto.Message, offs []*int32) (*conformancev1.TestCase, error) {
	tc := &conformancev1.TestCase{Request: &conformancev1.ClientCompatRequest{TestName: "c19"}}
	for _, m := range msgs {
		a, err := anypb.New(m)
		if err != nil {
			return nil, err
		}
		tc.Request.RequestMessages = append(tc.Request.RequestMessages, a)
	}
	for _, o := range offs {
		tc.ExpandRequests = append(tc.ExpandRequests, &conformancev1.TestCase_ExpandedSize{SizeRelativeToLimit: o})
	}
	return tc, nil
}

// c19Compare describes message i of tc after the call relative to `before`.
func c19After(before proto.Message, after *anypb.Any) (obs c19Obs) {
	got, err := after.UnmarshalNew()
	if err != nil {
		return c19Obs{K: "padded", N: -1, Size: -1, Text: "result does not unmarshal: " + err.Error()}
	}
	obs.K = "padded"
	obs.Size = proto.Size(got)
	var oldData, newData []byte
	b, g := proto.Clone(before), proto.Clone(got)
	if fd := c19DataField(b); fd != nil {
		oldData = b.ProtoReflect().Get(fd).Bytes()
		b.ProtoReflect().Clear(fd)
	}
	if fd := c19DataField(g); fd != nil {
		newData = g.ProtoReflect().Get(fd).Bytes()
		g.ProtoReflect().Clear(fd)
	}
	obs.N = len(newData)
	obs.Rest = proto.Equal(b, g) && after.TypeUrl == "type.googleapis.com/"+string(before.ProtoReflect().Descriptor().FullName())
	k := min(len(oldData), len(newData))
	obs.Prefix = bytes.Equal(oldData[:k], newData[:k])
	return obs
}

func c19RunOne(msg proto.Message, off int32) c19Obs {
	tc, err := c19TestCase([]proto.Message{msg}, []*int32{&off})
	if err != nil {
		return c19Obs{K: "harness", Text: err.Error()}
	}
	err, pan := c19Call(tc)
	switch {
	case pan != "":
		return c19Obs{K: "crashed", N: -1, Size: -1, Text: pan}
	case err != nil:
		why, _ := c19ClassifyErr(err)
		return c19Obs{K: "rejected", N: -1, Size: -1, Why: why, Text: err.Error()}
	}
	return c19After(msg, tc.Request.RequestMessages[0])
}

func c19Agrees(exp c19Outcome, off int64, obs c19Obs) bool {
	if obs.K != exp.K {
		return false
	}
	if exp.K == "padded" {
		return obs.N == exp.N && int64(obs.Size) == int64(serverReceiveLimit)+off && obs.Rest
	}
	return true
}

type c19Mismatch struct {
	What    string      `json:"what"`
	Kind    string      `json:"kind"`
	Variant string      `json:"variant"`
	Scn     interface{} `json:"scn"`
	Obs     interface{} `json:"obs"`
	Repro   int         `json:"repro"`
}

type c19Summary struct {
	Summary     bool           `json:"summary"`
	Limit       int            `json:"limit"`
	Scenarios   int            `json:"scenarios"`
	Evaluations int64          `json:"evaluations"`
	Skipped     int64          `json:"skipped_renderings"`
	Nontrivial  int64          `json:"nontrivial"`
	Suites      int64          `json:"suites_parsed"`
	Mismatches  int64          `json:"mismatches"`
	PrefixLost  int64          `json:"prefix_not_kept"`
	ByExp       map[string]int `json:"by_expected"`
}

func c19ReadScns[T any](t *testing.T) []T {
	lines, err := verifutil.ReadLines(verifutil.Env("VERIF_SCN", ""))
	if err != nil {
		t.Fatal(err)
	}
	res := make([]T, len(lines))
	for i, ln := range lines {
		if err := json.Unmarshal(ln, &res[i]); err != nil {
			t.Fatalf("scenario %d: %v", i, err)
		}
	}
	return res
}

// suite file with one test case, as parseTestSuites gets it (protoyaml reads JSON as YAML)
var c19SuiteSeq atomic.Int64

func c19SuiteData(tc *conformancev1.TestCase, codecs []conformancev1.Codec) ([]byte, error) {
	suite := &conformancev1.TestSuite{
		Name: "C19",
		// expand_requests is a directive of the test case; whether the suite also says that it relies on the
		// receive limit (which only selects the config cases it applies to) has no bearing on it
		ReliesOnMessageReceiveLimit: c19SuiteSeq.Add(1)%3 != 0,
		RelevantCodecs:              codecs,
		TestCases:                   []*conformancev1.TestCase{tc},
	}
	tc.Request.StreamType = conformancev1.StreamType_STREAM_TYPE_UNARY
	return protojson.Marshal(suite)
}

func c19Parse(data []byte) (suites map[string]*conformancev1.TestSuite, err error, panicText string) {
	defer func() {
		if r := recover(); r != nil {
			panicText = fmt.Sprint(r)
		}
	}()
	suites, err = parseTestSuites(map[string][]byte{"c19.yaml": data})
	return suites, err, ""
}

func TestVerifC19Replay(t *testing.T) {
	scns := c19ReadScns[c19Scn](t)
	out, err := verifutil.NewOut(verifutil.Env("VERIF_OUT", ""))
	if err != nil {
		t.Fatal(err)
	}
	defer out.Close()
	parseEvery := verifutil.EnvInt("VERIF_PARSE_EVERY", 25)
	bigFrom := 1 << 20 // scenarios whose messages exceed this are run on one rendering, few at a time
	var tmpl c19Templates
	var evals, skipped, nontrivial, mism, suites, prefixLost atomic.Int64
	var big []int
	byExp := map[string]int{}
	for i, s := range scns {
		byExp[s.Exp.K+"/"+s.Exp.Why+"|code:"+s.Model.K]++
		if int64(serverReceiveLimit)+s.Off > int64(bigFrom) || s.N0 > bigFrom || s.Base > bigFrom {
			big = append(big, i)
		}
	}
	isBig := map[int]bool{}
	for _, i := range big {
		isBig[i] = true
	}
	variants := []string{"data", "unk"}
	runScn := func(i int, renderings int) {
		s := scns[i]
		if s.Off < -(1<<31) || s.Off > (1<<31)-1 {
			return
		}
		if s.Exp.K == "padded" && s.Exp.N != s.N0 || s.Exp.Why == "unreachable" {
			nontrivial.Add(1)
		}
		type rendering struct {
			ki      int
			variant string
		}
		var all []rendering
		for ki, kind := range c19Kinds {
			if kind.has != s.Has {
				continue
			}
			for _, variant := range variants {
				if variant == "unk" && s.Base == 0 && kind.has {
					continue // same (empty) message as the data variant
				}
				if !kind.has && variant == "data" {
					continue
				}
				all = append(all, rendering{ki, variant})
			}
		}
		done := 0
		for j := range all {
			{
				if done >= renderings {
					return
				}
				rd := all[(i+j)%len(all)]
				ki, variant, kind := rd.ki, rd.variant, c19Kinds[rd.ki]
				tm := tmpl.get(ki, variant, s.Base)
				if tm == nil {
					skipped.Add(1)
					continue
				}
				done++
				msg := c19WithData(tm, s.N0)
				obs := c19RunOne(msg, int32(s.Off))
				evals.Add(1)
				if obs.K == "padded" && !obs.Prefix {
					prefixLost.Add(1) // informational: the statement is silent on the padding's content
				}
				if !c19Agrees(s.Exp, s.Off, obs) {
					repro := 1
					for r := 0; r < 3; r++ {
						if o2 := c19RunOne(c19WithData(tm, s.N0), int32(s.Off)); !c19Agrees(s.Exp, s.Off, o2) && o2.K == obs.K {
							repro++
						}
					}
					mism.Add(1)
					out.Put(c19Mismatch{What: "expand", Kind: kind.name, Variant: variant, Scn: s, Obs: obs, Repro: repro})
				}
				// the same scenario through parseTestSuites: an error iff the statement rejects
				if parseEvery > 0 && (i+ki)%parseEvery == 0 && variant == "data" && !isBig[i] {
					off := int32(s.Off)
					tc, _ := c19TestCase([]proto.Message{c19WithData(tm, s.N0)}, []*int32{&off})
					data, err := c19SuiteData(tc, []conformancev1.Codec{conformancev1.Codec_CODEC_PROTO})
					if err != nil {
						t.Errorf("cannot render suite: %v", err)
						continue
					}
					parsed, perr, pan := c19Parse(data)
					suites.Add(1)
					po := c19Obs{K: "padded", N: -1, Size: -1, Rest: true}
					switch {
					case pan != "":
						po = c19Obs{K: "crashed", N: -1, Size: -1, Text: pan}
					case perr != nil:
						po = c19Obs{K: "rejected", N: -1, Size: -1, Text: perr.Error()}
					default:
						po = c19After(msg, parsed["c19.yaml"].TestCases[0].Request.RequestMessages[0])
					}
					if !c19Agrees(s.Exp, s.Off, po) {
						mism.Add(1)
						out.Put(c19Mismatch{What: "parseTestSuites", Kind: kind.name, Variant: variant, Scn: s, Obs: po, Repro: 3})
					}
				}
			}
		}
	}
	var small []int
	for i := range scns {
		if !isBig[i] {
			small = append(small, i)
		}
	}
	perScn := verifutil.EnvInt("VERIF_RENDERINGS", 100)
	verifutil.ParallelFor(len(small), 16, func(j int) { runScn(small[j], perScn) })
	verifutil.ParallelFor(len(big), 3, func(j int) {
		i := big[j]
		r := 1
		if int64(serverReceiveLimit)+scns[i].Off < 1<<24 {
			r = 3
		}
		runScn(i, r)
	})
	out.Put(c19Summary{Summary: true, Limit: serverReceiveLimit, Scenarios: len(scns), Evaluations: evals.Load(),
		Skipped: skipped.Load(), Nontrivial: nontrivial.Load(), Suites: suites.Load(), Mismatches: mism.Load(),
		PrefixLost: prefixLost.Load(), ByExp: byExp})
}

// ---------------------------------------------------------------- whole test cases

type c19CaseMsg struct {
	Has  bool `json:"has"`
	Base int  `json:"base"`
	N0   int  `json:"n0"`
}

type c19CaseDir struct {
	Set bool  `json:"set"`
	Off int64 `json:"off"`
}

type c19CaseOut struct {
	K   string `json:"k"`
	Why string `json:"why"`
	At  int    `json:"at"`
	Ns  []int  `json:"ns"`
}

type c19CaseScn struct {
	Msgs  []c19CaseMsg `json:"msgs"`
	Dirs  []c19CaseDir `json:"dirs"`
	Exp   c19CaseOut   `json:"exp"`
	Model c19CaseOut   `json:"model"`
}

type c19CaseObs struct {
	K         string `json:"k"`
	Why       string `json:"why"`
	At        int    `json:"at"`
	Ns        []int  `json:"ns"`
	Sizes     []int  `json:"sizes"`
	RestOK    bool   `json:"rest"`
	Untouched bool   `json:"untouched"` // messages without a sized directive are byte-identical
	Text      string `json:"text,omitempty"`
}

func c19RunCase(tmpl *c19Templates, s c19CaseScn, rot int) (c19CaseObs, bool) {
	var msgs []proto.Message
	for i, m := range s.Msgs {
		ki := len(c19Kinds) - 1
		if m.Has {
			ki = (i + rot) % (len(c19Kinds) - 1)
		}
		variant := "data"
		if !m.Has {
			variant = "unk"
		}
		tm := tmpl.get(ki, variant, m.Base)
		if tm == nil {
			tm = tmpl.get(ki, "unk", m.Base)
		}
		if tm == nil {
			return c19CaseObs{}, false
		}
		msgs = append(msgs, c19WithData(tm, m.N0))
	}
	var offs []*int32
	for _, d := range s.Dirs {
		if d.Set {
			o := int32(d.Off)
			offs = append(offs, &o)
		} else {
			offs = append(offs, nil)
		}
	}
	tc, err := c19TestCase(msgs, offs)
	if err != nil {
		return c19CaseObs{K: "harness", Text: err.Error()}, true
	}
	var beforeVals [][]byte
	for _, a := range tc.Request.RequestMessages {
		beforeVals = append(beforeVals, append([]byte(nil), a.Value...))
	}
	err, pan := c19Call(tc)
	switch {
	case pan != "":
		return c19CaseObs{K: "crashed", Text: pan}, true
	case err != nil:
		why, at := c19ClassifyErr(err)
		return c19CaseObs{K: "rejected", Why: why, At: at, Text: err.Error()}, true
	}
	obs := c19CaseObs{K: "padded", RestOK: true, Untouched: true}
	if len(tc.Request.RequestMessages) != len(msgs) {
		obs.RestOK = false
		obs.Text = "number of request messages changed"
		return obs, true
	}
	for i, a := range tc.Request.RequestMessages {
		o := c19After(msgs[i], a)
		obs.Ns = append(obs.Ns, o.N)
		obs.Sizes = append(obs.Sizes, o.Size)
		obs.RestOK = obs.RestOK && o.Rest
		if i >= len(s.Dirs) || !s.Dirs[i].Set {
			obs.Untouched = obs.Untouched && bytes.Equal(a.Value, beforeVals[i])
		}
	}
	return obs, true
}

func c19CaseAgrees(s c19CaseScn, o c19CaseObs) bool {
	if o.K != s.Exp.K {
		return false
	}
	if s.Exp.K == "rejected" {
		// the suite is rejected either way; WHICH directive is named in the error is not part of
		// the statement (ExpandCase reports the first failing one)
		return true
	}
	if len(o.Ns) != len(s.Exp.Ns) || !o.RestOK || !o.Untouched {
		return false
	}
	for i := range o.Ns {
		if o.Ns[i] != s.Exp.Ns[i] {
			return false
		}
		if i < len(s.Dirs) && s.Dirs[i].Set && int64(o.Sizes[i]) != int64(serverReceiveLimit)+s.Dirs[i].Off {
			return false
		}
	}
	return true
}

func TestVerifC19Case(t *testing.T) {
	scns := c19ReadScns[c19CaseScn](t)
	out, err := verifutil.NewOut(verifutil.Env("VERIF_OUT", ""))
	if err != nil {
		t.Fatal(err)
	}
	defer out.Close()
	var tmpl c19Templates
	var evals, skipped, nontrivial, mism atomic.Int64
	verifutil.ParallelFor(len(scns), 16, func(i int) {
		s := scns[i]
		sized := 0
		for _, d := range s.Dirs {
			if d.Set {
				sized++
			}
		}
		if sized > 0 {
			nontrivial.Add(1)
		}
		obs, ok := c19RunCase(&tmpl, s, i)
		if !ok {
			skipped.Add(1)
			return
		}
		evals.Add(1)
		if !c19CaseAgrees(s, obs) {
			repro := 1
			for r := 0; r < 3; r++ {
				if o2, _ := c19RunCase(&tmpl, s, i); !c19CaseAgrees(s, o2) && o2.K == obs.K {
					repro++
				}
			}
			mism.Add(1)
			out.Put(c19Mismatch{What: "case", Kind: "mixed", Scn: s, Obs: obs, Repro: repro})
		}
	})
	out.Put(c19Summary{Summary: true, Limit: serverReceiveLimit, Scenarios: len(scns), Evaluations: evals.Load(),
		Skipped: skipped.Load(), Nontrivial: nontrivial.Load(), Mismatches: mism.Load()})
}

// ---------------------------------------------------------------- recorded random executions

type c19Rec struct {
	Kind string `json:"kind"` // "one"
	T    string `json:"t"`
	Has  bool   `json:"has"`
	Base int    `json:"base"`
	N0   int    `json:"n0"`
	Off  int64  `json:"off"`
	K    string `json:"k"`
	N    int    `json:"n"`
	Size int    `json:"size"`
	Rest bool   `json:"rest"`
	Text string `json:"text,omitempty"`
}

func c19FieldSize(n int) int {
	if n == 0 {
		return 0
	}
	return protowire.SizeTag(2) + protowire.SizeBytes(n)
}

func TestVerifC19Record(t *testing.T) {
	n := verifutil.EnvInt("VERIF_N", 2000)
	out, err := verifutil.NewOut(verifutil.Env("VERIF_OUT", ""))
	if err != nil {
		t.Fatal(err)
	}
	defer out.Close()
	recs := make([]c19Rec, n)
	verifutil.ParallelFor(n, 16, func(i int) {
		rnd := verifutil.Rand(uint64(1900 + i))
		pickLen := func() int {
			switch rnd.IntN(10) {
			case 0, 1, 2:
				return 0
			case 3:
				return 1 + rnd.IntN(200)
			case 4:
				return 120 + rnd.IntN(16)
			case 5:
				return 16376 + rnd.IntN(16)
			case 6:
				return serverReceiveLimit - 20 + rnd.IntN(40)
			default:
				return rnd.IntN(260000)
			}
		}
		ki := rnd.IntN(len(c19Kinds))
		if ki == len(c19Kinds)-1 && rnd.IntN(4) != 0 {
			ki = rnd.IntN(len(c19Kinds) - 1)
		}
		kind := c19Kinds[ki]
		msg := kind.make()
		ref := msg.ProtoReflect()
		if fd := ref.Descriptor().Fields().ByName("response_definition"); fd != nil && rnd.IntN(8) != 0 {
			def := ref.Mutable(fd).Message()
			dfs := def.Descriptor().Fields()
			for h := rnd.IntN(4); h > 0; h-- {
				def.Mutable(dfs.ByName("response_headers")).List().Append(protoreflect.ValueOfMessage((&conformancev1.Header{
					Name: "x-h" + strconv.Itoa(h), Value: []string{strings.Repeat("v", rnd.IntN(40))}}).ProtoReflect()))
			}
			data := dfs.ByName("response_data")
			switch {
			case data.IsList():
				for e := rnd.IntN(4); e > 0; e-- {
					def.Mutable(data).List().Append(protoreflect.ValueOfBytes(c19Filler(pickLen()/(1+rnd.IntN(3)), byte(e))))
				}
			case rnd.IntN(5) == 0:
				def.Set(dfs.ByName("error"), protoreflect.ValueOfMessage((&conformancev1.Error{
					Code: conformancev1.Code_CODE_ABORTED, Message: proto.String(strings.Repeat("m", rnd.IntN(300)))}).ProtoReflect()))
			default:
				if l := pickLen(); l > 0 {
					def.Set(data, protoreflect.ValueOfBytes(c19Filler(l, 5)))
				}
			}
			if rnd.IntN(3) == 0 {
				def.Set(dfs.ByName("response_delay_ms"), protoreflect.ValueOfUint32(uint32(rnd.IntN(70000))))
			}
			if rnd.IntN(4) == 0 {
				def.Mutable(dfs.ByName("response_trailers")).List().Append(protoreflect.ValueOfMessage((&conformancev1.Header{
					Name: "x-t", Value: []string{"a", strings.Repeat("b", rnd.IntN(150))}}).ProtoReflect()))
			}
		}
		if fd := ref.Descriptor().Fields().ByName("full_duplex"); fd != nil && rnd.IntN(2) == 0 {
			ref.Set(fd, protoreflect.ValueOfBool(true))
		}
		if rnd.IntN(6) == 0 {
			unk := protowire.AppendTag(nil, protowire.Number(20+rnd.IntN(3000)), protowire.BytesType)
			ref.SetUnknown(protowire.AppendBytes(unk, c19Filler(rnd.IntN(300), 9)))
		}
		base := proto.Size(msg)
		n0 := 0
		if kind.has {
			n0 = pickLen()
		}
		msg = c19WithData(msg, n0)
		var off int64
		lim := int64(serverReceiveLimit)
		switch rnd.IntN(20) {
		case 0, 1, 2, 3, 4, 5, 6: // a reachable size on purpose
			ns := pickLen()
			if rnd.IntN(12) == 0 {
				ns = 2097152 - 6 + rnd.IntN(12)
			}
			off = int64(base+c19FieldSize(ns)) - lim
		case 7, 8, 9, 10: // a gap on purpose
			gaps := []int{1, 2, 128 + 2, 16384 + 3, 2097152 + 4}
			off = int64(base+gaps[rnd.IntN(len(gaps)-rnd.IntN(2))]) - lim
		case 11, 12: // target below what is already there
			off = int64(base) - lim - int64(rnd.IntN(1+base+3))
		case 13: // invalid directive
			off = -lim - 1 - int64(rnd.IntN(1<<20))
		default:
			off = int64(rnd.IntN(801) - 400)
		}
		if off < -(1<<31) || off > (1<<31)-1 || lim+off > 3<<20 {
			off = int64(rnd.IntN(801) - 400)
		}
		obs := c19RunOne(msg, int32(off))
		recs[i] = c19Rec{Kind: "one", T: kind.name, Has: kind.has, Base: base, N0: n0, Off: off,
			K: obs.K, N: obs.N, Size: obs.Size, Rest: obs.Rest, Text: obs.Text}
	})
	for _, r := range recs {
		out.Put(r)
	}
	fmt.Fprintf(os.Stderr, "c19: recorded %d executions\n", n)
}
