package connectconformance

// Shared helper-peer mode for the verification harnesses: the test binary re-executed as
//   <binary> verif-helper refclient <fault> <logfile>
//   <binary> verif-helper refserver <fault> <logfile>
// wraps the real reference client / server (as an OS process, the way runCommand starts peers)
// and injects process-level faults.  Every request received and every response forwarded is
// appended to <logfile> as one JSON line.

import (
	"bufio"
	"context"
	"crypto/sha256"
	"encoding/json"
	"net"
	"os/signal"
	"syscall"
	"time"
	"fmt"
	"io"
	"os"
	"os/exec"
	"strconv"
	"strings"
	"sync"
	"testing"

	"connectrpc.com/conformance/internal"
	"connectrpc.com/conformance/internal/app/referenceclient"
	"connectrpc.com/conformance/internal/app/referenceserver"
	conformancev1 "connectrpc.com/conformance/internal/gen/proto/go/connectrpc/conformance/v1"
)

func TestMain(m *testing.M) {
	if len(os.Args) > 2 && os.Args[1] == "verif-helper" {
		os.Exit(verifHelperMain(os.Args[2:]))
	}
	os.Exit(m.Run())
}

type verifHelperLog struct {
	mu  sync.Mutex
	fh  *os.File
	seq net.Conn // optional: synchronous event sequencer of the harness
	rd  *bufio.Reader
}

// emit sends an event to the harness's sequencer and waits for the acknowledgement, so that the
// event's position in the global order is fixed before the caller proceeds.
func (l *verifHelperLog) emit(v map[string]any) {
	l.put(v)
	if l.seq == nil {
		return
	}
	b, _ := json.Marshal(v)
	l.mu.Lock()
	defer l.mu.Unlock()
	if _, err := l.seq.Write(append(b, '\n')); err != nil {
		return
	}
	_, _ = l.rd.ReadString('\n')
}

func (l *verifHelperLog) put(v any) {
	if l.fh == nil {
		return
	}
	b, _ := json.Marshal(v)
	l.mu.Lock()
	defer l.mu.Unlock()
	_, _ = l.fh.Write(append(b, '\n'))
}

func verifHelperMain(args []string) int {
	if len(args) < 3 {
		fmt.Fprintln(os.Stderr, "verif-helper: usage: <role> <fault> <logfile>")
		return 64
	}
	role, fault, logPath := args[0], args[1], args[2]
	log := &verifHelperLog{}
	if logPath != "-" {
		fh, err := os.OpenFile(logPath, os.O_CREATE|os.O_WRONLY|os.O_APPEND, 0o644)
		if err != nil {
			fmt.Fprintln(os.Stderr, "verif-helper:", err)
			return 65
		}
		log.fh = fh
	}
	if len(args) > 3 && args[3] != "-" && role != "scriptclient" {
		if conn, err := net.Dial("unix", args[3]); err == nil {
			log.seq, log.rd = conn, bufio.NewReader(conn)
		}
	}
	switch role {
	case "refclient":
		return verifHelperClient(fault, log)
	case "refserver":
		return verifHelperServer(fault, log)
	case "proc":
		log.put(map[string]any{"ev": "pid", "pid": os.Getpid()})
		return verifHelperProc(fault)
	case "scriptclient":
		if len(args) > 3 {
			return verifHelperScriptClient(args[3])
		}
	}
	return 64
}

// faults: none | exitAfterReq:<k>:<code> | exitAfterResp:<k>:<code> | garbageAfterResp:<k> | tamper:<j>
func verifHelperClient(fault string, log *verifHelperLog) int {
	parts := strings.Split(fault, ":")
	kind := parts[0]
	num := func(i int) int {
		if len(parts) > i {
			n, _ := strconv.Atoi(parts[i])
			return n
		}
		return 0
	}
	inR, inW := io.Pipe()
	outR, outW := io.Pipe()
	done := make(chan error, 1)
	go func() {
		done <- referenceclient.Run(context.Background(), []string{"referenceclient"}, inR, outW, os.Stderr)
		_ = outW.Close()
	}()
	exit := func(code int) {
		log.put(map[string]any{"ev": "exit", "code": code})
		os.Exit(code)
	}
	respCount := make(chan int, 1024)
	// stdin pump
	go func() {
		nreq := 0
		for {
			if kind == "exitAfterReq" && nreq == num(1) {
				// answer what we have, then leave without reading more
				got := 0
				for got < nreq {
					got = <-respCount
				}
				exit(num(2))
			}
			var req conformancev1.ClientCompatRequest
			err := internal.ReadDelimitedMessage(os.Stdin, &req, "runner", 1<<62, 64*1024*1024)
			if err != nil {
				_ = inW.Close()
				return
			}
			nreq++
			log.put(map[string]any{"ev": "recv", "name": req.TestName})
			if log.seq != nil {
				var nameHdr []string
				for _, h := range req.RequestHeaders {
					if strings.EqualFold(h.Name, "x-test-case-name") {
						nameHdr = append(nameHdr, h.Value...)
					}
				}
				probe := false
				if c, err := net.DialTimeout("tcp", net.JoinHostPort(req.Host, strconv.Itoa(int(req.Port))), 3*time.Second); err == nil {
					probe = true
					_ = c.Close()
				}
				log.emit(map[string]any{"e": "Send", "name": req.TestName, "addr": int(req.Port),
					"inst": verifInst(int(req.Protocol), int(req.HttpVersion), len(req.ServerTlsCert) > 0, req.ClientTlsCreds != nil),
					"probe": probe, "hdr": len(nameHdr) == 1 && nameHdr[0] == req.TestName,
					"cert": fmt.Sprintf("%x", sha256.Sum256(req.ServerTlsCert))[:12], "host": req.Host,
					"codec": int(req.Codec), "compression": int(req.Compression)})
			}
			if err := internal.WriteDelimitedMessage(inW, &req); err != nil {
				return
			}
		}
	}()
	// stdout pump
	nresp := 0
	for {
		var resp conformancev1.ClientCompatResponse
		err := internal.ReadDelimitedMessage(outR, &resp, "refclient", 1<<62, 64*1024*1024)
		if err != nil {
			break
		}
		nresp++
		tampered := false
		if kind == "tamper" && nresp == num(1) {
			if r := resp.GetResponse(); r != nil {
				r.Payloads = append(r.Payloads, &conformancev1.ConformancePayload{Data: []byte("verif-extra-payload")})
				tampered = true
			}
		}
		if err := internal.WriteDelimitedMessage(os.Stdout, &resp); err != nil {
			break
		}
		log.put(map[string]any{"ev": "resp", "name": resp.TestName, "tampered": tampered})
		respCount <- nresp
		if kind == "garbageAfterResp" && nresp == num(1) {
			log.put(map[string]any{"ev": "garbage"}) // logged first: the runner may kill us right after
			_, _ = os.Stdout.Write([]byte{0, 0, 0, 3, 0xff, 0xff, 0xff})
		}
		if kind == "exitAfterResp" && nresp == num(1) {
			exit(num(2))
		}
	}
	if err := <-done; err != nil {
		log.put(map[string]any{"ev": "exit", "code": 1, "err": err.Error()})
		return 1
	}
	log.put(map[string]any{"ev": "exit", "code": 0})
	return 0
}

// faults: none[:<lingerMs>] | failstart:<code> | garbage[:<lingerMs>]
// With a sequencer the wrapper also reports Started (after it has read the runner's request, so the
// instance is known), Up, Stop (SIGTERM received) and Gone (last thing before the process ends);
// lingerMs makes the process take that long to end after SIGTERM (a server draining connections).
func verifHelperServer(fault string, log *verifHelperLog) int {
	parts := strings.Split(fault, ":")
	arg := func(i, def int) int {
		if len(parts) > i {
			if n, err := strconv.Atoi(parts[i]); err == nil {
				return n
			}
		}
		return def
	}
	pid := os.Getpid()
	if log.seq == nil {
		switch parts[0] {
		case "failstart":
			log.put(map[string]any{"ev": "exit", "code": arg(1, 1)})
			return arg(1, 1)
		case "garbage":
			_, _ = io.Copy(io.Discard, os.Stdin)
			log.put(map[string]any{"ev": "garbage"})
			_, _ = os.Stdout.Write([]byte{0, 0, 0, 3, 0xff, 0xff, 0xff})
			return 0
		}
		log.put(map[string]any{"ev": "start"})
		err := referenceserver.Run(context.Background(), []string{"referenceserver"}, os.Stdin, os.Stdout, os.Stderr)
		if err != nil {
			log.put(map[string]any{"ev": "exit", "code": 1, "err": err.Error()})
			return 1
		}
		log.put(map[string]any{"ev": "exit", "code": 0})
		return 0
	}
	// sequencer mode
	sigs := make(chan os.Signal, 1)
	signal.Notify(sigs, syscall.SIGTERM, syscall.SIGINT)
	var req conformancev1.ServerCompatRequest
	if rerr := internal.ReadDelimitedMessage(os.Stdin, &req, "runner", 1<<62, 64*1024*1024); rerr != nil {
		return 1
	}
	inst := verifInst(int(req.Protocol), int(req.HttpVersion), req.UseTls, len(req.ClientTlsCert) > 0)
	if req.UseTls && req.ServerCreds != nil && pid%2 == 0 {
		// "If it chooses to use a different certificate and key, it must send back the corresponding
		// certificate": every other server process serves with a certificate of its own
		if cert, key, cerr := internal.NewServerCert(); cerr == nil {
			req.ServerCreds = &conformancev1.TLSCreds{Cert: cert, Key: key}
		}
	}
	log.emit(map[string]any{"e": "Started", "inst": inst, "pid": pid})
	gone := func(code int) int {
		log.emit(map[string]any{"e": "Gone", "pid": pid})
		return code
	}
	switch parts[0] {
	case "failstart":
		return gone(arg(1, 1))
	case "garbage":
		_, _ = os.Stdout.Write([]byte{0, 0, 0, 3, 0xff, 0xff, 0xff})
		<-sigs
		log.emit(map[string]any{"e": "Stop", "pid": pid, "addr": 0})
		time.Sleep(time.Duration(arg(1, 0)) * time.Millisecond)
		return gone(0)
	}
	ctx, cancel := context.WithCancel(context.Background())
	defer cancel()
	inR, inW := io.Pipe()
	outR, outW := io.Pipe()
	go func() {
		_ = internal.WriteDelimitedMessage(inW, &req)
		_ = inW.Close()
	}()
	go func() {
		var resp conformancev1.ServerCompatResponse
		if rerr := internal.ReadDelimitedMessage(outR, &resp, "refserver", 1<<62, 64*1024*1024); rerr != nil {
			return
		}
		addr := int(resp.Port)
		if !req.UseTls && pid%3 == 0 && (resp.Host == "" || resp.Host == "127.0.0.1") {
			// "the host where the server is running": a server may name its host instead of giving an address
			resp.Host = "localhost"
		}
		log.emit(map[string]any{"e": "Up", "addr": addr, "pid": pid, "cert": fmt.Sprintf("%x", sha256.Sum256(resp.PemCert))[:12], "inst": inst,
			"host": resp.Host})
		_ = internal.WriteDelimitedMessage(os.Stdout, &resp)
		<-sigs
		log.emit(map[string]any{"e": "Stop", "pid": pid, "addr": addr})
		if parts[0] == "slowstop" && pid%2 == 0 {
			// every other server takes its time to come down (well within the grace period)
			time.Sleep(time.Duration(arg(1, 1500)) * time.Millisecond)
		}
		cancel()
	}()
	err := referenceserver.Run(ctx, []string{"referenceserver", "-bind", "127.0.0.1"}, inR, outW, os.Stderr)
	time.Sleep(time.Duration(arg(1, 0)) * time.Millisecond)
	if err != nil {
		log.put(map[string]any{"ev": "exit", "code": 1, "err": err.Error()})
		return gone(1)
	}
	return gone(0)
}

func verifInst(protocol, version int, tls, cert bool) string {
	return fmt.Sprintf("p%d/v%d/tls=%v/cert=%v", protocol, version, tls, cert)
}

// verifHelperProc: a peer that only matters for how it ends.
//   polite   exits promptly on SIGTERM        stubborn  ignores SIGTERM
//   holder   exits on SIGTERM but leaves a grandchild holding its stdout open
//   selfexit ends by itself after 50 ms
func verifHelperProc(kind string) int {
	sigs := make(chan os.Signal, 1)
	switch kind {
	case "polite":
		signal.Notify(sigs, syscall.SIGTERM)
		<-sigs
		return 0
	case "stubborn":
		signal.Ignore(syscall.SIGTERM)
		time.Sleep(60 * time.Second)
		return 0
	case "holder":
		signal.Notify(sigs, syscall.SIGTERM)
		child := exec.Command("sleep", "60")
		child.Stdout = os.Stdout
		if err := child.Start(); err != nil {
			return 3
		}
		<-sigs
		return 0
	case "selfexit":
		time.Sleep(50 * time.Millisecond)
		return 0
	}
	return 64
}

// verifHelperScriptClient: a client process whose every operation on its real stdin / stdout is
// commanded over a control socket: {"op":"R"} read the next chunk (4-byte prefix, then the body),
// {"op":"W","kind":...,"name":...} write an answer / garbage / oversize prefix / truncated message,
// {"op":"X","code":n} exit.  SIGTERM is reported as {"sig":"term"}; the process then waits to be
// told to exit, so that its exit can be logged before it happens.
func verifHelperScriptClient(sock string) int {
	conn, err := net.Dial("unix", sock)
	if err != nil {
		return 66
	}
	enc := json.NewEncoder(conn)
	var encMu sync.Mutex
	send := func(v any) {
		encMu.Lock()
		defer encMu.Unlock()
		_ = enc.Encode(v)
	}
	sigs := make(chan os.Signal, 1)
	signal.Notify(sigs, syscall.SIGTERM, syscall.SIGINT)
	go func() {
		<-sigs
		send(map[string]string{"sig": "term"})
	}()
	type ctl struct {
		Op   string `json:"op"`
		Kind string `json:"kind"`
		Name string `json:"name"`
		Code int    `json:"code"`
	}
	cmds := make(chan ctl)
	go func() {
		dec := json.NewDecoder(conn)
		for {
			var c ctl
			if dec.Decode(&c) != nil {
				os.Exit(70) // harness went away
			}
			if c.Op == "X" {
				os.Exit(c.Code)
			}
			cmds <- c
		}
	}()
	readPh, bodyLen := 1, 0
	for c := range cmds {
		switch c.Op {
		case "R":
			var err error
			if readPh == 1 {
				var p [4]byte
				if _, err = io.ReadFull(os.Stdin, p[:]); err == nil {
					bodyLen = int(p[0])<<24 | int(p[1])<<16 | int(p[2])<<8 | int(p[3])
					readPh = 2
				}
			} else {
				if _, err = io.ReadFull(os.Stdin, make([]byte, bodyLen)); err == nil {
					readPh = 1
				}
			}
			if err != nil {
				send(map[string]string{"ret": "eof"})
			} else {
				send(map[string]string{"ret": "ok"})
			}
		case "W":
			switch c.Kind {
			case "resp":
				_ = internal.WriteDelimitedMessage(os.Stdout, &conformancev1.ClientCompatResponse{
					TestName: c.Name,
					Result:   &conformancev1.ClientCompatResponse_Response{Response: &conformancev1.ClientResponseResult{}},
				})
			case "garbage":
				_, _ = os.Stdout.Write([]byte{0, 0, 0, 3, 0xff, 0xff, 0xff})
			case "oversize":
				_, _ = os.Stdout.Write([]byte{0x01, 0x00, 0x00, 0x01}) // 16 MiB + 1
			case "trunc":
				_, _ = os.Stdout.Write([]byte{0, 0, 0, 10, 0x0a, 0x01, 'x'})
			}
			send(map[string]string{"ret": "ok"})
		}
	}
	return 0
}
